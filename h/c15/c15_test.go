// C15: tag WHERE clauses select exactly the matching series.
//
// Bounded-exhaustive: every expression of the declared family × every subset of the 9 series over tags
// a,b ∈ {x,y,absent} of measurement "m" (plus a fixed noise measurement "n") stored in a REAL tsi1 index
// (+ real series file), queried through tsdb.IndexSet.MeasurementSeriesByExprIterator. The oracle evaluates
// the harness' own expression tree on each series' tag map with "absent tag = empty string".
// Plus a SEQUENCE family: every ordered triple of queries over a small expression set (and every small
// expression with repeated terms) on a freshly built index per case — answers must not depend on what earlier
// queries left in the index's tag-value series-id cache.
package c15

import (
	"encoding/json"
	"fmt"
	"os"
	"path/filepath"
	"regexp"
	"runtime"
	"sort"
	"strings"
	"testing"
	"time"

	"github.com/influxdata/influxdb/v2/models"
	"github.com/influxdata/influxdb/v2/tsdb"
	"github.com/influxdata/influxdb/v2/tsdb/index/tsi1"
	"github.com/influxdata/influxql"
	"verif/h/vlib"
)

// ---------------------------------------------------------------------------------------------------------
// expression family (harness-owned tree; rendered to InfluxQL text and parsed by the influxql parser)

// Leaf is `key op literal`. Regex=true: literal is a regular expression and op is =~ / !~.
type Leaf struct {
	Key   string `json:"key"`
	Op    string `json:"op"` // = != =~ !~
	Lit   string `json:"lit"`
	Regex bool   `json:"regex,omitempty"`
	Swap  bool   `json:"swap,omitempty"`  // literal on the left-hand side (strings only)
	Paren bool   `json:"paren,omitempty"` // leaf wrapped in parentheses
}

// Node is a leaf or a binary AND/OR node.
type Node struct {
	Leaf  *Leaf  `json:"leaf,omitempty"`
	Op    string `json:"bop,omitempty"` // AND | OR
	L     *Node  `json:"l,omitempty"`
	R     *Node  `json:"r,omitempty"`
	Paren bool   `json:"paren,omitempty"` // this binary node is written inside parentheses
}

func (l *Leaf) text() string {
	var s string
	switch {
	case l.Regex:
		s = fmt.Sprintf("%s %s /%s/", l.Key, l.Op, l.Lit)
	case l.Swap:
		s = fmt.Sprintf("'%s' %s %s", l.Lit, l.Op, l.Key)
	default:
		s = fmt.Sprintf("%s %s '%s'", l.Key, l.Op, l.Lit)
	}
	if l.Paren {
		s = "(" + s + ")"
	}
	return s
}

// text renders exactly what is stored in the tree: parentheses only where Paren is set. The tree shape is
// built by the enumerator to agree with InfluxQL precedence (AND binds tighter than OR, left associative)
// whenever parentheses are omitted.
func (n *Node) text() string {
	if n.Leaf != nil {
		return n.Leaf.text()
	}
	s := n.L.text() + " " + n.Op + " " + n.R.text()
	if n.Paren {
		s = "(" + s + ")"
	}
	return s
}

var reCache = map[string]*regexp.Regexp{}

func re(s string) *regexp.Regexp {
	if r, ok := reCache[s]; ok {
		return r
	}
	r := regexp.MustCompile(s)
	reCache[s] = r
	return r
}

// ref is the oracle: InfluxQL semantics of the statement, absent tag = "".
func (n *Node) ref(tags map[string]string) bool {
	if n.Leaf != nil {
		v := tags[n.Leaf.Key] // absent => ""
		switch n.Leaf.Op {
		case "=":
			return v == n.Leaf.Lit
		case "!=":
			return v != n.Leaf.Lit
		case "=~":
			return re(n.Leaf.Lit).MatchString(v)
		case "!~":
			return !re(n.Leaf.Lit).MatchString(v)
		}
		panic("bad leaf op")
	}
	if n.Op == "AND" {
		return n.L.ref(tags) && n.R.ref(tags)
	}
	return n.L.ref(tags) || n.R.ref(tags)
}

func (l *Leaf) kind() string {
	k := "tag"
	if l.Key == "missing" {
		k = "nokey"
	}
	switch {
	case l.Regex:
		e := "re-noempty"
		if re(l.Lit).MatchString("") {
			e = "re-empty"
		}
		return k + l.Op + e
	case l.Lit == "":
		return k + l.Op + "''"
	default:
		return k + l.Op + "lit"
	}
}

func (n *Node) shape() string {
	if n.Leaf != nil {
		return "leaf"
	}
	s := n.L.shape() + " " + n.Op + " " + n.R.shape()
	if n.Paren {
		s = "(" + s + ")"
	}
	return s
}

var keys = []string{"a", "b", "missing"}
var strLits = []string{"x", "y", ""}
var regexes = []string{"x", "^$", ".*", "x|y", "^x"}

// allLeaves: every leaf of the family (66) — key first and literal first.
func allLeaves() []*Leaf {
	var out []*Leaf
	for _, k := range keys {
		for _, op := range []string{"=", "!="} {
			for _, lit := range strLits {
				out = append(out, &Leaf{Key: k, Op: op, Lit: lit})
				out = append(out, &Leaf{Key: k, Op: op, Lit: lit, Swap: true})
			}
		}
		for _, op := range []string{"=~", "!~"} {
			for _, r := range regexes {
				out = append(out, &Leaf{Key: k, Op: op, Lit: r, Regex: true})
			}
		}
	}
	return out
}

// canonLeaves: key-first leaves only (48).
func canonLeaves() []*Leaf {
	var out []*Leaf
	for _, l := range allLeaves() {
		if !l.Swap {
			out = append(out, l)
		}
	}
	return out
}

// coreLeaves: representatives of every code path of seriesByBinaryExpr{String,Regex}Iterator — 24 leaves:
// for each key (a with literal x, b with literal y, missing with literal x):
// =lit, !=lit, ='', !='', =~/^lit/ (regex not matching ""), !~/^lit/, =~/^$/ (regex matching ""), !~/^$/.
func coreLeaves() []*Leaf {
	var out []*Leaf
	for _, k := range keys {
		lit := "x"
		if k == "b" {
			lit = "y"
		}
		out = append(out,
			&Leaf{Key: k, Op: "=", Lit: lit}, &Leaf{Key: k, Op: "!=", Lit: lit},
			&Leaf{Key: k, Op: "=", Lit: ""}, &Leaf{Key: k, Op: "!=", Lit: ""},
			&Leaf{Key: k, Op: "=~", Lit: "^" + lit, Regex: true}, &Leaf{Key: k, Op: "!~", Lit: "^" + lit, Regex: true},
			&Leaf{Key: k, Op: "=~", Lit: "^$", Regex: true}, &Leaf{Key: k, Op: "!~", Lit: "^$", Regex: true},
		)
	}
	return out
}

// deepLeaves: the 16 operands of the depth-2 family: all 8 code paths for key a, and 4 each for b and missing.
func deepLeaves() []*Leaf {
	return []*Leaf{
		{Key: "a", Op: "=", Lit: "x"}, {Key: "a", Op: "!=", Lit: "x"}, {Key: "a", Op: "=", Lit: ""}, {Key: "a", Op: "!=", Lit: ""},
		{Key: "a", Op: "=~", Lit: "^x", Regex: true}, {Key: "a", Op: "!~", Lit: "^x", Regex: true},
		{Key: "a", Op: "=~", Lit: "^$", Regex: true}, {Key: "a", Op: "!~", Lit: "^$", Regex: true},
		{Key: "b", Op: "=", Lit: "y"}, {Key: "b", Op: "!=", Lit: ""}, {Key: "b", Op: "=~", Lit: "x|y", Regex: true}, {Key: "b", Op: "!~", Lit: ".*", Regex: true},
		{Key: "missing", Op: "=", Lit: ""}, {Key: "missing", Op: "!=", Lit: "x"}, {Key: "missing", Op: "=~", Lit: "^x", Regex: true}, {Key: "missing", Op: "!~", Lit: "^$", Regex: true},
	}
}

func lf(l *Leaf) *Node { return &Node{Leaf: l} }

// forEachExpr enumerates the family for the tier, simplest first. The order is fixed (used for sharding-free
// iteration inside one unit).
func forEachExpr(thorough bool, fn func(n *Node)) {
	// depth 0: all 66 leaves, bare and parenthesised.
	for _, l := range allLeaves() {
		fn(lf(l))
		p := *l
		p.Paren = true
		fn(lf(&p))
	}
	// depth 1: L op R over the 48 key-first leaves (both operand orders arise since L,R range independently).
	cl := canonLeaves()
	// quick tier: unordered pairs {L,R} (incl. L=R), written L op R with L not after R in leaf order; ordered pairs
	// are covered over the core leaves below. thorough tier: all ordered pairs.
	for _, op := range []string{"AND", "OR"} {
		for i, l := range cl {
			for j, r := range cl {
				if !thorough && j < i {
					continue
				}
				fn(&Node{Op: op, L: lf(l), R: lf(r)})
			}
		}
	}
	// depth 1 with literal-first operands and parenthesised operands (swap on either side) over core leaves.
	core := coreLeaves()
	for _, op := range []string{"AND", "OR"} {
		for _, l := range core {
			for _, r := range core {
				if !l.Regex {
					s := *l
					s.Swap = true
					fn(&Node{Op: op, L: lf(&s), R: lf(r)})
				}
				pl, pr := *l, *r
				pl.Paren, pr.Paren = true, true
				fn(&Node{Op: op, L: lf(&pl), R: lf(&pr)})
			}
		}
	}
	if !thorough {
		return
	}
	// depth 2 over the 16 deep leaves: A op1 B op2 C written (1) without parentheses — tree by precedence,
	// (2) (A op1 B) op2 C, (3) A op1 (B op2 C).
	ops := []string{"AND", "OR"}
	deep := deepLeaves()
	for _, op1 := range ops {
		for _, op2 := range ops {
			for _, a := range deep {
				for _, b := range deep {
					for _, c := range deep {
						A, B, C := lf(a), lf(b), lf(c)
						// (1) no parentheses
						if op1 == "OR" && op2 == "AND" {
							fn(&Node{Op: "OR", L: A, R: &Node{Op: "AND", L: B, R: C}})
						} else {
							fn(&Node{Op: op2, L: &Node{Op: op1, L: A, R: B}, R: C})
						}
						// (2) explicit left grouping
						fn(&Node{Op: op2, L: &Node{Op: op1, L: A, R: B, Paren: true}, R: C})
						// (3) explicit right grouping
						fn(&Node{Op: op1, L: A, R: &Node{Op: op2, L: B, R: C, Paren: true}})
					}
				}
			}
		}
	}
}

// ---------------------------------------------------------------------------------------------------------
// series universe

type seriesDef struct {
	Name string
	Tags map[string]string
}

func (s seriesDef) String() string {
	var p []string
	for _, k := range []string{"a", "b"} {
		if v, ok := s.Tags[k]; ok {
			p = append(p, k+"="+v)
		}
	}
	return s.Name + "{" + strings.Join(p, ",") + "}"
}

func (s seriesDef) mtags() models.Tags { return models.NewTags(s.Tags) }

// universe(name): the 9 series over a,b ∈ {x,y,absent}; bit i of a set mask selects series i.
func universe(name string) []seriesDef {
	var out []seriesDef
	for _, a := range []string{"x", "y", ""} {
		for _, b := range []string{"x", "y", ""} {
			t := map[string]string{}
			if a != "" {
				t["a"] = a
			}
			if b != "" {
				t["b"] = b
			}
			out = append(out, seriesDef{Name: name, Tags: t})
		}
	}
	return out
}

// ---------------------------------------------------------------------------------------------------------
// fixture: one real series file (shared, as between the shards of a database) + one real tsi1 index per case

type world struct {
	dir   string
	sfile *tsdb.SeriesFile
	m, n  []seriesDef
	idOf  map[uint64]int // series id -> index into m (or 100+i for noise)
	nIdx  int
}

func newWorld() (*world, error) {
	w := &world{dir: vlib.Scratch("c15-"), m: universe("m"), n: universe("n"), idOf: map[uint64]int{}}
	w.sfile = tsdb.NewSeriesFile(filepath.Join(w.dir, "_series"))
	if err := w.sfile.Open(); err != nil {
		os.RemoveAll(w.dir)
		return nil, err
	}
	var names [][]byte
	var tags []models.Tags
	for _, s := range append(append([]seriesDef{}, w.m...), w.n...) {
		names = append(names, []byte(s.Name))
		tags = append(tags, s.mtags())
	}
	ids, err := w.sfile.CreateSeriesListIfNotExists(names, tags)
	if err != nil {
		w.close()
		return nil, err
	}
	for i, id := range ids {
		if i < len(w.m) {
			w.idOf[id] = i
		} else {
			w.idOf[id] = 100 + i - len(w.m)
		}
	}
	return w, nil
}

func (w *world) close() {
	w.sfile.Close()
	os.RemoveAll(w.dir)
}

// storage variants of the index
const (
	varLog   = "log"   // single-partition index, all series in the active TSI log file (L0)
	varLog8  = "log8"  // default 8 partitions, all series in the active TSI log files (L0)
	varTSI   = "tsi"   // single-partition index, series inserted in two batches with a 1-byte log limit: compacted into .tsi index files
	varSplit = "split" // IndexSet of two indexes (two shards of the database) each holding every other series
)

type opened struct {
	is      tsdb.IndexSet
	closers []func()
}

func (o *opened) close() {
	for i := len(o.closers) - 1; i >= 0; i-- {
		o.closers[i]()
	}
}

// noiseMask: which series of measurement n are stored next to m's (fixed, so that n has tag values m lacks
// and vice versa for most sets).
const noiseMask = 0b101010101

func (w *world) open(mask int, variant string) (*opened, error) {
	w.nIdx++
	o := &opened{}
	var all []seriesDef
	for i, s := range w.m {
		if mask&(1<<i) != 0 {
			all = append(all, s)
		}
	}
	for i, s := range w.n {
		if noiseMask&(1<<i) != 0 {
			all = append(all, s)
		}
	}
	mk := func(sub string, opts ...tsi1.IndexOption) (*tsi1.Index, error) {
		p := filepath.Join(w.dir, fmt.Sprintf("idx%d%s", w.nIdx, sub))
		opts = append([]tsi1.IndexOption{tsi1.WithPath(p), tsi1.DisableFsync()}, opts...)
		idx := tsi1.NewIndex(w.sfile, "db0", opts...)
		if err := idx.Open(); err != nil {
			os.RemoveAll(p)
			return nil, err
		}
		fs, err := tsdb.NewMeasurementFieldSet(filepath.Join(p, "fields.idx"), nil)
		if err != nil {
			idx.Close()
			os.RemoveAll(p)
			return nil, err
		}
		fs.CreateFieldsIfNotExists([]byte("m")).CreateFieldIfNotExists("v", influxql.Float)
		fs.CreateFieldsIfNotExists([]byte("n")).CreateFieldIfNotExists("v", influxql.Float)
		idx.SetFieldSet(fs)
		o.closers = append(o.closers, func() { idx.Close(); fs.Close(); os.RemoveAll(p) })
		o.is.Indexes = append(o.is.Indexes, idx)
		return idx, nil
	}
	add := func(idx *tsi1.Index, ss []seriesDef) error {
		if len(ss) == 0 {
			return nil
		}
		var ks, names [][]byte
		var tags []models.Tags
		for _, s := range ss {
			t := s.mtags()
			names = append(names, []byte(s.Name))
			tags = append(tags, t)
			ks = append(ks, models.MakeKey([]byte(s.Name), t))
		}
		return idx.CreateSeriesListIfNotExists(ks, names, tags)
	}
	o.is.SeriesFile = w.sfile
	one := func(i *tsi1.Index) { i.PartitionN = 1 }
	var err error
	switch variant {
	case varLog:
		var idx *tsi1.Index
		if idx, err = mk("", one); err == nil {
			err = add(idx, all)
		}
	case varLog8:
		var idx *tsi1.Index
		if idx, err = mk(""); err == nil {
			err = add(idx, all)
		}
	case varTSI:
		var idx *tsi1.Index
		if idx, err = mk("", tsi1.WithMaximumLogFileSize(1), one); err == nil {
			h := (len(all) + 1) / 2
			if err = add(idx, all[:h]); err == nil {
				idx.Compact()
				idx.Wait()
				if err = add(idx, all[h:]); err == nil {
					idx.Compact()
					idx.Wait()
				}
			}
		}
	case varSplit:
		var i0, i1 *tsi1.Index
		if i0, err = mk("a"); err == nil {
			if i1, err = mk("b"); err == nil {
				var p0, p1 []seriesDef
				for i, s := range all {
					if i%2 == 0 {
						p0 = append(p0, s)
					} else {
						p1 = append(p1, s)
					}
				}
				if err = add(i0, p0); err == nil {
					err = add(i1, p1)
				}
			}
		}
	default:
		err = fmt.Errorf("unknown variant %q", variant)
	}
	if err != nil {
		o.close()
		return nil, err
	}
	return o, nil
}

// ---------------------------------------------------------------------------------------------------------
// residual expression evaluation (reference semantics on influxql AST; absent tag = "")

// evalResidual returns (value, understood).
func evalResidual(e influxql.Expr, tags map[string]string) (bool, bool) {
	switch e := e.(type) {
	case nil:
		return true, true
	case *influxql.BooleanLiteral:
		return e.Val, true
	case *influxql.ParenExpr:
		return evalResidual(e.Expr, tags)
	case *influxql.BinaryExpr:
		switch e.Op {
		case influxql.AND, influxql.OR:
			l, ok1 := evalResidual(e.LHS, tags)
			r, ok2 := evalResidual(e.RHS, tags)
			if !ok1 || !ok2 {
				return false, false
			}
			if e.Op == influxql.AND {
				return l && r, true
			}
			return l || r, true
		case influxql.EQ, influxql.NEQ, influxql.EQREGEX, influxql.NEQREGEX:
			ref, ok := e.LHS.(*influxql.VarRef)
			val := e.RHS
			if !ok {
				if ref, ok = e.RHS.(*influxql.VarRef); !ok {
					return false, false
				}
				val = e.LHS
			}
			if ref.Val != "a" && ref.Val != "b" && ref.Val != "missing" {
				return false, false
			}
			v := tags[ref.Val]
			switch lit := val.(type) {
			case *influxql.StringLiteral:
				if e.Op == influxql.EQ {
					return v == lit.Val, true
				} else if e.Op == influxql.NEQ {
					return v != lit.Val, true
				}
			case *influxql.RegexLiteral:
				if e.Op == influxql.EQREGEX {
					return lit.Val.MatchString(v), true
				} else if e.Op == influxql.NEQREGEX {
					return !lit.Val.MatchString(v), true
				}
			}
		}
	}
	return false, false
}

// ---------------------------------------------------------------------------------------------------------
// one query

type queryResult struct {
	selected  []int // indexes into world.m, sorted, de-duplicated
	foreign   []string
	dups      int
	residuals int
	unknown   int // residual expressions the harness does not understand (treated as "selected or not: don't care")
	dontcare  map[int]bool
	err       string
}

func (w *world) query(o *opened, expr influxql.Expr) queryResult {
	var r queryResult
	itr, err := o.is.MeasurementSeriesByExprIterator([]byte("m"), expr)
	if err != nil {
		r.err = "MeasurementSeriesByExprIterator: " + err.Error()
		return r
	}
	if itr == nil {
		return r
	}
	defer itr.Close()
	seen := map[int]bool{}
	for {
		e, err := itr.Next()
		if err != nil {
			r.err = "Next: " + err.Error()
			return r
		}
		if e.SeriesID == 0 {
			break
		}
		i, ok := w.idOf[e.SeriesID]
		if !ok || i >= 100 {
			if ok {
				r.foreign = append(r.foreign, w.n[i-100].String())
			} else {
				r.foreign = append(r.foreign, fmt.Sprintf("unknown-id-%d", e.SeriesID))
			}
			continue
		}
		if e.Expr != nil {
			r.residuals++
			v, understood := evalResidual(e.Expr, w.m[i].Tags)
			if !understood {
				r.unknown++
				if r.dontcare == nil {
					r.dontcare = map[int]bool{}
				}
				r.dontcare[i] = true
				continue
			}
			if !v {
				continue
			}
		}
		if seen[i] {
			r.dups++
			continue
		}
		seen[i] = true
		r.selected = append(r.selected, i)
	}
	sort.Ints(r.selected)
	sort.Strings(r.foreign)
	return r
}

// Case is the replayable form.
type Case struct {
	Mask    int    `json:"series_mask"`
	Variant string `json:"variant"`
	Expr    *Node  `json:"expr,omitempty"`
	Text    string `json:"text"`
	// Seq (sequence family): the queries run one after the other on ONE fresh index; Expr is unset then.
	Seq []*Node `json:"seq,omitempty"`
}

type verdict struct {
	bad      bool
	dir      string
	want     []int
	got      queryResult
	nontriv  bool
	selClass string
}

func (w *world) judge(o *opened, mask int, n *Node, expr influxql.Expr) verdict {
	var v verdict
	v.got = w.query(o, expr)
	present := 0
	for i, s := range w.m {
		if mask&(1<<i) == 0 {
			continue
		}
		present++
		if n.ref(s.Tags) {
			v.want = append(v.want, i)
		}
	}
	v.nontriv = len(v.want) > 0 && len(v.want) < present
	switch {
	case len(v.want) == 0:
		v.selClass = "none"
	case len(v.want) == present:
		v.selClass = "all"
	default:
		v.selClass = "some"
	}
	if v.got.err != "" {
		v.bad, v.dir = true, "error"
		return v
	}
	if len(v.got.foreign) > 0 {
		v.bad, v.dir = true, "selects-other-measurement"
		return v
	}
	gotSet := map[int]bool{}
	for _, i := range v.got.selected {
		gotSet[i] = true
	}
	wantSet := map[int]bool{}
	for _, i := range v.want {
		wantSet[i] = true
	}
	extra, missing := false, false
	for i := range w.m {
		if v.got.dontcare[i] {
			continue
		}
		if gotSet[i] && !wantSet[i] {
			extra = true
		}
		if wantSet[i] && !gotSet[i] {
			missing = true
		}
	}
	switch {
	case extra && missing:
		v.bad, v.dir = true, "selects-wrong-set"
	case extra:
		v.bad, v.dir = true, "selects-too-many"
	case missing:
		v.bad, v.dir = true, "selects-too-few"
	}
	return v
}

func (w *world) names(ix []int) string {
	var p []string
	for _, i := range ix {
		p = append(p, w.m[i].String())
	}
	return "[" + strings.Join(p, " ") + "]"
}

func (w *world) maskNames(mask int) string {
	var ix []int
	for i := range w.m {
		if mask&(1<<i) != 0 {
			ix = append(ix, i)
		}
	}
	return w.names(ix)
}

func (n *Node) leaves(out *[]*Leaf) {
	if n.Leaf != nil {
		*out = append(*out, n.Leaf)
		return
	}
	n.L.leaves(out)
	n.R.leaves(out)
}

// sigOf builds the class signature: clause/direction/variant + the discriminating feature. For a compound
// expression each operand leaf is queried alone on the same index: if one of them is already wrong the class
// is that leaf's kind (key present/absent × operator × literal class), otherwise the class is the combination.
func (w *world) sigOf(o *opened, mask int, v verdict, variant string, n *Node) string {
	if n.Leaf != nil {
		return vlib.JoinSig("MeasurementSeriesByExprIterator", v.dir, variant, "leaf:"+n.Leaf.kind())
	}
	var ls []*Leaf
	n.leaves(&ls)
	var bad []string
	for _, l := range ls {
		bare := *l
		bare.Paren, bare.Swap = false, false
		ln := lf(&bare)
		e, err := influxql.ParseExpr(ln.text())
		if err != nil {
			continue
		}
		var lv verdict
		if p, _ := vlib.Guard(func() { lv = w.judge(o, mask, ln, e) }); p || lv.bad {
			bad = append(bad, l.kind())
		}
	}
	if len(bad) > 0 {
		sort.Strings(bad)
		return vlib.JoinSig("MeasurementSeriesByExprIterator", v.dir, variant, "operand-leaf-wrong-alone:"+bad[0])
	}
	top := n.Op
	if n.L.Leaf == nil || n.R.Leaf == nil {
		top = "nested:" + n.shape()
	}
	return vlib.JoinSig("MeasurementSeriesByExprIterator", v.dir, variant, "operands-right-alone/combination:"+top)
}

func (w *world) describe(cs Case, v verdict) string {
	got := w.names(v.got.selected)
	if v.got.err != "" {
		got = "error " + v.got.err
	}
	if len(v.got.foreign) > 0 {
		got += " +foreign" + fmt.Sprint(v.got.foreign)
	}
	return fmt.Sprintf("index(%s) holding m-series %s: WHERE %s selected %s, InfluxQL semantics (absent tag = '') select %s",
		cs.Variant, w.maskNames(cs.Mask), cs.Text, got, w.names(v.want))
}

// ---------------------------------------------------------------------------------------------------------
// sequence family: the CASE is a sequence of queries run one after the other on ONE freshly built index (so
// the tag-value series-id cache state each query leaves behind is part of the case); every answer of the
// sequence must equal the reference. Replay rebuilds the index and re-executes the whole sequence.

// seqLeafPool: a='x' and b='y' (cached tag-value sets), a!='x' (measurement minus the cached set) and
// a=~/^x/ (regex path merging the per-value sets).
func seqLeafPool() []*Leaf {
	return []*Leaf{
		{Key: "a", Op: "=", Lit: "x"}, {Key: "b", Op: "=", Lit: "y"}, {Key: "a", Op: "!=", Lit: "x"},
		{Key: "a", Op: "=~", Lit: "^x", Regex: true},
	}
}

// seqExprs(n): the first n leaves of the pool and every L AND|OR R over them (ordered pairs incl. L=R):
// n + 2n² expressions (n=2: 10, n=3: 21, n=4: 36).
func seqExprs(n int) []*Node {
	ls := seqLeafPool()[:n]
	var out []*Node
	for _, l := range ls {
		out = append(out, lf(l))
	}
	for _, op := range []string{"OR", "AND"} {
		for _, l := range ls {
			for _, r := range ls {
				out = append(out, &Node{Op: op, L: lf(l), R: lf(r)})
			}
		}
	}
	return out
}

// repExprs: fully parenthesised expressions over the first 3 pool leaves with 3 leaves (2 tree shapes) and,
// if four, with 4 leaves (5 tree shapes; some term necessarily occurs twice) × every operator assignment.
func repExprs(four bool) []*Node {
	ls := seqLeafPool()[:3]
	ops := []string{"OR", "AND"}
	var out []*Node
	// trees(k): all binary trees with k leaves over ls, inner nodes parenthesised.
	var trees func(k int) []*Node
	memo := map[int][]*Node{}
	trees = func(k int) []*Node {
		if t, ok := memo[k]; ok {
			return t
		}
		var t []*Node
		if k == 1 {
			for _, l := range ls {
				t = append(t, lf(l))
			}
		} else {
			for i := 1; i < k; i++ {
				for _, op := range ops {
					for _, l := range trees(i) {
						for _, r := range trees(k - i) {
							t = append(t, &Node{Op: op, L: l, R: r, Paren: true})
						}
					}
				}
			}
		}
		memo[k] = t
		return t
	}
	ks := []int{3}
	if four {
		ks = append(ks, 4)
	}
	for _, k := range ks {
		for _, n := range trees(k) {
			top := *n
			top.Paren = false
			out = append(out, &top)
		}
	}
	return out
}

// series sets of the sequence family (bit i = series i of universe: index = 3*ai+bi over a,b ∈ (x,y,absent)).
const (
	seqMaskAll  = 511 // all 9 series
	seqMaskFour = 401 // {a=x,b=x} {a=y,b=y} {b=y} {}
	seqMaskMix  = 156 // {a=x} {a=y,b=x} {a=y,b=y} {b=y}
	seqMaskNoAX = 408 // {a=y,b=x} {a=y,b=y} {b=y} {}: no series carries a=x
)

// seqPlan: one (variant, series set) with either all ordered triples over seqExprs(NLeaves) (Triples) or all
// repeated-term expressions as sequences of length 1 (Rep: 3 = three-leaf only, 4 = three- and four-leaf).
type seqPlan struct {
	variant string
	mask    int
	nLeaves int // triples over seqExprs(nLeaves); 0 = none
	rep     int // 0 none, 3, 4
}

func seqPlans(thorough bool) []seqPlan {
	if thorough {
		return []seqPlan{
			{varLog, seqMaskAll, 4, 4}, {varLog, seqMaskFour, 4, 4}, {varLog, seqMaskMix, 4, 0}, {varLog, seqMaskNoAX, 4, 0},
			{varLog8, seqMaskAll, 3, 4}, {varLog8, seqMaskFour, 3, 0},
			{varTSI, seqMaskAll, 3, 4},
		}
	}
	return []seqPlan{
		{varLog, seqMaskAll, 3, 4}, {varLog, seqMaskFour, 2, 0},
		{varLog8, seqMaskAll, 2, 3},
	}
}

func parseNodes(ns []*Node) ([]ex, error) {
	var out []ex
	for _, n := range ns {
		t := n.text()
		e, err := influxql.ParseExpr(t)
		if err != nil {
			return nil, fmt.Errorf("influxql.ParseExpr(%q): %v", t, err)
		}
		out = append(out, ex{n, t, n.shape(), e})
	}
	return out, nil
}

// seqRun executes the sequence on a fresh index of the variant holding the series set. It returns one verdict
// per executed query and the position of the first wrong answer (-1: none); it stops at the first wrong answer
// or panic (pdesc != "").
func (w *world) seqRun(mask int, variant string, seq []ex) (vs []verdict, firstBad int, pdesc string, err error) {
	o, err := w.open(mask, variant)
	if err != nil {
		return nil, -1, "", err
	}
	defer o.close()
	for k, x := range seq {
		var v verdict
		p, d := vlib.Guard(func() { v = w.judge(o, mask, x.n, x.expr) })
		if p {
			return vs, k, d, nil
		}
		vs = append(vs, v)
		if v.bad {
			return vs, k, "", nil
		}
	}
	return vs, -1, "", nil
}

func seqText(seq []ex) string {
	var p []string
	for _, x := range seq {
		p = append(p, x.text)
	}
	return strings.Join(p, " ; ")
}

func seqNodes(seq []ex) []*Node {
	var p []*Node
	for _, x := range seq {
		p = append(p, x.n)
	}
	return p
}

// seqSig: class of a wrong answer inside a sequence: direction, variant, sequence length, position of the first
// wrong answer, and whether the same query is answered correctly when it is the only query on a fresh index
// (right = the wrong answer depends on what the earlier queries of the sequence left behind).
func (w *world) seqSig(mask int, variant string, seq []ex, k int, dir string) string {
	alone := "wrong"
	if len(seq) > 1 {
		if _, fb, pd, err := w.seqRun(mask, variant, seq[k:k+1]); err == nil && fb < 0 && pd == "" {
			alone = "right"
		}
	}
	return vlib.JoinSig("sequence", "MeasurementSeriesByExprIterator", dir, variant,
		fmt.Sprintf("len=%d", len(seq)), fmt.Sprintf("first-wrong=q%d", k+1), "same-query-alone-on-fresh-index="+alone)
}

func (w *world) describeSeq(mask int, variant string, seq []ex, vs []verdict, k int) string {
	var p []string
	for i := 0; i < k && i < len(vs); i++ {
		p = append(p, fmt.Sprintf("q%d WHERE %s -> %s (ok)", i+1, seq[i].text, w.names(vs[i].got.selected)))
	}
	v := vs[k]
	got := w.names(v.got.selected)
	if v.got.err != "" {
		got = "error " + v.got.err
	}
	if len(v.got.foreign) > 0 {
		got += " +foreign" + fmt.Sprint(v.got.foreign)
	}
	p = append(p, fmt.Sprintf("q%d WHERE %s selected %s, InfluxQL semantics (absent tag = '') select %s", k+1, seq[k].text, got, w.names(v.want)))
	return fmt.Sprintf("fresh index(%s) holding m-series %s, queries in sequence: %s", variant, w.maskNames(mask), strings.Join(p, "; "))
}

// seqCase runs one sequence case and reports it.
func (w *world) seqCase(c *vlib.Ctx, mask int, variant string, seq []ex) {
	vs, fb, pd, err := w.seqRun(mask, variant, seq)
	if err != nil {
		c.HarnessError(fmt.Sprintf("cannot build index mask=%d variant=%s: %v", mask, variant, err))
		return
	}
	c.Eval(1)
	cs := Case{Mask: mask, Variant: variant, Text: seqText(seq), Seq: seqNodes(seq)}
	if pd != "" {
		c.Violation(vlib.JoinSig("sequence", "MeasurementSeriesByExprIterator", "panic", pd), fmt.Sprintf("panic on q%d of %s: %s", fb+1, cs.Text, pd), cs)
		return
	}
	nontriv := false
	cls := fmt.Sprintf("seq%d:ref=", len(seq))
	for i, v := range vs {
		nontriv = nontriv || v.nontriv
		if i > 0 {
			cls += ","
		}
		cls += v.selClass
	}
	if nontriv {
		c.NontrivialN(1)
	}
	if fb >= 0 {
		c.Outcome(fmt.Sprintf("seq%d:wrong-answer", len(seq)))
		c.Violation(w.seqSig(mask, variant, seq, fb, vs[fb].dir), w.describeSeq(mask, variant, seq, vs, fb), cs)
		return
	}
	c.Outcome(cls)
	if nontriv && len(seq) > 1 && c.WantSample() {
		var ans []string
		for _, v := range vs {
			ans = append(ans, w.names(v.got.selected))
		}
		c.Sample(map[string]any{"variant": variant, "stored": w.maskNames(mask), "sequence": cs.Text, "selected": ans})
	}
}

// runSequences explores the sequence family; *unit is the running shard unit index shared with the
// single-expression family. A unit = all q3 for one (plan, q1, q2), or 32 consecutive repeated-term expressions.
func runSequences(c *vlib.Ctx, w *world, unit *int64) bool {
	pools := map[int][]ex{}
	for _, n := range []int{2, 3, 4} {
		p, err := parseNodes(seqExprs(n))
		if err != nil {
			c.HarnessError(err.Error())
			return false
		}
		pools[n] = p
	}
	reps := map[int][]ex{}
	for _, r := range []int{3, 4} {
		p, err := parseNodes(repExprs(r == 4))
		if err != nil {
			c.HarnessError(err.Error())
			return false
		}
		reps[r] = p
	}
	capped := func() bool {
		if c.Expired() {
			c.Cap("wall budget reached: not every unit of the sequence family was explored; explored units are complete")
			return true
		}
		return false
	}
	// repeated-term expressions first (sequences of length 1), then the triples
	for _, pl := range seqPlans(c.Thorough()) {
		if pl.rep == 0 {
			continue
		}
		es := reps[pl.rep]
		for i := 0; i < len(es); i += 32 {
			*unit++
			if !c.Mine(*unit) {
				continue
			}
			if capped() {
				return false
			}
			for j := i; j < i+32 && j < len(es); j++ {
				w.seqCase(c, pl.mask, pl.variant, es[j:j+1])
			}
		}
	}
	for _, pl := range seqPlans(c.Thorough()) {
		if pl.nLeaves == 0 {
			continue
		}
		es := pools[pl.nLeaves]
		for _, q1 := range es {
			for _, q2 := range es {
				*unit++
				if !c.Mine(*unit) {
					continue
				}
				if capped() {
					return false
				}
				for _, q3 := range es {
					w.seqCase(c, pl.mask, pl.variant, []ex{q1, q2, q3})
				}
			}
		}
	}
	return true
}

func replaySeq(cs Case) (bool, string) {
	w, err := newWorld()
	if err != nil {
		return false, "cannot create series file: " + err.Error()
	}
	defer w.close()
	seq, err := parseNodes(cs.Seq)
	if err != nil {
		return false, "harness: " + err.Error()
	}
	vs, fb, pd, err := w.seqRun(cs.Mask, cs.Variant, seq)
	if err != nil {
		return false, "cannot build index: " + err.Error()
	}
	if pd != "" {
		return true, fmt.Sprintf("panic on q%d of %s: %s", fb+1, seqText(seq), pd)
	}
	if fb >= 0 {
		return true, "VIOLATED (" + vs[fb].dir + "): " + w.describeSeq(cs.Mask, cs.Variant, seq, vs, fb)
	}
	var p []string
	for i, v := range vs {
		p = append(p, fmt.Sprintf("q%d WHERE %s -> %s (ok)", i+1, seq[i].text, w.names(v.got.selected)))
	}
	return false, "ok: " + strings.Join(p, "; ")
}

func TestCheck(t *testing.T) {
	vlib.Main(t, &vlib.Check{
		ID: "C15", Level: "exploration",
		Rule: "expressions: depth 0 = all 66 leaves `k op lit` (k∈{a,b,missing}; =,!= × lit∈{'x','y',''} × both operand orders; =~,!~ × regex∈{/x/,/^$/,/.*/,/x|y/,/^x/}) bare and parenthesised; " +
			"depth 1 = L AND|OR R over the 48 key-first leaves (quick: all 1176 unordered pairs incl. L=R; thorough: all 48×48 ordered pairs) + literal-first operands (12×24) and parenthesised operands (all 24×24 ordered pairs) over 24 core leaves; " +
			"depth 2 (thorough) = A op1 B op2 C over 16 leaves (key a: all 8 code paths =lit,!=lit,='',!='',=~/^x/,!~/^x/,=~/^$/,!~/^$/; 4 each for b and missing) × op1,op2∈{AND,OR} × {no parens (precedence), (A op1 B) op2 C, A op1 (B op2 C)}; " +
			"× every one of the 2^9 subsets of the 9 series of measurement m over tags a,b∈{x,y,absent} (+5 fixed series of a noise measurement n) stored in a real tsi1 index, " +
			"in storage variants log (1 partition, L0 log file; all sets, all depths), tsi (1 partition, compacted .tsi index files; quick every 8th set; thorough all sets to depth 1 and every 4th set to depth 2), log8 (default 8 partitions; depth<=1; quick every 8th set, thorough every 4th), split (thorough: IndexSet of two 8-partition indexes, depth<=1, every 4th set); " +
			"queried via IndexSet.MeasurementSeriesByExprIterator (residual Expr, if any, evaluated by the reference); oracle = direct evaluation on each series' tag map with absent tag = ''; " +
			"non-trivial = the reference selects a non-empty proper subset of the stored m-series (cases distinct by construction); " +
			"SEQUENCE family (a case = a sequence of queries run one after the other on ONE freshly built single-index IndexSet, every answer must equal the reference; the index is rebuilt for every case and for replay): " +
			"(i) every ordered triple (q1,q2,q3), incl. repeated queries, over E(n) = the first n leaves of [a='x', b='y', a!='x', a=~/^x/] and every L AND|OR R over them (ordered pairs incl. L=R; |E(2)|=10, |E(3)|=21, |E(4)|=36) — " +
			"quick: E(3)³ on log × all 9 series, E(2)³ on log × {a=x,b=x},{a=y,b=y},{b=y},{} and on log8 × all 9; thorough: E(4)³ on log × 4 series sets (all 9; the 4-set; {a=x},{a=y,b=x},{a=y,b=y},{b=y}; a 4-set without any a=x), E(3)³ on log8 × 2 sets and on tsi × all 9; " +
			"(ii) sequences of length 1 = every fully parenthesised expression with 3 leaves (2 tree shapes) and 4 leaves (5 tree shapes; a term necessarily repeats) over [a='x', b='y', a!='x'] × every AND/OR assignment (216 + 3240), each on its own fresh index — quick: log × all 9 (3+4 leaves), log8 × all 9 (3 leaves); thorough: log × 2 sets, log8 and tsi × all 9; " +
			"a sequence is non-trivial if some query's reference answer is a non-empty proper subset",
		Assumptions: []string{
			"expression text is parsed with the influxql module's ParseExpr (a dependency, not repo code); omitted parentheses follow InfluxQL precedence AND > OR, left associative",
			"one series file shared by all indexes of a worker (as shards of one database share it)",
			"single-expression families: many expressions are evaluated on one index and replay rebuilds a fresh index, so a wrong answer that depends on the tag-value cache state left by earlier queries may not reproduce (it is then reported as a harness error, not an alarm); replay runs the query twice (cold and warm cache). State left behind by earlier queries is the subject of the sequence family, whose cases and replays are whole sequences on a fresh index",
		},
		QuickBudgetS: 55, ThoroughBudgetS: 720,
		Run:    run,
		Replay: replay,
	})
}

// unitSpec: one (storage variant, family depth) to run for a series set. deep = include the depth-2 family.
type unitSpec struct {
	variant string
	deep    bool
}

func unitsFor(c *vlib.Ctx, mask int) []unitSpec {
	if c.Thorough() {
		us := []unitSpec{{varLog, true}, {varTSI, mask%4 == 2}}
		if mask%4 == 1 {
			us = append(us, unitSpec{varLog8, false})
		}
		if mask%4 == 3 {
			us = append(us, unitSpec{varSplit, false})
		}
		return us
	}
	us := []unitSpec{{varLog, false}}
	if mask%8 == 1 {
		us = append(us, unitSpec{varLog8, false})
	}
	if mask%8 == 5 {
		us = append(us, unitSpec{varTSI, false})
	}
	return us
}

// ex is one member of the expression family: the harness tree, its InfluxQL text and the text parsed by the
// influxql parser (parsed once per worker; the index code treats the expression as read-only).
type ex struct {
	n     *Node
	text  string
	shape string
	expr  influxql.Expr
}

// family returns the expressions of the tier in enumeration order and the length of the depth<=1 prefix.
func family(thorough bool) ([]ex, int, error) {
	var out []ex
	var ferr error
	nShallow := 0
	forEachExpr(thorough, func(n *Node) {
		if n.Leaf != nil || (n.L.Leaf != nil && n.R.Leaf != nil) {
			nShallow = len(out) + 1
		}
		t := n.text()
		e, err := influxql.ParseExpr(t)
		if err != nil && ferr == nil {
			ferr = fmt.Errorf("influxql.ParseExpr(%q): %v", t, err)
		}
		out = append(out, ex{n, t, n.shape(), e})
	})
	return out, nShallow, ferr
}

func run(c *vlib.Ctx) {
	if c.NShards > 1 {
		// 16 worker processes share the machine: keep each one's GC / goroutine fan-out small.
		runtime.GOMAXPROCS(2)
	}
	// GC left at the Go default: larger heaps (GOGC>=1600) were measured 4x slower here (page-fault churn of the
	// ~0.4 MB of short-lived roaring containers the index allocates per query).
	t0 := time.Now()
	fam, nShallow, err := family(c.Thorough())
	c.Logf("family: %d exprs in %v", len(fam), time.Since(t0))
	if err != nil {
		c.HarnessError(err.Error())
		return
	}
	w, err := newWorld()
	if err != nil {
		c.HarnessError("cannot create series file: " + err.Error())
		return
	}
	defer w.close()
	c.Logf("world ready at %v", time.Since(t0))
	// masks ordered by population count (simplest first)
	var masks []int
	for m := 0; m < 512; m++ {
		masks = append(masks, m)
	}
	pop := func(m int) int {
		n := 0
		for ; m != 0; m &= m - 1 {
			n++
		}
		return n
	}
	sort.SliceStable(masks, func(i, j int) bool { return pop(masks[i]) < pop(masks[j]) })
	var unit int64
	if !runSequences(c, w, &unit) {
		return
	}
	c.Logf("sequence family done at %v", time.Since(t0))
	for _, mask := range masks {
		for _, us := range unitsFor(c, mask) {
			variant := us.variant
			exprs := fam
			if !us.deep && nShallow < len(fam) {
				exprs = fam[:nShallow]
			}
			unit++
			if !c.Mine(unit) {
				continue
			}
			if c.Expired() {
				c.Cap("wall budget reached: not every (series set, variant) unit was explored; explored units are complete over the expression family")
				return
			}
			tu := time.Now()
			o, err := w.open(mask, variant)
			if err != nil {
				c.HarnessError(fmt.Sprintf("cannot build index mask=%d variant=%s: %v", mask, variant, err))
				continue
			}
			topen := time.Since(tu)
			p, d := vlib.Guard(func() {
				for xi, x := range exprs {
					if xi%256 == 255 && c.Expired() {
						c.Cap("wall budget reached inside a (series set, variant) unit: that unit covers only a simplest-first prefix of the expression family")
						break
					}
					n, text := x.n, x.text
					var v verdict
					pp, dd := vlib.Guard(func() { v = w.judge(o, mask, n, x.expr) })
					c.Eval(1)
					if pp {
						cs := Case{Mask: mask, Variant: variant, Expr: n, Text: text}
						c.Violation(vlib.JoinSig("MeasurementSeriesByExprIterator", "panic", dd), "panic on "+text+": "+dd, cs)
						continue
					}
					if v.nontriv {
						c.NontrivialN(1)
					}
					cls := x.shape + ":ref=" + v.selClass
					if v.got.residuals > 0 {
						cls += ":residual"
					}
					if v.got.unknown > 0 {
						cls += ":residual-not-understood"
					}
					if v.got.dups > 0 {
						cls += ":dup-ids"
					}
					c.Outcome(cls)
					if v.bad {
						cs := Case{Mask: mask, Variant: variant, Expr: n, Text: text}
						c.Violation(w.sigOf(o, mask, v, variant, n), w.describe(cs, v), cs)
					}
					if v.nontriv && c.WantSample() {
						c.Sample(map[string]any{"variant": variant, "stored": w.maskNames(mask), "where": text, "selected": w.names(v.got.selected)})
					}
				}
			})
			tq := time.Since(tu)
			o.close()
			if os.Getenv("C15_TIMING") != "" {
				c.Logf("unit %d mask=%d %s: open %v, open+queries %v, +close %v", unit, mask, variant, topen, tq, time.Since(tu))
			}
			if p {
				c.HarnessError("enumerator panicked: " + d)
			}
		}
	}
}

func replay(c *vlib.Ctx, raw json.RawMessage) (bool, string) {
	var cs Case
	if err := json.Unmarshal(raw, &cs); err != nil || (cs.Expr == nil && len(cs.Seq) == 0) {
		return false, "bad case"
	}
	if len(cs.Seq) > 0 {
		return replaySeq(cs)
	}
	w, err := newWorld()
	if err != nil {
		return false, "cannot create series file: " + err.Error()
	}
	defer w.close()
	o, err := w.open(cs.Mask, cs.Variant)
	if err != nil {
		return false, "cannot build index: " + err.Error()
	}
	defer o.close()
	text := cs.Expr.text()
	expr, err := influxql.ParseExpr(text)
	if err != nil {
		return false, "harness: cannot parse " + text + ": " + err.Error()
	}
	var out []string
	bad := false
	for pass := 0; pass < 2; pass++ {
		var v verdict
		p, d := vlib.Guard(func() { v = w.judge(o, cs.Mask, cs.Expr, expr) })
		if p {
			return true, "panic: " + d
		}
		cs.Text = text
		if v.bad {
			bad = true
			out = append(out, fmt.Sprintf("pass %d: VIOLATED (%s): %s", pass+1, v.dir, w.describe(cs, v)))
		} else {
			out = append(out, fmt.Sprintf("pass %d: ok: %s", pass+1, w.describe(cs, v)))
		}
	}
	return bad, strings.Join(out, "\n")
}
