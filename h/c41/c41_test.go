// C41: Flux window-aggregate tables have the right windows and values.
//
// Bounded-exhaustive input enumeration on the `mini` fixture (real storage.Engine + tsdb.Store + the real
// v1/services/storage.Store) through the real Flux storage reader storage/flux.NewReader(f.Reads):
// every request of a declared family (bounds x window x aggregate x createEmpty x timeColumn x forceAggregate x field
// type x table-buffer size) is run with ReadWindowAggregate against datasets that contain EVERY subset of N time slots
// as a separate series, and every (series, request) pair is judged against a reference computed from the rows that
// ReadFilter returns through the same reader for the same bounds (as the property statement defines the value).
//
// What the oracle demands (and nothing more than the statement says), per series that has >= 1 raw row in the bounds:
//   - windows are [off+k*every, off+(k+1)*every) (own arithmetic, not flux/interval); a window is "expected" if it
//     contains a raw row, or - with createEmpty - if it intersects the bounds;
//   - exactly one row (table) per expected non-empty window, none for any other window (no duplicates, no rows for
//     windows outside the bounds, no rows for empty windows when createEmpty is off);
//   - without a time column: the table key and the row's _start/_stop are the window clipped to the bounds;
//     with timeColumn=_start/_stop: _time is the clipped window start/stop (the row's _start/_stop may be the query
//     bounds, as Flux's aggregateWindow defines, or the clipped window);
//   - the value equals count/sum/mean/min/max/first/last of the raw rows of the window; for selectors that carry the
//     point time the (_time,_value) pair must be one of the window's raw rows;
//   - empty windows under createEmpty: aggregates (count, sum, mean) must have a row with null (0 for count);
//     selectors must be represented by a null row or an empty table when ForceAggregate is set or when there is no
//     time column (window(createEmpty:true) |> first() yields an empty table per empty window); selectors with a time
//     column and without ForceAggregate may also be absent (window(every: inf) drops empty selector tables) - but an
//     empty window never carries a value.
//
// Calendar family: the same oracle with windows of whole calendar months (time.Date arithmetic, UTC) over a dataset
// with points at month / year / leap-day boundaries +-1ns in two shard groups; and a request-forms family that calls
// reads.Store.WindowAggregate directly with both ways of giving the window (WindowEvery int64 / Window message) and
// judges the series cursors (judgeStore).
//
// Not judged (statement silent): order of rows/tables, column types (values are compared numerically), series without
// a raw row in the bounds (no table is the Flux behaviour; only "a value out of nothing" is an alarm there).
package c41

import (
	"context"
	"encoding/json"
	"errors"
	"fmt"
	"math"
	"math/bits"
	"runtime/debug"
	"sort"
	"strings"
	"testing"
	"time"

	"github.com/influxdata/flux"
	"github.com/influxdata/flux/execute"
	"github.com/influxdata/flux/memory"
	"github.com/influxdata/flux/plan"
	"github.com/influxdata/flux/values"
	"github.com/influxdata/influxdb/v2/query"
	storageflux "github.com/influxdata/influxdb/v2/storage/flux"
	"github.com/influxdata/influxdb/v2/storage/reads"
	"github.com/influxdata/influxdb/v2/storage/reads/datatypes"
	"verif/h/mini"
	"verif/h/vlib"
)

// ---------------------------------------------------------------------------------------------------------
// domain

const (
	smallM   = 3
	shippedM = 1000
)

var (
	numPat  = [8]int64{3, -2, 0, 3, 5, -2, 1, 4}
	strPat  = [8]string{"c", "a", "b", "c", "e", "a", "b", "d"}
	boolPat = [8]bool{true, false, false, true, true, false, true, false}
)

// valueOf is the value written for field `field` at pattern position k.
func valueOf(field string, k int) any {
	k %= 8
	switch field {
	case "f":
		return float64(numPat[k]) + 0.5
	case "i":
		return numPat[k]
	case "u":
		v := numPat[k]
		if v < 0 {
			v = -v
		}
		return uint64(v)
	case "s":
		return strPat[k]
	default:
		return boolPat[k]
	}
}

var allFields = []string{"f", "i", "u", "s", "b"}

// Dataset: kind "masks" = one series per non-empty subset of N adjacent nanosecond slots T0..T0+N-1 (tag s = the
// mask, 3 digits), every series with all five fields; kind "big" = three series with a handful of points spread
// over 2400 ns (for > 1000 / > 2000 windows on the shipped buffer size).
// Place: "straddle" puts T0 at shard-group boundary - N/2 (two shards), "single" at Base+1000.
// Layout: cache | tsm | mixed (even offsets snapshotted to TSM, odd offsets in the cache).
type Dataset struct {
	Kind   string `json:"kind"`
	N      int    `json:"n,omitempty"`
	Place  string `json:"place"`
	Layout string `json:"layout"`
}

func (d Dataset) T0() int64 {
	if d.Kind == "cal" {
		return calT0
	}
	if d.Place == "straddle" {
		return mini.Base + mini.Hour - int64(d.N/2)
	}
	return mini.Base + 1000
}

type seriesDef struct {
	Name string
	Offs []int64 // ascending offsets from T0; the point at Offs[j] has pattern position Pos[j]
	Pos  []int
}

func (d Dataset) series() []seriesDef {
	var out []seriesDef
	if d.Kind == "cal" {
		return calSeries()
	}
	if d.Kind == "big" {
		for i, offs := range [][]int64{{0}, {0, 999, 1000, 1001}, {5, 1999, 2000, 2400}} {
			sd := seriesDef{Name: fmt.Sprintf("big%d", i), Offs: offs}
			for j := range offs {
				sd.Pos = append(sd.Pos, j)
			}
			out = append(out, sd)
		}
		return out
	}
	var masks []int
	for m := 1; m < 1<<d.N; m++ {
		masks = append(masks, m)
	}
	sort.SliceStable(masks, func(i, j int) bool { return bits.OnesCount(uint(masks[i])) < bits.OnesCount(uint(masks[j])) })
	for _, m := range masks {
		sd := seriesDef{Name: fmt.Sprintf("%03d", m)}
		for k := 0; k < d.N; k++ {
			if m>>k&1 == 1 {
				sd.Offs = append(sd.Offs, int64(k))
				sd.Pos = append(sd.Pos, k)
			}
		}
		out = append(out, sd)
	}
	return out
}

// Req is one ReadWindowAggregate request. A, B: bounds [T0+A, T0+B). Every 0 = "inf" (math.MaxInt64 ns, the bare
// aggregate push-down). Period = Every as the planner always sets it.
type Req struct {
	A     int64  `json:"a"`
	B     int64  `json:"b"`
	Every int64  `json:"every"`
	Off   int64  `json:"offset"`
	Field string `json:"field"`
	Agg   string `json:"agg"`
	CE    bool   `json:"create_empty"`
	TC    string `json:"time_column"`
	Force bool   `json:"force_aggregate"`
	// calendar family: EveryMo > 0 = a window of whole calendar months (then Every is 0, as in the request message);
	// the window offset is OffMo months + Off nanoseconds.
	EveryMo int64 `json:"every_months,omitempty"`
	OffMo   int64 `json:"offset_months,omitempty"`
	// Form: "" = storage/flux reader (ReadWindowAggregate); "store-every" / "store-window" = reads.Store.WindowAggregate
	// called directly with the window given as WindowEvery/Offset int64 resp. as a Window message.
	Form string `json:"form,omitempty"`
}

// inf: the un-windowed form (every = math.MaxInt64 ns).
func (r Req) inf() bool { return r.Every == 0 && r.EveryMo == 0 }

func (r Req) String() string {
	ev := fmt.Sprint(r.Every)
	if r.inf() {
		ev = "inf"
	}
	if absT0 == 0 && r.Form == "" {
		return fmt.Sprintf("%s(%s) bounds=[T0%+d,T0%+d) every=%s offset=%d createEmpty=%v timeColumn=%q forceAggregate=%v", r.Agg, r.Field, r.A, r.B, ev, r.Off, r.CE, r.TC, r.Force)
	}
	off := fmt.Sprintf("%dns", r.Off)
	if r.EveryMo > 0 {
		ev = fmt.Sprintf("%dmo", r.EveryMo)
	} else if !r.inf() {
		ev = time.Duration(r.Every).String()
	}
	if r.OffMo > 0 {
		off = fmt.Sprintf("%dmo+%dns", r.OffMo, r.Off)
	}
	if r.Form != "" {
		return fmt.Sprintf("%s(%s) range=[%s,%s) every=%s offset=%s request-form=%s", r.Agg, r.Field, ft(r.A), ft(r.B), ev, off, r.Form)
	}
	return fmt.Sprintf("%s(%s) bounds=[%s,%s) every=%s offset=%s createEmpty=%v timeColumn=%q forceAggregate=%v", r.Agg, r.Field, ft(r.A), ft(r.B), ev, off, r.CE, r.TC, r.Force)
}

func isSelector(agg string) bool { return agg == "first" || agg == "last" || agg == "min" || agg == "max" }

// impl names the table implementation windowAggregateIterator.handleRead picks for the request.
func impl(r Req) string {
	switch {
	case r.Form != "":
		return "Store-cursor"
	case !isSelector(r.Agg):
		return "WindowTable-aggregate"
	case r.Force:
		return "WindowTable-forcedSelector"
	case r.CE && r.TC == "":
		return "EmptyWindowSelectorTable"
	default:
		return "WindowSelectorTable"
	}
}

type Case struct {
	DS     Dataset `json:"dataset"`
	M      int     `json:"max_points_per_block"`
	Req    Req     `json:"request"`
	Series string  `json:"series"`
}

// ---------------------------------------------------------------------------------------------------------
// enumeration families

func datasets(thorough bool) []Dataset {
	// the (small) calendar family comes first: when a loaded machine makes the wall budget cap the run, the cut falls
	// into the large slot families, which are visited narrow-bounds-first, and no family is dropped as a whole
	if !thorough {
		return []Dataset{
			{Kind: "cal", Place: "months", Layout: "mixed"},
			{Kind: "masks", N: 6, Place: "straddle", Layout: "mixed"},
			{Kind: "big", Place: "single", Layout: "mixed"},
		}
	}
	return []Dataset{
		{Kind: "cal", Place: "months", Layout: "mixed"},
		{Kind: "cal", Place: "months", Layout: "tsm"},
		{Kind: "masks", N: 8, Place: "straddle", Layout: "mixed"},
		{Kind: "masks", N: 7, Place: "single", Layout: "tsm"},
		{Kind: "big", Place: "single", Layout: "mixed"},
	}
}

func blockSizes(ds Dataset, thorough bool) []int {
	if ds.Kind == "big" {
		return []int{shippedM}
	}
	if ds.Kind == "cal" {
		if !thorough {
			return []int{shippedM}
		}
		if ds.Layout == "tsm" {
			return []int{smallM}
		}
		return []int{smallM, shippedM}
	}
	if thorough && ds.N != 8 {
		return []int{smallM}
	}
	return []int{smallM, shippedM}
}

type fa struct{ field, agg string }

func fieldAggs(fields []string) []fa {
	var out []fa
	for _, f := range fields {
		aggs := []string{"count", "sum", "mean", "min", "max", "first", "last"}
		if f == "s" || f == "b" {
			aggs = []string{"count", "first", "last"} // sum/mean are rejected and min/max are unsupported for these types
		}
		for _, a := range aggs {
			out = append(out, fa{f, a})
		}
	}
	return out
}

type wcfg struct{ every, off int64 }

// requests of one dataset, simplest first (narrow bounds first).
func requests(ds Dataset, thorough bool, M int) []Req {
	if ds.Kind == "cal" {
		return calRequests(thorough, M)
	}
	var bounds [][2]int64
	var wins []wcfg
	fields := allFields
	if ds.Kind == "big" {
		bounds = [][2]int64{{0, 1000}, {0, 1001}, {0, 2500}}
		wins = []wcfg{{1, 0}}
		fields = []string{"f", "i", "s"}
		if !thorough {
			bounds = [][2]int64{{0, 1001}, {0, 2500}}
			fields = []string{"f", "s"}
		}
	} else {
		n := int64(ds.N)
		for w := int64(1); w <= n; w++ {
			for a := int64(0); a+w <= n; a++ {
				bounds = append(bounds, [2]int64{a, a + w})
			}
		}
		wins = []wcfg{{1, 0}, {2, 0}, {2, 1}, {3, 0}, {3, 1}, {1, 1}, {0, 0}}
		if !thorough {
			wins = []wcfg{{1, 0}, {2, 1}, {3, 0}, {0, 0}}
			fields = []string{"f", "i", "s"}
			if M == shippedM {
				// quick: the shipped buffer size only repeats a slice of the family (the small size reaches a superset of paths)
				wins = []wcfg{{2, 1}, {3, 0}}
				fields = []string{"f", "i"}
			}
		}
	}
	var out []Req
	for _, bd := range bounds {
		for _, w := range wins {
			for _, x := range fieldAggs(fields) {
				for _, ce := range []bool{false, true} {
					for _, tc := range []string{"", "_start", "_stop"} {
						for _, force := range []bool{false, true} {
							if force && !isSelector(x.agg) {
								continue // ForceAggregate does not change the path of a real aggregate
							}
							out = append(out, Req{A: bd[0], B: bd[1], Every: w.every, Off: w.off, Field: x.field, Agg: x.agg, CE: ce, TC: tc, Force: force})
						}
					}
				}
			}
		}
	}
	return out
}

// ---------------------------------------------------------------------------------------------------------
// calendar family: windows of whole calendar months over points at month / year / leap-day boundaries

// calT0 = 1999-12-01T00:00:00Z; calShardGroup: 80-day shard groups have a boundary at 2000-02-11, so the data
// (1999-11-30T23:59:59.999999999Z .. 2000-04-01T00:00:00.000000001Z) lies in exactly two shard groups and the
// February windows straddle them.
var calT0 = time.Date(1999, 12, 1, 0, 0, 0, 0, time.UTC).UnixNano()

const calShardGroup = 80 * 24 * time.Hour

func calRel(y int, m time.Month, d, h int, ns int64) int64 {
	return time.Date(y, m, d, h, 0, 0, 0, time.UTC).UnixNano() + ns - calT0
}

// calInstants: position 3i+j = boundary i + (j-1) ns for the boundaries 1999-12-01, 2000-01-01 (year), 2000-02-01,
// 2000-02-29 (leap day), 2000-03-01, 2000-04-01; positions 18..21 = noon of the 15th of Dec, Jan, Feb, Mar.
func calInstants() []int64 {
	var out []int64
	for _, b := range [][3]int{{1999, 12, 1}, {2000, 1, 1}, {2000, 2, 1}, {2000, 2, 29}, {2000, 3, 1}, {2000, 4, 1}} {
		for j := int64(-1); j <= 1; j++ {
			out = append(out, calRel(b[0], time.Month(b[1]), b[2], 0, j))
		}
	}
	for _, b := range [][2]int{{1999, 12}, {2000, 1}, {2000, 2}, {2000, 3}} {
		out = append(out, calRel(b[0], time.Month(b[1]), 15, 12, 0))
	}
	return out
}

// calSeries: 53 series: every non-empty subset of {b-1ns, b, b+1ns} per boundary b (42), all points, all boundary
// points, all b-1ns / b / b+1ns points, the mid-month points, and per period between two boundaries its first and last
// nanosecond.
func calSeries() []seriesDef {
	inst := calInstants()
	mk := func(name string, pos ...int) seriesDef {
		sort.Ints(pos)
		sd := seriesDef{Name: name}
		for _, k := range pos {
			sd.Offs = append(sd.Offs, inst[k])
			sd.Pos = append(sd.Pos, k)
		}
		sort.SliceStable(sd.Pos, func(i, j int) bool { return inst[sd.Pos[i]] < inst[sd.Pos[j]] })
		sort.Slice(sd.Offs, func(i, j int) bool { return sd.Offs[i] < sd.Offs[j] })
		return sd
	}
	var out []seriesDef
	for i := 0; i < 6; i++ {
		for m := 1; m < 8; m++ {
			var pos []int
			for j := 0; j < 3; j++ {
				if m>>j&1 == 1 {
					pos = append(pos, 3*i+j)
				}
			}
			out = append(out, mk(fmt.Sprintf("b%d-%d", i, m), pos...))
		}
	}
	for i := 0; i < 5; i++ {
		out = append(out, mk(fmt.Sprintf("span%d", i), 3*i+2, 3*(i+1)))
	}
	var all, edges, mid []int
	col := [3][]int{}
	for k := range inst {
		all = append(all, k)
		if k < 18 {
			edges = append(edges, k)
			col[k%3] = append(col[k%3], k)
		} else {
			mid = append(mid, k)
		}
	}
	out = append(out, mk("minus", col[0]...), mk("at", col[1]...), mk("plus", col[2]...), mk("mid", mid...), mk("edges", edges...), mk("all", all...))
	return out
}

// calBounds: query bounds [a,b) between instants of the dataset, narrow first.
func calBounds(thorough bool) [][2]int64 {
	l := []int64{
		calRel(1999, 12, 1, 0, -1), calRel(1999, 12, 1, 0, 0), calRel(2000, 1, 1, 0, 0), calRel(2000, 1, 1, 0, 1), calRel(2000, 1, 15, 12, 0),
		calRel(2000, 2, 29, 0, 0), calRel(2000, 3, 1, 0, 1), calRel(2000, 4, 1, 0, 0), calRel(2000, 4, 1, 0, 2),
	}
	var out [][2]int64
	if thorough {
		for i := range l {
			for j := i + 1; j < len(l); j++ {
				out = append(out, [2]int64{l[i], l[j]})
			}
		}
	} else {
		for _, ij := range [][2]int{{0, 8}, {1, 7}, {2, 6}, {3, 5}, {0, 3}, {1, 2}} {
			out = append(out, [2]int64{l[ij[0]], l[ij[1]]})
		}
	}
	sort.SliceStable(out, func(i, j int) bool { return out[i][1]-out[i][0] < out[j][1]-out[j][0] })
	return out
}

type calWin struct{ every, everyMo, off, offMo int64 }

const day = 24 * int64(time.Hour)

// calRequests: (1) the Flux reader with calendar-month windows (and one 30-day nanosecond window as a control);
// (2) reads.Store.WindowAggregate called directly with both request forms.
func calRequests(thorough bool, M int) []Req {
	bounds := calBounds(thorough)
	var wins []calWin
	for _, mo := range []int64{1, 2, 3, 12} {
		wins = append(wins, calWin{0, mo, 0, 0}, calWin{0, mo, 0, 1})
		if thorough {
			wins = append(wins, calWin{0, mo, 1, 0})
		}
		wins = append(wins, calWin{0, mo, 1, 1})
	}
	wins = append(wins, calWin{30 * day, 0, 0, 0})
	fields := []string{"f", "i", "s"}
	if thorough {
		fields = allFields
	}
	var out []Req
	for _, bd := range bounds {
		for _, w := range wins {
			for _, x := range fieldAggs(fields) {
				for _, ce := range []bool{false, true} {
					for _, tc := range []string{"", "_start", "_stop"} {
						for _, force := range []bool{false, true} {
							if force && !isSelector(x.agg) {
								continue
							}
							out = append(out, Req{A: bd[0], B: bd[1], Every: w.every, EveryMo: w.everyMo, Off: w.off, OffMo: w.offMo, Field: x.field, Agg: x.agg, CE: ce, TC: tc, Force: force})
						}
					}
				}
			}
		}
	}
	if M != shippedM {
		return out
	}
	// request forms (the store does not buffer by MaxPointsPerBlock windows here: run once, on the shipped size)
	type fw struct {
		form string
		w    calWin
	}
	var fws []fw
	for _, w := range []calWin{{30 * day, 0, 0, 0}, {30 * day, 0, 1, 0}, {7 * day, 0, 0, 0}, {0, 0, 0, 0}} {
		fws = append(fws, fw{"store-every", w}, fw{"store-window", w})
	}
	for _, mo := range []int64{1, 2, 3, 12} {
		fws = append(fws, fw{"store-window", calWin{0, mo, 0, 0}}, fw{"store-window", calWin{0, mo, 0, 1}}, fw{"store-window", calWin{0, mo, 1, 1}})
	}
	for _, bd := range bounds {
		for _, x := range fws {
			for _, fa := range fieldAggs(fields) {
				out = append(out, Req{A: bd[0], B: bd[1], Every: x.w.every, EveryMo: x.w.everyMo, Off: x.w.off, OffMo: x.w.offMo, Field: fa.field, Agg: fa.agg, Form: x.form})
			}
		}
	}
	return out
}

var aggTypes = map[string]datatypes.Aggregate_AggregateType{
	"count": datatypes.Aggregate_AggregateTypeCount, "sum": datatypes.Aggregate_AggregateTypeSum, "mean": datatypes.Aggregate_AggregateTypeMean,
	"min": datatypes.Aggregate_AggregateTypeMin, "max": datatypes.Aggregate_AggregateTypeMax,
	"first": datatypes.Aggregate_AggregateTypeFirst, "last": datatypes.Aggregate_AggregateTypeLast,
}

// storeWindow calls reads.Store.WindowAggregate (the call the Flux reader makes) directly, with the window in the form
// r.Form names, and drains every series cursor: one rec (Store=true) per (time, value) pair, times relative to t0.
func (h *harness) storeWindow(r Req) (map[string][]rec, int, error) {
	req := &datatypes.ReadWindowAggregateRequest{
		ReadSource: h.f.ReadSource(h.b),
		Range:      &datatypes.TimestampRange{Start: h.t0 + r.A, End: h.t0 + r.B},
		Predicate:  &datatypes.Predicate{Root: mini.TagEq("_field", r.Field)},
		Aggregate:  []*datatypes.Aggregate{{Type: aggTypes[r.Agg]}},
	}
	every := r.Every
	if r.inf() {
		every = math.MaxInt64
	}
	switch r.Form {
	case "store-every":
		if r.EveryMo > 0 || r.OffMo > 0 {
			return nil, 0, fmt.Errorf("harness: months cannot be expressed as WindowEvery")
		}
		req.WindowEvery, req.Offset = every, r.Off
	case "store-window":
		req.Window = &datatypes.Window{
			Every:  &datatypes.Duration{Nsecs: every, Months: r.EveryMo},
			Offset: &datatypes.Duration{Nsecs: r.Off, Months: r.OffMo},
		}
	default:
		return nil, 0, fmt.Errorf("harness: unknown request form %q", r.Form)
	}
	rs, err := h.f.Reads.WindowAggregate(context.Background(), req)
	if err != nil || rs == nil {
		return map[string][]rec{}, 0, err
	}
	defer rs.Close()
	out := map[string][]rec{}
	n := 0
	for rs.Next() {
		n++
		series := string(rs.Tags().Get([]byte("s")))
		_, pts, _, err := mini.Drain(rs.Cursor())
		if err != nil {
			return out, n, err
		}
		for _, p := range pts {
			if len(out[series]) > 64 {
				return out, n, errRunaway
			}
			out[series] = append(out[series], rec{Store: true, HasRow: true, T: p.T - h.t0, V: p.V})
		}
	}
	return out, n, rs.Err()
}

func judgeAny(t0 int64, r Req, raws []raw, obs []rec) []problem {
	if r.Form != "" {
		return judgeStore(t0, r, raws, obs)
	}
	return judge(t0, r, raws, obs)
}

// judgeStore: the series cursor of reads.Store.WindowAggregate must yield, in ascending window order, exactly one
// (time, value) pair per window that contains a raw row: value = the aggregate of the window's raw rows; time = the
// (unclipped) window stop for count/sum/mean and the time of a raw row carrying the value for the selectors. In the
// un-windowed form (every = MaxInt64) the time of count/sum/mean is not judged.
func judgeStore(t0 int64, r Req, raws []raw, obs []rec) []problem {
	var probs []problem
	seen := map[string]bool{}
	bad := func(clause, f string, args ...any) {
		if !seen[clause] {
			seen[clause] = true
			probs = append(probs, problem{clause, fmt.Sprintf(f, args...)})
		}
	}
	wins := expWindows(t0, raws, r, false)
	if len(obs) != len(wins) {
		cl := "missing-window"
		if len(obs) > len(wins) {
			cl = "unexpected-window"
		}
		bad(cl, "the cursor yields %d pairs %s, expected one per non-empty window %s", len(obs), fmtRecs(obs), fmtWins(wins))
		return probs
	}
	for i, w := range wins {
		o := obs[i]
		want := aggregate(r.Agg, w.Rows)
		if !eqVal(o.V, want) {
			bad("wrong-value", "window [%s,%s) with raw rows %s: the cursor yields %s, expected %s = %v (all pairs %s)", ft(w.US), ft(w.UE), fmtRaws(w.Rows), o, r.Agg, want, fmtRecs(obs))
			continue
		}
		if isSelector(r.Agg) {
			found := false
			for _, p := range w.Rows {
				if p.T == o.T && eqVal(p.V, o.V) {
					found = true
				}
			}
			if !found {
				bad("selector-time", "window [%s,%s) with raw rows %s: the selected pair %s is not one of them", ft(w.US), ft(w.UE), fmtRaws(w.Rows), o)
			}
		} else if !r.inf() && o.T != w.UE {
			bad("window-time", "window [%s,%s) with raw rows %s: the cursor yields %s, expected the window stop as its time", ft(w.US), ft(w.UE), fmtRaws(w.Rows), o)
		}
	}
	return probs
}

// ---------------------------------------------------------------------------------------------------------
// fixture

type harness struct {
	ds   Dataset
	t0   int64
	f    *mini.Fixture
	b    mini.Bucket
	rd   query.StorageReader
	sers []seriesDef
	byN  map[string]*seriesDef
	raws map[string]map[string][]raw // "a|b|field" -> series -> raw rows of the filter read
}

// load builds the dataset; a transient fixture failure (seen once under extreme machine load: "snapshot in progress")
// is retried on a fresh fixture.
func load(ds Dataset) (h *harness, err error) {
	for attempt := 0; attempt < 3; attempt++ {
		if h, err = load1(ds); err == nil {
			return h, nil
		}
	}
	return nil, err
}

func load1(ds Dataset) (*harness, error) {
	f, err := mini.Open(mini.Options{})
	if err != nil {
		return nil, err
	}
	var sgd time.Duration
	if ds.Kind == "cal" {
		sgd = calShardGroup
	}
	b, err := f.CreateBucket("db0", sgd)
	if err != nil {
		f.Close()
		return nil, err
	}
	absT0 = 0
	if ds.Kind == "cal" {
		absT0 = ds.T0()
	}
	h := &harness{ds: ds, t0: ds.T0(), f: f, b: b, sers: ds.series(), byN: map[string]*seriesDef{}, raws: map[string]map[string][]raw{}}
	for i := range h.sers {
		h.byN[h.sers[i].Name] = &h.sers[i]
	}
	batch := func(sel func(off int64) bool) []mini.Point {
		var pts []mini.Point
		for _, sd := range h.sers {
			for j, off := range sd.Offs {
				if !sel(off) {
					continue
				}
				fields := map[string]any{}
				for _, fn := range allFields {
					fields[fn] = valueOf(fn, sd.Pos[j])
				}
				pts = append(pts, mini.Point{M: "m", Tags: mini.T("s", sd.Name), Fields: fields, T: h.t0 + off})
			}
		}
		return pts
	}
	type step struct {
		pts  []mini.Point
		snap bool
	}
	var steps []step
	switch ds.Layout {
	case "cache":
		steps = []step{{batch(func(int64) bool { return true }), false}}
	case "tsm":
		steps = []step{{batch(func(int64) bool { return true }), true}}
	case "mixed":
		steps = []step{{batch(func(o int64) bool { return o%2 == 0 }), true}, {batch(func(o int64) bool { return o%2 != 0 }), false}}
	default:
		f.Close()
		return nil, fmt.Errorf("unknown layout %q", ds.Layout)
	}
	for _, st := range steps {
		if len(st.pts) > 0 {
			if err := f.Write(b, st.pts); err != nil {
				f.Close()
				return nil, fmt.Errorf("write: %w", err)
			}
		}
		if st.snap {
			if err := f.SnapshotAll(); err != nil {
				f.Close()
				return nil, fmt.Errorf("snapshot: %w", err)
			}
		}
	}
	if ds.Kind == "cal" {
		if n := len(f.ShardIDs(b)); n != 2 {
			f.Close()
			return nil, fmt.Errorf("calendar dataset: %d shard groups, expected 2 (80-day groups with a boundary at 2000-02-11)", n)
		}
	}
	h.rd = storageflux.NewReader(f.Reads)
	return h, nil
}

func (h *harness) close() { h.f.Close() }

// ---------------------------------------------------------------------------------------------------------
// reading Flux tables

type raw struct {
	T int64
	V any
}

// rec is one observed row, or (HasRow=false) one table without rows.
type rec struct {
	KS, KE   int64 // table key _start/_stop
	HasRow   bool
	S, E     int64 // row's _start/_stop columns
	HasTime  bool  // the table has a _time column
	TimeNull bool
	T        int64
	ValNull  bool
	V        any
	Store    bool // a (time, value) pair of a reads.Store cursor (request forms family), not a table row
}

// absT0 is 0 for the nanosecond-slot datasets (times are printed as offsets from T0) and the T0 of the loaded
// calendar dataset otherwise (times are printed as UTC dates). Set by load1; a worker has one dataset at a time.
var absT0 int64

// ft formats a time that is relative to T0.
func ft(t int64) string {
	if absT0 == 0 {
		return fmt.Sprint(t)
	}
	if t == nullTime {
		return "null"
	}
	return time.Unix(0, absT0+t).UTC().Format(time.RFC3339Nano)
}

func (r rec) String() string {
	if r.Store {
		return fmt.Sprintf("{%s: %v}", ft(r.T), r.V)
	}
	if !r.HasRow {
		return fmt.Sprintf("{empty table key=[%s,%s)}", ft(r.KS), ft(r.KE))
	}
	v := "null"
	if !r.ValNull {
		v = fmt.Sprintf("%v", r.V)
	}
	t := "-"
	if r.HasTime {
		t = "null"
		if !r.TimeNull {
			t = ft(r.T)
		}
	}
	return fmt.Sprintf("{key=[%s,%s) _start=%s _stop=%s _time=%s _value=%s}", ft(r.KS), ft(r.KE), ft(r.S), ft(r.E), t, v)
}

const nullTime = math.MinInt64

// errRunaway: a series produced far more rows than there are windows intersecting the bounds (readTables aborts the
// request instead of waiting for a reader that does not terminate).
var errRunaway = errors.New("runaway: a series produced more than 4x+16 as many rows/tables/buffers as there are windows intersecting the bounds; aborted (the reader does not terminate?)")

func colValue(cr flux.ColReader, j, i int) (v any, null bool) {
	switch cr.Cols()[j].Type {
	case flux.TFloat:
		a := cr.Floats(j)
		if a.IsNull(i) {
			return nil, true
		}
		return a.Value(i), false
	case flux.TInt:
		a := cr.Ints(j)
		if a.IsNull(i) {
			return nil, true
		}
		return a.Value(i), false
	case flux.TUInt:
		a := cr.UInts(j)
		if a.IsNull(i) {
			return nil, true
		}
		return a.Value(i), false
	case flux.TString:
		a := cr.Strings(j)
		if a.IsNull(i) {
			return nil, true
		}
		return strings.Clone(a.Value(i)), false
	case flux.TBool:
		a := cr.Bools(j)
		if a.IsNull(i) {
			return nil, true
		}
		return a.Value(i), false
	case flux.TTime:
		a := cr.Times(j)
		if a.IsNull(i) {
			return nil, true
		}
		return a.Value(i), false
	}
	return nil, true
}

// readTables consumes every table of the iterator (each table completely, inside the callback, as the reader
// requires) and groups the rows by the series tag `s` of the table key. Times are made relative to t0.
func readTables(ti query.TableIterator, t0 int64, maxPerSeries int) (map[string][]rec, int, error) {
	out := map[string][]rec{}
	ntables := 0
	rel := func(t int64) int64 {
		if t == nullTime {
			return t
		}
		return t - t0
	}
	err := ti.Do(func(tbl flux.Table) error {
		ntables++
		key := tbl.Key()
		ks, ke, series := int64(nullTime), int64(nullTime), ""
		for j, c := range key.Cols() {
			switch c.Label {
			case execute.DefaultStartColLabel:
				ks = int64(key.ValueTime(j))
			case execute.DefaultStopColLabel:
				ke = int64(key.ValueTime(j))
			case "s":
				series = key.ValueString(j)
			}
		}
		cols := tbl.Cols()
		si, ei := execute.ColIdx(execute.DefaultStartColLabel, cols), execute.ColIdx(execute.DefaultStopColLabel, cols)
		tci, vi := execute.ColIdx(execute.DefaultTimeColLabel, cols), execute.ColIdx(execute.DefaultValueColLabel, cols)
		n, nbuf := 0, 0
		err := tbl.Do(func(cr flux.ColReader) error {
			if nbuf++; nbuf > maxPerSeries {
				return errRunaway // also catches an endless stream of EMPTY buffers
			}
			for i := 0; i < cr.Len(); i++ {
				n++
				if len(out[series]) > maxPerSeries {
					return errRunaway
				}
				r := rec{KS: rel(ks), KE: rel(ke), HasRow: true, HasTime: tci >= 0, S: nullTime, E: nullTime, ValNull: true}
				if si >= 0 {
					if v, null := colValue(cr, si, i); !null {
						r.S = rel(v.(int64))
					}
				}
				if ei >= 0 {
					if v, null := colValue(cr, ei, i); !null {
						r.E = rel(v.(int64))
					}
				}
				if tci >= 0 {
					if v, null := colValue(cr, tci, i); !null {
						r.T = rel(v.(int64))
					} else {
						r.TimeNull = true
					}
				}
				if vi >= 0 {
					r.V, r.ValNull = colValue(cr, vi, i)
				}
				out[series] = append(out[series], r)
			}
			return nil
		})
		if err != nil {
			return err
		}
		if n == 0 {
			out[series] = append(out[series], rec{KS: rel(ks), KE: rel(ke)})
		}
		if len(out[series]) > maxPerSeries {
			return errRunaway
		}
		return nil
	})
	return out, ntables, err
}

func dur(ns int64) flux.Duration {
	if ns == 0 {
		ns = math.MaxInt64
	}
	return flux.ConvertDuration(time.Duration(ns))
}

func (h *harness) filterSpec(a, b int64, field string) query.ReadFilterSpec {
	return query.ReadFilterSpec{
		OrganizationID: h.b.OrgID, BucketID: h.b.ID,
		Bounds:    execute.Bounds{Start: values.Time(h.t0 + a), Stop: values.Time(h.t0 + b)},
		Predicate: &datatypes.Predicate{Root: mini.TagEq("_field", field)},
	}
}

// filter returns (cached) the raw rows per series of a ReadFilter over the same bounds through the same reader,
// always read with the shipped buffer size. Rows are sorted by time (stable) so first/last are well defined.
func (h *harness) filter(c *vlib.Ctx, a, b int64, field string) (map[string][]raw, error) {
	k := fmt.Sprintf("%d|%d|%s", a, b, field)
	if m, ok := h.raws[k]; ok {
		return m, nil
	}
	old := reads.MaxPointsPerBlock
	reads.MaxPointsPerBlock = shippedM
	defer func() { reads.MaxPointsPerBlock = old }()
	ti, err := h.rd.ReadFilter(context.Background(), h.filterSpec(a, b, field), &memory.ResourceAllocator{})
	if err != nil {
		return nil, err
	}
	recs, _, err := readTables(ti, h.t0, int(b-a)+16)
	if err != nil {
		return nil, err
	}
	m := map[string][]raw{}
	for s, rs := range recs {
		for _, r := range rs {
			if r.HasRow && !r.TimeNull && !r.ValNull {
				m[s] = append(m[s], raw{r.T, r.V})
			}
		}
		sort.SliceStable(m[s], func(i, j int) bool { return m[s][i].T < m[s][j].T })
	}
	// diagnostics only (C21 owns the filter read): does the filter read agree with what was written?
	for _, sd := range h.sers {
		var want []raw
		for j, off := range sd.Offs {
			if off >= a && off < b {
				want = append(want, raw{off, valueOf(field, sd.Pos[j])})
			}
		}
		if fmt.Sprint(want) != fmt.Sprint(m[sd.Name]) {
			c.Extra("filter_reads_differing_from_written_points", 1)
		}
	}
	h.raws[k] = m
	return m, nil
}

func (h *harness) window(r Req) (map[string][]rec, int, error) {
	if r.Form != "" {
		return h.storeWindow(r)
	}
	every, offset := dur(r.Every), flux.ConvertDuration(time.Duration(r.Off))
	if r.EveryMo > 0 {
		every = values.MakeDuration(0, r.EveryMo, false)
	}
	if r.OffMo > 0 {
		offset = values.MakeDuration(r.Off, r.OffMo, false)
	}
	spec := query.ReadWindowAggregateSpec{
		ReadFilterSpec: h.filterSpec(r.A, r.B, r.Field),
		Window:         execute.Window{Every: every, Period: every, Offset: offset},
		Aggregates:     []plan.ProcedureKind{plan.ProcedureKind(r.Agg)},
		CreateEmpty:    r.CE,
		TimeColumn:     r.TC,
		ForceAggregate: r.Force,
	}
	ti, err := h.rd.ReadWindowAggregate(context.Background(), spec, &memory.ResourceAllocator{})
	if err != nil {
		return nil, 0, err
	}
	nwin := r.B - r.A + 2
	if r.Every > 0 {
		nwin = (r.B-r.A)/r.Every + 2
	} else if r.EveryMo > 0 {
		nwin = (r.B-r.A)/(r.EveryMo*28*24*int64(time.Hour)) + 2
	} else if absT0 != 0 {
		nwin = 1
	}
	return readTables(ti, h.t0, int(4*nwin+16))
}

// ---------------------------------------------------------------------------------------------------------
// reference model

type win struct {
	S, E   int64 // window clipped to the bounds
	US, UE int64 // the unclipped window
	Rows   []raw
}

func floorDiv(a, b int64) int64 {
	q := a / b
	if a%b != 0 && (a < 0) != (b < 0) {
		q--
	}
	return q
}

// monthWindow returns the calendar window [start, stop) that contains the absolute time abs: window i starts at
// 1970-01-01T00:00:00Z + (offMo + i*everyMo) months + offNs (UTC, time.Date arithmetic).
func monthWindow(abs, everyMo, offMo, offNs int64) (int64, int64) {
	start := func(i int64) int64 {
		return time.Date(1970, time.Month(1+offMo+i*everyMo), 1, 0, 0, 0, 0, time.UTC).UnixNano() + offNs
	}
	tm := time.Unix(0, abs).UTC()
	i := floorDiv(int64(tm.Year()-1970)*12+int64(tm.Month()-1)-offMo, everyMo)
	for start(i) > abs {
		i--
	}
	for start(i+1) <= abs {
		i++
	}
	return start(i), start(i + 1)
}

// windowOf returns the unclipped window of the request that contains t (times relative to t0; the absolute alignment
// of nanosecond windows is that of offset + k*every from the epoch).
func windowOf(t0 int64, r Req, t int64) (ws, we int64) {
	if r.EveryMo > 0 {
		s, e := monthWindow(t0+t, r.EveryMo, r.OffMo, r.Off)
		return s - t0, e - t0
	}
	ws = r.Off + floorDiv(t0+t-r.Off, r.Every)*r.Every - t0
	return ws, ws + r.Every
}

// expWindows lists the expected windows (times relative to t0) in ascending order.
func expWindows(t0 int64, raws []raw, r Req, ce bool) []win {
	a, b := r.A, r.B
	if r.inf() { // one window: the bounds
		if len(raws) == 0 && !ce {
			return nil
		}
		return []win{{S: a, E: b, US: a, UE: b, Rows: raws}}
	}
	byStart := map[int64]*win{}
	var starts []int64
	add := func(ws, we int64) *win {
		w, ok := byStart[ws]
		if !ok {
			w = &win{S: max(ws, a), E: min(we, b), US: ws, UE: we}
			byStart[ws] = w
			starts = append(starts, ws)
		}
		return w
	}
	if ce {
		for ws, we := windowOf(t0, r, a); ws < b; ws, we = windowOf(t0, r, we) {
			add(ws, we)
		}
	}
	for _, p := range raws {
		if p.T < a || p.T >= b {
			continue // the filter read is bounded; defensive
		}
		w := add(windowOf(t0, r, p.T))
		w.Rows = append(w.Rows, p)
	}
	sort.Slice(starts, func(i, j int) bool { return starts[i] < starts[j] })
	out := make([]win, 0, len(starts))
	for _, s := range starts {
		out = append(out, *byStart[s])
	}
	return out
}

func num(v any) (float64, bool) {
	switch x := v.(type) {
	case float64:
		return x, true
	case int64:
		return float64(x), true
	case uint64:
		return float64(x), true
	}
	return 0, false
}

// aggregate of a non-empty, time-ordered row list.
func aggregate(agg string, rows []raw) any {
	switch agg {
	case "count":
		return int64(len(rows))
	case "first":
		return rows[0].V
	case "last":
		return rows[len(rows)-1].V
	}
	var sum float64
	mn, mx := math.Inf(1), math.Inf(-1)
	for _, p := range rows {
		f, _ := num(p.V)
		sum += f
		mn, mx = math.Min(mn, f), math.Max(mx, f)
	}
	switch agg {
	case "sum":
		return sum
	case "min":
		return mn
	case "max":
		return mx
	default:
		return sum / float64(len(rows))
	}
}

func eqVal(got, want any) bool {
	gf, gn := num(got)
	wf, wn := num(want)
	if gn || wn {
		return gn && wn && math.Abs(gf-wf) <= 1e-9*math.Max(1, math.Abs(wf))
	}
	return got == want
}

type problem struct {
	clause string
	detail string
}

// judge compares the observed rows of one series with the reference. a, b relative to t0.
func judge(t0 int64, r Req, raws []raw, obs []rec) []problem {
	var probs []problem
	seenClause := map[string]bool{}
	bad := func(clause, f string, args ...any) {
		if !seenClause[clause] {
			seenClause[clause] = true
			probs = append(probs, problem{clause, fmt.Sprintf(f, args...)})
		}
	}
	sel := isSelector(r.Agg)
	if len(raws) == 0 {
		// no raw row in the bounds: only a value out of nothing is an alarm
		for _, o := range obs {
			if o.HasRow && !o.ValNull && !(r.Agg == "count" && eqVal(o.V, int64(0))) {
				bad("value-without-raw-rows", "row %s but the filter read returns no row for the series in the bounds", o)
			}
		}
		return probs
	}
	wins := expWindows(t0, raws, r, r.CE)
	type wkey struct{ s, e int64 }
	idx := map[wkey]int{}
	for i, w := range wins {
		switch r.TC {
		case "":
			idx[wkey{w.S, w.E}] = i
		case execute.DefaultStartColLabel:
			idx[wkey{w.S, 0}] = i
		default:
			idx[wkey{w.E, 0}] = i
		}
	}
	seen := make([]int, len(wins))
	for _, o := range obs {
		var k wkey
		if r.TC == "" {
			k = wkey{o.KS, o.KE}
		} else {
			if !o.HasRow {
				continue // a table without rows says nothing in by-time mode
			}
			if !o.HasTime || o.TimeNull {
				bad("null-time", "row %s has no _time although timeColumn=%s", o, r.TC)
				continue
			}
			k = wkey{o.T, 0}
		}
		i, ok := idx[k]
		if !ok {
			bad("unexpected-window", "%s is not a window that should be reported (expected windows %s)", o, fmtWins(wins))
			continue
		}
		w := wins[i]
		seen[i]++
		if seen[i] > 1 {
			bad("duplicate-window", "window [%s,%s) reported %d times (%s)", ft(w.S), ft(w.E), seen[i], o)
			continue
		}
		if o.HasRow {
			if r.TC == "" {
				if o.S != w.S || o.E != w.E {
					bad("row-start-stop", "row %s: _start/_stop differ from the clipped window [%s,%s)", o, ft(w.S), ft(w.E))
				}
			} else {
				okB := func(s, e int64) bool { return (s == r.A && e == r.B) || (s == w.S && e == w.E) }
				if !okB(o.S, o.E) || !okB(o.KS, o.KE) {
					bad("row-start-stop", "row %s: _start/_stop are neither the query bounds [%s,%s) nor the clipped window [%s,%s)", o, ft(r.A), ft(r.B), ft(w.S), ft(w.E))
				}
			}
		}
		if len(w.Rows) == 0 {
			switch {
			case !sel:
				if !o.HasRow {
					bad("empty-window-value", "empty window [%s,%s): table without a row, expected a row with %s", ft(w.S), ft(w.E), emptyVal(r.Agg))
				} else if r.Agg == "count" {
					if o.ValNull || !eqVal(o.V, int64(0)) {
						bad("empty-window-value", "empty window [%s,%s): %s, expected count 0", ft(w.S), ft(w.E), o)
					}
				} else if !o.ValNull {
					bad("empty-window-value", "empty window [%s,%s): %s, expected null", ft(w.S), ft(w.E), o)
				}
			default:
				if o.HasRow && !o.ValNull {
					bad("empty-window-value", "empty window [%s,%s): selector row %s carries a value", ft(w.S), ft(w.E), o)
				}
			}
			continue
		}
		want := aggregate(r.Agg, w.Rows)
		if !o.HasRow || o.ValNull {
			bad("wrong-value", "window [%s,%s) with raw rows %s: %s, expected %v", ft(w.S), ft(w.E), fmtRaws(w.Rows), o, want)
			continue
		}
		if !eqVal(o.V, want) {
			bad("wrong-value", "window [%s,%s) with raw rows %s: %s, expected %s = %v", ft(w.S), ft(w.E), fmtRaws(w.Rows), o, r.Agg, want)
			continue
		}
		if sel && r.TC == "" && o.HasTime && !o.TimeNull {
			found := false
			for _, p := range w.Rows {
				if p.T == o.T && eqVal(p.V, o.V) {
					found = true
				}
			}
			if !found {
				bad("selector-time", "window [%s,%s) with raw rows %s: selected row %s is not one of them", ft(w.S), ft(w.E), fmtRaws(w.Rows), o)
			}
		}
	}
	for i, w := range wins {
		if seen[i] > 0 {
			continue
		}
		switch {
		case len(w.Rows) > 0:
			bad("missing-window", "window [%s,%s) with raw rows %s is not reported (observed %s)", ft(w.S), ft(w.E), fmtRaws(w.Rows), fmtRecs(obs))
		case !sel || r.Force || r.TC == "":
			bad("missing-empty-window", "createEmpty: empty window [%s,%s) is not reported (observed %s; expected windows %s)", ft(w.S), ft(w.E), fmtRecs(obs), fmtWins(wins))
		}
	}
	return probs
}

func emptyVal(agg string) string {
	if agg == "count" {
		return "0"
	}
	return "null"
}

func fmtRaws(rs []raw) string {
	var sb strings.Builder
	sb.WriteByte('[')
	for i, p := range rs {
		if i > 0 {
			sb.WriteByte(' ')
		}
		fmt.Fprintf(&sb, "%s:%v", ft(p.T), p.V)
	}
	sb.WriteByte(']')
	return sb.String()
}

func fmtWins(ws []win) string {
	var sb strings.Builder
	sb.WriteByte('[')
	for i, w := range ws {
		if i > 0 {
			sb.WriteByte(' ')
		}
		if i >= 12 {
			fmt.Fprintf(&sb, "… %d more", len(ws)-i)
			break
		}
		fmt.Fprintf(&sb, "[%s,%s)x%d", ft(w.S), ft(w.E), len(w.Rows))
	}
	sb.WriteByte(']')
	return sb.String()
}

func fmtRecs(rs []rec) string {
	var sb strings.Builder
	sb.WriteByte('[')
	for i, r := range rs {
		if i > 0 {
			sb.WriteByte(' ')
		}
		if i >= 12 {
			fmt.Fprintf(&sb, "… %d more", len(rs)-i)
			break
		}
		sb.WriteString(r.String())
	}
	sb.WriteByte(']')
	return sb.String()
}

// ---------------------------------------------------------------------------------------------------------
// execution

// sigOf: violated clause / API / table implementation / the request features that select code paths. The buffer size
// and the concrete window are not part of the class (the summary of the first case names them).
func sigOf(r Req, M int, clause string) string {
	if r.Form != "" {
		kind, ev := "aggregate", "nanoseconds"
		if isSelector(r.Agg) {
			kind = "selector"
		}
		if r.inf() {
			ev = "inf"
		} else if r.EveryMo > 0 {
			ev = "months"
		}
		return vlib.JoinSig("Store.WindowAggregate", clause, "form="+r.Form, kind, "every="+ev)
	}
	if clause == "runaway" {
		// non-termination does not depend on the window or the time column: one class per table implementation
		return vlib.JoinSig("ReadWindowAggregate", clause, impl(r), fmt.Sprintf("createEmpty=%v", r.CE))
	}
	tc := "none"
	if r.TC != "" {
		tc = "set"
	}
	parts := []string{"ReadWindowAggregate", clause, impl(r), "timeColumn=" + tc, fmt.Sprintf("createEmpty=%v", r.CE)}
	if r.inf() {
		parts = append(parts, "every=inf")
	}
	// calendar-month windows share the classes of the nanosecond windows: the same table implementations serve both
	return vlib.JoinSig(parts...)
}

type result struct {
	got      map[string][]rec
	ntables  int
	raws     map[string][]raw
	err      error
	panicked string
	hung     bool
}

// hangTimeout: a request of the family takes milliseconds. A reader that spins without handing out rows cannot be
// seen by readTables, so the request runs under a watchdog; after a hang the worker stops (the spinning goroutine
// cannot be killed and still owns the fixture).
const hangTimeout = 45 * time.Second

func (h *harness) exec(c *vlib.Ctx, M int, r Req) (res result) {
	res.raws, res.err = h.filter(c, r.A, r.B, r.Field)
	if res.err != nil {
		res.err = fmt.Errorf("ReadFilter: %w", res.err)
		return
	}
	old := reads.MaxPointsPerBlock
	reads.MaxPointsPerBlock = M
	ch := make(chan result, 1)
	go func() {
		var rr result
		p, d := vlib.Guard(func() { rr.got, rr.ntables, rr.err = h.window(r) })
		if p {
			rr.panicked = d
		}
		ch <- rr
	}()
	select {
	case rr := <-ch:
		reads.MaxPointsPerBlock = old
		rr.raws = res.raws
		return rr
	case <-time.After(hangTimeout):
		res.hung = true
		return
	}
}

func bucketN(n int) string {
	switch {
	case n <= 2:
		return fmt.Sprint(n)
	case n <= 4:
		return "3-4"
	case n <= 9:
		return "5-9"
	case n <= 1000:
		return "10-1000"
	}
	return ">1000"
}

// runCase runs and judges one request; it returns false when the worker must stop (a request hung).
func (h *harness) runCase(c *vlib.Ctx, M int, r Req) bool {
	res := h.exec(c, M, r)
	n := int64(len(h.sers))
	c.Eval(n)
	switch {
	case res.hung:
		c.Violation(vlib.JoinSig("ReadWindowAggregate", "hang", impl(r), fmt.Sprintf("createEmpty=%v", r.CE)), fmt.Sprintf("%s on dataset %+v (MaxPointsPerBlock=%d) did not return within %v", r, h.ds, M, hangTimeout), Case{h.ds, M, r, ""})
		c.OutcomeN("hang", n)
		return false
	case res.panicked != "":
		fr := res.panicked[strings.LastIndex(res.panicked, "@ ")+2:]
		c.Violation(sigOf(r, M, "panic/"+fr), fmt.Sprintf("%s on dataset %+v (MaxPointsPerBlock=%d): %s", r, h.ds, M, res.panicked), Case{h.ds, M, r, ""})
		c.OutcomeN("panic", n)
		return true
	case res.err != nil:
		cl := "error"
		if errors.Is(res.err, errRunaway) {
			cl = "runaway"
		}
		c.Violation(sigOf(r, M, cl), fmt.Sprintf("%s on dataset %+v (MaxPointsPerBlock=%d) returned error: %v", r, h.ds, M, res.err), Case{h.ds, M, r, ""})
		c.OutcomeN(cl, n)
		return true
	}
	outc := map[string]int64{}
	var nontrivial int64
	im := impl(r)
	for i := range h.sers {
		sd := &h.sers[i]
		raws, obs := res.raws[sd.Name], res.got[sd.Name]
		if len(raws) > 0 {
			nontrivial++
		}
		nulls, rows := 0, 0
		for _, o := range obs {
			if !o.HasRow || o.ValNull || (r.Agg == "count" && eqVal(o.V, int64(0))) {
				nulls++
			} else {
				rows++
			}
		}
		outc[fmt.Sprintf("%s/timeColumn=%v/value-rows=%s/empty-windows=%s", im, r.TC != "", bucketN(rows), bucketN(nulls))]++
		probs := judgeAny(h.t0, r, raws, obs)
		for _, p := range probs {
			c.Violation(sigOf(r, M, p.clause), fmt.Sprintf("%s, series s=%s with raw rows %s (dataset %+v, MaxPointsPerBlock=%d): %s", r, sd.Name, fmtRaws(raws), h.ds, M, p.detail), Case{h.ds, M, r, sd.Name})
		}
		if len(raws) >= 2 && len(obs) >= 3 && nulls > 0 && c.WantSample() {
			c.Sample(map[string]any{"case": Case{h.ds, M, r, sd.Name}, "raw_rows": fmtRaws(raws), "observed": fmtRecs(obs)})
		}
	}
	for s := range res.got {
		if h.byN[s] == nil {
			c.Violation(sigOf(r, M, "unknown-series"), fmt.Sprintf("%s: tables for series s=%q which was never written", r, s), Case{h.ds, M, r, s})
		}
	}
	c.NontrivialN(nontrivial)
	for k, v := range outc {
		c.OutcomeN(k, v)
	}
	return true
}

func TestCheck(t *testing.T) {
	vlib.Main(t, &vlib.Check{
		ID: "C41", Level: "exploration",
		Rule: "datasets x buffer sizes x requests, complete product within the bounds; one CASE = one (series, request) pair. " +
			"Mask datasets: one series per non-empty subset of N adjacent nanosecond slots, five fields each (f float, i integer, u unsigned, s string, b boolean; value pattern 3,-2,0,3,5,-2,1,4 so min/max/first/last differ and ties occur). " +
			"quick: N=6 (63 series) straddling the 1h shard-group boundary, even slots in TSM + odd slots in cache; thorough: that with N=8 (255 series) + N=7 (127 series) in a single shard, all in TSM. " +
			"Requests per mask dataset: bounds = every [a,b) with 0<=a<b<=N (21 / 36 / 28) x window (every,offset) in {(1,0),(2,0),(2,1),(3,0),(3,1),(1,1),(inf,0)} (quick: (1,0),(2,1),(3,0),(inf,0)); period=every x (field,aggregate) in {f,i,u}x{count,sum,mean,min,max,first,last} + {s,b}x{count,first,last} (quick: fields f,i,s) x createEmpty {f,t} x timeColumn {none,_start,_stop} x forceAggregate {f,t} (t only for selectors), " +
			"each run with reads.MaxPointsPerBlock=3 (const->var overlay: every table-buffer / cursor-array boundary is crossed with <=8 points) and with the shipped 1000 (thorough: on the N=8 dataset; quick: windows (2,1),(3,0) and fields f,i only). " +
			"Structured dataset 'big' on the shipped buffer size: 3 series with points at {0}, {0,999,1000,1001}, {5,1999,2000,2400}, every=1ns, bounds [0,1000),[0,1001),[0,2500) (quick: the last two), fields f,i,s (quick f,s), same aggregate/createEmpty/timeColumn/forceAggregate product (up to 2500 windows per series). " +
			"Calendar dataset 'cal' (visited first): 53 series over the instants b-1ns, b, b+1ns of the boundaries b = 1999-12-01, 2000-01-01 (year), 2000-02-01, 2000-02-29 (leap day), 2000-03-01, 2000-04-01 and noon of the 15th of Dec..Mar (every non-empty subset of {b-1ns,b,b+1ns} per boundary, first+last nanosecond of every period between two boundaries, all b-1ns / all b / all b+1ns, the mid-month points, all boundary points, all points), 80-day shard groups so that the data lies in exactly two shard groups (boundary 2000-02-11, inside the February windows), boundary instants in TSM and the +-1ns neighbours in the cache (thorough also: everything in TSM). " +
			"Requests on it through the Flux reader: bounds = 6 pairs (thorough: all 36 pairs) of {1999-12-01-1ns, 1999-12-01, 2000-01-01, 2000-01-01+1ns, 2000-01-15T12, 2000-02-29, 2000-03-01+1ns, 2000-04-01, 2000-04-01+2ns} x window every in {1mo,2mo,3mo,12mo} (Every.Nsecs=0, Months>0; a mix of months and nanoseconds in `every` is rejected by interval.NewWindow) x offset in {0, 1ns, 1mo+1ns} (thorough also 1mo) + the control window every=720h x the same (field,aggregate) x createEmpty x timeColumn x forceAggregate product, shipped buffer size (thorough: also 3); windows computed with time.Date (UTC) month arithmetic. " +
			"Request forms on the same dataset: reads.Store.WindowAggregate (the call the Flux reader makes) is called directly with the window given as WindowEvery/Offset int64 and as a Window message, every in {720h, 720h offset 1ns, 168h, MaxInt64}, plus calendar months {1,2,3,12}mo x offset {0, 1ns, 1mo+1ns} as a Window message, x the same bounds x (field,aggregate): every series cursor must yield one (time,value) pair per non-empty window, ascending, value = aggregate of the raw rows, time = unclipped window stop (count/sum/mean; not judged for MaxInt64) or the time of a raw row carrying the value (selectors). " +
			"Oracle: reference computed from the rows ReadFilter returns through the same reader for the same bounds (see file header). non-trivial = (series, request) pairs whose series has >=1 raw row in the bounds (distinct by construction).",
		Assumptions: []string{
			"the value oracle is relative to the filter read through the same reader, as the statement defines it (C21 checks the filter read against the written points; the evidence counter filter_reads_differing_from_written_points is diagnostics only)",
			"a series without a raw row in the bounds yields no table in Flux (no input table, no output table), also with createEmpty; only a non-null value for such a series is reported",
			"selectors (min,max,first,last) on an EMPTY window under createEmpty: the window must be represented by an empty table or a null row when ForceAggregate is set or when there is no time column; with a time column and without ForceAggregate it may also be absent (the Flux pipeline being replaced, window |> selector |> duplicate |> window(every: inf), drops empty selector tables). Aggregates (count,sum,mean) must report every empty window under createEmpty with null (count: 0)",
			"with a time column the row's _start/_stop may be the query bounds (Flux aggregateWindow semantics) or the clipped window; _time must be the clipped window start/stop",
			"order of rows/tables and column types are not judged; values are compared numerically (1e-9 relative tolerance for mean)",
			"reads.MaxPointsPerBlock is turned from a constant into a variable by the build overlay (c41/shim.json); the code uses it only as a size. Findings that appear only with the small size are confirmed by the 'big' family on the shipped size where reachable",
			"window (every,offset) pairs use period=every and non-negative offsets, the only form the planner pushes down (isPushableWindow; calendar-month durations are pushed down too)",
				"calendar-month windows: window i is [1970-01-01 + (offsetMonths + i*every) months + offsetNs, next start) in UTC (time.Date arithmetic; window starts are on day 1, so no day clamping is involved). Violations in the calendar family use the same class signatures as the nanosecond families (the table implementations are the same), so a known finding of a class also covers its calendar-month instances",
				"the request-forms family judges the reads.Store cursor the Flux tables are built from (WindowEvery is the form other storage clients send): its (time,value) convention - window stop for count/sum/mean, point time for selectors, no pair for an empty window - is what storage/flux consumes; classes Store.WindowAggregate/...",
		},
		QuickBudgetS: 70, ThoroughBudgetS: 780,
		Run: func(c *vlib.Ctx) {
			if reads.MaxPointsPerBlock != shippedM {
				c.HarnessError(fmt.Sprintf("reads.MaxPointsPerBlock is %d at start, expected the shipped value %d", reads.MaxPointsPerBlock, shippedM))
				return
			}
			defer func() { reads.MaxPointsPerBlock = shippedM }()
			defer debug.SetGCPercent(debug.SetGCPercent(400)) // small live heap, very many short-lived arrow buffers
			var idx int64
			var total int64
			for _, ds := range datasets(c.Thorough()) {
				var h *harness
				for _, M := range blockSizes(ds, c.Thorough()) {
					reqs := requests(ds, c.Thorough(), M)
					total += int64(len(reqs))
					for _, r := range reqs {
						idx++
						// neighbouring requests differ in the cheapest dimensions: spread them over the shards by a fixed
						// bijective scramble of the index (every request still belongs to exactly one shard)
						if !c.Mine(int64((uint64(idx) * 0x9E3779B97F4A7C15) >> 33)) {
							continue
						}
						if c.Expired() {
							c.Cap(fmt.Sprintf("wall budget: requests are visited dataset by dataset (calendar dataset first; buffer size 3 before 1000), narrow bounds first; a shard stopped in dataset %+v", ds))
							if h != nil {
								h.close()
							}
							return
						}
						if h == nil {
							var err error
							if h, err = load(ds); err != nil {
								c.HarnessError(fmt.Sprintf("dataset %+v: %v", ds, err))
								return
							}
						}
						if !h.runCase(c, M, r) {
							c.Cap("a request did not return (reported as class hang); this shard stopped there because the spinning reader cannot be cancelled")
							return // the fixture is left to the spinning goroutine; the scratch directory is removed by vf
						}
					}
				}
				if h != nil {
					h.close()
				}
			}
			c.Note("requests_total", fmt.Sprint(total))
		},
		Replay: func(c *vlib.Ctx, rawCase json.RawMessage) (bool, string) {
			var cs Case
			if err := json.Unmarshal(rawCase, &cs); err != nil {
				return false, err.Error()
			}
			defer func() { reads.MaxPointsPerBlock = shippedM }()
			h, err := load(cs.DS)
			if err != nil {
				return false, "fixture: " + err.Error()
			}
			defer func() {
				if h != nil {
					h.close()
				}
			}()
			res := h.exec(c, cs.M, cs.Req)
			if res.hung {
				h = nil // never close a fixture a spinning reader still uses
				return true, fmt.Sprintf("request: %s\ndataset: %+v, MaxPointsPerBlock=%d, table implementation %s\nHANG: ReadWindowAggregate did not return within %v\n", cs.Req, cs.DS, cs.M, impl(cs.Req), hangTimeout)
			}
			var sb strings.Builder
			fmt.Fprintf(&sb, "request: %s\ndataset: %+v (T0 = window-alignment origin + %d mod 6), MaxPointsPerBlock=%d, table implementation %s\n", cs.Req, cs.DS, h.t0%6, cs.M, impl(cs.Req))
			switch {
			case res.panicked != "":
				fmt.Fprintf(&sb, "PANIC: %s\n", res.panicked)
				return true, sb.String()
			case res.err != nil:
				fmt.Fprintf(&sb, "ERROR: %v\n", res.err)
				return true, sb.String()
			}
			if h.byN[cs.Series] == nil {
				obs := res.got[cs.Series]
				fmt.Fprintf(&sb, "series s=%q was never written; observed %s\n", cs.Series, fmtRecs(obs))
				return len(obs) > 0, sb.String()
			}
			raws, obs := res.raws[cs.Series], res.got[cs.Series]
			fmt.Fprintf(&sb, "series s=%s\nraw rows of ReadFilter over the same bounds (time relative to T0): %s\n", cs.Series, fmtRaws(raws))
			fmt.Fprintf(&sb, "expected windows: %s\nobserved: %s\n", fmtWins(expWindows(h.t0, raws, cs.Req, cs.Req.CE)), fmtRecs(obs))
			probs := judgeAny(h.t0, cs.Req, raws, obs)
			for _, p := range probs {
				fmt.Fprintf(&sb, "VIOLATED %s: %s\n", p.clause, p.detail)
			}
			return len(probs) > 0, sb.String()
		},
	})
}
