// Package vlib is the shared plumbing of every check: tier/seed handling, sharding a
// case space over worker subprocesses, result merging, replay-before-report,
// known-findings matching, the VIOLATION / KNOWN-FINDING lines, and the evidence file.
//
// A check is a Go test binary whose only test is
//
//	func TestCheck(t *testing.T) { vlib.Main(t, &vlib.Check{...}) }
//
// The same binary plays three roles, selected by environment:
//   - parent (default): spawns Workers copies of itself, merges, confirms, reports, exits 0/1
//   - worker (VERIF_WORKER=i/n): explores shard i of n and writes a Result JSON
//   - replay (VERIF_REPLAY=<file>): re-executes one recorded case without the explorer
package vlib

import (
	"encoding/json"
	"fmt"
	"hash/fnv"
	"os"
	"os/exec"
	"path/filepath"
	"regexp"
	"runtime"
	"runtime/debug"
	"sort"
	"strconv"
	"strings"
	"sync"
	"sync/atomic"
	"testing"
	"time"
)

// VerifDir is where evidence/, replays/ and known_findings.json live.
func VerifDir() string {
	if d := os.Getenv("VERIF_DIR"); d != "" {
		return d
	}
	return "/verif"
}

// OutDir is where evidence/ and replays/ are written: VERIF_OUT_DIR if set (mutation self-tests must not
// overwrite the evidence of the unchanged tree), else VerifDir().
func OutDir() string {
	if d := os.Getenv("VERIF_OUT_DIR"); d != "" {
		return d
	}
	return VerifDir()
}

// Check describes one property check.
type Check struct {
	ID          string   // "C28"
	Level       string   // exploration | fault_enumeration | model_checking
	Rule        string   // how cases are enumerated; what makes one distinct / non-trivial
	Assumptions []string // what the check assumes or trusts
	// Workers: number of worker subprocesses (0 = 16). 1 = run in-process in the parent.
	Workers int
	// Budget per tier (wall seconds for the exploration itself). 0 = 100 (quick) / 1500 (thorough).
	QuickBudgetS, ThoroughBudgetS int
	// Run explores shard c.Shard of c.NShards of the space for c.Tier.
	Run func(c *Ctx)
	// Replay re-executes one recorded case (the `cas` given to Violation) on the real code
	// and returns whether the property is violated plus a deterministic observation string.
	Replay func(c *Ctx, cas json.RawMessage) (violated bool, observation string)
	// WorkerMemKB: ulimit -v for workers in KiB (0 = none).
	WorkerMemKB int
	// WorkerEnv: extra environment for workers (e.g. "GOMAXPROCS=1" for scheduler harnesses).
	WorkerEnv []string
}

// Violation is one failing case.
type Violation struct {
	Sig     string          `json:"sig"`     // stable class signature: clause/call-site/discriminating features
	Summary string          `json:"summary"` // human text
	Case    json.RawMessage `json:"case"`    // replayable case
	Count   int64           `json:"count"`   // how many enumerated cases fell in this class
	Obs     string          `json:"observation,omitempty"`
}

// Result is what a worker reports.
type Result struct {
	Evaluations int64                 `json:"evaluations"`
	NontrivialN int64                 `json:"nontrivial_n"` // by-construction distinct
	NontrivialH []uint64              `json:"nontrivial_h"` // hashed keys (deduped at merge)
	StatesN     int64                 `json:"states_n"`     // by-construction distinct
	StatesH     []uint64              `json:"states_h"`     // hashed state keys
	Transitions int64                 `json:"transitions"`
	Traces      int64                 `json:"traces"`
	Outcomes    map[string]int64      `json:"outcomes"`
	Samples     []json.RawMessage     `json:"samples"`
	Violations  map[string]*Violation `json:"violations"`
	Caps        []string              `json:"caps"`
	Extra       map[string]int64      `json:"extra"`
	Notes       map[string]string     `json:"notes"`
	HarnessErrs []string              `json:"harness_errors"`
}

// Ctx is handed to Run / Replay.
type Ctx struct {
	T        *testing.T
	Tier     string
	Seed     int64
	Shard    int
	NShards  int
	deadline time.Time

	mu  sync.Mutex
	res Result
	nt  map[uint64]struct{}
	st  map[uint64]struct{}
	exp atomic.Bool
}

func newCtx(t *testing.T, tier string, seed int64, shard, n int, budget time.Duration) *Ctx {
	c := &Ctx{T: t, Tier: tier, Seed: seed, Shard: shard, NShards: n, deadline: time.Now().Add(budget)}
	c.res.Outcomes = map[string]int64{}
	c.res.Violations = map[string]*Violation{}
	c.res.Extra = map[string]int64{}
	c.res.Notes = map[string]string{}
	c.nt = map[uint64]struct{}{}
	c.st = map[uint64]struct{}{}
	return c
}

func (c *Ctx) Quick() bool    { return c.Tier != "thorough" }
func (c *Ctx) Thorough() bool { return c.Tier == "thorough" }

// Mine reports whether case index i belongs to this shard.
func (c *Ctx) Mine(i int64) bool { return int(i%int64(c.NShards)) == c.Shard }

func h64(s string) uint64 { h := fnv.New64a(); h.Write([]byte(s)); return h.Sum64() }

// Eval counts n executed cases.
func (c *Ctx) Eval(n int64) { c.mu.Lock(); c.res.Evaluations += n; c.mu.Unlock() }

// Nontrivial records a non-trivial case by key; keys are deduplicated across workers.
func (c *Ctx) Nontrivial(key string) { k := h64(key); c.mu.Lock(); c.nt[k] = struct{}{}; c.mu.Unlock() }

// NontrivialN counts n non-trivial cases that are distinct by construction (the enumeration
// never produces the same case twice, in this or any other shard).
func (c *Ctx) NontrivialN(n int64) { c.mu.Lock(); c.res.NontrivialN += n; c.mu.Unlock() }

// State records a distinct state by canonical key (deduplicated across workers).
func (c *Ctx) State(key string) { k := h64(key); c.mu.Lock(); c.st[k] = struct{}{}; c.mu.Unlock() }

// StateN counts states distinct by construction (e.g. nodes of a stateless exploration tree).
func (c *Ctx) StateN(n int64)     { c.mu.Lock(); c.res.StatesN += n; c.mu.Unlock() }
func (c *Ctx) Transition(n int64) { c.mu.Lock(); c.res.Transitions += n; c.mu.Unlock() }
func (c *Ctx) Trace(n int64)      { c.mu.Lock(); c.res.Traces += n; c.mu.Unlock() }

// Outcome counts an observed outcome class (to expose vacuity).
func (c *Ctx) Outcome(class string) { c.mu.Lock(); c.res.Outcomes[class]++; c.mu.Unlock() }
func (c *Ctx) OutcomeN(class string, n int64) {
	c.mu.Lock()
	c.res.Outcomes[class] += n
	c.mu.Unlock()
}

// Extra adds to a named integer counter reported under coverage.
func (c *Ctx) Extra(key string, n int64) { c.mu.Lock(); c.res.Extra[key] += n; c.mu.Unlock() }

// Note sets a named string reported under coverage (last writer wins).
func (c *Ctx) Note(key, v string) { c.mu.Lock(); c.res.Notes[key] = v; c.mu.Unlock() }

// Sample keeps up to 4 cases per worker, written out in the evidence.
func (c *Ctx) Sample(v any) {
	c.mu.Lock()
	defer c.mu.Unlock()
	if len(c.res.Samples) >= 4 {
		return
	}
	b, err := json.Marshal(v)
	if err != nil {
		b, _ = json.Marshal(fmt.Sprint(v))
	}
	c.res.Samples = append(c.res.Samples, b)
}

// WantSample is true while this worker still has room for samples (avoid building them otherwise).
func (c *Ctx) WantSample() bool { c.mu.Lock(); defer c.mu.Unlock(); return len(c.res.Samples) < 4 }

// Violation records a failing case under a class signature. The first case seen per
// signature is kept (enumerate simplest first).
func (c *Ctx) Violation(sig, summary string, cas any) {
	c.mu.Lock()
	defer c.mu.Unlock()
	if v, ok := c.res.Violations[sig]; ok {
		v.Count++
		return
	}
	b, err := json.Marshal(cas)
	if err != nil {
		b, _ = json.Marshal(fmt.Sprint(cas))
	}
	c.res.Violations[sig] = &Violation{Sig: sig, Summary: summary, Case: b, Count: 1}
}

// Cap records that a bound/budget was hit: the run is then not exhaustive.
func (c *Ctx) Cap(msg string) {
	c.mu.Lock()
	defer c.mu.Unlock()
	for _, m := range c.res.Caps {
		if m == msg {
			return
		}
	}
	c.res.Caps = append(c.res.Caps, msg)
}

// HarnessError records a problem of the machinery itself (never an alarm).
func (c *Ctx) HarnessError(msg string) {
	c.mu.Lock()
	defer c.mu.Unlock()
	if len(c.res.HarnessErrs) < 20 {
		c.res.HarnessErrs = append(c.res.HarnessErrs, msg)
	}
	fmt.Fprintln(os.Stderr, "HARNESS-ERROR:", msg)
}

// Expired reports whether the wall budget is used up; callers stop and call Cap.
func (c *Ctx) Expired() bool {
	if c.exp.Load() {
		return true
	}
	if time.Now().After(c.deadline) {
		c.exp.Store(true)
		return true
	}
	return false
}

func (c *Ctx) Logf(f string, a ...any) { fmt.Fprintf(os.Stderr, "["+c.Tier+"] "+f+"\n", a...) }

// Guard runs f and converts a panic into (true, description with the top repo frame).
func Guard(f func()) (panicked bool, desc string) {
	defer func() {
		if r := recover(); r != nil {
			panicked = true
			desc = fmt.Sprintf("panic: %v @ %s", r, topRepoFrame(string(debug.Stack())))
		}
	}()
	f()
	return
}

var frameRe = regexp.MustCompile(`(?m)^(github\.com/influxdata/influxdb/v2[^\s(]*)\(`)

func topRepoFrame(stack string) string {
	m := frameRe.FindStringSubmatch(stack)
	if m == nil {
		return "?"
	}
	return m[1]
}

func (c *Ctx) finish() *Result {
	c.mu.Lock()
	defer c.mu.Unlock()
	for k := range c.nt {
		c.res.NontrivialH = append(c.res.NontrivialH, k)
	}
	for k := range c.st {
		c.res.StatesH = append(c.res.StatesH, k)
	}
	return &c.res
}

func envInt(name string, def int64) int64 {
	if s := os.Getenv(name); s != "" {
		if v, err := strconv.ParseInt(s, 10, 64); err == nil {
			return v
		}
	}
	return def
}

// Main is the entry point of every check binary.
func Main(t *testing.T, chk *Check) {
	tier := os.Getenv("VERIF_TIER")
	if tier != "thorough" {
		tier = "quick"
	}
	seed := envInt("VERIF_SEED", 0)
	budget := time.Duration(chk.QuickBudgetS) * time.Second
	if tier == "thorough" {
		budget = time.Duration(chk.ThoroughBudgetS) * time.Second
	}
	if budget == 0 {
		if tier == "thorough" {
			budget = 1500 * time.Second
		} else {
			budget = 100 * time.Second
		}
	}
	if b := envInt("VERIF_BUDGET_S", 0); b > 0 {
		budget = time.Duration(b) * time.Second
	}

	if p := os.Getenv("VERIF_REPLAY"); p != "" {
		replayMain(t, chk, tier, seed, p)
		return
	}
	if w := os.Getenv("VERIF_WORKER"); w != "" {
		var i, n int
		fmt.Sscanf(w, "%d/%d", &i, &n)
		c := newCtx(t, tier, seed, i, n, budget)
		chk.Run(c)
		b, _ := json.Marshal(c.finish())
		if err := os.WriteFile(os.Getenv("VERIF_WORKER_OUT"), b, 0o644); err != nil {
			fmt.Fprintln(os.Stderr, "worker: cannot write result:", err)
			os.Exit(3)
		}
		return
	}
	parentMain(t, chk, tier, seed, budget)
}

// applyWorkerProcs makes the parent / replay process use the same GOMAXPROCS as the workers: schedule
// explorations order goroutines spawned by repo code by goroutine id, which equals creation order only with one P.
func applyWorkerProcs(chk *Check) {
	for _, e := range chk.WorkerEnv {
		if strings.HasPrefix(e, "GOMAXPROCS=") {
			if n, err := strconv.Atoi(strings.TrimPrefix(e, "GOMAXPROCS=")); err == nil && n > 0 {
				runtime.GOMAXPROCS(n)
			}
		}
	}
}

func replayMain(t *testing.T, chk *Check, tier string, seed int64, path string) {
	applyWorkerProcs(chk)
	raw, err := os.ReadFile(path)
	if err != nil {
		fmt.Println("replay: cannot read", path, err)
		os.Exit(2)
	}
	var f struct {
		Case json.RawMessage `json:"case"`
	}
	if err := json.Unmarshal(raw, &f); err != nil || f.Case == nil {
		fmt.Println("replay: not a replay file:", path)
		os.Exit(2)
	}
	if chk.Replay == nil {
		fmt.Println("replay: check has no replayer")
		os.Exit(2)
	}
	c := newCtx(t, tier, seed, 0, 1, time.Hour)
	v, obs := chk.Replay(c, f.Case)
	fmt.Printf("replay property=%s violated=%v\n%s\n", chk.ID, v, obs)
	if v {
		os.Exit(1)
	}
	os.Exit(0)
}

type knownFinding struct {
	Property  string `json:"property"`
	Signature string `json:"signature"`
	Status    string `json:"status"` // open | fixed
	Commit    string `json:"commit,omitempty"`
	Summary   string `json:"summary"`
}

func loadKnown(id string) map[string]knownFinding {
	out := map[string]knownFinding{}
	b, err := os.ReadFile(filepath.Join(VerifDir(), "known_findings.json"))
	if err != nil {
		return out
	}
	var f struct {
		Findings []knownFinding `json:"findings"`
	}
	if json.Unmarshal(b, &f) != nil {
		return out
	}
	for _, k := range f.Findings {
		if k.Property == id && k.Status == "open" {
			out[k.Signature] = k
		}
	}
	return out
}

func parentMain(t *testing.T, chk *Check, tier string, seed int64, budget time.Duration) {
	start := time.Now()
	os.RemoveAll(filepath.Join(OutDir(), "replays", chk.ID)) // replay files of earlier runs are stale
	nw := chk.Workers
	if nw == 0 {
		nw = 16
	}
	if w := envInt("VERIF_WORKERS", 0); w > 0 {
		nw = int(w)
	}
	var results []*Result
	var harnessErrs []string
	if nw == 1 {
		c := newCtx(t, tier, seed, 0, 1, budget)
		chk.Run(c)
		results = append(results, c.finish())
	} else {
		dir, err := os.MkdirTemp(scratchBase(), "vlib-")
		if err != nil {
			fmt.Println("cannot create scratch dir:", err)
			os.Exit(2)
		}
		results = make([]*Result, nw)
		errs := make([]string, nw)
		var wg sync.WaitGroup
		for i := 0; i < nw; i++ {
			wg.Add(1)
			go func(i int) {
				defer wg.Done()
				out := filepath.Join(dir, fmt.Sprintf("w%d.json", i))
				logf := filepath.Join(dir, fmt.Sprintf("w%d.log", i))
				cmdline := fmt.Sprintf("exec %q -test.run '^TestCheck$' -test.timeout 0 >%q 2>&1", os.Args[0], logf)
				if chk.WorkerMemKB > 0 {
					cmdline = fmt.Sprintf("ulimit -v %d; ", chk.WorkerMemKB) + cmdline
				}
				cmd := exec.Command("/bin/sh", "-c", cmdline)
				cmd.Env = append(os.Environ(), fmt.Sprintf("VERIF_WORKER=%d/%d", i, nw), "VERIF_WORKER_OUT="+out,
					"VERIF_TIER="+tier, fmt.Sprintf("VERIF_SEED=%d", seed))
				cmd.Env = append(cmd.Env, chk.WorkerEnv...)
				done := make(chan error, 1)
				go func() { done <- cmd.Run() }()
				var err error
				select {
				case err = <-done:
				case <-time.After(budget*3 + 10*time.Minute):
					cmd.Process.Kill()
					err = fmt.Errorf("worker exceeded 3x budget + 10m and was killed")
				}
				b, rerr := os.ReadFile(out)
				if rerr != nil {
					lg, _ := os.ReadFile(logf)
					tail := string(lg)
					if len(tail) > 3000 {
						tail = tail[len(tail)-3000:]
					}
					errs[i] = fmt.Sprintf("worker %d produced no result (%v): %s", i, err, tail)
					return
				}
				var r Result
				if jerr := json.Unmarshal(b, &r); jerr != nil {
					errs[i] = fmt.Sprintf("worker %d result unreadable: %v", i, jerr)
					return
				}
				results[i] = &r
			}(i)
		}
		wg.Wait()
		os.RemoveAll(dir) // results and log tails are already in memory (the violation path below leaves through os.Exit)
		for _, e := range errs {
			if e != "" {
				harnessErrs = append(harnessErrs, e)
			}
		}
	}

	// merge
	var m Result
	m.Outcomes = map[string]int64{}
	m.Violations = map[string]*Violation{}
	m.Extra = map[string]int64{}
	m.Notes = map[string]string{}
	nt := map[uint64]struct{}{}
	st := map[uint64]struct{}{}
	for _, r := range results {
		if r == nil {
			continue
		}
		m.Evaluations += r.Evaluations
		m.NontrivialN += r.NontrivialN
		m.StatesN += r.StatesN
		m.Transitions += r.Transitions
		m.Traces += r.Traces
		for _, k := range r.NontrivialH {
			nt[k] = struct{}{}
		}
		for _, k := range r.StatesH {
			st[k] = struct{}{}
		}
		for k, v := range r.Outcomes {
			m.Outcomes[k] += v
		}
		for k, v := range r.Extra {
			m.Extra[k] += v
		}
		for k, v := range r.Notes {
			m.Notes[k] = v
		}
		if len(m.Samples) < 6 {
			for _, s := range r.Samples {
				if len(m.Samples) < 6 {
					m.Samples = append(m.Samples, s)
				}
			}
		}
		for k, v := range r.Violations {
			if e, ok := m.Violations[k]; ok {
				e.Count += v.Count
				if len(v.Case) < len(e.Case) {
					e.Case, e.Summary = v.Case, v.Summary
				}
			} else {
				m.Violations[k] = v
			}
		}
		for _, cp := range r.Caps {
			dup := false
			for _, x := range m.Caps {
				dup = dup || x == cp
			}
			if !dup {
				m.Caps = append(m.Caps, cp)
			}
		}
		harnessErrs = append(harnessErrs, r.HarnessErrs...)
	}
	nontrivial := m.NontrivialN + int64(len(nt))
	states := m.StatesN + int64(len(st))

	// confirm each violation class by replaying 5x
	applyWorkerProcs(chk)
	known := loadKnown(chk.ID)
	sigs := make([]string, 0, len(m.Violations))
	for k := range m.Violations {
		sigs = append(sigs, k)
	}
	sort.Strings(sigs)
	var lines []string
	confirmed, knownSeen := 0, 0
	var vioOut []map[string]any
	for _, sig := range sigs {
		v := m.Violations[sig]
		ok := true
		if chk.Replay != nil {
			var first string
			for i := 0; i < 5 && ok; i++ {
				rc := newCtx(t, tier, seed, 0, 1, time.Hour)
				var viol bool
				var obs string
				p, d := Guard(func() { viol, obs = chk.Replay(rc, v.Case) })
				if p {
					viol, obs = false, "replayer panicked: "+d
				}
				if i == 0 {
					first = obs
				}
				if !viol || obs != first {
					ok = false
					harnessErrs = append(harnessErrs, fmt.Sprintf("violation class %q did not reproduce identically on replay %d/5 (violated=%v obs=%q first=%q); dropped", sig, i+1, viol, trunc(obs, 300), trunc(first, 300)))
				}
			}
			v.Obs = first
		}
		if !ok {
			continue
		}
		entry := map[string]any{"sig": sig, "summary": v.Summary, "cases_in_class": v.Count}
		if kf, isKnown := known[sig]; isKnown {
			knownSeen++
			lines = append(lines, fmt.Sprintf("KNOWN-FINDING: property=%s %s [%s]", chk.ID, kf.Summary, sig))
			entry["known_finding"] = true
		} else {
			confirmed++
			path := writeReplay(chk.ID, sig, v)
			if confirmed <= 8 {
				lines = append(lines, fmt.Sprintf("VIOLATION property=%s replay=%s", chk.ID, path))
				lines = append(lines, fmt.Sprintf("  class=%s cases=%d: %s", sig, v.Count, trunc(v.Summary, 600)))
			} else if confirmed == 9 {
				lines = append(lines, "  (further violation classes: see the evidence file and "+filepath.Join(OutDir(), "replays", chk.ID)+")")
			}
			entry["replay"] = path
		}
		vioOut = append(vioOut, entry)
	}

	exhaustive := len(m.Caps) == 0 && len(harnessErrs) == 0
	cov := map[string]any{
		"evaluations":         m.Evaluations,
		"distinct_nontrivial": nontrivial,
		"rule":                chk.Rule,
		"samples":             m.Samples,
		"exhaustive":          exhaustive,
		"distinct_outcomes":   len(m.Outcomes),
		"outcome_histogram":   topOutcomes(m.Outcomes, 40),
		"workers":             nw,
	}
	if len(m.Caps) > 0 {
		cov["caps_hit"] = m.Caps
	}
	if len(harnessErrs) > 0 {
		cov["harness_errors"] = harnessErrs
	}
	if chk.Level == "model_checking" {
		cov["states"] = states
		cov["transitions"] = m.Transitions
		cov["traces_validated_against_impl"] = m.Traces
	} else if states > 0 {
		cov["states"] = states
		cov["transitions"] = m.Transitions
	}
	for k, v := range m.Extra {
		cov[k] = v
	}
	for k, v := range m.Notes {
		cov[k] = v
	}
	if len(vioOut) > 0 {
		cov["violation_classes"] = vioOut
	}
	if len(m.Samples) == 0 {
		cov["samples"] = []any{"(no case was explored)"}
	}
	ev := map[string]any{
		"property_id":               chk.ID,
		"tier":                      tier,
		"seed":                      seed,
		"level":                     chk.Level,
		"coverage":                  cov,
		"assumptions":               chk.Assumptions,
		"wall_s":                    time.Since(start).Seconds(),
		"violations":                confirmed,
		"known_findings_reproduced": knownSeen,
	}
	if ev["assumptions"] == nil {
		ev["assumptions"] = []string{}
	}
	b, _ := json.MarshalIndent(ev, "", " ")
	os.MkdirAll(filepath.Join(OutDir(), "evidence"), 0o755)
	if err := os.WriteFile(filepath.Join(OutDir(), "evidence", chk.ID+".json"), append(b, '\n'), 0o644); err != nil {
		fmt.Println("cannot write evidence:", err)
	}
	for _, e := range harnessErrs {
		fmt.Println("HARNESS-ERROR:", trunc(e, 2000))
	}
	fmt.Println() // repo code may have left an unterminated line on stdout
	for _, l := range lines {
		fmt.Println(l)
	}
	fmt.Printf("SUMMARY property=%s tier=%s evaluations=%d distinct_nontrivial=%d states=%d transitions=%d outcomes=%d exhaustive=%v violations=%d known=%d wall=%.1fs\n",
		chk.ID, tier, m.Evaluations, nontrivial, states, m.Transitions, len(m.Outcomes), exhaustive, confirmed, knownSeen, time.Since(start).Seconds())
	if confirmed > 0 {
		os.Exit(1)
	}
	if m.Evaluations == 0 && len(harnessErrs) > 0 {
		// nothing ran at all: the machinery is broken, say so with a distinct code
		os.Exit(3)
	}
}

func scratchBase() string {
	if d := os.Getenv("VERIF_SCRATCH"); d != "" {
		return d
	}
	if st, err := os.Stat("/dev/shm"); err == nil && st.IsDir() {
		return "/dev/shm"
	}
	return os.TempDir()
}

// Scratch returns a fresh per-call scratch directory (under VERIF_SCRATCH, else /dev/shm).
func Scratch(prefix string) string {
	d, err := os.MkdirTemp(scratchBase(), prefix)
	if err != nil {
		panic(err)
	}
	return d
}

func trunc(s string, n int) string {
	if len(s) <= n {
		return s
	}
	return s[:n] + "…"
}

func topOutcomes(m map[string]int64, n int) map[string]int64 {
	type kv struct {
		k string
		v int64
	}
	var l []kv
	for k, v := range m {
		l = append(l, kv{k, v})
	}
	sort.Slice(l, func(i, j int) bool { return l[i].v > l[j].v || (l[i].v == l[j].v && l[i].k < l[j].k) })
	out := map[string]int64{}
	for i, e := range l {
		if i >= n {
			break
		}
		out[trunc(e.k, 120)] = e.v
	}
	return out
}

var sanRe = regexp.MustCompile(`[^A-Za-z0-9._-]+`)

func writeReplay(id, sig string, v *Violation) string {
	dir := filepath.Join(OutDir(), "replays", id)
	os.MkdirAll(dir, 0o755)
	name := sanRe.ReplaceAllString(sig, "_")
	if len(name) > 100 {
		name = name[:100] + fmt.Sprintf("-%x", h64(sig))
	}
	path := filepath.Join(dir, name+".json")
	b, _ := json.MarshalIndent(map[string]any{
		"property": id, "signature": sig, "summary": v.Summary, "observation": v.Obs,
		"cases_in_class": v.Count, "case": v.Case,
		"how_to_replay": "cd /verif && ./vf replay " + path,
	}, "", " ")
	os.WriteFile(path, append(b, '\n'), 0o644)
	return path
}

// JoinSig builds a signature from parts.
func JoinSig(parts ...string) string { return strings.Join(parts, "/") }
