// C43: v1 database/retention-policy names resolve to one bucket.
//
// Explicit-state breadth-first search to closure. A state is the complete content of the four kv
// buckets the real dbrp.Service keeps (mappings, org+db index, org index, defaults) on an in-memory
// kv store; every transition calls the REAL dbrp.Service (Create / Update / Delete): the successor of
// a state is obtained by replaying the state's shortest op history on a fresh real service plus one op.
// After every transition the complete observable surface (FindMany listings per org, (db,rp)
// resolution, empty-rp lookup, FindByID) is compared with a reference written from the statement.
package c43

import (
	"context"
	"encoding/hex"
	"encoding/json"
	"fmt"
	"runtime"
	"sort"
	"strings"
	"sync"
	"testing"

	influxdb "github.com/influxdata/influxdb/v2"
	"github.com/influxdata/influxdb/v2/dbrp"
	"github.com/influxdata/influxdb/v2/inmem"
	"github.com/influxdata/influxdb/v2/kit/platform"
	"github.com/influxdata/influxdb/v2/kv"
	"verif/h/vlib"
)

// ---------------------------------------------------------------------------------------
// fixed environment: two organizations with two buckets each. Bucket names give rise to
// virtual mappings: "db" -> (db, autogen, default), "db/rp1" -> (db, rp1),
// "dbx/autogen" -> (dbx, autogen) (a virtual-only database without a default), "plain".
// ---------------------------------------------------------------------------------------

type bkt struct {
	ID   platform.ID
	Org  platform.ID
	Name string
}

var buckets = []bkt{
	{11, 1, "db"}, {12, 1, "db/rp1"},
	{21, 2, "dbx/autogen"}, {22, 2, "plain"},
}

var (
	orgs = []platform.ID{1, 2}
	dbs  = []string{"db", "dbx"} // one name is a prefix of the other on purpose
	rps  = []string{"autogen", "rp1", "rp2"}
)

func orgBuckets(org platform.ID) []bkt {
	var out []bkt
	for _, b := range buckets {
		if b.Org == org {
			out = append(out, b)
		}
	}
	return out
}

// virtualOf: the statement's "virtual mappings derived from bucket names": name "a/b" -> (a,b);
// name without slash -> (name, autogen).
func virtualOf(name string) (db, rp string) {
	if i := strings.IndexByte(name, '/'); i >= 0 {
		return name[:i], name[i+1:]
	}
	return name, "autogen"
}

type bucketSvc struct {
	influxdb.BucketService // unimplemented methods: nil (never called)
}

func (bucketSvc) FindBucketByID(ctx context.Context, id platform.ID) (*influxdb.Bucket, error) {
	for _, b := range buckets {
		if b.ID == id {
			return &influxdb.Bucket{ID: b.ID, OrgID: b.Org, Name: b.Name}, nil
		}
	}
	return nil, fmt.Errorf("bucket not found")
}

func (bucketSvc) FindBuckets(ctx context.Context, f influxdb.BucketFilter, opt ...influxdb.FindOptions) ([]*influxdb.Bucket, int, error) {
	var out []*influxdb.Bucket
	for _, b := range buckets {
		if f.ID != nil && *f.ID != b.ID {
			continue
		}
		if f.OrganizationID != nil && *f.OrganizationID != b.Org {
			continue
		}
		if f.Name != nil && *f.Name != b.Name {
			continue
		}
		out = append(out, &influxdb.Bucket{ID: b.ID, OrgID: b.Org, Name: b.Name})
	}
	return out, len(out), nil
}

// ---------------------------------------------------------------------------------------
// ops
// ---------------------------------------------------------------------------------------

const slotBase = 100 // mapping IDs are slotBase+slot; distinct from bucket IDs

type Op struct {
	K    string `json:"op"`             // create | update | delete | updateV | deleteV
	Slot int    `json:"slot,omitempty"` // create/update/delete: mapping id = 100+slot
	Org  uint64 `json:"org"`
	DB   string `json:"db,omitempty"`
	RP   string `json:"rp,omitempty"`
	Bkt  int    `json:"bucket_index,omitempty"` // create: index into the org's buckets
	Def  bool   `json:"default,omitempty"`
	VID  uint64 `json:"virtual_id,omitempty"` // updateV/deleteV: the id of a virtual mapping (= bucket id)
}

func (o Op) String() string {
	switch o.K {
	case "create":
		return fmt.Sprintf("create(id=%d,org=%d,%s/%s->bucket#%d,default=%v)", slotBase+o.Slot, o.Org, o.DB, o.RP, o.Bkt, o.Def)
	case "update":
		return fmt.Sprintf("update(id=%d,org=%d,rp=%s,default=%v)", slotBase+o.Slot, o.Org, o.RP, o.Def)
	case "delete":
		return fmt.Sprintf("delete(id=%d,org=%d)", slotBase+o.Slot, o.Org)
	case "updateV":
		return fmt.Sprintf("update-virtual(id=%d,org=%d,rp=%s,default=%v)", o.VID, o.Org, o.RP, o.Def)
	}
	return fmt.Sprintf("delete-virtual(id=%d,org=%d)", o.VID, o.Org)
}

func histString(h []Op) string {
	var p []string
	for _, o := range h {
		p = append(p, o.String())
	}
	return strings.Join(p, " ; ")
}

// ---------------------------------------------------------------------------------------
// world: the real service on a fresh in-memory kv store
// ---------------------------------------------------------------------------------------

var kvBuckets = []string{"dbrpv1", "dbrpbyorganddbindexv1", "dbrpbyorgv1", "dbrpdefaultv1"} // migrations 0004 and 0012

type world struct {
	st  *inmem.KVStore
	svc influxdb.DBRPMappingService
}

func newWorld() *world {
	st := inmem.NewKVStore()
	for _, b := range kvBuckets {
		if err := st.CreateBucket(context.Background(), []byte(b)); err != nil {
			panic(err)
		}
	}
	return &world{st: st, svc: dbrp.NewService(context.Background(), bucketSvc{}, st)}
}

func (w *world) apply(o Op) (res string) {
	ctx := context.Background()
	var err error
	p, d := vlib.Guard(func() {
		switch o.K {
		case "create":
			ob := orgBuckets(platform.ID(o.Org))
			err = w.svc.Create(ctx, &influxdb.DBRPMapping{ID: platform.ID(slotBase + o.Slot), OrganizationID: platform.ID(o.Org),
				Database: o.DB, RetentionPolicy: o.RP, Default: o.Def, BucketID: ob[o.Bkt].ID})
		case "update":
			// the caller only names id, org, new rp and default flag; the service keeps db and bucket
			err = w.svc.Update(ctx, &influxdb.DBRPMapping{ID: platform.ID(slotBase + o.Slot), OrganizationID: platform.ID(o.Org),
				Database: "db", RetentionPolicy: o.RP, Default: o.Def, BucketID: orgBuckets(platform.ID(o.Org))[0].ID})
		case "delete":
			err = w.svc.Delete(ctx, platform.ID(o.Org), platform.ID(slotBase+o.Slot))
		case "updateV":
			// what PATCH /api/v2/dbrps/{id} does: FindByID, change fields, Update
			var m *influxdb.DBRPMapping
			m, err = w.svc.FindByID(ctx, platform.ID(o.Org), platform.ID(o.VID))
			if err == nil {
				m.RetentionPolicy, m.Default = o.RP, o.Def
				err = w.svc.Update(ctx, m)
			}
		case "deleteV":
			err = w.svc.Delete(ctx, platform.ID(o.Org), platform.ID(o.VID))
		}
	})
	if p {
		return "PANIC " + d
	}
	if err != nil {
		return "err"
	}
	return "ok"
}

// usedIDs: bit s set if a record is stored under id 100+s.
func (w *world) usedIDs() (occ uint32) {
	w.st.View(context.Background(), func(tx kv.Tx) error {
		bk, err := tx.Bucket([]byte(kvBuckets[0]))
		if err != nil {
			panic(err)
		}
		for sl := 1; sl < 31; sl++ {
			k, _ := platform.ID(slotBase + sl).Encode()
			if _, err := bk.Get(k); err == nil {
				occ |= 1 << uint(sl)
			}
		}
		return nil
	})
	return
}

// dump: canonical state key = every key/value of the service's kv buckets.
func (w *world) dump() string {
	var b strings.Builder
	w.st.View(context.Background(), func(tx kv.Tx) error {
		for _, name := range kvBuckets {
			bk, err := tx.Bucket([]byte(name))
			if err != nil {
				panic(err)
			}
			cur, err := bk.Cursor() // static cursor (ForwardCursor spawns a goroutine per call)
			if err != nil {
				panic(err)
			}
			b.WriteString("[" + name + "]")
			for k, v := cur.First(); k != nil; k, v = cur.Next() {
				b.WriteString(hex.EncodeToString(k))
				b.WriteByte('=')
				b.Write(v) // values are JSON documents or ids
				b.WriteByte(';')
			}
		}
		return nil
	})
	return b.String()
}

// ---------------------------------------------------------------------------------------
// reference model: the set of (physical) mappings the operations have built.
// ---------------------------------------------------------------------------------------

type mm struct {
	Org    uint64
	DB, RP string
	Bucket uint64
}

type model struct {
	M       map[int]mm // slot -> mapping
	Tainted bool       // an update/delete aimed at a virtual mapping id was accepted: the statement
	// does not say what that means for the set of stored mappings; from then on only the statement's
	// invariants on the observable surface are checked, not equality with this model.
}

func (m *model) pairTaken(org uint64, db, rp string, except int) bool {
	for s, x := range m.M {
		if s != except && x.Org == org && x.DB == db && x.RP == rp {
			return true
		}
	}
	return false
}

// applicable: must the op succeed and take effect according to the statement's CRUD reading?
func (m *model) applicable(o Op) bool {
	switch o.K {
	case "create":
		_, ex := m.M[o.Slot]
		return !ex && !m.pairTaken(o.Org, o.DB, o.RP, -1)
	case "update":
		x, ex := m.M[o.Slot]
		return ex && x.Org == o.Org && !m.pairTaken(x.Org, x.DB, o.RP, o.Slot)
	case "delete":
		x, ex := m.M[o.Slot]
		return ex && x.Org == o.Org
	}
	return false
}

func (m *model) step(o Op) {
	switch o.K {
	case "create":
		m.M[o.Slot] = mm{o.Org, o.DB, o.RP, uint64(orgBuckets(platform.ID(o.Org))[o.Bkt].ID)}
	case "update":
		x := m.M[o.Slot]
		x.RP = o.RP
		m.M[o.Slot] = x
	case "delete":
		delete(m.M, o.Slot)
	}
}

// ---------------------------------------------------------------------------------------
// observation + oracle
// ---------------------------------------------------------------------------------------

type ent struct {
	ID      uint64
	Org     uint64
	DB, RP  string
	Bucket  uint64
	Default bool
	Virtual bool
}

func toEnt(m *influxdb.DBRPMapping) ent {
	return ent{uint64(m.ID), uint64(m.OrganizationID), m.Database, m.RetentionPolicy, uint64(m.BucketID), m.Default, m.Virtual}
}

func (e ent) String() string {
	s := fmt.Sprintf("%d:%s/%s->%d", e.ID, e.DB, e.RP, e.Bucket)
	if e.Default {
		s += "*"
	}
	if e.Virtual {
		s += "(v)"
	}
	return s
}

type finding struct {
	kind string // clause/call-site
	feat string // discriminating features
	text string
}

func sortedEnts(l []ent) []ent {
	sort.Slice(l, func(i, j int) bool {
		a, b := l[i], l[j]
		if a.DB != b.DB {
			return a.DB < b.DB
		}
		if a.RP != b.RP {
			return a.RP < b.RP
		}
		if a.ID != b.ID {
			return a.ID < b.ID
		}
		return a.Bucket < b.Bucket
	})
	return l
}

// check inspects the complete observable surface; returns findings and a deterministic rendering.
func (w *world) check(m *model) (fs []finding, render string, classes []string) {
	ctx := context.Background()
	var rb strings.Builder
	add := func(kind, feat, text string) { fs = append(fs, finding{kind, feat, text}) }
	cls := map[string]bool{}
	find := func(f influxdb.DBRPMappingFilter) (out []ent, firstIdx ent, ok bool) {
		var ms []*influxdb.DBRPMapping
		var err error
		p, d := vlib.Guard(func() { ms, _, err = w.svc.FindMany(ctx, f) })
		if p {
			add("FindMany/panic", frameOf(d), "FindMany("+f.String()+") "+d)
			return nil, ent{}, false
		}
		if err != nil {
			add("FindMany/error", "", "FindMany("+f.String()+") failed: "+err.Error())
			return nil, ent{}, false
		}
		for _, x := range ms {
			out = append(out, toEnt(x))
		}
		if len(out) > 0 {
			firstIdx = out[0]
		}
		return out, firstIdx, true
	}
	for _, org := range orgs {
		org := org
		o64 := uint64(org)
		L, _, ok := find(influxdb.DBRPMappingFilter{OrgID: &org})
		if !ok {
			continue
		}
		L = sortedEnts(L)
		fmt.Fprintf(&rb, "org%d list=%v", o64, L)

		// model equality for physical mappings (CRUD takes effect, nothing else changes)
		if !m.Tainted {
			want := map[string]bool{}
			for s, x := range m.M {
				if x.Org == o64 {
					want[fmt.Sprintf("%d:%s/%s->%d", slotBase+s, x.DB, x.RP, x.Bucket)] = true
				}
			}
			got := map[string]bool{}
			for _, e := range L {
				if e.Org != o64 {
					add("listing/foreign-org-entry", "", fmt.Sprintf("FindMany{org %d} returned a mapping of org %d: %v", o64, e.Org, e))
				}
				if !e.Virtual {
					k := fmt.Sprintf("%d:%s/%s->%d", e.ID, e.DB, e.RP, e.Bucket)
					if got[k] {
						add("listing/physical-listed-twice", "", fmt.Sprintf("org %d: %s listed twice in %v", o64, k, L))
					}
					got[k] = true
				}
			}
			for k := range want {
				if !got[k] {
					add("listing/mapping-missing", "", fmt.Sprintf("org %d: mapping %s built by the operations is not listed: %v", o64, k, L))
				}
			}
			for k := range got {
				if !want[k] {
					add("listing/unexpected-mapping", "", fmt.Sprintf("org %d: listed mapping %s was never built (or was deleted/changed): %v", o64, k, L))
				}
			}
		}

		// clause 1: each (db, rp) pair -> at most one bucket; clause 2: exactly one default per db
		type dbinfo struct {
			defaults []ent
			physical int
			total    int
		}
		info := map[string]*dbinfo{}
		pair := map[string][]ent{}
		for _, e := range L {
			if info[e.DB] == nil {
				info[e.DB] = &dbinfo{}
			}
			di := info[e.DB]
			di.total++
			if !e.Virtual {
				di.physical++
			}
			if e.Default {
				di.defaults = append(di.defaults, e)
			}
			pair[e.DB+"/"+e.RP] = append(pair[e.DB+"/"+e.RP], e)
		}
		var pks []string
		for k := range pair {
			pks = append(pks, k)
		}
		sort.Strings(pks)
		for _, k := range pks {
			es := pair[k]
			bs := map[uint64]bool{}
			for _, e := range es {
				bs[e.Bucket] = true
			}
			if len(bs) > 1 {
				add("pair-listed-with-two-buckets/FindMany{org}", fmt.Sprintf("virtual-involved=%v", es[0].Virtual || es[len(es)-1].Virtual),
					fmt.Sprintf("org %d: (%s) is listed with %d different buckets: %v", o64, k, len(bs), es))
			} else if len(es) > 1 {
				cls["same-pair-same-bucket-listed-twice"] = true
			}
		}
		var dks []string
		for k := range info {
			dks = append(dks, k)
		}
		sort.Strings(dks)
		for _, db := range dks {
			di := info[db]
			hasPhysical := di.physical > 0
			if !m.Tainted {
				hasPhysical = false
				for _, x := range m.M {
					if x.Org == o64 && x.DB == db {
						hasPhysical = true
					}
				}
			}
			switch {
			case len(di.defaults) > 1:
				add("default/more-than-one/FindMany{org}", fmt.Sprintf("physical=%v", hasPhysical), fmt.Sprintf("org %d db %s has %d default mappings: %v", o64, db, len(di.defaults), L))
			case len(di.defaults) == 0 && hasPhysical:
				add("default/none/FindMany{org}", "db-has-stored-mappings", fmt.Sprintf("org %d db %s has mappings but no default: %v", o64, db, L))
			case len(di.defaults) == 0:
				// only virtual mappings derived from "db/rp" bucket names: by construction none is default.
				// The statement is read as covering databases that have at least one stored mapping.
				cls["virtual-only-db-without-default"] = true
			}
		}

		for _, db := range dbs {
			db := db
			// the database-scoped listing must agree with the org-scoped one
			LD, _, ok := find(influxdb.DBRPMappingFilter{OrgID: &org, Database: &db})
			if ok {
				var sub []ent
				for _, e := range L {
					if e.DB == db {
						sub = append(sub, e)
					}
				}
				LD = sortedEnts(LD)
				if fmt.Sprint(LD) != fmt.Sprint(sub) {
					// not demanded by the statement: visibility only, except for the default count
					cls["db-scoped-listing-differs-from-org-scoped"] = true
				}
				nd := 0
				for _, e := range LD {
					if e.Default {
						nd++
					}
				}
				if nd > 1 {
					add("default/more-than-one/FindMany{org,db}", "", fmt.Sprintf("org %d db %s: %v", o64, db, LD))
				}
				fmt.Fprintf(&rb, " %s=%v", db, LD)
			}

			// clause 3: lookup with empty rp (what the v1 write/query path does) returns the default
			tr := true
			D, first, ok := find(influxdb.DBRPMappingFilter{OrgID: &org, Database: &db, Default: &tr})
			if ok {
				var defs []ent
				if di := info[db]; di != nil {
					defs = di.defaults
				}
				fmt.Fprintf(&rb, " %s/<empty>=%v", db, D)
				switch {
				case len(defs) == 1 && len(D) == 0:
					add("empty-rp-lookup/no-result", fmt.Sprintf("default-virtual=%v", defs[0].Virtual), fmt.Sprintf("org %d db %s: default is %v but the lookup with empty rp finds nothing", o64, db, defs[0]))
				case len(defs) == 1 && (first.ID != defs[0].ID || first.Bucket != defs[0].Bucket || first.DB != defs[0].DB):
					add("empty-rp-lookup/not-the-default", fmt.Sprintf("default-virtual=%v,result-virtual=%v", defs[0].Virtual, first.Virtual), fmt.Sprintf("org %d db %s: default is %v but the lookup with empty rp returns %v", o64, db, defs[0], D))
				case len(defs) == 1 && len(D) > 1:
					add("empty-rp-lookup/several-results", "", fmt.Sprintf("org %d db %s: lookup with empty rp returns %v", o64, db, D))
				case len(defs) == 0 && len(D) > 0:
					add("empty-rp-lookup/result-without-default", "", fmt.Sprintf("org %d db %s: no mapping is flagged default in %v but the lookup with empty rp returns %v", o64, db, L, D))
				}
				if len(D) == 1 {
					cls["empty-rp-lookup:found"] = true
				} else if len(D) == 0 {
					cls["empty-rp-lookup:none"] = true
				}
			}

			// clause 1 on the resolution path: FindMany{org, db, rp}
			for _, rp := range rps {
				rp := rp
				R, _, ok := find(influxdb.DBRPMappingFilter{OrgID: &org, Database: &db, RetentionPolicy: &rp})
				if !ok {
					continue
				}
				bs := map[uint64]bool{}
				for _, e := range R {
					bs[e.Bucket] = true
				}
				if len(bs) > 1 {
					add("pair-resolves-to-two-buckets/FindMany{org,db,rp}", "", fmt.Sprintf("org %d (%s/%s) resolves to %v", o64, db, rp, R))
					continue
				}
				if len(R) > 1 {
					cls["resolution-lists-same-bucket-twice"] = true
				}
				if m.Tainted {
					continue
				}
				var phys *mm
				for _, x := range m.M {
					if x.Org == o64 && x.DB == db && x.RP == rp {
						x := x
						phys = &x
					}
				}
				virt := map[uint64]bool{}
				for _, b := range orgBuckets(org) {
					if d, r := virtualOf(b.Name); d == db && r == rp {
						virt[uint64(b.ID)] = true
					}
				}
				switch {
				case phys != nil && len(R) == 0:
					add("resolution/stored-mapping-not-found", "", fmt.Sprintf("org %d: stored mapping %s/%s->%d does not resolve", o64, db, rp, phys.Bucket))
				case phys != nil && !bs[phys.Bucket]:
					add("resolution/wrong-bucket", fmt.Sprintf("virtual-exists=%v", len(virt) > 0), fmt.Sprintf("org %d: %s/%s is mapped to bucket %d but resolves to %v", o64, db, rp, phys.Bucket, R))
				case phys == nil && len(R) > 0 && !virt[R[0].Bucket]:
					add("resolution/unmapped-pair-resolves", "", fmt.Sprintf("org %d: nothing maps %s/%s but it resolves to %v", o64, db, rp, R))
				}
				switch {
				case phys != nil && len(virt) > 0:
					cls["resolve:stored-shadows-virtual"] = true
				case phys != nil:
					cls["resolve:stored"] = true
				case len(R) > 0:
					cls["resolve:virtual"] = true
				default:
					cls["resolve:nothing"] = true
				}
			}
		}

		// FindByID agrees with the listing (same mapping, same default flag); wrong org finds nothing
		if !m.Tainted {
			var slots []int
			for s := range m.M {
				slots = append(slots, s)
			}
			sort.Ints(slots)
			for _, s := range slots {
				x := m.M[s]
				id := platform.ID(slotBase + s)
				var got *influxdb.DBRPMapping
				var err error
				p, d := vlib.Guard(func() { got, err = w.svc.FindByID(ctx, org, id) })
				if p {
					add("FindByID/panic", frameOf(d), d)
					continue
				}
				if x.Org != o64 {
					if err == nil {
						add("FindByID/found-through-wrong-org", "", fmt.Sprintf("mapping %d of org %d found through org %d", id, x.Org, o64))
					}
					continue
				}
				if err != nil {
					add("FindByID/stored-mapping-not-found", "", fmt.Sprintf("org %d: FindByID(%d): %v", o64, id, err))
					continue
				}
				e := toEnt(got)
				var le *ent
				for i := range L {
					if L[i].ID == e.ID && !L[i].Virtual {
						le = &L[i]
					}
				}
				if le != nil && *le != e {
					add("FindByID/disagrees-with-listing", fmt.Sprintf("default-differs=%v", le.Default != e.Default), fmt.Sprintf("org %d: FindByID(%d)=%v, listing has %v", o64, id, e, *le))
				}
			}
		}
		rb.WriteString(" | ")
	}
	for k := range cls {
		classes = append(classes, k)
	}
	sort.Strings(classes)
	return fs, rb.String(), classes
}

// ---------------------------------------------------------------------------------------
// one transition
// ---------------------------------------------------------------------------------------

type Case struct {
	History []Op `json:"history"` // the last op is the one judged
}

type verdict struct {
	key      string
	res      string
	app      bool
	tainted  bool
	findings []finding
	render   string
	classes  []string
	sigs     []string
	texts    []string
	nfind    int
	occ      uint32 // bit s set: id 100+s is in use (model)
}

type surface struct {
	fs      []finding
	classes []string
}

var (
	surfaceCache sync.Map // (state key, model key) -> surface verdict; only used by the explorer
	useCache     bool
)

func (m *model) key() string {
	var sl []int
	for s := range m.M {
		sl = append(sl, s)
	}
	sort.Ints(sl)
	var b strings.Builder
	for _, s := range sl {
		fmt.Fprintf(&b, "%d=%v;", s, m.M[s])
	}
	fmt.Fprintf(&b, "t=%v", m.Tainted)
	return b.String()
}

func frameOf(d string) string {
	if i := strings.LastIndex(d, "@ "); i >= 0 {
		return strings.TrimSuffix(d[i+2:], ".")
	}
	return "?"
}

func isV(o Op) bool { return o.K == "updateV" || o.K == "deleteV" }

// runCase replays the history on a fresh real service and judges its last op. The findings of the
// pre-state (needed to tell which findings the last op introduced) come from the surface cache when
// exploring (the pre-state was judged when it was first reached) and are recomputed when replaying.
func runCase(cs Case) verdict { return runCase1(cs, false) }

func runCase1(cs Case, withPre bool) verdict {
	w := newWorld()
	m := &model{M: map[int]mm{}}
	n := len(cs.History)
	var preF []finding
	for i, o := range cs.History {
		last := i == n-1
		if last {
			if withPre || !useCache {
				preF, _, _ = w.check(m)
			} else {
				pk := w.dump() + "#" + m.key()
				if cached, ok := surfaceCache.Load(pk); ok {
					preF = cached.(surface).fs
				} else {
					var cl []string
					preF, _, cl = w.check(m)
					surfaceCache.Store(pk, surface{preF, cl})
				}
			}
		}
		app := m.applicable(o)
		before := ""
		if isV(o) {
			before = w.dump()
		}
		res := w.apply(o)
		if isV(o) && res == "ok" && w.dump() != before {
			m.Tainted = true
		}
		if !last {
			// prefix: the model follows the accepted, applicable ops (earlier transitions were judged on their own)
			if !isV(o) && app && res == "ok" {
				m.step(o)
			}
			continue
		}
		var v verdict
		v.res, v.app = res, app
		var fs []finding
		if strings.HasPrefix(res, "PANIC") {
			fs = append(fs, finding{"op/panic", o.K + "@" + frameOf(res), res})
		}
		if isV(o) {
			// no prediction
		} else if app {
			if res != "ok" {
				fs = append(fs, finding{"valid-operation-rejected", o.K, fmt.Sprintf("%s returned an error although nothing conflicts", o)})
			} else {
				m.step(o)
			}
		}
		// an inapplicable op (duplicate pair / unknown id / wrong org) must leave the model's mappings as they are:
		// the model is simply not stepped, and the listing comparison below judges it.
		v.key = w.dump()
		var cf []finding
		var render string
		var classes []string
		ck := v.key + "#" + m.key()
		if cached, ok := surfaceCache.Load(ck); ok && !withPre && useCache {
			// the surface is a function of the stored state; its verdict a function of (state, model)
			sf := cached.(surface)
			cf, classes = sf.fs, append([]string{}, sf.classes...)
		} else {
			cf, render, classes = w.check(m)
			if useCache {
				surfaceCache.Store(ck, surface{cf, append([]string{}, classes...)})
			}
		}
		fs = append(fs, cf...)
		if (o.K == "create" || o.K == "update") && app && res == "ok" && o.Def {
			if got, err := w.svc.FindByID(context.Background(), platform.ID(o.Org), platform.ID(slotBase+o.Slot)); err == nil && got.Default {
				classes = append(classes, "explicit-default-request:honoured")
			} else {
				classes = append(classes, "explicit-default-request:NOT-honoured")
			}
		}
		v.nfind = len(fs)
		for sl := range m.M {
			v.occ |= 1 << uint(sl)
		}
		v.occ |= w.usedIDs() // and whatever the store really holds under an id of the pool
		v.tainted = m.Tainted
		v.render = render
		v.classes = classes
		// report only what this transition introduced
		pre := map[string]bool{}
		for _, f := range preF {
			pre[f.kind+"|"+f.feat] = true
		}
		for _, f := range fs {
			if pre[f.kind+"|"+f.feat] {
				continue
			}
			if m.Tainted {
				// one root cause (a stored record for a virtual mapping's id): one class per violated clause
				v.sigs = append(v.sigs, vlib.JoinSig(f.kind, "after-accepted-update-or-delete-of-a-virtual-mapping-id"))
				v.texts = append(v.texts, f.text)
				continue
			}
			// clauses about the state carry the features of the state (op-level findings name the op in their features)
			v.sigs = append(v.sigs, vlib.JoinSig(f.kind, f.feat))
			v.texts = append(v.texts, f.text)
		}
		return v
	}
	return verdict{}
}

// ---------------------------------------------------------------------------------------
// op family
// ---------------------------------------------------------------------------------------

type bounds struct {
	name     string
	slots    int
	bothBkts bool
	vIDs     []uint64 // ids of virtual mappings that update/delete may be aimed at
	vRPs     []string
}

func opsFor(b bounds) []Op {
	var ops []Op
	for s := 1; s <= b.slots; s++ {
		for _, org := range orgs {
			for _, db := range dbs {
				for _, rp := range rps {
					nb := 1
					if b.bothBkts {
						nb = 2
					}
					for bi := 0; bi < nb; bi++ {
						bidx := bi
						if !b.bothBkts {
							bidx = (s + 1) % 2
						}
						for _, def := range []bool{false, true} {
							ops = append(ops, Op{K: "create", Slot: s, Org: uint64(org), DB: db, RP: rp, Bkt: bidx, Def: def})
						}
					}
				}
			}
		}
		for _, org := range orgs {
			for _, rp := range rps {
				for _, def := range []bool{false, true} {
					ops = append(ops, Op{K: "update", Slot: s, Org: uint64(org), RP: rp, Def: def})
				}
			}
			ops = append(ops, Op{K: "delete", Slot: s, Org: uint64(org)})
		}
	}
	for _, bk := range buckets {
		for _, vid := range b.vIDs {
			if uint64(bk.ID) != vid {
				continue
			}
			for _, rp := range b.vRPs {
				for _, def := range []bool{false, true} {
					ops = append(ops, Op{K: "updateV", Org: uint64(bk.Org), VID: vid, RP: rp, Def: def})
				}
			}
			ops = append(ops, Op{K: "deleteV", Org: uint64(bk.Org), VID: vid})
		}
	}
	return ops
}

// ---------------------------------------------------------------------------------------
// BFS
// ---------------------------------------------------------------------------------------

type tres struct {
	op Op
	v  verdict
}

func bfs(c *vlib.Ctx, b bounds) {
	useCache = true
	w0 := newWorld()
	k0 := w0.dump()
	seen := map[string]bool{k0: true}
	c.State(k0)
	c.Trace(1)
	type node struct {
		hist []Op
		occ  uint32
	}
	frontier := []node{{}}
	depth := 0
	par := runtime.GOMAXPROCS(0)
	ops := opsFor(b)
	c.Extra("ops_per_state_"+b.name, int64(len(ops)))
	for len(frontier) > 0 {
		var next []node
		for lo := 0; lo < len(frontier); lo += 4 * par {
			if c.Expired() {
				c.Cap(fmt.Sprintf("budget hit in phase %s at BFS depth %d; all shallower levels complete", b.name, depth))
				return
			}
			hi := min(lo+4*par, len(frontier))
			results := make([][]tres, hi-lo)
			var wg sync.WaitGroup
			for i := lo; i < hi; i++ {
				wg.Add(1)
				go func(i int) {
					defer wg.Done()
					hist := frontier[i].hist
					var out []tres
					for _, o := range ops {
						if o.K == "create" && frontier[i].occ&(1<<uint(o.Slot)) != 0 {
							continue // ids are never chosen by API callers: a create always gets an unused id
						}
						h := append(append([]Op{}, hist...), o)
						out = append(out, tres{o, runCase(Case{History: h})})
					}
					results[i-lo] = out
				}(i)
			}
			wg.Wait()
			// merge in deterministic order
			for i := lo; i < hi; i++ {
				for _, r := range results[i-lo] {
					h := append(append([]Op{}, frontier[i].hist...), r.op)
					c.Eval(1)
					c.Trace(1)
					c.Transition(1)
					if r.v.app || (isV(r.op) && r.v.res == "ok") {
						c.NontrivialN(1)
					}
					mode := "model"
					if r.v.tainted {
						mode = "invariants-only"
					}
					c.Outcome(fmt.Sprintf("%s:applicable=%v:%s:%s", r.op.K, r.v.app, strings.SplitN(r.v.res, " ", 2)[0], mode))
					for _, cl := range r.v.classes {
						c.Outcome("surface:" + cl)
					}
					for j, sg := range r.v.sigs {
						c.Violation(sg, fmt.Sprintf("after history {%s}: %s", histString(h), r.v.texts[j]), Case{History: h})
					}
					if !seen[r.v.key] {
						seen[r.v.key] = true
						c.State(r.v.key)
						next = append(next, node{h, r.v.occ})
						if c.WantSample() && len(h) >= 3 {
							c.Sample(map[string]any{"history": histString(h), "surface": runCase1(Case{History: h}, true).render})
						}
					}
				}
			}
		}
		frontier = next
		depth++
		c.Logf("phase %s depth %d: %d new states, %d total", b.name, depth, len(next), len(seen))
	}
	c.Extra("bfs_depth_"+b.name, int64(depth))
	c.Extra("states_"+b.name, int64(len(seen)))
}

func TestCheck(t *testing.T) {
	vlib.Main(t, &vlib.Check{
		ID: "C43", Level: "model_checking", Workers: 1,
		Rule: "BFS to closure; state = full content of the service's four kv buckets; ops: create(id∈pool, org∈{1,2}, db∈{db,dbx}, rp∈{autogen,rp1,rp2}, bucket, default flag), " +
			"update(id, org, rp, default flag), delete(id, org) incl. unknown ids, wrong org and duplicate pairs (create always uses an unused id, any of the pool); fixed environment of 4 buckets (org1: 'db','db/rp1'; org2: 'dbx/autogen','plain') giving virtual mappings. " +
			"quick: phase A pool of 2 ids, bucket fixed per id; phase B pool of 1 id plus update/delete aimed at the ids of the virtual mappings 11 ('db') and 21 ('dbx/autogen') with rp∈{autogen,rp1}. " +
			"thorough: phase A pool of 3 ids, both buckets of the org; phase B pool of 1 id plus virtual ids {11,12,21}; phase C pool of 2 ids plus virtual ids {11,21} (rp∈{autogen,rp1}). Each phase is a BFS to closure. " +
			"Every transition = replay of the state's shortest history on a fresh real dbrp.Service (inmem kv) plus one op; after each: listing per org, per (org,db), resolution of every (org,db,rp), empty-rp lookup, FindByID " +
			"are checked against the statement (≤1 bucket per pair, exactly one default per database that has stored mappings, empty-rp lookup returns it, stored mappings = those built by the ops). " +
			"non-trivial = transitions whose op is applicable in the model or an accepted virtual-id op (distinct by construction); a violation is reported on the transition introducing it",
		Assumptions: []string{
			"the in-harness BucketService (fixed bucket set) honours the interface; bucket names are static during a history",
			"the four kv buckets are created directly instead of running kv migrations 0004/0012",
			"a database whose only mappings are virtual ones derived from 'db/rp' bucket names has no default by construction; the 'exactly one default' clause is applied to databases with at least one stored mapping (at most one default is required everywhere)",
			"after an accepted update/delete aimed at a virtual mapping's id the set of stored mappings is not predicted by the model; only the statement's invariants on the observable surface are checked from then on",
		},
		QuickBudgetS: 100, ThoroughBudgetS: 840,
		Run: func(c *vlib.Ctx) {
			phases := []bounds{
				{name: "A", slots: 2},
				{name: "B", slots: 1, vIDs: []uint64{11, 21}, vRPs: []string{"autogen", "rp1"}},
			}
			if c.Thorough() {
				phases = []bounds{
					{name: "A", slots: 3, bothBkts: true},
					{name: "B", slots: 1, vIDs: []uint64{11, 12, 21}, vRPs: []string{"autogen", "rp1"}},
					{name: "C", slots: 2, vIDs: []uint64{11, 21}, vRPs: []string{"autogen", "rp1"}},
				}
			}
			for _, b := range phases {
				bfs(c, b)
			}
		},
		Replay: func(c *vlib.Ctx, raw json.RawMessage) (bool, string) {
			var cs Case
			if err := json.Unmarshal(raw, &cs); err != nil || len(cs.History) == 0 {
				return false, fmt.Sprint("bad case: ", err)
			}
			useCache = false
			v := runCase1(cs, true)
			return len(v.sigs) > 0, fmt.Sprintf("history {%s}: last op returned %s; surface: %s; introduced: %v", histString(cs.History), v.res, v.render, v.sigs)
		},
	})
}
