// C43: v1 database/retention-policy names resolve to one bucket.
//
// Explicit-state breadth-first search to closure. A state is the complete content of the four kv
// buckets the real dbrp.Service keeps (mappings, org+db index, org index, defaults) on an in-memory
// kv store; every transition calls the REAL dbrp.Service (Create / Update / Delete): the successor of
// a state is obtained by replaying the state's shortest op history on a fresh real service plus one op.
// After every transition the complete observable surface (FindMany listings per org, (db,rp)
// resolution, empty-rp lookup, FindByID) is compared with a reference written from the statement.
package c43

import (
	"context"
	"encoding/hex"
	"encoding/json"
	"fmt"
	"runtime"
	"sort"
	"strings"
	"sync"
	"testing"

	influxdb "github.com/influxdata/influxdb/v2"
	"github.com/influxdata/influxdb/v2/dbrp"
	"github.com/influxdata/influxdb/v2/inmem"
	"github.com/influxdata/influxdb/v2/kit/platform"
	"github.com/influxdata/influxdb/v2/kv"
	"verif/h/vlib"
)

// ---------------------------------------------------------------------------------------
// environments. The FIXED environment (phases A-C): two organizations with two buckets each. Bucket
// names give rise to virtual mappings: "db" -> (db, autogen, default), "db/rp1" -> (db, rp1),
// "dbx/autogen" -> (dbx, autogen) (a virtual-only database without a default), "plain".
// The NAMES environments (phase N): organization 1 owns "plain1" (id 10) plus an ordered selection of
// the name alphabet (ids 11, 12, ... in creation order = the order the BucketService lists them);
// several of these names parse to the SAME (database, retention policy) pair.
// ---------------------------------------------------------------------------------------

type bkt struct {
	ID   platform.ID
	Org  platform.ID
	Name string
}

type env struct {
	tag     string   // "" for the fixed environment
	names   []string // names environment: the enumerated bucket names of org 1, in creation order
	buckets []bkt    // in the order FindBuckets lists them
	rps     []string // retention policies probed by the resolution lookups
}

var (
	orgs = []platform.ID{1, 2}
	dbs  = []string{"db", "dbx"} // one name is a prefix of the other on purpose
	rps  = []string{"autogen", "rp1", "rp2"}

	fixedEnv = &env{
		buckets: []bkt{{11, 1, "db"}, {12, 1, "db/rp1"}, {21, 2, "dbx/autogen"}, {22, 2, "plain"}},
		rps:     rps,
	}

	// the bucket-name alphabet of phase N: "db" and "db/autogen" parse to (db, autogen), "dbx" and
	// "dbx/autogen" to (dbx, autogen); "db/rp1" to (db, rp1); "db/autogen/x" has two slashes (the
	// repo's parser cuts at the first one: (db, "autogen/x")); "db/rp1/x" likewise.
	nameAlphabetQuick    = []string{"db", "db/autogen", "db/rp1", "dbx", "dbx/autogen", "db/autogen/x"}
	nameAlphabetThorough = []string{"db", "db/autogen", "db/rp1", "dbx", "dbx/autogen", "db/autogen/x", "db/rp1/x"}
)

func namesEnv(names []string) *env {
	e := &env{tag: "names=" + strings.Join(names, ","), names: append([]string{}, names...)}
	e.buckets = append(e.buckets, bkt{10, 1, "plain1"})
	for i, n := range names {
		e.buckets = append(e.buckets, bkt{platform.ID(11 + i), 1, n})
	}
	e.buckets = append(e.buckets, bkt{21, 2, "dbx/autogen"}, bkt{22, 2, "plain"})
	e.rps = append([]string{}, rps...)
	for _, b := range e.buckets {
		_, rp := virtualOf(b.Name)
		known := false
		for _, r := range e.rps {
			known = known || r == rp
		}
		if !known {
			e.rps = append(e.rps, rp)
		}
	}
	return e
}

func (e *env) orgBuckets(org platform.ID) []bkt {
	var out []bkt
	for _, b := range e.buckets {
		if b.Org == org {
			out = append(out, b)
		}
	}
	return out
}

func (e *env) bucket(id uint64) *bkt {
	for i := range e.buckets {
		if uint64(e.buckets[i].ID) == id {
			return &e.buckets[i]
		}
	}
	return nil
}

// virtualOf: the statement's "virtual mappings derived from bucket names": name "a/b" -> (a,b);
// name without slash -> (name, autogen).
func virtualOf(name string) (db, rp string) {
	if i := strings.IndexByte(name, '/'); i >= 0 {
		return name[:i], name[i+1:]
	}
	return name, "autogen"
}

type bucketSvc struct {
	influxdb.BucketService // unimplemented methods: nil (never called)
	e                      *env
}

func (s bucketSvc) FindBucketByID(ctx context.Context, id platform.ID) (*influxdb.Bucket, error) {
	for _, b := range s.e.buckets {
		if b.ID == id {
			return &influxdb.Bucket{ID: b.ID, OrgID: b.Org, Name: b.Name}, nil
		}
	}
	return nil, fmt.Errorf("bucket not found")
}

func (s bucketSvc) FindBuckets(ctx context.Context, f influxdb.BucketFilter, opt ...influxdb.FindOptions) ([]*influxdb.Bucket, int, error) {
	var out []*influxdb.Bucket
	for _, b := range s.e.buckets {
		if f.ID != nil && *f.ID != b.ID {
			continue
		}
		if f.OrganizationID != nil && *f.OrganizationID != b.Org {
			continue
		}
		if f.Name != nil && *f.Name != b.Name {
			continue
		}
		out = append(out, &influxdb.Bucket{ID: b.ID, OrgID: b.Org, Name: b.Name})
	}
	return out, len(out), nil
}

// ---------------------------------------------------------------------------------------
// ops
// ---------------------------------------------------------------------------------------

const slotBase = 100 // mapping IDs are slotBase+slot; distinct from bucket IDs

type Op struct {
	K    string `json:"op"`             // create | update | delete | updateV | deleteV
	Slot int    `json:"slot,omitempty"` // create/update/delete: mapping id = 100+slot
	Org  uint64 `json:"org"`
	DB   string `json:"db,omitempty"`
	RP   string `json:"rp,omitempty"`
	Bkt  int    `json:"bucket_index,omitempty"` // create: index into the org's buckets
	Def  bool   `json:"default,omitempty"`
	VID  uint64 `json:"virtual_id,omitempty"` // updateV/deleteV: the id of a virtual mapping (= bucket id)
}

func (o Op) String() string {
	switch o.K {
	case "create":
		return fmt.Sprintf("create(id=%d,org=%d,%s/%s->bucket#%d,default=%v)", slotBase+o.Slot, o.Org, o.DB, o.RP, o.Bkt, o.Def)
	case "update":
		return fmt.Sprintf("update(id=%d,org=%d,rp=%s,default=%v)", slotBase+o.Slot, o.Org, o.RP, o.Def)
	case "delete":
		return fmt.Sprintf("delete(id=%d,org=%d)", slotBase+o.Slot, o.Org)
	case "updateV":
		return fmt.Sprintf("update-virtual(id=%d,org=%d,rp=%s,default=%v)", o.VID, o.Org, o.RP, o.Def)
	}
	return fmt.Sprintf("delete-virtual(id=%d,org=%d)", o.VID, o.Org)
}

func histString(h []Op) string {
	var p []string
	for _, o := range h {
		p = append(p, o.String())
	}
	return strings.Join(p, " ; ")
}

// ---------------------------------------------------------------------------------------
// world: the real service on a fresh in-memory kv store
// ---------------------------------------------------------------------------------------

var kvBuckets = []string{"dbrpv1", "dbrpbyorganddbindexv1", "dbrpbyorgv1", "dbrpdefaultv1"} // migrations 0004 and 0012

type world struct {
	e   *env
	st  *inmem.KVStore
	svc influxdb.DBRPMappingService
}

func newWorld(e *env) *world {
	st := inmem.NewKVStore()
	for _, b := range kvBuckets {
		if err := st.CreateBucket(context.Background(), []byte(b)); err != nil {
			panic(err)
		}
	}
	return &world{e: e, st: st, svc: dbrp.NewService(context.Background(), bucketSvc{e: e}, st)}
}

func (w *world) apply(o Op) (res string) {
	ctx := context.Background()
	var err error
	p, d := vlib.Guard(func() {
		switch o.K {
		case "create":
			ob := w.e.orgBuckets(platform.ID(o.Org))
			err = w.svc.Create(ctx, &influxdb.DBRPMapping{ID: platform.ID(slotBase + o.Slot), OrganizationID: platform.ID(o.Org),
				Database: o.DB, RetentionPolicy: o.RP, Default: o.Def, BucketID: ob[o.Bkt].ID})
		case "update":
			// the caller only names id, org, new rp and default flag; the service keeps db and bucket
			err = w.svc.Update(ctx, &influxdb.DBRPMapping{ID: platform.ID(slotBase + o.Slot), OrganizationID: platform.ID(o.Org),
				Database: "db", RetentionPolicy: o.RP, Default: o.Def, BucketID: w.e.orgBuckets(platform.ID(o.Org))[0].ID})
		case "delete":
			err = w.svc.Delete(ctx, platform.ID(o.Org), platform.ID(slotBase+o.Slot))
		case "updateV":
			// what PATCH /api/v2/dbrps/{id} does: FindByID, change fields, Update
			var m *influxdb.DBRPMapping
			m, err = w.svc.FindByID(ctx, platform.ID(o.Org), platform.ID(o.VID))
			if err == nil {
				m.RetentionPolicy, m.Default = o.RP, o.Def
				err = w.svc.Update(ctx, m)
			}
		case "deleteV":
			err = w.svc.Delete(ctx, platform.ID(o.Org), platform.ID(o.VID))
		}
	})
	if p {
		return "PANIC " + d
	}
	if err != nil {
		return "err"
	}
	return "ok"
}

// usedIDs: bit s set if a record is stored under id 100+s.
func (w *world) usedIDs() (occ uint32) {
	w.st.View(context.Background(), func(tx kv.Tx) error {
		bk, err := tx.Bucket([]byte(kvBuckets[0]))
		if err != nil {
			panic(err)
		}
		for sl := 1; sl < 31; sl++ {
			k, _ := platform.ID(slotBase + sl).Encode()
			if _, err := bk.Get(k); err == nil {
				occ |= 1 << uint(sl)
			}
		}
		return nil
	})
	return
}

// dump: canonical state key = every key/value of the service's kv buckets.
func (w *world) dump() string {
	var b strings.Builder
	w.st.View(context.Background(), func(tx kv.Tx) error {
		for _, name := range kvBuckets {
			bk, err := tx.Bucket([]byte(name))
			if err != nil {
				panic(err)
			}
			cur, err := bk.Cursor() // static cursor (ForwardCursor spawns a goroutine per call)
			if err != nil {
				panic(err)
			}
			b.WriteString("[" + name + "]")
			for k, v := cur.First(); k != nil; k, v = cur.Next() {
				b.WriteString(hex.EncodeToString(k))
				b.WriteByte('=')
				b.Write(v) // values are JSON documents or ids
				b.WriteByte(';')
			}
		}
		return nil
	})
	return b.String()
}

// ---------------------------------------------------------------------------------------
// reference model: the set of (physical) mappings the operations have built.
// ---------------------------------------------------------------------------------------

type mm struct {
	Org    uint64
	DB, RP string
	Bucket uint64
}

type model struct {
	e       *env
	M       map[int]mm // slot -> mapping
	Tainted bool       // an update/delete aimed at a virtual mapping id was accepted: the statement
	// does not say what that means for the set of stored mappings; from then on only the statement's
	// invariants on the observable surface are checked, not equality with this model.
}

func (m *model) pairTaken(org uint64, db, rp string, except int) bool {
	for s, x := range m.M {
		if s != except && x.Org == org && x.DB == db && x.RP == rp {
			return true
		}
	}
	return false
}

// applicable: must the op succeed and take effect according to the statement's CRUD reading?
func (m *model) applicable(o Op) bool {
	switch o.K {
	case "create":
		_, ex := m.M[o.Slot]
		return !ex && !m.pairTaken(o.Org, o.DB, o.RP, -1)
	case "update":
		x, ex := m.M[o.Slot]
		return ex && x.Org == o.Org && !m.pairTaken(x.Org, x.DB, o.RP, o.Slot)
	case "delete":
		x, ex := m.M[o.Slot]
		return ex && x.Org == o.Org
	}
	return false
}

func (m *model) step(o Op) {
	switch o.K {
	case "create":
		m.M[o.Slot] = mm{o.Org, o.DB, o.RP, uint64(m.e.orgBuckets(platform.ID(o.Org))[o.Bkt].ID)}
	case "update":
		x := m.M[o.Slot]
		x.RP = o.RP
		m.M[o.Slot] = x
	case "delete":
		delete(m.M, o.Slot)
	}
}

// ---------------------------------------------------------------------------------------
// observation + oracle
// ---------------------------------------------------------------------------------------

type ent struct {
	ID      uint64
	Org     uint64
	DB, RP  string
	Bucket  uint64
	Default bool
	Virtual bool
}

func toEnt(m *influxdb.DBRPMapping) ent {
	return ent{uint64(m.ID), uint64(m.OrganizationID), m.Database, m.RetentionPolicy, uint64(m.BucketID), m.Default, m.Virtual}
}

func (e ent) String() string {
	s := fmt.Sprintf("%d:%s/%s->%d", e.ID, e.DB, e.RP, e.Bucket)
	if e.Default {
		s += "*"
	}
	if e.Virtual {
		s += "(v)"
	}
	return s
}

type finding struct {
	kind string // clause/call-site
	feat string // discriminating features
	text string
}

func sortedEnts(l []ent) []ent {
	sort.Slice(l, func(i, j int) bool {
		a, b := l[i], l[j]
		if a.DB != b.DB {
			return a.DB < b.DB
		}
		if a.RP != b.RP {
			return a.RP < b.RP
		}
		if a.ID != b.ID {
			return a.ID < b.ID
		}
		return a.Bucket < b.Bucket
	})
	return l
}

func composition(es []ent) string {
	st, vi := 0, 0
	for _, e := range es {
		if e.Virtual {
			vi++
		} else {
			st++
		}
	}
	switch {
	case st > 0 && vi > 0:
		return "stored+virtual"
	case vi > 0:
		return "virtual+virtual"
	}
	return "stored+stored"
}

// check inspects the complete observable surface; returns findings and a deterministic rendering.
func (w *world) check(m *model) (fs []finding, render string, classes []string) {
	ctx := context.Background()
	var rb strings.Builder
	add := func(kind, feat, text string) { fs = append(fs, finding{kind, feat, text}) }
	cls := map[string]bool{}
	find := func(f influxdb.DBRPMappingFilter) (out []ent, firstIdx ent, ok bool) {
		var ms []*influxdb.DBRPMapping
		var err error
		p, d := vlib.Guard(func() { ms, _, err = w.svc.FindMany(ctx, f) })
		if p {
			add("FindMany/panic", frameOf(d), "FindMany("+f.String()+") "+d)
			return nil, ent{}, false
		}
		if err != nil {
			add("FindMany/error", "", "FindMany("+f.String()+") failed: "+err.Error())
			return nil, ent{}, false
		}
		for _, x := range ms {
			out = append(out, toEnt(x))
		}
		if len(out) > 0 {
			firstIdx = out[0]
		}
		return out, firstIdx, true
	}
	// clause 1 on one lookup result: every (org, db, rp) appears with at most one bucket (whichever of
	// several candidates wins); every returned mapping points at an existing bucket of its organization.
	twoBuckets := func(kind, lookup string, es []ent) (bad map[string]bool) {
		bad = map[string]bool{}
		pair := map[string][]ent{}
		var pks []string
		for _, e := range es {
			k := fmt.Sprintf("org %d (%s/%s)", e.Org, e.DB, e.RP)
			if pair[k] == nil {
				pks = append(pks, k)
			}
			pair[k] = append(pair[k], e)
			if b := w.e.bucket(e.Bucket); b == nil || uint64(b.Org) != e.Org {
				add("returned-mapping/bucket-missing-or-of-other-org/"+lookup, fmt.Sprintf("virtual=%v", e.Virtual), fmt.Sprintf("%s returned %v of org %d whose bucket %d does not exist in that organization", lookup, e, e.Org, e.Bucket))
			}
		}
		sort.Strings(pks)
		for _, k := range pks {
			g := pair[k]
			bs := map[uint64]bool{}
			for _, e := range g {
				bs[e.Bucket] = true
			}
			if len(bs) > 1 {
				bad[k] = true
				add(kind+"/"+lookup, composition(g), fmt.Sprintf("%s: %s comes with %d different buckets: %v", lookup, k, len(bs), g))
			} else if len(g) > 1 {
				cls["same-pair-same-bucket-returned-twice:"+composition(g)] = true
			}
		}
		return bad
	}
	atMostOneDefault := func(lookup string, es []ent) {
		n := map[string]int{}
		var ks []string
		for _, e := range es {
			if e.Default {
				k := fmt.Sprintf("org %d db %s", e.Org, e.DB)
				if n[k] == 0 {
					ks = append(ks, k)
				}
				n[k]++
			}
		}
		sort.Strings(ks)
		for _, k := range ks {
			if n[k] > 1 {
				add("default/more-than-one/"+lookup, "", fmt.Sprintf("%s: %s has %d default mappings: %v", lookup, k, n[k], es))
			}
		}
	}
	perOrg := map[uint64][]ent{}
	for _, org := range orgs {
		org := org
		o64 := uint64(org)
		L, _, ok := find(influxdb.DBRPMappingFilter{OrgID: &org})
		if !ok {
			continue
		}
		L = sortedEnts(L)
		perOrg[o64] = L
		fmt.Fprintf(&rb, "org%d list=%v", o64, L)

		// model equality for physical mappings (CRUD takes effect, nothing else changes)
		if !m.Tainted {
			want := map[string]bool{}
			for s, x := range m.M {
				if x.Org == o64 {
					want[fmt.Sprintf("%d:%s/%s->%d", slotBase+s, x.DB, x.RP, x.Bucket)] = true
				}
			}
			got := map[string]bool{}
			for _, e := range L {
				if e.Org != o64 {
					add("listing/foreign-org-entry", "", fmt.Sprintf("FindMany{org %d} returned a mapping of org %d: %v", o64, e.Org, e))
				}
				if !e.Virtual {
					k := fmt.Sprintf("%d:%s/%s->%d", e.ID, e.DB, e.RP, e.Bucket)
					if got[k] {
						add("listing/physical-listed-twice", "", fmt.Sprintf("org %d: %s listed twice in %v", o64, k, L))
					}
					got[k] = true
				}
			}
			for k := range want {
				if !got[k] {
					add("listing/mapping-missing", "", fmt.Sprintf("org %d: mapping %s built by the operations is not listed: %v", o64, k, L))
				}
			}
			for k := range got {
				if !want[k] {
					add("listing/unexpected-mapping", "", fmt.Sprintf("org %d: listed mapping %s was never built (or was deleted/changed): %v", o64, k, L))
				}
			}
		}

		// clause 1: each (db, rp) pair -> at most one bucket; clause 2: exactly one default per db
		type dbinfo struct {
			defaults []ent
			physical int
			total    int
		}
		info := map[string]*dbinfo{}
		for _, e := range L {
			if info[e.DB] == nil {
				info[e.DB] = &dbinfo{}
			}
			di := info[e.DB]
			di.total++
			if !e.Virtual {
				di.physical++
			}
			if e.Default {
				di.defaults = append(di.defaults, e)
			}
		}
		twoBuckets("pair-listed-with-two-buckets", "FindMany{org}", L)
		var dks []string
		for k := range info {
			dks = append(dks, k)
		}
		sort.Strings(dks)
		for _, db := range dks {
			di := info[db]
			hasPhysical := di.physical > 0
			if !m.Tainted {
				hasPhysical = false
				for _, x := range m.M {
					if x.Org == o64 && x.DB == db {
						hasPhysical = true
					}
				}
			}
			switch {
			case len(di.defaults) > 1:
				add("default/more-than-one/FindMany{org}", fmt.Sprintf("physical=%v", hasPhysical), fmt.Sprintf("org %d db %s has %d default mappings: %v", o64, db, len(di.defaults), L))
			case len(di.defaults) == 0 && hasPhysical:
				add("default/none/FindMany{org}", "db-has-stored-mappings", fmt.Sprintf("org %d db %s has mappings but no default: %v", o64, db, L))
			case len(di.defaults) == 0:
				// only virtual mappings derived from "db/rp" bucket names: by construction none is default.
				// The statement is read as covering databases that have at least one stored mapping.
				cls["virtual-only-db-without-default"] = true
			}
		}

		// bucket-name collisions of this organization: which of the candidates of one pair is listed
		cand := map[string][]bkt{}
		var cks []string
		for _, b := range w.e.orgBuckets(org) {
			d, r := virtualOf(b.Name)
			k := d + "/" + r
			if cand[k] == nil {
				cks = append(cks, k)
			}
			cand[k] = append(cand[k], b)
		}
		for _, k := range cks {
			if len(cand[k]) < 2 {
				continue
			}
			stored, winner := false, -1
			for _, e := range L {
				if e.DB+"/"+e.RP != k {
					continue
				}
				if !e.Virtual {
					stored = true
					continue
				}
				for i, b := range cand[k] {
					if uint64(b.ID) == e.Bucket && winner < 0 {
						winner = i
					}
				}
			}
			switch {
			case stored:
				cls["colliding-bucket-names:stored-mapping-for-the-pair"] = true
			case winner == 0:
				cls["colliding-bucket-names:first-listed-candidate-wins"] = true
			case winner > 0:
				cls["colliding-bucket-names:later-listed-candidate-wins"] = true
			default:
				cls["colliding-bucket-names:no-candidate-listed"] = true
			}
		}

		for _, db := range dbs {
			db := db
			// the database-scoped listing must agree with the org-scoped one
			LD, _, ok := find(influxdb.DBRPMappingFilter{OrgID: &org, Database: &db})
			if ok {
				var sub []ent
				for _, e := range L {
					if e.DB == db {
						sub = append(sub, e)
					}
				}
				LD = sortedEnts(LD)
				if fmt.Sprint(LD) != fmt.Sprint(sub) {
					// not demanded by the statement: visibility only, except for the default count and clause 1
					cls["db-scoped-listing-differs-from-org-scoped"] = true
				}
				twoBuckets("pair-listed-with-two-buckets", "FindMany{org,db}", LD)
				atMostOneDefault("FindMany{org,db}", LD)
				fmt.Fprintf(&rb, " %s=%v", db, LD)
			}

			// clause 1 on the resolution path: FindMany{org, db, rp}
			resolved := map[string][]ent{}
			for _, rp := range w.e.rps {
				rp := rp
				R, _, ok := find(influxdb.DBRPMappingFilter{OrgID: &org, Database: &db, RetentionPolicy: &rp})
				if !ok {
					continue
				}
				resolved[rp] = R
				if len(R) > 0 {
					fmt.Fprintf(&rb, " %s/%s=%v", db, rp, R)
				}
				if bad := twoBuckets("pair-resolves-to-two-buckets", "FindMany{org,db,rp}", R); len(bad) > 0 {
					continue
				}
				bs := map[uint64]bool{}
				for _, e := range R {
					bs[e.Bucket] = true
					if e.Org != o64 || e.DB != db || e.RP != rp {
						add("resolution/result-of-another-pair", "", fmt.Sprintf("org %d: the lookup of (%s/%s) returned %v", o64, db, rp, R))
					}
				}
				if len(R) > 1 {
					cls["resolution-lists-same-bucket-twice"] = true
				}
				if m.Tainted {
					continue
				}
				var phys *mm
				for _, x := range m.M {
					if x.Org == o64 && x.DB == db && x.RP == rp {
						x := x
						phys = &x
					}
				}
				virt := map[uint64]bool{}
				for _, b := range w.e.orgBuckets(org) {
					if d, r := virtualOf(b.Name); d == db && r == rp {
						virt[uint64(b.ID)] = true
					}
				}
				switch {
				case phys != nil && len(R) == 0:
					add("resolution/stored-mapping-not-found", "", fmt.Sprintf("org %d: stored mapping %s/%s->%d does not resolve", o64, db, rp, phys.Bucket))
				case phys != nil && !bs[phys.Bucket]:
					add("resolution/wrong-bucket", fmt.Sprintf("virtual-exists=%v", len(virt) > 0), fmt.Sprintf("org %d: %s/%s is mapped to bucket %d but resolves to %v", o64, db, rp, phys.Bucket, R))
				case phys == nil && len(R) > 0 && !virt[R[0].Bucket]:
					add("resolution/unmapped-pair-resolves", "", fmt.Sprintf("org %d: nothing maps %s/%s but it resolves to %v", o64, db, rp, R))
				}
				switch {
				case phys != nil && len(virt) > 1:
					cls["resolve:stored-shadows-several-virtual"] = true
				case phys != nil && len(virt) > 0:
					cls["resolve:stored-shadows-virtual"] = true
				case phys != nil:
					cls["resolve:stored"] = true
				case len(R) > 0 && len(virt) > 1:
					cls["resolve:one-of-several-virtual"] = true
				case len(R) > 0:
					cls["resolve:virtual"] = true
				default:
					cls["resolve:nothing"] = true
				}
			}

			// clause 3: lookup with empty rp (what the v1 write/query path does) returns the default
			tr := true
			D, first, ok := find(influxdb.DBRPMappingFilter{OrgID: &org, Database: &db, Default: &tr})
			if ok {
				var defs []ent
				if di := info[db]; di != nil {
					defs = di.defaults
				}
				fmt.Fprintf(&rb, " %s/<empty>=%v", db, D)
				twoBuckets("pair-listed-with-two-buckets", "FindMany{org,db,default}", D)
				// clause 1 across the two lookups of the v1 path: the mapping returned for the empty rp names a
				// pair (db, rp); the lookup of that very pair must not lead to another bucket
				elsewhere := false
				if len(D) > 0 {
					for _, e := range resolved[first.RP] {
						if e.Bucket != first.Bucket {
							elsewhere = true
						}
					}
				}
				switch {
				case len(defs) == 1 && len(D) == 0:
					add("empty-rp-lookup/no-result", fmt.Sprintf("default-virtual=%v", defs[0].Virtual), fmt.Sprintf("org %d db %s: default is %v but the lookup with empty rp finds nothing", o64, db, defs[0]))
				case len(defs) == 1 && (first.ID != defs[0].ID || first.Bucket != defs[0].Bucket || first.DB != defs[0].DB):
					add("empty-rp-lookup/not-the-default", fmt.Sprintf("default-virtual=%v,result-virtual=%v", defs[0].Virtual, first.Virtual), fmt.Sprintf("org %d db %s: default is %v but the lookup with empty rp returns %v", o64, db, defs[0], D))
				case len(defs) == 1 && len(D) > 1:
					add("empty-rp-lookup/several-results", "", fmt.Sprintf("org %d db %s: lookup with empty rp returns %v", o64, db, D))
				case len(defs) == 0 && len(D) > 0:
					add("empty-rp-lookup/result-without-default", fmt.Sprintf("result-virtual=%v,its-pair-resolves-to-another-bucket=%v", first.Virtual, elsewhere),
						fmt.Sprintf("org %d db %s: no mapping is flagged default in %v but the lookup with empty rp returns %v (the lookup of (%s/%s) returns %v)", o64, db, L, D, db, first.RP, resolved[first.RP]))
				}
				if len(D) == 1 {
					cls["empty-rp-lookup:found"] = true
				} else if len(D) == 0 {
					cls["empty-rp-lookup:none"] = true
				}
			}
		}

		// FindByID agrees with the listing (same mapping, same default flag); wrong org finds nothing
		if !m.Tainted {
			var slots []int
			for s := range m.M {
				slots = append(slots, s)
			}
			sort.Ints(slots)
			for _, s := range slots {
				x := m.M[s]
				id := platform.ID(slotBase + s)
				var got *influxdb.DBRPMapping
				var err error
				p, d := vlib.Guard(func() { got, err = w.svc.FindByID(ctx, org, id) })
				if p {
					add("FindByID/panic", frameOf(d), d)
					continue
				}
				if x.Org != o64 {
					if err == nil {
						add("FindByID/found-through-wrong-org", "", fmt.Sprintf("mapping %d of org %d found through org %d", id, x.Org, o64))
					}
					continue
				}
				if err != nil {
					add("FindByID/stored-mapping-not-found", "", fmt.Sprintf("org %d: FindByID(%d): %v", o64, id, err))
					continue
				}
				e := toEnt(got)
				var le *ent
				for i := range L {
					if L[i].ID == e.ID && !L[i].Virtual {
						le = &L[i]
					}
				}
				if le != nil && *le != e {
					add("FindByID/disagrees-with-listing", fmt.Sprintf("default-differs=%v", le.Default != e.Default), fmt.Sprintf("org %d: FindByID(%d)=%v, listing has %v", o64, id, e, *le))
				}
			}
		}
		rb.WriteString(" | ")
	}

	// the listing over all organizations (no filter at all): the same at-most clauses per (org, db, rp)
	// and (org, db). Which virtual mappings it shows is not prescribed (recorded as an outcome class).
	// Not issued once the model is tainted (a record without index entries is then stored).
	if !m.Tainted {
		G, _, ok := find(influxdb.DBRPMappingFilter{})
		if ok {
			fmt.Fprintf(&rb, "all-orgs list=%v", G)
			twoBuckets("pair-listed-with-two-buckets", "FindMany{}", G)
			atMostOneDefault("FindMany{}", G)
			inG := map[string]bool{}
			for _, e := range G {
				inG[fmt.Sprintf("%d|%s|%s|%d", e.Org, e.DB, e.RP, e.Bucket)] = true
			}
			for _, org := range orgs {
				for _, e := range perOrg[uint64(org)] {
					if !inG[fmt.Sprintf("%d|%s|%s|%d", e.Org, e.DB, e.RP, e.Bucket)] {
						if e.Virtual {
							cls["all-orgs-listing-omits-a-virtual-mapping-listed-per-org"] = true
						} else {
							add("listing/mapping-missing/FindMany{}", "", fmt.Sprintf("stored mapping %v of org %d is listed by FindMany{org} but not by FindMany{}: %v", e, e.Org, G))
						}
					}
				}
			}
		}
	}
	for k := range cls {
		classes = append(classes, k)
	}
	sort.Strings(classes)
	return fs, rb.String(), classes
}

// ---------------------------------------------------------------------------------------
// one transition
// ---------------------------------------------------------------------------------------

type Case struct {
	// names environment (phase N): organization 1 owns 'plain1' (id 10) and these buckets, created and
	// listed in this order with ids 11, 12, ...; NamesEnv=false: the fixed environment of phases A-C
	NamesEnv bool     `json:"names_env,omitempty"`
	Names    []string `json:"org1_bucket_names,omitempty"`
	History  []Op     `json:"history"` // the last op is the one judged; empty (names environment only): the initial state is judged
}

func (cs Case) env() *env {
	if cs.NamesEnv {
		return namesEnv(cs.Names)
	}
	return fixedEnv
}

func (cs Case) String() string {
	if cs.NamesEnv {
		return fmt.Sprintf("org 1 owns buckets plain1(10) %s; history {%s}", bucketsString(cs.Names), histString(cs.History))
	}
	return fmt.Sprintf("history {%s}", histString(cs.History))
}

func bucketsString(names []string) string {
	var p []string
	for i, n := range names {
		p = append(p, fmt.Sprintf("%q(%d)", n, 11+i))
	}
	return "[" + strings.Join(p, " ") + "]"
}

type verdict struct {
	key      string
	res      string
	app      bool
	tainted  bool
	findings []finding
	render   string
	classes  []string
	sigs     []string
	texts    []string
	nfind    int
	occ      uint32 // bit s set: id 100+s is in use (model)
}

type surface struct {
	fs      []finding
	classes []string
}

var (
	surfaceCache = &sync.Map{} // (env, state key, model key) -> surface verdict; only used by the explorer
	useCache     bool
)

func (m *model) key() string {
	var sl []int
	for s := range m.M {
		sl = append(sl, s)
	}
	sort.Ints(sl)
	var b strings.Builder
	for _, s := range sl {
		fmt.Fprintf(&b, "%d=%v;", s, m.M[s])
	}
	fmt.Fprintf(&b, "t=%v", m.Tainted)
	return b.String()
}

func frameOf(d string) string {
	if i := strings.LastIndex(d, "@ "); i >= 0 {
		return strings.TrimSuffix(d[i+2:], ".")
	}
	return "?"
}

func isV(o Op) bool { return o.K == "updateV" || o.K == "deleteV" }

// runCase replays the history on a fresh real service and judges its last op. The findings of the
// pre-state (needed to tell which findings the last op introduced) come from the surface cache when
// exploring (the pre-state was judged when it was first reached) and are recomputed when replaying.
func runCase(cs Case) verdict { return runCase1(cs, false) }

func runCase1(cs Case, withPre bool) verdict {
	e := cs.env()
	w := newWorld(e)
	m := &model{e: e, M: map[int]mm{}}
	n := len(cs.History)
	if n == 0 {
		// the initial state of an environment: no stored mapping, only what the bucket names give rise to
		var v verdict
		v.res, v.app = "ok", true
		v.key = w.dump()
		var cf []finding
		cf, v.render, v.classes = w.check(m)
		if useCache {
			surfaceCache.Store(e.tag+"#"+v.key+"#"+m.key(), surface{cf, append([]string{}, v.classes...)})
		}
		v.nfind = len(cf)
		seen := map[string]bool{}
		for _, f := range cf {
			if seen[f.kind+"|"+f.feat] {
				continue
			}
			seen[f.kind+"|"+f.feat] = true
			v.sigs = append(v.sigs, vlib.JoinSig(f.kind, f.feat))
			v.texts = append(v.texts, f.text)
		}
		return v
	}
	var preF []finding
	for i, o := range cs.History {
		last := i == n-1
		if last {
			if withPre || !useCache {
				preF, _, _ = w.check(m)
			} else {
				pk := e.tag + "#" + w.dump() + "#" + m.key()
				if cached, ok := surfaceCache.Load(pk); ok {
					preF = cached.(surface).fs
				} else {
					var cl []string
					preF, _, cl = w.check(m)
					surfaceCache.Store(pk, surface{preF, cl})
				}
			}
		}
		app := m.applicable(o)
		before := ""
		if isV(o) {
			before = w.dump()
		}
		res := w.apply(o)
		if isV(o) && res == "ok" && w.dump() != before {
			m.Tainted = true
		}
		if !last {
			// prefix: the model follows the accepted, applicable ops (earlier transitions were judged on their own)
			if !isV(o) && app && res == "ok" {
				m.step(o)
			}
			continue
		}
		var v verdict
		v.res, v.app = res, app
		var fs []finding
		if strings.HasPrefix(res, "PANIC") {
			fs = append(fs, finding{"op/panic", o.K + "@" + frameOf(res), res})
		}
		if isV(o) {
			// no prediction
		} else if app {
			if res != "ok" {
				fs = append(fs, finding{"valid-operation-rejected", o.K, fmt.Sprintf("%s returned an error although nothing conflicts", o)})
			} else {
				m.step(o)
			}
		}
		// an inapplicable op (duplicate pair / unknown id / wrong org) must leave the model's mappings as they are:
		// the model is simply not stepped, and the listing comparison below judges it.
		v.key = w.dump()
		var cf []finding
		var render string
		var classes []string
		ck := e.tag + "#" + v.key + "#" + m.key()
		if cached, ok := surfaceCache.Load(ck); ok && !withPre && useCache {
			// the surface is a function of the stored state; its verdict a function of (state, model)
			sf := cached.(surface)
			cf, classes = sf.fs, append([]string{}, sf.classes...)
		} else {
			cf, render, classes = w.check(m)
			if useCache {
				surfaceCache.Store(ck, surface{cf, append([]string{}, classes...)})
			}
		}
		fs = append(fs, cf...)
		if (o.K == "create" || o.K == "update") && app && res == "ok" && o.Def {
			if got, err := w.svc.FindByID(context.Background(), platform.ID(o.Org), platform.ID(slotBase+o.Slot)); err == nil && got.Default {
				classes = append(classes, "explicit-default-request:honoured")
			} else {
				classes = append(classes, "explicit-default-request:NOT-honoured")
			}
		}
		v.nfind = len(fs)
		for sl := range m.M {
			v.occ |= 1 << uint(sl)
		}
		v.occ |= w.usedIDs() // and whatever the store really holds under an id of the pool
		v.tainted = m.Tainted
		v.render = render
		v.classes = classes
		// report only what this transition introduced
		pre := map[string]bool{}
		for _, f := range preF {
			pre[f.kind+"|"+f.feat] = true
		}
		for _, f := range fs {
			if pre[f.kind+"|"+f.feat] {
				continue
			}
			pre[f.kind+"|"+f.feat] = true // one report per class and transition
			if m.Tainted {
				// one root cause (a stored record for a virtual mapping's id): one class per violated clause
				v.sigs = append(v.sigs, vlib.JoinSig(f.kind, "after-accepted-update-or-delete-of-a-virtual-mapping-id"))
				v.texts = append(v.texts, f.text)
				continue
			}
			// clauses about the state carry the features of the state (op-level findings name the op in their features)
			v.sigs = append(v.sigs, vlib.JoinSig(f.kind, f.feat))
			v.texts = append(v.texts, f.text)
		}
		return v
	}
	return verdict{}
}

// ---------------------------------------------------------------------------------------
// op family
// ---------------------------------------------------------------------------------------

type bounds struct {
	name     string
	slots    int
	bothBkts bool
	vIDs     []uint64 // ids of virtual mappings that update/delete may be aimed at
	vRPs     []string
	// phase N
	e       *env          // nil: the fixed environment
	opOrgs  []platform.ID // organizations the ops are issued for (nil: both)
	serial  bool          // explore on the calling goroutine (phase N runs one BFS per environment in parallel)
	collide bool          // the environment has two bucket names parsing to one (db, rp) pair
}

func opsFor(b bounds) []Op {
	var ops []Op
	oo := b.opOrgs
	if oo == nil {
		oo = orgs
	}
	e := b.e
	if e == nil {
		e = fixedEnv
	}
	for s := 1; s <= b.slots; s++ {
		for _, org := range oo {
			for _, db := range dbs {
				for _, rp := range rps {
					nb := 1
					if b.bothBkts && len(e.orgBuckets(org)) > 1 {
						nb = 2
					}
					for bi := 0; bi < nb; bi++ {
						bidx := bi
						if !b.bothBkts {
							bidx = (s + 1) % 2
							if bidx >= len(e.orgBuckets(org)) {
								bidx = 0
							}
						}
						for _, def := range []bool{false, true} {
							ops = append(ops, Op{K: "create", Slot: s, Org: uint64(org), DB: db, RP: rp, Bkt: bidx, Def: def})
						}
					}
				}
			}
		}
		for _, org := range oo {
			for _, rp := range rps {
				for _, def := range []bool{false, true} {
					ops = append(ops, Op{K: "update", Slot: s, Org: uint64(org), RP: rp, Def: def})
				}
			}
			ops = append(ops, Op{K: "delete", Slot: s, Org: uint64(org)})
		}
	}
	for _, bk := range e.buckets {
		for _, vid := range b.vIDs {
			if uint64(bk.ID) != vid {
				continue
			}
			for _, rp := range b.vRPs {
				for _, def := range []bool{false, true} {
					ops = append(ops, Op{K: "updateV", Org: uint64(bk.Org), VID: vid, RP: rp, Def: def})
				}
			}
			ops = append(ops, Op{K: "deleteV", Org: uint64(bk.Org), VID: vid})
		}
	}
	return ops
}

// ---------------------------------------------------------------------------------------
// BFS
// ---------------------------------------------------------------------------------------

// sink: what an exploration reports. *vlib.Ctx directly (phases A-C) or a recorder that is flushed
// into the Ctx in environment order (phase N), so that reports do not depend on goroutine timing.
type sink interface {
	Eval(int64)
	Trace(int64)
	Transition(int64)
	NontrivialN(int64)
	Outcome(string)
	Extra(string, int64)
	State(string)
	Violation(sig, summary string, cas any)
	WantSample() bool
	Sample(any)
	Expired() bool
	Cap(string)
	Logf(string, ...any)
}

type viol struct {
	sig, sum string
	cs       any
}

type rec struct {
	c                   *vlib.Ctx
	evals, trans, nontr int64
	outcomes, extra     map[string]int64
	states              []string
	viols               []viol
	samples             []any
	capped              string
	stop                func() bool
}

func newRec(c *vlib.Ctx, stop func() bool) *rec {
	return &rec{c: c, outcomes: map[string]int64{}, extra: map[string]int64{}, stop: stop}
}
func (r *rec) Eval(n int64)            { r.evals += n }
func (r *rec) Trace(n int64)           {}
func (r *rec) Transition(n int64)      { r.trans += n }
func (r *rec) NontrivialN(n int64)     { r.nontr += n }
func (r *rec) Outcome(s string)        { r.outcomes[s]++ }
func (r *rec) Extra(k string, n int64) { r.extra[k] += n }
func (r *rec) State(k string)          { r.states = append(r.states, k) }
func (r *rec) Violation(sig, sum string, cs any) {
	r.viols = append(r.viols, viol{sig, sum, cs})
}
func (r *rec) WantSample() bool    { return len(r.samples) < 1 }
func (r *rec) Sample(v any)        { r.samples = append(r.samples, v) }
func (r *rec) Expired() bool       { return r.stop() }
func (r *rec) Cap(s string)        { r.capped = s }
func (r *rec) Logf(string, ...any) {}

func (r *rec) flush(c *vlib.Ctx) {
	c.Eval(r.evals)
	c.Trace(r.evals)
	c.Transition(r.trans)
	c.NontrivialN(r.nontr)
	var ks []string
	for k := range r.outcomes {
		ks = append(ks, k)
	}
	sort.Strings(ks)
	for _, k := range ks {
		c.OutcomeN(k, r.outcomes[k])
	}
	ks = ks[:0]
	for k := range r.extra {
		ks = append(ks, k)
	}
	sort.Strings(ks)
	for _, k := range ks {
		c.Extra(k, r.extra[k])
	}
	for _, s := range r.states {
		c.State(s)
	}
	for _, v := range r.viols {
		c.Violation(v.sig, v.sum, v.cs)
	}
	for _, s := range r.samples {
		if c.WantSample() {
			c.Sample(s)
		}
	}
}

type tres struct {
	op Op
	v  verdict
}

// bfs explores one environment to closure; returns false if the budget ended it early.
func bfs(c sink, b bounds) bool {
	useCache = true
	e := b.e
	if e == nil {
		e = fixedEnv
	}
	mk := func(h []Op) Case { return Case{NamesEnv: e.tag != "", Names: e.names, History: h} }
	w0 := newWorld(e)
	k0 := w0.dump()
	seen := map[string]bool{k0: true}
	c.State(e.tag + "#" + k0)
	if e.tag == "" {
		c.Trace(1)
	} else {
		// phase N judges the initial state as an execution of its own
		v := runCase(mk(nil))
		c.Eval(1)
		c.Trace(1)
		if len(e.names) > 0 {
			c.NontrivialN(1)
		}
		c.Outcome("initial-state-of-a-bucket-name-environment")
		for _, cl := range v.classes {
			c.Outcome("surface:" + cl)
		}
		for j, sg := range v.sigs {
			c.Violation(sg, fmt.Sprintf("%s: %s", mk(nil), v.texts[j]), mk(nil))
		}
		if c.WantSample() && b.collide {
			c.Sample(map[string]any{"case": mk(nil).String(), "surface": v.render})
		}
	}
	type node struct {
		hist []Op
		occ  uint32
	}
	frontier := []node{{}}
	depth := 0
	par := runtime.GOMAXPROCS(0)
	if b.serial {
		par = 1
	}
	ops := opsFor(b)
	if !b.serial {
		c.Extra("ops_per_state_"+b.name, int64(len(ops)))
	}
	for len(frontier) > 0 {
		var next []node
		for lo := 0; lo < len(frontier); lo += 4 * par {
			if c.Expired() {
				c.Cap(fmt.Sprintf("budget hit in phase %s at BFS depth %d; all shallower levels complete", b.name, depth))
				return false
			}
			hi := min(lo+4*par, len(frontier))
			results := make([][]tres, hi-lo)
			expand := func(i int) {
				hist := frontier[i].hist
				var out []tres
				for _, o := range ops {
					if o.K == "create" && frontier[i].occ&(1<<uint(o.Slot)) != 0 {
						continue // ids are never chosen by API callers: a create always gets an unused id
					}
					h := append(append([]Op{}, hist...), o)
					out = append(out, tres{o, runCase(mk(h))})
				}
				results[i-lo] = out
			}
			if b.serial {
				for i := lo; i < hi; i++ {
					expand(i)
				}
			} else {
				var wg sync.WaitGroup
				for i := lo; i < hi; i++ {
					wg.Add(1)
					go func(i int) {
						defer wg.Done()
						expand(i)
					}(i)
				}
				wg.Wait()
			}
			// merge in deterministic order
			for i := lo; i < hi; i++ {
				for _, r := range results[i-lo] {
					h := append(append([]Op{}, frontier[i].hist...), r.op)
					c.Eval(1)
					c.Trace(1)
					c.Transition(1)
					if r.v.app || (isV(r.op) && r.v.res == "ok") {
						if e.tag == "" || len(e.names) > 0 {
							c.NontrivialN(1)
						}
						if b.collide {
							c.Extra("applicable_transitions_with_colliding_bucket_names", 1)
						}
					}
					mode := "model"
					if r.v.tainted {
						mode = "invariants-only"
					}
					c.Outcome(fmt.Sprintf("%s:applicable=%v:%s:%s", r.op.K, r.v.app, strings.SplitN(r.v.res, " ", 2)[0], mode))
					for _, cl := range r.v.classes {
						c.Outcome("surface:" + cl)
					}
					for j, sg := range r.v.sigs {
						c.Violation(sg, fmt.Sprintf("after %s: %s", mk(h), r.v.texts[j]), mk(h))
					}
					if !seen[r.v.key] {
						seen[r.v.key] = true
						c.State(e.tag + "#" + r.v.key)
						next = append(next, node{h, r.v.occ})
						if c.WantSample() && len(h) >= 3 && e.tag == "" {
							c.Sample(map[string]any{"history": histString(h), "surface": runCase1(mk(h), true).render})
						}
					}
				}
			}
		}
		frontier = next
		depth++
		c.Logf("phase %s depth %d: %d new states, %d total", b.name, depth, len(next), len(seen))
	}
	if !b.serial {
		c.Extra("bfs_depth_"+b.name, int64(depth))
		c.Extra("states_"+b.name, int64(len(seen)))
	} else {
		c.Extra("states_"+b.name, int64(len(seen)))
	}
	return true
}

// ---------------------------------------------------------------------------------------
// phase N: the bucket-name dimension
// ---------------------------------------------------------------------------------------

// arrangements: every ordered selection of 0..k distinct names of the alphabet, smallest first.
func arrangements(alpha []string, k int) [][]string {
	out := [][]string{{}}
	level := [][]string{{}}
	for n := 1; n <= k; n++ {
		var nl [][]string
		for _, p := range level {
			for _, a := range alpha {
				used := false
				for _, x := range p {
					used = used || x == a
				}
				if !used {
					nl = append(nl, append(append([]string{}, p...), a))
				}
			}
		}
		out = append(out, nl...)
		level = nl
	}
	return out
}

func collides(names []string) bool {
	seen := map[string]bool{}
	for _, n := range names {
		d, r := virtualOf(n)
		if seen[d+"/"+r] {
			return true
		}
		seen[d+"/"+r] = true
	}
	return false
}

type namesPlan struct {
	alpha    []string
	maxNames int
	slots    func(names []string) int // size of the id pool explored in that environment
	bothBkts bool
}

// phaseN: for every arrangement of bucket names a BFS to closure over the stored-mapping ops of org 1.
func phaseN(c *vlib.Ctx, pl namesPlan) {
	envs := arrangements(pl.alpha, pl.maxNames)
	c.Extra("bucket_name_environments", int64(len(envs)))
	par := runtime.GOMAXPROCS(0)
	old := surfaceCache
	defer func() { surfaceCache = old }()
	surfaceCache = &sync.Map{}
	for lo := 0; lo < len(envs); lo += 2 * par {
		if c.Expired() {
			c.Cap(fmt.Sprintf("budget hit in phase N after %d of %d bucket-name environments (ordered smallest first); each of those was explored to closure", lo, len(envs)))
			return
		}
		hi := min(lo+2*par, len(envs))
		recs := make([]*rec, hi-lo)
		done := make([]bool, hi-lo)
		sem := make(chan struct{}, par)
		var wg sync.WaitGroup
		for i := lo; i < hi; i++ {
			wg.Add(1)
			sem <- struct{}{}
			go func(i int) {
				defer wg.Done()
				defer func() { <-sem }()
				r := newRec(c, c.Expired)
				recs[i-lo] = r
				done[i-lo] = bfs(r, bounds{name: "N", slots: pl.slots(envs[i]), bothBkts: pl.bothBkts, e: namesEnv(envs[i]),
					opOrgs: []platform.ID{1}, serial: true, collide: collides(envs[i])})
			}(i)
		}
		wg.Wait()
		surfaceCache = &sync.Map{} // keyed by environment: nothing to share with the next batch
		for i := lo; i < hi; i++ {
			recs[i-lo].flush(c)
			if collides(envs[i]) {
				c.Extra("bucket_name_environments_with_collision", 1)
			}
			if !done[i-lo] {
				c.Cap(fmt.Sprintf("budget hit in phase N inside bucket-name environment %d of %d (%v)", i, len(envs), envs[i]))
				return
			}
		}
	}
	c.Extra("bucket_name_environments_closed", int64(len(envs)))
	c.Logf("phase N: %d bucket-name environments, each explored to closure", len(envs))
}

func TestCheck(t *testing.T) {
	vlib.Main(t, &vlib.Check{
		ID: "C43", Level: "model_checking", Workers: 1,
		Rule: "BFS to closure; state = full content of the service's four kv buckets; ops: create(id∈pool, org∈{1,2}, db∈{db,dbx}, rp∈{autogen,rp1,rp2}, bucket, default flag), " +
			"update(id, org, rp, default flag), delete(id, org) incl. unknown ids, wrong org and duplicate pairs (create always uses an unused id, any of the pool); phases A-C: fixed environment of 4 buckets (org1: 'db','db/rp1'; org2: 'dbx/autogen','plain') giving virtual mappings. " +
			"quick: phase A pool of 2 ids, bucket fixed per id; phase B pool of 1 id plus update/delete aimed at the ids of the virtual mappings 11 ('db') and 21 ('dbx/autogen') with rp∈{autogen,rp1}. " +
			"thorough: phase A pool of 3 ids, both buckets of the org; phase B pool of 1 id plus virtual ids {11,12,21}; phase C pool of 2 ids plus virtual ids {11,21} (rp∈{autogen,rp1}). Each phase is a BFS to closure. " +
			"phase N (bucket-name dimension): org 1 owns 'plain1' plus EVERY ordered selection (creation order = listing order = id order) of 0..k distinct names of an alphabet whose members parse to colliding (db, rp) pairs " +
			"(quick: {db, db/autogen, db/rp1, dbx, dbx/autogen, db/autogen/x}, k=3, 157 environments; thorough: the same plus db/rp1/x, k=4, 1100 environments); in each environment a BFS to closure over create/update/delete of org 1 " +
			"(quick: pool of 2 ids for k≤2 and 1 id for k=3; thorough: pool of 2 ids for k≤3 and 1 id for k=4; the target bucket is fixed per id: 'plain1' for the first id, the first enumerated bucket for the second), the initial state being judged too. " +
			"Every transition = replay of the state's shortest history on a fresh real dbrp.Service (inmem kv) plus one op; after each: listing per org, per (org,db), over all orgs, resolution of every (org,db,rp) incl. the rps the bucket names parse to, empty-rp lookup, FindByID " +
			"are checked against the statement (every lookup result names ≤1 bucket per (org,db,rp) — of several colliding virtual candidates either may win, never both, and none beside a stored mapping of the pair; ≤1 default per (org,db) in every result; exactly one default per database that has stored mappings; " +
			"the empty-rp lookup returns it; every returned mapping's bucket exists in its org; stored mappings = those built by the ops). " +
			"non-trivial = transitions whose op is applicable in the model or an accepted virtual-id op, and in phase N additionally the initial states, only in environments with at least one enumerated bucket name (distinct by construction); a violation is reported on the transition introducing it",
		Assumptions: []string{
			"the in-harness BucketService (bucket set fixed per environment, listed in creation order) honours the interface; bucket names are static during a history",
			"the four kv buckets are created directly instead of running kv migrations 0004/0012",
			"a database whose only mappings are virtual ones derived from 'db/rp' bucket names has no default by construction; the 'exactly one default' clause is applied to databases with at least one stored mapping (at most one default is required everywhere)",
			"after an accepted update/delete aimed at a virtual mapping's id the set of stored mappings is not predicted by the model; only the statement's invariants on the observable surface are checked from then on (and the listing over all orgs is not issued)",
			"which of several bucket names parsing to one (db, rp) pair provides the virtual mapping is not prescribed (either, in every lookup, but the empty-rp lookup must not return a mapping whose own (db, rp) pair resolves to another bucket); which virtual mappings the listing over all orgs shows is not prescribed",
			"a bucket name is split at its first '/', as the statement's 'virtual mappings derived from bucket names' are documented (db/rp); names with several slashes are part of the alphabet",
		},
		QuickBudgetS: 100, ThoroughBudgetS: 840,
		Run: func(c *vlib.Ctx) {
			phases := []bounds{
				{name: "A", slots: 2},
				{name: "B", slots: 1, vIDs: []uint64{11, 21}, vRPs: []string{"autogen", "rp1"}},
			}
			pl := namesPlan{alpha: nameAlphabetQuick, maxNames: 3, slots: func(n []string) int {
				if len(n) <= 2 {
					return 2
				}
				return 1
			}}
			if c.Thorough() {
				phases = []bounds{
					{name: "A", slots: 3, bothBkts: true},
					{name: "B", slots: 1, vIDs: []uint64{11, 12, 21}, vRPs: []string{"autogen", "rp1"}},
					{name: "C", slots: 2, vIDs: []uint64{11, 21}, vRPs: []string{"autogen", "rp1"}},
				}
				pl = namesPlan{alpha: nameAlphabetThorough, maxNames: 4, slots: func(n []string) int {
					if len(n) <= 3 {
						return 2
					}
					return 1
				}}
			}
			// the cheap, wide dimension first; then the deep histories on the fixed environment
			phaseN(c, pl)
			for _, b := range phases {
				if !bfs(c, b) {
					return
				}
			}
		},
		Replay: func(c *vlib.Ctx, raw json.RawMessage) (bool, string) {
			var cs Case
			if err := json.Unmarshal(raw, &cs); err != nil || (len(cs.History) == 0 && !cs.NamesEnv) {
				return false, fmt.Sprint("bad case: ", err)
			}
			useCache = false
			v := runCase1(cs, true)
			return len(v.sigs) > 0, fmt.Sprintf("%s: last op returned %s; surface: %s; introduced: %v", cs, v.res, v.render, v.sigs)
		},
	})
}
