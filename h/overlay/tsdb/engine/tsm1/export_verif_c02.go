//go:build verif

package tsm1

// Re-exports for the C02 crash check (/verif/h/c02): run the engine's own compaction strategies on a
// caller-chosen group, exactly as Engine.compact does after planning. No logic.

// VerifApplyLevelCompaction runs levelCompactionStrategy(group, fast, level).Apply().
func (e *Engine) VerifApplyLevelCompaction(group CompactionGroup, fast bool, level int) {
	e.levelCompactionStrategy(group, fast, level).Apply()
}

// VerifApplyFullCompaction runs fullCompactionStrategy(group).Apply().
func (e *Engine) VerifApplyFullCompaction(group CompactionGroup) {
	e.fullCompactionStrategy(group).Apply()
}
