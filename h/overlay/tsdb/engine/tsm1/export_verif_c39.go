//go:build verif

package tsm1

// Re-exports for the C39 schedule check (/verif/h/c39). The check's "compaction" and "cache snapshot"
// threads stand for ONE tick of the engine's own background goroutines (Engine.compact /
// Engine.compactCache): like those goroutines they are counted in e.wg / e.snapWG for the duration of
// the tick (so disableLevelCompactions / disableSnapshotCompactions wait for them exactly as they wait
// for the real goroutines), and they start compactions through the same compact* methods with the
// engine's own WaitGroup. Thin wrappers only: no logic.

// VerifLevelTickBegin counts the caller in the level-compaction WaitGroup (what enableLevelCompactions
// does for the Engine.compact goroutine). Call while level compactions are enabled.
func (e *Engine) VerifLevelTickBegin() { e.wg.Add(1) }

// VerifLevelTickEnd is the matching wg.Done().
func (e *Engine) VerifLevelTickEnd() { e.wg.Done() }

// VerifSnapTickBegin counts the caller in the snapshot-compaction WaitGroup (what
// enableSnapshotCompactions does for the Engine.compactCache goroutine).
func (e *Engine) VerifSnapTickBegin() { e.snapWG.Add(1) }

// VerifSnapTickEnd is the matching snapWG.Done().
func (e *Engine) VerifSnapTickEnd() { e.snapWG.Done() }

// VerifCompactHiPriorityLevel is Engine.compact's call for a planned level 1/2 group.
func (e *Engine) VerifCompactHiPriorityLevel(grp CompactionGroup, level int, fast bool) bool {
	return e.compactHiPriorityLevel(grp, level, fast, e.wg)
}

// VerifCompactLoPriorityLevel is Engine.compact's call for a planned level 3 group.
func (e *Engine) VerifCompactLoPriorityLevel(grp CompactionGroup, level int, fast bool) bool {
	return e.compactLoPriorityLevel(grp, level, fast, e.wg)
}

// VerifCompactFull is Engine.compact's call for a planned full (level 4) group.
func (e *Engine) VerifCompactFull(grp CompactionGroup) bool {
	return e.compactFull(grp, e.wg)
}

// VerifLevelCompactionsRunning reports whether the Engine.compact goroutine is (still) started.
func (e *Engine) VerifLevelCompactionsRunning() bool {
	e.mu.RLock()
	defer e.mu.RUnlock()
	return e.done != nil
}
