//go:build verif

package tsm1

// Re-exports for the C39 schedule check (/verif/h/c39). The check's "compaction" and "cache snapshot"
// threads stand for goroutines of the engine's own background machinery (the compaction goroutine that
// Engine.compact starts for a planned group; one tick of Engine.compactCache): like those goroutines they
// are counted in e.wg / e.snapWG while they run, so disableLevelCompactions / disableSnapshotCompactions
// wait for them exactly as they wait for the real goroutines. The compaction itself runs through
// VerifApplyLevelCompaction / VerifApplyFullCompaction (export_verif_c02.go). Thin wrappers only: no logic.

// VerifLevelTickBegin counts the caller in the level-compaction WaitGroup (what Engine.compact* does
// with wg.Add(1) before starting a compaction goroutine) and returns the matching wg.Done. Call while
// level compactions are enabled.
func (e *Engine) VerifLevelTickBegin() (done func()) {
	wg := e.wg
	wg.Add(1)
	return wg.Done
}

// VerifSnapTickBegin counts the caller in the snapshot-compaction WaitGroup (what
// enableSnapshotCompactions does for the Engine.compactCache goroutine) and returns the matching wg.Done.
func (e *Engine) VerifSnapTickBegin() (done func()) {
	wg := e.snapWG
	wg.Add(1)
	return wg.Done
}

// VerifLevelCompactionsRunning reports whether the Engine.compact goroutine is (still) started.
func (e *Engine) VerifLevelCompactionsRunning() bool {
	e.mu.RLock()
	defer e.mu.RUnlock()
	return e.done != nil
}
