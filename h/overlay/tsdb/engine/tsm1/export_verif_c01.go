//go:build verif

package tsm1

// Re-export for the C01 check (/verif/h/c01): run the engine's own optimize compaction strategy on a
// caller-chosen group, exactly as Engine.compactOptimize does after planning. No logic.

// VerifApplyOptimizeCompaction runs optimizeCompactionStrategy(group, pointsPerBlock).Apply().
func (e *Engine) VerifApplyOptimizeCompaction(group CompactionGroup, pointsPerBlock int) {
	e.optimizeCompactionStrategy(group, pointsPerBlock).Apply()
}

// VerifWriteSnapshotAndCommit runs the second half of Engine.doWriteSnapshot (write the snapshotted cache to a TSM
// file, add it to the file store, clear the cache snapshot, remove the closed WAL segments) for a snapshot the
// caller obtained with the first half's exported calls (WAL.CloseSegment, WAL.ClosedSegments, Cache.Snapshot).
func (e *Engine) VerifWriteSnapshotAndCommit(closedFiles []string, snapshot *Cache) error {
	return e.writeSnapshotAndCommit(e.logger, closedFiles, snapshot)
}
