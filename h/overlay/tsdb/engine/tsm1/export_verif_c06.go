//go:build verif

package tsm1

import "github.com/influxdata/influxdb/v2/tsdb"

// VerifFileStoreOf returns a FileStore without a directory whose file list is exactly files, in the
// given order (callers pass them ascending by Path, as FileStore.Open leaves them). Used by the C06
// check to reuse already opened TSMReaders across many file sets. Re-export only: no logic.
func VerifFileStoreOf(files []TSMFile) *FileStore {
	fs := NewFileStore("", tsdb.EngineTags{})
	fs.files = files
	return fs
}
