//go:build verif

package tsi1

// VerifSetMaxLogFileSize sets the log-file compaction threshold of an open partition under its lock
// (the field's own comment: "Should be read/changed under the lock after a partition is opened").
func (p *Partition) VerifSetMaxLogFileSize(n int64) {
	p.mu.Lock()
	p.maxLogFileSize = n
	p.mu.Unlock()
}

// VerifMaxLogFileSize returns the current threshold.
func (p *Partition) VerifMaxLogFileSize() int64 {
	p.mu.RLock()
	defer p.mu.RUnlock()
	return p.maxLogFileSize
}
