//go:build verif

package reads

// re-exports for the C20 check (no logic)
var VerifC20NewWindowAggregateArrayCursor = newWindowAggregateArrayCursor
