//go:build verif

package query

// re-exports for the C23 check (no logic)
var (
	VerifC23NewDerivativeIterator    = newDerivativeIterator
	VerifC23NewDifferenceIterator    = newDifferenceIterator
	VerifC23NewElapsedIterator       = newElapsedIterator
	VerifC23NewMovingAverageIterator = newMovingAverageIterator
	VerifC23NewCumulativeSumIterator = newCumulativeSumIterator
	VerifC23NewIntegralIterator      = newIntegralIterator
	VerifC23NewPercentileIterator    = newPercentileIterator
	VerifC23NewStddevIterator        = newStddevIterator
	VerifC23NewSpreadIterator        = newSpreadIterator
	VerifC23NewTopIterator           = newTopIterator
	VerifC23NewBottomIterator        = newBottomIterator
)
