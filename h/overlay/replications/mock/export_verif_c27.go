//go:build verif

package mock

import "github.com/influxdata/influxdb/v2/replications/internal"

// re-export for the C27 check (no logic): replications/internal cannot be imported from outside
// the replications tree, this package can.
var VerifC27NewDurableQueueManager = internal.NewDurableQueueManager
