//go:build verif

package internal

import (
	"github.com/influxdata/influxdb/v2/kit/platform"
	"github.com/influxdata/influxdb/v2/pkg/durablequeue"
)

// re-exports for the C27 check (no logic)

// VerifC27Queue exposes the durable queue of one replication so that the check can observe its content.
func (qm *durableQueueManager) VerifC27Queue(id platform.ID) *durablequeue.Queue {
	return qm.replicationQueues[id].queue
}
