//go:build verif

package snowflake

// Thin accessors for the C31 check (no logic). The generator's whole memory is the `state` word: carrying it
// from a run at clock T+d into a run at clock T is how the check presents a wall clock that stepped back.
func VerifC31State(g *Generator) uint64       { return g.state }
func VerifC31SetState(g *Generator, s uint64) { g.state = s }
