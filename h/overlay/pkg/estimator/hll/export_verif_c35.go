//go:build verif

package hll

// Thin read-only accessors for the C35 check (no logic): the representation state of a sketch, observed without
// flushing it (Count/MarshalBinary would move the pending values of tmpSet into the sparse list).
func VerifC35Sparse(h *Plus) bool { return h.sparse }
func VerifC35Pending(h *Plus) int { return len(h.tmpSet) }
