// C13: series ids are unique, stable and never reused.
//
// Bounded-history part (level model_checking): every op sequence up to the depth bound over a small key
// domain is executed on the real tsdb.SeriesFile in a fresh directory and compared, after every step, with
// a reference model {key -> live id, ids ever handed out} written from the property statement. The segment-roll
// families run the same on a build whose first-segment size is a variable (h/c13/shim.json; 128 bytes instead of
// 4 MiB) and enumerate every number of bytes left free in the newest segment around a roll-over (segDomain).
//
// Schedule part (engine vsched): one writer thread against the partition's background index compaction.
// Crash family (engine crashfs): every prefix / torn / unsynced image of recorded histories.
//
// The file is split so that the crash-image engine can reuse it:
//   - PerformHistory = the "history writer": performs an op list on a directory and reports every
//     acknowledgement through an Acker (crashfs.Markers satisfies it);
//   - CheckRecovery  = the "recovery checker": opens a directory with the real code, reads everything
//     (ReadAll), compares with a Model of the acknowledged ops (+ at most one op in flight), creates every
//     key again (fresh ids), restarts a second time and compares again.
package c13

import (
	"bufio"
	"crypto/sha256"
	"encoding/hex"
	"encoding/json"
	"errors"
	"fmt"
	"os"
	"os/exec"
	"path/filepath"
	"regexp"
	"runtime"
	"runtime/debug"
	"sort"
	"strconv"
	"strings"
	"sync"
	"testing"
	"testing/synctest"
	"time"

	"github.com/cespare/xxhash/v2"
	"github.com/influxdata/influxdb/v2/models"
	"github.com/influxdata/influxdb/v2/pkg/verifrt/vrt"
	"github.com/influxdata/influxdb/v2/tsdb"
	"verif/h/crashfs"
	"verif/h/vlib"
)

// ---------------------------------------------------------------------------------------------------------
// key domains

// KeyDef is one series key of a domain.
type KeyDef struct {
	Name string
	Tags [][2]string // sorted by tag key
}

func (k KeyDef) mtags() models.Tags {
	m := map[string]string{}
	for _, t := range k.Tags {
		m[t[0]] = t[1]
	}
	return models.NewTags(m)
}

func (k KeyDef) String() string {
	s := k.Name
	for _, t := range k.Tags {
		v := t[1]
		if len(v) > 12 {
			v = fmt.Sprintf("%s..(%d)", v[:6], len(v))
		}
		s += "," + t[0] + "=" + v
	}
	return s
}

// partitionOf is the fixture's own computation of the partition a key is stored in (xxhash of the
// serialised key mod 8). It is only used to CHOOSE keys (two sharing a partition); the oracle never needs it.
func partitionOf(k KeyDef) int {
	return int(xxhash.Sum64(tsdb.AppendSeriesKey(nil, []byte(k.Name), k.mtags())) % tsdb.SeriesFilePartitionN)
}

// Domain is a finite key domain; ops refer to keys by index.
type Domain struct {
	Name string
	Keys []KeyDef
	Part []int
	// segment-roll domains only (Focus >= 0): the one partition all keys live in, the prefix that builds the
	// layout, and the layout the prefix must produce (number of segments, free bytes in the newest one).
	Focus              int
	Pre                []Op
	WantSegs, WantFree int
	OpKeys             int            // number of op keys (the closing phase creates these again); 0 = all
	fullIdx            map[string]int // full key string -> key index
}

// keyByFull returns the index of the key whose full "name,tag=value" string is s.
func (d *Domain) keyByFull(s string) (int, bool) {
	domMu.Lock()
	defer domMu.Unlock()
	if d.fullIdx == nil {
		d.fullIdx = map[string]int{}
		for i, k := range d.Keys {
			d.fullIdx[k.full()] = i
		}
	}
	i, ok := d.fullIdx[s]
	return i, ok
}

// Domain names.
const (
	DomSmall = "small"    // 4 short keys, K[0] and K[1] in the same partition, K[2], K[3] in two other partitions
	DomBig   = "big"      // segment-roll domain: all keys in ONE partition; see bigDomain
	DomTight = "bigtight" // the big domain + one pad series that leaves exactly bigTightFree bytes of the shipped 4 MiB segment 0000
	DomP7    = "p7"       // crash family only: 34 short keys, all in partition 7 (ids 8, 16, .., 256, 264, 272): the id crosses a byte boundary
	DomSeg   = "seg"      // segment-roll domains "seg/<variant>/<n>" of the tiny-segment build: see segDomain
)

// p7Keys is the size of the p7 domain: keys 0..31 get ids 8..256 (0x100), keys 32 and 33 the ids 0x108 and 0x110.
const p7Keys = 34

// bigPrefill 64 KiB-class keys fill the fixed 4 MiB first segment of the partition up to less than one such
// entry, so that the next big key rolls over to segment 0001 while a short key or a tombstone still fits.
const (
	bigPad       = 65000
	bigPrefill   = 64
	bigTightFree = 4
)

var (
	domMu    sync.Mutex
	domCache = map[string]*Domain{}
)

func getDomain(name string) *Domain {
	domMu.Lock()
	defer domMu.Unlock()
	if d, ok := domCache[name]; ok {
		return d
	}
	var d *Domain
	switch name {
	case DomSmall:
		d = smallDomain()
	case DomBig:
		d = bigDomain(false)
	case DomTight:
		d = bigDomain(true)
	case DomP7:
		d = p7Domain()
	default:
		if !strings.HasPrefix(name, DomSeg+"/") {
			panic("unknown domain " + name)
		}
		d = segDomain(name)
	}
	if d.Pre == nil {
		d.Focus = -1
	}
	d.Name = name
	domCache[name] = d
	return d
}

// p7Domain: short keys that all hash to partition 7 (whose ids are the multiples of 8).
func p7Domain() *Domain {
	d := &Domain{}
	for n := 0; len(d.Keys) < p7Keys; n++ {
		k := KeyDef{Name: "mem", Tags: [][2]string{{"host", fmt.Sprintf("q%04d", n)}}}
		if partitionOf(k) == 7 {
			d.Keys = append(d.Keys, k)
			d.Part = append(d.Part, 7)
		}
	}
	return d
}

func smallDomain() *Domain {
	var pool []KeyDef
	for i := 0; i < 200; i++ {
		pool = append(pool, KeyDef{Name: "cpu", Tags: [][2]string{{"host", fmt.Sprintf("h%02d", i)}}})
	}
	d := &Domain{}
	add := func(k KeyDef) { d.Keys = append(d.Keys, k); d.Part = append(d.Part, partitionOf(k)) }
	add(pool[0])
	for _, k := range pool[1:] { // K[1]: same partition as K[0]
		if partitionOf(k) == d.Part[0] {
			add(k)
			break
		}
	}
	for _, k := range pool[1:] { // K[2], K[3]: two further partitions
		p := partitionOf(k)
		fresh := true
		for _, q := range d.Part {
			fresh = fresh && p != q
		}
		if fresh {
			add(k)
		}
		if len(d.Keys) == 4 {
			break
		}
	}
	if len(d.Keys) != 4 {
		panic("c13: could not choose the small key domain")
	}
	return d
}

// bigDomain: keys 0,1,2 = two further big keys and one short key (the op keys), keys 3.. = the prefill keys;
// every key hashes to the same partition (found by searching a nonce tag).
//
// tight: one more key (the last one) whose entry fills segment 0000 up to bigTightFree bytes before its end, so that
// not even a tombstone fits; the domain then carries its prefix (one call creating the 64 prefill keys and the pad
// key) and the layout the prefix must produce, like the tiny-segment domains.
func bigDomain(tight bool) *Domain {
	pad := strings.Repeat("x", bigPad)
	d := &Domain{}
	want := -1
	mk := func(big bool, label string) {
		for n := 0; ; n++ {
			k := KeyDef{Name: "big", Tags: [][2]string{{"i", fmt.Sprintf("%s-%d", label, n)}}}
			if big {
				k.Tags = append(k.Tags, [2]string{"pad", pad})
			}
			p := partitionOf(k)
			if want < 0 {
				want = p
			}
			if p == want {
				d.Keys = append(d.Keys, k)
				d.Part = append(d.Part, p)
				return
			}
		}
	}
	mk(true, "A")
	mk(true, "B")
	mk(false, "s")
	for i := 0; i < bigPrefill; i++ {
		mk(true, fmt.Sprintf("p%02d", i))
	}
	if !tight {
		return d
	}
	used := tsdb.SeriesSegmentHeaderSize
	for _, k := range d.Keys[3:] {
		used += entrySize(k)
	}
	target := 4<<20 - used - bigTightFree
	padKey := func(n, l int) KeyDef {
		return KeyDef{Name: "big", Tags: [][2]string{{"i", fmt.Sprintf("T-%04d", n)}, {"pad", strings.Repeat("y", l)}}}
	}
	l := target - entrySize(padKey(0, 1)) + 1
	for back := 0; back < 8 && l > 1 && entrySize(padKey(0, l)) != target; back++ {
		l-- // the length prefixes of the serialised key grow with it
	}
	if l < 1 || entrySize(padKey(0, l)) != target {
		panic(fmt.Sprintf("c13: cannot build the pad key of the tight big domain (entry of %d bytes)", target))
	}
	for n := 0; ; n++ {
		if k := padKey(n, l); partitionOf(k) == want {
			d.Keys = append(d.Keys, k)
			d.Part = append(d.Part, want)
			break
		}
	}
	d.Focus, d.OpKeys = want, 3
	d.Pre = BigTightPrefix()
	d.WantSegs, d.WantFree = 1, bigTightFree
	return d
}

// ---------------------------------------------------------------------------------------------------------
// segment-roll domains (tiny-segment build)
//
// The first segment of a partition has the fixed size 4 MiB (1 << 22), the next ones 8 MiB, 16 MiB, ..; the check
// binary is built with that shift as a package variable (h/c13/shim.json) and these domains run with
// tinySegShift: segment 0000 = 128 bytes, 0001 = 256, 0002 = 512, .. so that a roll-over happens every few entries
// and the number of bytes left in the newest segment when an entry arrives can be enumerated exhaustively.
//
// Entry sizes: tombstone = 9 bytes (flag + id); insert = 9 + serialised key. All keys of a domain hash to ONE
// partition. Keys: 0 = A (entry of segEntryA bytes), 1 = B (segEntryB bytes), 2 = F0 (first prefill series),
// 3 = P0 (pad series), then per variant:
//
//	seg/a/<f>: prefix create{F0,P0} leaves exactly f bytes free in segment 0000 (1 segment);
//	seg/b/<f>: prefix create{F0,P0} fills 0000 to the last byte, create{F1,P1} leaves f bytes free in 0001 (2 segments).
//
// (DeleteSeriesID of an id that was never handed out writes nothing — the index reports unknown ids as deleted — so
// a tombstone always belongs to a series created before, and a segment cannot be filled with tombstones alone.)
const (
	shippedSegShift = 22
	tinySegShift    = 7
	segEntryA       = 23
	segEntryB       = 40
	segEntryF       = 23
	tombstoneSize   = 9
	segMaxFree      = segEntryB + 1 // free bytes enumerated: 0..segMaxFree (every entry of the alphabet fits / does not fit)
)

// shippedShiftAtInit is the value the build gives the variable before the harness touches it.
var shippedShiftAtInit = tsdb.VerifSeriesSegmentMinShift

func entrySize(k KeyDef) int {
	return len(tsdb.AppendSeriesEntry(nil, tsdb.SeriesEntryInsertFlag, 1, tsdb.AppendSeriesKey(nil, []byte(k.Name), k.mtags())))
}

// keyOfEntrySize finds a key "s,i=<label><nonce>[,p=xx..x]" whose insert entry has exactly size bytes (0 = any)
// and which hashes to partition *part (set by the first key when < 0).
func keyOfEntrySize(label string, size int, part *int) KeyDef {
	for w := 1; w <= 6; w++ {
		mk := func(n, pad int) KeyDef {
			k := KeyDef{Name: "s", Tags: [][2]string{{"i", fmt.Sprintf("%s%0*d", label, w, n)}}}
			if pad > 0 {
				k.Tags = append(k.Tags, [2]string{"p", strings.Repeat("x", pad)})
			}
			return k
		}
		pad := -1
		for l := 0; l <= size; l++ {
			if size == 0 || entrySize(mk(0, l)) == size {
				pad = l
				break
			}
		}
		if pad < 0 {
			continue
		}
		lim := 1
		for i := 0; i < w; i++ {
			lim *= 10
		}
		for n := 0; n < lim; n++ {
			k := mk(n, pad)
			p := partitionOf(k)
			if *part < 0 {
				*part = p
			}
			if p == *part {
				return k
			}
		}
	}
	panic(fmt.Sprintf("c13: no key with label %s and entry size %d", label, size))
}

func segSize(id int) int { return 1 << (tinySegShift + id) }

func segDomain(name string) *Domain {
	f := strings.Split(name, "/")
	if len(f) != 3 {
		panic("bad segment-roll domain " + name)
	}
	n, err := strconv.Atoi(f[2])
	if err != nil || n < 0 {
		panic("bad segment-roll domain " + name)
	}
	d := &Domain{Focus: -1, OpKeys: 2}
	add := func(label string, size int) int {
		k := keyOfEntrySize(label, size, &d.Focus)
		d.Keys = append(d.Keys, k)
		d.Part = append(d.Part, d.Focus)
		return len(d.Keys) - 1
	}
	add("A", segEntryA)
	add("B", segEntryB)
	add("F", segEntryF)
	room0 := segSize(0) - tsdb.SeriesSegmentHeaderSize - segEntryF
	switch f[1] {
	case "a":
		add("P", room0-n)
		d.Pre = []Op{mkOp(OpCreate, 2, 3)}
		d.WantSegs, d.WantFree = 1, n
	case "b":
		add("P", room0)
		add("H", segEntryF)
		add("Q", segSize(1)-tsdb.SeriesSegmentHeaderSize-segEntryF-n)
		d.Pre = []Op{mkOp(OpCreate, 2, 3), mkOp(OpCreate, 4, 5)}
		d.WantSegs, d.WantFree = 2, n
	default:
		panic("bad segment-roll domain " + name)
	}
	return d
}

// domClass: the domain name without its numeric parameter ("seg/a/12" -> "seg/a").
func domClass(name string) string {
	if strings.HasPrefix(name, DomSeg+"/") {
		return name[:strings.LastIndex(name, "/")]
	}
	return name
}

// ---------------------------------------------------------------------------------------------------------
// ops, configuration, acknowledgements

// Op kinds.
const (
	OpCreate  = "create"  // SeriesFile.CreateSeriesListIfNotExists(Keys...) (one call; Keys may repeat)
	OpDelete  = "delete"  // SeriesFile.DeleteSeriesID(id last returned for Keys[0], flush) (unknown id if never created)
	OpReopen  = "reopen"  // Close + new SeriesFile + Open
	OpCompact = "compact" // SeriesPartitionCompactor.Compact on every partition (with Keys: only on the partitions of these keys) (index rebuild + swap), synchronously
)

// Op is one step of a history.
type Op struct {
	Kind    string `json:"op"`
	Keys    []int  `json:"keys,omitempty"`
	NoFlush bool   `json:"noflush,omitempty"` // delete without fsync
}

func (o Op) String() string {
	if len(o.Keys) == 0 {
		return o.Kind
	}
	s := make([]string, len(o.Keys))
	for i, k := range o.Keys {
		s[i] = strconv.Itoa(k)
	}
	r := o.Kind + "(" + strings.Join(s, ",") + ")"
	if o.NoFlush {
		r += "nf"
	}
	return r
}

func opsString(ops []Op) string {
	s := make([]string, len(ops))
	for i, o := range ops {
		s[i] = o.String()
	}
	return strings.Join(s, " ")
}

// Cfg is the fixture configuration of a history.
type Cfg struct {
	Domain string `json:"domain"`
	// Auto: CompactThreshold = 1 on every partition, i.e. the partition starts its own background index
	// compaction at the end of every creating call; the writer waits for it to finish before the next op.
	Auto bool `json:"auto,omitempty"`
	// SegShift: log2 of the size of segment 0000 (0 = the shipped 22 = 4 MiB; the segment-roll domains use
	// tinySegShift). Set through the build's VerifSeriesSegmentMinShift variable by every openSF.
	SegShift int `json:"seg_shift,omitempty"`
}

// OpResult is what an op acknowledged to its caller.
type OpResult struct {
	IDs    []uint64 `json:"ids,omitempty"`    // create: the returned ids
	Target uint64   `json:"target,omitempty"` // delete: the id passed to DeleteSeriesID
	Err    string   `json:"err,omitempty"`
}

// Acker receives the begin/acknowledge marks of a history (crashfs.Markers has exactly these methods).
type Acker interface {
	Begin(k int, v any)
	Ack(k int, result string)
}

type nopAcker struct{}

func (nopAcker) Begin(int, any)  {}
func (nopAcker) Ack(int, string) {}

// unknownID is the id a delete uses for a key that was never created (never reached by any history here).
func unknownID(d *Domain, key int) uint64 { return uint64(8*100000 + d.Part[key] + 1) }

func openSF(dir string, cfg Cfg) (*tsdb.SeriesFile, error) {
	// no series file of this process is open at this point (every case closes its own before the next one starts)
	tsdb.VerifSeriesSegmentMinShift = shippedSegShift
	if cfg.SegShift != 0 {
		tsdb.VerifSeriesSegmentMinShift = uint16(cfg.SegShift)
	}
	sf := tsdb.NewSeriesFile(dir)
	if cfg.Auto {
		// the default limit is GOMAXPROCS concurrent index compactions per series file: which partitions of a batch
		// get to compact would then depend on goroutine timing
		sf.WithMaxCompactionConcurrency(tsdb.SeriesFilePartitionN)
	}
	if err := sf.Open(); err != nil {
		return nil, err
	}
	if cfg.Auto {
		for _, p := range sf.Partitions() {
			p.CompactThreshold = 1
		}
	}
	return sf, nil
}

func waitIdle(sf *tsdb.SeriesFile) {
	for _, p := range sf.Partitions() {
		for i := 0; p.Compacting(); i++ {
			if i < 100 {
				runtime.Gosched()
			} else {
				time.Sleep(20 * time.Microsecond)
			}
		}
	}
}

// PerformHistory is the history writer: it opens (creating if needed) the series file in dir, performs ops
// in order and reports Begin/Ack for each. after (optional) is called after every acknowledged step with the
// open series file; returning false stops the history. The series file is returned OPEN (nil after an open
// error); the caller closes it. lastID is writer-side bookkeeping only (which id a delete op names).
func PerformHistory(dir string, cfg Cfg, ops []Op, ack Acker, after func(step int, op Op, res OpResult, sf *tsdb.SeriesFile) bool) (results []OpResult, sf *tsdb.SeriesFile, err error) {
	if ack == nil {
		ack = nopAcker{}
	}
	d := getDomain(cfg.Domain)
	if sf, err = openSF(dir, cfg); err != nil {
		return nil, nil, fmt.Errorf("open: %w", err)
	}
	lastID := map[int]uint64{}
	for step, op := range ops {
		ack.Begin(step, op)
		var res OpResult
		switch op.Kind {
		case OpCreate:
			names := make([][]byte, len(op.Keys))
			tags := make([]models.Tags, len(op.Keys))
			for i, k := range op.Keys {
				names[i] = []byte(d.Keys[k].Name)
				tags[i] = d.Keys[k].mtags()
			}
			ids, e := sf.CreateSeriesListIfNotExists(names, tags)
			if e != nil {
				res.Err = e.Error()
			} else {
				res.IDs = append([]uint64(nil), ids...)
				for i, k := range op.Keys {
					lastID[k] = ids[i]
				}
			}
			if cfg.Auto {
				waitIdle(sf)
			}
		case OpDelete:
			id := lastID[op.Keys[0]]
			if id == 0 {
				id = unknownID(d, op.Keys[0])
			}
			res.Target = id
			if _, e := sf.DeleteSeriesID(id, !op.NoFlush); e != nil {
				res.Err = e.Error()
			}
		case OpReopen:
			if e := sf.Close(); e != nil {
				res.Err = "close: " + e.Error()
			}
			nsf, e := openSF(dir, cfg)
			if e != nil {
				res.Err += "open: " + e.Error()
				b, _ := json.Marshal(res)
				ack.Ack(step, string(b))
				results = append(results, res)
				return results, nil, fmt.Errorf("step %d reopen: %w", step, e)
			}
			sf = nsf
		case OpCompact:
			only := map[int]bool{} // Keys given (crash family): only the partitions holding these keys
			for _, k := range op.Keys {
				only[d.Part[k]] = true
			}
			for _, p := range sf.Partitions() {
				if len(only) > 0 && !only[p.ID()] {
					continue
				}
				if e := tsdb.NewSeriesPartitionCompactor().Compact(p); e != nil {
					res.Err += fmt.Sprintf("partition %d: %v;", p.ID(), e)
				}
			}
		default:
			panic("unknown op " + op.Kind)
		}
		b, _ := json.Marshal(res)
		ack.Ack(step, string(b))
		results = append(results, res)
		if after != nil && !after(step, op, res, sf) {
			break
		}
	}
	return results, sf, nil
}

// ---------------------------------------------------------------------------------------------------------
// reference model (from the statement)

// Model: which id each key currently has, and every id ever handed out.
type Model struct {
	Live map[int]uint64   // key -> id of the live series
	Dead map[int][]uint64 // key -> ids of its deleted incarnations, oldest first
	Used map[uint64]int   // every id ever returned by a create -> key
}

func NewModel() *Model {
	return &Model{Live: map[int]uint64{}, Dead: map[int][]uint64{}, Used: map[uint64]int{}}
}

func (m *Model) clone() *Model {
	n := NewModel()
	for k, v := range m.Live {
		n.Live[k] = v
	}
	for k, v := range m.Dead {
		n.Dead[k] = append([]uint64(nil), v...)
	}
	for k, v := range m.Used {
		n.Used[k] = v
	}
	return n
}

// Fail is one broken clause.
type Fail struct {
	Clause string // short clause name (part of the signature)
	Why    string
}

func failf(clause, f string, a ...any) *Fail { return &Fail{Clause: clause, Why: fmt.Sprintf(f, a...)} }

// Apply judges the acknowledged result of op against the model and advances the model.
func (m *Model) Apply(d *Domain, op Op, res OpResult) *Fail {
	if res.Err != "" {
		// I/O errors etc. are not part of the model; none is expected on tmpfs, so this is a harness problem.
		return failf("harness", "%s returned error %q", op, res.Err)
	}
	switch op.Kind {
	case OpCreate:
		if len(res.IDs) != len(op.Keys) {
			return failf("create/result-length", "%s returned %d ids for %d keys", op, len(res.IDs), len(op.Keys))
		}
		fresh := map[int]uint64{} // keys created by this very call
		var f *Fail
		for i, k := range op.Keys {
			id := res.IDs[i]
			switch {
			case id == 0:
				f = orFail(f, failf("create/zero-id", "%s: key %d (%s) got id 0", op, k, d.Keys[k]))
			case m.Live[k] != 0:
				if id != m.Live[k] {
					f = orFail(f, failf("create/same-key-different-id", "%s: live key %d (%s) has id %d but create returned %d", op, k, d.Keys[k], m.Live[k], id))
				}
			case fresh[k] != 0:
				if id != fresh[k] {
					f = orFail(f, failf("create/duplicate-in-batch-different-id", "%s: key %d (%s) occurs twice in the call and got ids %d and %d", op, k, d.Keys[k], fresh[k], id))
				}
			default:
				if ok, used := m.Used[id]; used {
					what := "reused"
					if len(m.Dead[k]) > 0 && ok == k {
						what = "resurrected"
					}
					f = orFail(f, failf("create/"+what+"-id", "%s: new series for key %d (%s) got id %d which was already handed out before (to key %d; deleted ids of this key %v)", op, k, d.Keys[k], id, ok, m.Dead[k]))
				}
				for k2, id2 := range fresh {
					if id2 == id && k2 != k {
						f = orFail(f, failf("create/distinct-keys-same-id", "%s: keys %d and %d both got id %d", op, k2, k, id))
					}
				}
				if top := m.maxUsed(id); id < top {
					// ids of one partition (one residue class mod 8) are handed out densely in increasing order: an id
					// below an earlier one re-enters the range of ids already handed out
					f = orFail(f, failf("create/id-below-earlier-ids", "%s: new series for key %d (%s) got id %d although id %d of the same partition (same residue mod 8) was handed out before", op, k, d.Keys[k], id, top))
				}
				fresh[k] = id
			}
		}
		if f != nil {
			return f
		}
		ks := make([]int, 0, len(fresh))
		for k := range fresh {
			ks = append(ks, k)
		}
		sort.Ints(ks)
		for _, k := range ks {
			m.Live[k] = fresh[k]
			m.Used[fresh[k]] = k
		}
	case OpDelete:
		k := op.Keys[0]
		if id := m.Live[k]; id != 0 && id == res.Target {
			delete(m.Live, k)
			m.Dead[k] = append(m.Dead[k], id)
		}
		// deleting an id that is already deleted, or was never handed out, changes nothing
	}
	return nil
}

// maxUsed returns the largest id handed out so far in the residue class (mod 8) of id.
func (m *Model) maxUsed(id uint64) uint64 {
	var top uint64
	for u := range m.Used {
		if u%tsdb.SeriesFilePartitionN == id%tsdb.SeriesFilePartitionN && u > top {
			top = u
		}
	}
	return top
}

func orFail(a, b *Fail) *Fail {
	if a != nil {
		return a
	}
	return b
}

// ---------------------------------------------------------------------------------------------------------
// observation of a series file through its public API

// Obs is everything the check reads from an open series file.
type Obs struct {
	IDOf    []uint64          // SeriesID(key) for every key of the domain
	KeyOf   map[uint64]string // SeriesKey(id) parsed back to "name,tag=value" ("" = nil key) for the ids asked
	Deleted map[uint64]bool   // IsDeleted(id) for the ids asked
	Has     []bool            // HasSeries(key)
	Count   uint64            // SeriesCount()
	Layout  string            // per touched partition: on-disk index count / in-memory count / segments (state key only)
	// segment-roll domains (never judged; fixture assertion after the prefix, outcome classes): segments of the focus
	// partition, free bytes in the newest one, and whether the newest one holds no insert entry
	Segs           int
	Free           int
	NewestNoInsert bool
}

func keyString(name []byte, tags models.Tags) string {
	s := string(name)
	for _, t := range tags {
		s += "," + string(t.Key) + "=" + string(t.Value)
	}
	return s
}

func (k KeyDef) full() string {
	s := k.Name
	for _, t := range k.Tags {
		s += "," + t[0] + "=" + t[1]
	}
	return s
}

// ReadAll reads the id of every key of the domain, and key + deleted flag of every id in ids and of every id
// found for a key.
func ReadAll(sf *tsdb.SeriesFile, d *Domain, ids []uint64) *Obs {
	o := &Obs{KeyOf: map[uint64]string{}, Deleted: map[uint64]bool{}}
	ask := map[uint64]bool{}
	for _, id := range ids {
		ask[id] = true
	}
	for _, k := range d.Keys {
		id := sf.SeriesID([]byte(k.Name), k.mtags(), nil)
		o.IDOf = append(o.IDOf, id)
		o.Has = append(o.Has, sf.HasSeries([]byte(k.Name), k.mtags(), nil))
		if id != 0 {
			ask[id] = true
		}
	}
	for id := range ask {
		if b := sf.SeriesKey(id); b != nil {
			name, tags := tsdb.ParseSeriesKey(b)
			o.KeyOf[id] = keyString(name, tags)
		} else {
			o.KeyOf[id] = ""
		}
		o.Deleted[id] = sf.IsDeleted(id)
	}
	o.Count = sf.SeriesCount()
	var lay []string
	for _, p := range sf.Partitions() {
		idx := p.Index()
		if idx == nil {
			continue
		}
		segs := p.Segments()
		if idx.OnDiskCount() == 0 && idx.InMemCount() == 0 && len(segs) == 1 {
			if _, err := os.Stat(p.IndexPath()); err != nil {
				continue
			}
		}
		_, err := os.Stat(p.IndexPath())
		lay = append(lay, fmt.Sprintf("p%d:disk%d/mem%d/seg%d/idx%v", p.ID(), idx.OnDiskCount(), idx.InMemCount(), len(segs), err == nil))
	}
	o.Layout = strings.Join(lay, " ")
	if d.Focus >= 0 {
		if segs := sf.Partitions()[d.Focus].Segments(); len(segs) > 0 {
			last := segs[len(segs)-1]
			o.Segs = len(segs)
			o.Free = int(tsdb.SeriesSegmentSize(last.ID())) - int(last.Size())
			o.NewestNoInsert = last.MaxSeriesID() == 0
		}
	}
	return o
}

// Expect says how an observation is compared with a model.
type Expect struct {
	M *Model
	// InFlight: an op that was begun but not acknowledged when the directory image was taken (crash images
	// only). Its effect may be absent, or present intact: keys of an in-flight create that are not live in M
	// may be absent or live with an id never handed out before (and SeriesKey(id) = key); the target of an
	// in-flight delete may be live (same id) or deleted. nil = the observation must match M exactly.
	InFlight *InFlightOp
}

// InFlightOp is the op in flight with what the writer knew when it began.
type InFlightOp struct {
	Op     Op
	Target uint64 // delete: the id being deleted (0 = unknown to the checker: any one live series may be deleted)
}

// Compare checks an observation against the expectation. On success it returns the model the observation
// settles on (M itself, or M + the in-flight op's visible effect).
func Compare(d *Domain, o *Obs, e Expect) (*Model, *Fail) {
	m := e.M.clone()
	mayCreate := map[int]bool{}
	mayDelete := map[int]bool{}
	if e.InFlight != nil {
		switch e.InFlight.Op.Kind {
		case OpCreate:
			for _, k := range e.InFlight.Op.Keys {
				if m.Live[k] == 0 {
					mayCreate[k] = true
				}
			}
		case OpDelete:
			k := e.InFlight.Op.Keys[0]
			if id := m.Live[k]; id != 0 && (e.InFlight.Target == 0 || e.InFlight.Target == id) {
				mayDelete[k] = true
			}
		}
	}
	seen := map[uint64]int{}
	for k := range d.Keys {
		got, want := o.IDOf[k], m.Live[k]
		switch {
		case want != 0 && got == want:
		case want != 0 && got == 0 && mayDelete[k]:
			delete(m.Live, k)
			m.Dead[k] = append(m.Dead[k], want)
		case want != 0 && got == 0:
			return nil, failf("lookup/live-series-lost", "SeriesID(key %d %s) = 0 but the series was created with id %d and never deleted", k, d.Keys[k], want)
		case want != 0:
			return nil, failf("lookup/id-changed", "SeriesID(key %d %s) = %d but the series was created with id %d", k, d.Keys[k], got, want)
		case got == 0:
		case mayCreate[k]:
			if prev, used := m.Used[got]; used {
				return nil, failf("lookup/inflight-create-reused-id", "key %d (%s) of the unacknowledged create has id %d which was already handed out to key %d", k, d.Keys[k], got, prev)
			}
			m.Live[k] = got
			m.Used[got] = k
		default:
			st := "was never created"
			if len(m.Dead[k]) > 0 {
				st = fmt.Sprintf("was deleted (ids %v)", m.Dead[k])
			}
			return nil, failf("lookup/absent-key-has-id", "SeriesID(key %d %s) = %d but the series %s", k, d.Keys[k], got, st)
		}
		if id := m.Live[k]; id != 0 {
			if k2, dup := seen[id]; dup {
				return nil, failf("lookup/distinct-keys-same-id", "keys %d and %d both resolve to id %d", k2, k, id)
			}
			seen[id] = k
			if o.Has[k] != true {
				return nil, failf("lookup/has-series-false", "HasSeries(key %d %s) = false for a live series", k, d.Keys[k])
			}
			if got := o.KeyOf[id]; got != d.Keys[k].full() {
				return nil, failf("reverse/series-key-of-live-id", "SeriesKey(%d) = %q but id %d belongs to key %d %q", id, short(got), id, k, short(d.Keys[k].full()))
			}
			if o.Deleted[id] {
				return nil, failf("reverse/live-id-reported-deleted", "IsDeleted(%d) = true but key %d (%s) is live with this id", id, k, d.Keys[k])
			}
		} else if o.Has[k] {
			return nil, failf("lookup/absent-key-has-id", "HasSeries(key %d %s) = true but the series is not live", k, d.Keys[k])
		}
	}
	// deleted ids stay deleted (otherwise the id could be looked up / handed out again)
	ks := make([]int, 0, len(m.Dead))
	for k := range m.Dead {
		ks = append(ks, k)
	}
	sort.Ints(ks)
	for _, k := range ks {
		for _, id := range m.Dead[k] {
			if del, asked := o.Deleted[id]; asked && !del {
				return nil, failf("reverse/deleted-id-not-deleted", "IsDeleted(%d) = false but id %d (key %d %s) was deleted", id, id, k, d.Keys[k])
			}
			// the id of a deleted series belongs to that series for ever: SeriesKey may still return its key, or
			// nothing, but never the complete key of ANOTHER series (the id would have been given away)
			if got := o.KeyOf[id]; got != "" && got != d.Keys[k].full() {
				if k2, ok := d.keyByFull(got); ok && k2 != k {
					return nil, failf("reverse/deleted-id-resolves-to-other-key", "SeriesKey(%d) = %q (key %d) but id %d was handed out to key %d %q, which was deleted since", id, short(got), k2, id, k, short(d.Keys[k].full()))
				}
			}
		}
	}
	return m, nil
}

func short(s string) string {
	if len(s) > 60 {
		return fmt.Sprintf("%s..(%d bytes)", s[:40], len(s))
	}
	return s
}

func usedIDs(m *Model) []uint64 {
	ids := make([]uint64, 0, len(m.Used))
	for id := range m.Used {
		ids = append(ids, id)
	}
	sort.Slice(ids, func(i, j int) bool { return ids[i] < ids[j] })
	return ids
}

// CheckRecovery is the recovery checker: open dir with the real code, read everything, compare with the
// expectation; then create every key of createKeys (all keys when nil) in one call — live keys keep their
// ids, the others get ids never handed out — and (secondRestart) restart a second time and compare exactly
// with the settled model. stage tells where it failed ("open", "first-read", "create-after", "second-open", "second-read").
func CheckRecovery(dir string, cfg Cfg, e Expect, createKeys []int, secondRestart bool) (m *Model, stage string, f *Fail) {
	return CheckRecoveryInfo(dir, cfg, e, createKeys, secondRestart, nil)
}

// RecoveryInfo is what the recovery checker additionally reports about the first read (never judged: it feeds the
// outcome histogram of the crash family).
type RecoveryInfo struct {
	// Settle: how the op in flight shows after the recovery: "none" (no op in flight) | "create:absent" |
	// "create:present" | "create:partial" | "create:nothing-new" | "delete:applied" | "delete:not-applied" |
	// "delete:noop" | the kind of any other op.
	Settle string
	// Phantoms: ids of insert entries found in the segment files (SeriesPartition.AppendSeriesIDs) that were never
	// acknowledged and do not belong to a key of the op in flight, with the key SeriesKey returns for them.
	Phantoms []string
	State    string // the settled model, canonical
}

// CheckRecoveryInfo is CheckRecovery with the extra report (info may be nil).
func CheckRecoveryInfo(dir string, cfg Cfg, e Expect, createKeys []int, secondRestart bool, info *RecoveryInfo) (m *Model, stage string, f *Fail) {
	d := getDomain(cfg.Domain)
	sf, err := openSF(dir, cfg)
	if err != nil {
		return nil, "open", failf("recovery/open-failed", "series file does not open: %v", err)
	}
	closed := false
	defer func() {
		if !closed {
			sf.Close()
		}
	}()
	o := ReadAll(sf, d, usedIDs(e.M))
	if m, f = Compare(d, o, e); f != nil {
		return nil, "first-read", f
	}
	if info != nil {
		info.Settle = settleClass(e, m)
		info.State = fmt.Sprintf("live=%v dead=%v", m.Live, m.Dead)
		var all []uint64
		for _, p := range sf.Partitions() {
			all = p.AppendSeriesIDs(all)
		}
		sort.Slice(all, func(i, j int) bool { return all[i] < all[j] })
		for _, id := range all {
			if _, ok := m.Used[id]; !ok {
				info.Phantoms = append(info.Phantoms, fmt.Sprintf("%d:%q", id, short(string(sf.SeriesKey(id)))))
			}
		}
	}
	if createKeys == nil {
		for k := range d.Keys {
			createKeys = append(createKeys, k)
		}
	}
	op := Op{Kind: OpCreate, Keys: createKeys}
	names := make([][]byte, len(createKeys))
	tags := make([]models.Tags, len(createKeys))
	for i, k := range createKeys {
		names[i], tags[i] = []byte(d.Keys[k].Name), d.Keys[k].mtags()
	}
	ids, err := sf.CreateSeriesListIfNotExists(names, tags)
	res := OpResult{IDs: ids}
	if err != nil {
		res.Err = err.Error()
	}
	if cfg.Auto {
		waitIdle(sf)
	}
	if f = m.Apply(d, op, res); f != nil {
		return nil, "create-after", f
	}
	if f = compareOpen(sf, d, m); f != nil {
		return nil, "create-after", f
	}
	if !secondRestart {
		return m, "", nil
	}
	closed = true
	if err := sf.Close(); err != nil {
		return nil, "second-open", failf("harness", "close: %v", err)
	}
	sf2, err := openSF(dir, cfg)
	if err != nil {
		return nil, "second-open", failf("recovery/open-failed", "series file does not open a second time: %v", err)
	}
	defer sf2.Close()
	if f = compareOpen(sf2, d, m); f != nil {
		return nil, "second-read", f
	}
	return m, "", nil
}

// settleClass names how the op in flight of e shows in the settled model m.
func settleClass(e Expect, m *Model) string {
	if e.InFlight == nil {
		return "none"
	}
	switch op := e.InFlight.Op; op.Kind {
	case OpCreate:
		want, have := 0, 0
		seen := map[int]bool{}
		for _, k := range op.Keys {
			if e.M.Live[k] != 0 || seen[k] {
				continue
			}
			seen[k] = true
			want++
			if m.Live[k] != 0 {
				have++
			}
		}
		switch {
		case want == 0:
			return "create:nothing-new"
		case have == 0:
			return "create:absent"
		case have == want:
			return "create:present"
		}
		return "create:partial"
	case OpDelete:
		k := op.Keys[0]
		switch {
		case e.M.Live[k] == 0 || (e.InFlight.Target != 0 && e.InFlight.Target != e.M.Live[k]):
			return "delete:noop"
		case m.Live[k] == 0:
			return "delete:applied"
		}
		return "delete:not-applied"
	default:
		return op.Kind
	}
}

func compareOpen(sf *tsdb.SeriesFile, d *Domain, m *Model) *Fail {
	_, f := Compare(d, ReadAll(sf, d, usedIDs(m)), Expect{M: m})
	return f
}

// ---------------------------------------------------------------------------------------------------------
// one case = configuration + op list (+ closing phase)

// Case is the replayable unit.
type Case struct {
	Cfg Cfg  `json:"cfg"`
	Pre []Op `json:"pre,omitempty"` // fixed prefix of a structured family (executed and judged like Ops)
	Ops []Op `json:"ops"`
	// Tail: after the last op run the recovery checker on the directory: 1 = clean Close, reopen, read all,
	// create every op key again, read all; 2 = additionally a second restart + read all; 0 = none.
	Tail  int        `json:"tail"`
	Crash *CrashCase `json:"crash,omitempty"` // crash family (then the other fields are unused)
	Sched *SchedCase `json:"sched,omitempty"` // schedule part (then the other fields are unused)
}

type runResult struct {
	Fail     *Fail
	Step     int // index into Pre+Ops (len = in the tail)
	Stage    string
	Outcomes []string
	States   []string
	Steps    int64
	Model    *Model
	CountRel string
	// segment-roll domains: roll-overs caused by the ops (not the prefix) / by the closing phase, and reopens (ops or
	// closing phase) that found the newest segment without any insert entry
	Rolls, TailRolls, InsertlessReopens int
}

func modelKey(d *Domain, m *Model) string {
	var b strings.Builder
	for k := range d.Keys {
		gen := len(m.Dead[k])
		switch {
		case m.Live[k] != 0:
			fmt.Fprintf(&b, "L%d", gen+1)
		case gen > 0:
			fmt.Fprintf(&b, "D%d", gen)
		default:
			b.WriteString("N")
		}
		if k >= 4 && len(d.Keys) > 8 { // big domain: prefill keys are summarised
			live, dead := 0, 0
			for k2 := 3; k2 < len(d.Keys); k2++ {
				if m.Live[k2] != 0 {
					live++
				} else if len(m.Dead[k2]) > 0 {
					dead++
				}
			}
			fmt.Fprintf(&b, "+pre%d/%d", live, dead)
			break
		}
	}
	return b.String()
}

func runCase(base string, cs Case) (rr runResult) {
	d := getDomain(cs.Cfg.Domain)
	dir, err := os.MkdirTemp(base, "sf")
	if err != nil {
		rr.Fail = failf("harness", "mkdir: %v", err)
		return
	}
	defer os.RemoveAll(dir)
	dir = filepath.Join(dir, "_series")
	m := NewModel()
	rr.Model = m
	all := append(append([]Op(nil), cs.Pre...), cs.Ops...)
	var sf *tsdb.SeriesFile
	lastObs := &Obs{}
	p, desc := vlib.Guard(func() {
		_, sf, err = PerformHistory(dir, cs.Cfg, all, nil, func(step int, op Op, res OpResult, sf *tsdb.SeriesFile) bool {
			rr.Step = step
			rr.Steps++
			before := len(m.Used)
			recreate := false
			for _, k := range op.Keys {
				recreate = recreate || (op.Kind == OpCreate && m.Live[k] == 0 && len(m.Dead[k]) > 0)
			}
			wasLive := op.Kind == OpDelete && m.Live[op.Keys[0]] != 0
			if f := m.Apply(d, op, res); f != nil {
				rr.Fail = f
				return false
			}
			o := ReadAll(sf, d, usedIDs(m))
			if _, f := Compare(d, o, Expect{M: m}); f != nil {
				rr.Fail = f
				return false
			}
			if d.Focus >= 0 && step == len(cs.Pre)-1 && (o.Segs != d.WantSegs || o.Free != d.WantFree) {
				rr.Fail = failf("harness", "fixture: after the prefix the focus partition has %d segment(s) with %d bytes free in the newest, the domain %s is built for %d / %d (segment size %d)", o.Segs, o.Free, d.Name, d.WantSegs, d.WantFree, tsdb.SeriesSegmentSize(0))
				return false
			}
			if d.Focus >= 0 && step >= len(cs.Pre) {
				if o.Segs > lastObs.Segs {
					rr.Rolls += o.Segs - lastObs.Segs
					first := "insert"
					if op.Kind == OpDelete {
						first = "tombstone"
					}
					rr.Outcomes = append(rr.Outcomes, fmt.Sprintf("roll-over:first-entry-of-new-segment=%s/free-before=%s", first, freeClass(lastObs.Free)))
				}
				if op.Kind == OpReopen {
					if lastObs.NewestNoInsert {
						rr.InsertlessReopens++
					}
					rr.Outcomes = append(rr.Outcomes, fmt.Sprintf("reopen:segments=%d/newest-without-insert=%v", min(lastObs.Segs, 4), lastObs.NewestNoInsert))
				}
			}
			lastObs = o
			if step >= len(cs.Pre) {
				oc := op.Kind
				switch op.Kind {
				case OpCreate:
					oc = fmt.Sprintf("create:%d-of-%d-new", len(m.Used)-before, len(op.Keys))
					if recreate {
						oc += ":recreated"
					}
				case OpDelete:
					switch {
					case wasLive:
						oc = "delete:live"
					case len(m.Dead[op.Keys[0]]) > 0:
						oc = "delete:already-deleted"
					default:
						oc = "delete:unknown-id"
					}
				}
				rr.Outcomes = append(rr.Outcomes, oc)
				live := uint64(len(m.Live))
				switch {
				case o.Count == live:
					rr.CountRel = "count=live"
				case o.Count > live && o.Count <= uint64(len(m.Used)):
					rr.CountRel = "count=live+some-deleted"
				default:
					rr.CountRel = "count-other"
				}
				rr.States = append(rr.States, modelKey(d, m)+"|"+o.Layout)
			}
			return true
		})
	})
	if sf != nil {
		sf.Close()
	}
	if p {
		rr.Fail = &Fail{Clause: "panic", Why: desc}
		return
	}
	if err != nil && rr.Fail == nil {
		rr.Fail = failf("recovery/open-failed", "%v", err)
		return
	}
	if rr.Fail != nil || cs.Tail == 0 {
		return
	}
	rr.Step = len(all)
	p, desc = vlib.Guard(func() {
		var m2 *Model
		m2, rr.Stage, rr.Fail = CheckRecovery(dir, cs.Cfg, Expect{M: m}, tailKeys(d), cs.Tail >= 2)
		if m2 != nil {
			rr.Model = m2
		}
	})
	if p {
		rr.Fail = &Fail{Clause: "panic", Why: desc}
	}
	if d.Focus >= 0 {
		if lastObs.NewestNoInsert {
			rr.InsertlessReopens++
		}
		rr.Outcomes = append(rr.Outcomes, fmt.Sprintf("closing-reopen:segments=%d/newest-without-insert=%v", min(lastObs.Segs, 4), lastObs.NewestNoInsert))
		if n := countSegmentFiles(filepath.Join(dir, fmt.Sprintf("%02x", d.Focus))); n > lastObs.Segs && lastObs.Segs > 0 {
			rr.TailRolls = n - lastObs.Segs
			rr.Outcomes = append(rr.Outcomes, "closing-create:roll-over")
		}
	}
	rr.Steps += int64(1 + cs.Tail)
	return
}

// freeClass: free bytes of the newest segment relative to the entry sizes of the segment-roll alphabet.
func freeClass(free int) string {
	switch {
	case free < tombstoneSize:
		return "nothing-fits"
	case free < segEntryA:
		return "tombstone-fits"
	case free < segEntryB:
		return "short-insert-fits"
	case free <= segMaxFree:
		return "all-fit"
	}
	return "ample"
}

// countSegmentFiles counts the segment files (4 hex digits) of a partition directory.
func countSegmentFiles(dir string) int {
	des, _ := os.ReadDir(dir)
	n := 0
	for _, de := range des {
		if _, err := tsdb.ParseSeriesSegmentFilename(de.Name()); err == nil {
			n++
		}
	}
	return n
}

// tailKeys: the keys the closing phase creates again (the op keys; for the big and segment-roll domains not the
// prefill keys).
func tailKeys(d *Domain) []int {
	n := len(d.Keys)
	if d.Name == DomBig {
		n = 3
	}
	if d.OpKeys > 0 {
		n = d.OpKeys
	}
	ks := make([]int, n)
	for i := range ks {
		ks[i] = i
	}
	return ks
}

// sigOf: clause + where (op kind / tail stage) + which maintenance ops happened before.
func sigOf(cs Case, rr runResult) string {
	all := append(append([]Op(nil), cs.Pre...), cs.Ops...)
	where := "tail:" + rr.Stage
	if rr.Step < len(all) {
		where = "after:" + all[rr.Step].Kind
	}
	var re, co, de bool
	for i, o := range all {
		if i > rr.Step {
			break
		}
		re = re || o.Kind == OpReopen
		co = co || o.Kind == OpCompact
		de = de || o.Kind == OpDelete
	}
	if rr.Step >= len(all) {
		re = true
	}
	clause := rr.Fail.Clause
	if clause == "panic" {
		clause = "panic/" + strings.TrimPrefix(rr.Fail.Why[strings.LastIndex(rr.Fail.Why, "@ ")+2:], "github.com/influxdata/influxdb/v2/")
	}
	return vlib.JoinSig(clause, where, fmt.Sprintf("dom=%s,auto=%v,reopen=%v,compact=%v,delete=%v", domClass(cs.Cfg.Domain), cs.Cfg.Auto, re, co || cs.Cfg.Auto, de))
}

// ---------------------------------------------------------------------------------------------------------
// enumeration

func forEachSeq(alphabet []Op, minLen, maxLen int, f func(ops []Op) bool) {
	for n := minLen; n <= maxLen; n++ {
		idx := make([]int, n)
		for {
			ops := make([]Op, n)
			for i, a := range idx {
				ops[i] = alphabet[a]
			}
			if !f(ops) {
				return
			}
			i := n - 1
			for ; i >= 0; i-- {
				idx[i]++
				if idx[i] < len(alphabet) {
					break
				}
				idx[i] = 0
			}
			if i < 0 {
				break
			}
		}
	}
}

// SmallAlphabet: 4 single creates, 3 batch creates (two keys of one partition; a duplicate inside the call;
// all four keys with a repeat), 4 deletes, reopen, compact.
func SmallAlphabet(withCompact bool) []Op {
	a := []Op{
		{Kind: OpCreate, Keys: []int{0}}, {Kind: OpCreate, Keys: []int{1}}, {Kind: OpCreate, Keys: []int{2}}, {Kind: OpCreate, Keys: []int{3}},
		{Kind: OpCreate, Keys: []int{0, 1}}, {Kind: OpCreate, Keys: []int{1, 1}}, {Kind: OpCreate, Keys: []int{3, 0, 1, 2, 0}},
		{Kind: OpDelete, Keys: []int{0}}, {Kind: OpDelete, Keys: []int{1}}, {Kind: OpDelete, Keys: []int{2}}, {Kind: OpDelete, Keys: []int{3}},
		{Kind: OpReopen},
	}
	if withCompact {
		a = append(a, Op{Kind: OpCompact})
	}
	return a
}

// BigPrefix fills segment 0000 of the partition; BigAlphabet are the ops around the segment roll.
func BigPrefix() []Op {
	ks := make([]int, bigPrefill)
	for i := range ks {
		ks[i] = 3 + i
	}
	return []Op{{Kind: OpCreate, Keys: ks}}
}

// BigTightPrefix: one call creating the 64 prefill keys and the pad key of the tight big domain.
func BigTightPrefix() []Op { return []Op{mkOp(OpCreate, seqKeys(3, bigPrefill+1)...)} }

func BigAlphabet() []Op {
	return []Op{
		{Kind: OpCreate, Keys: []int{0}}, // big: does not fit segment 0000 any more
		{Kind: OpCreate, Keys: []int{1}},
		{Kind: OpCreate, Keys: []int{2}}, // short key: fits
		{Kind: OpDelete, Keys: []int{0}},
		{Kind: OpDelete, Keys: []int{2}},
		{Kind: OpDelete, Keys: []int{3}}, // a prefill key (first entry of segment 0000)
		{Kind: OpReopen},
		{Kind: OpCompact},
	}
}

type family struct {
	name     string
	cfg      Cfg
	pre      []Op
	alphabet []Op
	minLen   int
	maxLen   int
}

// preIDs: the number of ids the prefix of a family hands out.
func (f family) preIDs() int {
	seen := map[int]bool{}
	for _, op := range f.pre {
		if op.Kind == OpCreate {
			for _, k := range op.Keys {
				seen[k] = true
			}
		}
	}
	return len(seen)
}

// SegAlphabet: the ops around a roll-over in the segment-roll domains. With f bytes free in the newest segment:
// create A needs segEntryA, create B segEntryB, create{A,B} rolls between its two entries when only A fits, each
// delete of a live series needs tombstoneSize bytes (two prefill series can be deleted: two tombstones).
func SegAlphabet() []Op {
	return []Op{
		mkOp(OpCreate, 0), mkOp(OpCreate, 1), mkOp(OpCreate, 0, 1),
		mkOp(OpDelete, 0), // A (while A was never created: an id never handed out, nothing is written)
		mkOp(OpDelete, 2), // F0: the first series of segment 0000
		mkOp(OpDelete, 3), // P0: the last series of segment 0000
		mkOp(OpReopen), mkOp(OpCompact),
	}
}

// segFamilies: one family per (variant, parameter) of the segment-roll domains, every sequence of length <= maxLen.
func segFamilies(variant string, params []int, maxLen int) []family {
	var out []family
	for _, n := range params {
		name := fmt.Sprintf("%s/%s/%d", DomSeg, variant, n)
		d := getDomain(name)
		out = append(out, family{"segroll-" + variant, Cfg{Domain: name, SegShift: tinySegShift}, d.Pre, SegAlphabet(), 0, maxLen})
	}
	return out
}

func intRange(lo, hi int) []int {
	var out []int
	for i := lo; i <= hi; i++ {
		out = append(out, i)
	}
	return out
}

func envInt(name string, def int) int {
	if s := os.Getenv(name); s != "" {
		if v, err := strconv.Atoi(s); err == nil {
			return v
		}
	}
	return def
}

// PairAlphabet: the deep alphabet over the two keys sharing a partition (partitions are independent of each
// other apart from the id congruence, so depth is spent where ids can collide). Batch creates are covered by
// the full alphabet.
func PairAlphabet(withCompact bool) []Op {
	a := []Op{
		{Kind: OpCreate, Keys: []int{0}}, {Kind: OpCreate, Keys: []int{1}},
		{Kind: OpDelete, Keys: []int{0}}, {Kind: OpDelete, Keys: []int{1}},
		{Kind: OpReopen},
	}
	if withCompact {
		a = append(a, Op{Kind: OpCompact})
	}
	return a
}

// families in visiting order (simplest first). Sequences of length < minLen of a deep family are covered by
// the full-alphabet family of the same configuration (the deep alphabet is a subset).
func families(thorough bool) []family {
	ex, au, ro, ti := Cfg{Domain: DomSmall}, Cfg{Domain: DomSmall, Auto: true}, Cfg{Domain: DomBig}, Cfg{Domain: DomTight}
	if d := envInt("C13_DEPTH", -1); d >= 0 {
		return []family{{"explicit", ex, nil, SmallAlphabet(true), 0, d}}
	}
	if !thorough {
		fams := []family{{"explicit", ex, nil, SmallAlphabet(true), 0, 2}}
		// segment-roll families first among the longer ones: tiny files, a few ms per history
		fams = append(fams, segFamilies("a", intRange(0, segMaxFree), 2)...)
		fams = append(fams, segFamilies("b", []int{0, 4, tombstoneSize, segEntryA, segEntryB}, 2)...)
		return append(fams,
			family{"explicit", ex, nil, SmallAlphabet(true), 3, 3},
			family{"auto", au, nil, SmallAlphabet(false), 0, 2},
			family{"roll", ro, BigPrefix(), BigAlphabet(), 0, 2},
			family{"roll-tight", ti, BigTightPrefix(), BigAlphabet(), 0, 1},
			family{"explicit-pair", ex, nil, PairAlphabet(true), 4, 4},
			family{"auto-pair", au, nil, PairAlphabet(false), 3, 3},
		)
	}
	fams := []family{{"explicit", ex, nil, SmallAlphabet(true), 0, 3}}
	fams = append(fams, segFamilies("a", intRange(0, segMaxFree), 2)...)
	fams = append(fams, segFamilies("b", intRange(0, segMaxFree), 2)...)
	fams = append(fams,
		family{"explicit", ex, nil, SmallAlphabet(true), 4, 4},
		family{"auto", au, nil, SmallAlphabet(false), 0, 3},
		family{"roll", ro, BigPrefix(), BigAlphabet(), 0, 3},
		family{"roll-tight", ti, BigTightPrefix(), BigAlphabet(), 0, 2})
	for _, f := range segFamilies("a", intRange(0, segMaxFree), 3) {
		f.minLen = 3
		fams = append(fams, f)
	}
	return append(fams,
		family{"explicit-pair", ex, nil, PairAlphabet(true), 5, 5},
		family{"auto-pair", au, nil, PairAlphabet(false), 4, 4},
		family{"roll", ro, BigPrefix(), BigAlphabet(), 4, 4},
		family{"auto-pair", au, nil, PairAlphabet(false), 5, 5},
		family{"explicit-pair", ex, nil, PairAlphabet(true), 6, 6},
	)
}

// =========================================================================================================
// crash family (engine: verif/h/crashfs)
//
// A history writer (this binary re-executed under strace) performs a history through PerformHistory with BEGIN/ACK
// markers around the initial Open (k=0) and every op (k=i+1) and exits without closing. Every prefix / torn-write /
// unsynced image of the syscall log is materialized and recovered by CheckRecovery in a fresh subprocess.

// CrashHistory is one recorded history of the crash family.
type CrashHistory struct {
	Name string `json:"name"`
	Cfg  Cfg    `json:"cfg"`
	Ops  []Op   `json:"ops"`
	// From: only the images whose cut lies inside or after op From are evaluated (-1: every cut, including those of
	// the initial Open on the empty directory). Earlier cuts belong to a shorter history of the family.
	From int `json:"from"`
	// Upto (0 = len(Ops)): only cuts before the BEGIN of op Upto are evaluated. [From, Upto) is the op window of this
	// work item: a long history is split into one item per op, each recorded again, so that every image is evaluated
	// by exactly one worker whatever the recordings look like.
	Upto int `json:"upto,omitempty"`
	// Manual: the images are not taken from the engine's enumeration (which would tear every one of the 64 prefill
	// writes of 65 KB) but built one by one from descriptors: every P cut inside or after op From, for every write
	// event there the torn lengths of manualTornLens, and the drop-all U image of every cut that has one.
	Manual bool `json:"manual,omitempty"`
}

func (h CrashHistory) String() string {
	w := ""
	if h.Upto != 0 {
		w = fmt.Sprintf(" cuts of ops %d..%d", h.From, h.Upto-1)
	} else if h.From > 0 {
		w = fmt.Sprintf(" cuts of ops %d..", h.From)
	}
	return h.Name + " [" + opsString(h.Ops) + "]" + w
}

// splitAt splits a history into work items at the given op indexes (increasing, inside the window).
func splitAt(h CrashHistory, at ...int) []CrashHistory {
	var out []CrashHistory
	lo := h.From
	for _, b := range append(at, len(h.Ops)) {
		w := h
		w.From, w.Upto = lo, b
		out = append(out, w)
		lo = b
	}
	return out
}

// perOp splits a history into one work item per op of its window (the initial Open stays with op 0).
func perOp(h CrashHistory) []CrashHistory {
	var out []CrashHistory
	lo := max(h.From, 0)
	for i := lo; i < len(h.Ops); i++ {
		w := h
		w.From, w.Upto = i, i+1
		if i == lo {
			w.From = h.From
		}
		out = append(out, w)
	}
	return out
}

func mkOp(kind string, keys ...int) Op { return Op{Kind: kind, Keys: keys} }

// CrashAlphabet is the alphabet of the enumerated crash histories (thorough): creates (single, same partition pair,
// batch over three partitions with a repeat), flushed deletes, reopen, index compaction of K0's partition.
func CrashAlphabet() []Op {
	return []Op{
		mkOp(OpCreate, 0), mkOp(OpCreate, 1), mkOp(OpCreate, 0, 1), mkOp(OpCreate, 3, 0, 1, 2, 0),
		mkOp(OpDelete, 0), mkOp(OpDelete, 1), mkOp(OpReopen), mkOp(OpCompact, 0),
	}
}

func seqKeys(lo, n int) []int {
	ks := make([]int, n)
	for i := range ks {
		ks[i] = lo + i
	}
	return ks
}

// crashHistories lists the work items of a tier, simplest first.
func crashHistories(tier string) []CrashHistory {
	ex, au, p7 := Cfg{Domain: DomSmall}, Cfg{Domain: DomSmall, Auto: true}, Cfg{Domain: DomP7}
	thorough := tier == "thorough"
	var hs []CrashHistory
	// thorough: one work item per op; quick: the given split points (about 200 images per item, one item per worker)
	add := func(h CrashHistory, quickSplit ...int) {
		if thorough {
			hs = append(hs, perOp(h)...)
		} else {
			hs = append(hs, splitAt(h, quickSplit...)...)
		}
	}
	// the initial Open of the empty directory (8 partitions: mkdir, 0000.initializing, header, truncate, fsync,
	// rename), single create, create of a live key + a new one in the same partition, batch over 3 partitions
	add(CrashHistory{Name: "open-create-batch", Cfg: ex, Ops: []Op{mkOp(OpCreate, 0), mkOp(OpCreate, 0, 1), mkOp(OpCreate, 3, 0, 1, 2, 0)}, From: -1}, 1)
	// tombstones, re-creation (fresh id), reopen between them, delete of a deleted id, batch re-creation
	add(CrashHistory{Name: "delete-recreate", Cfg: ex, Ops: []Op{mkOp(OpCreate, 0, 1), mkOp(OpDelete, 0), mkOp(OpCreate, 0), mkOp(OpReopen), mkOp(OpDelete, 1), mkOp(OpDelete, 0), mkOp(OpDelete, 0), mkOp(OpCreate, 0, 1)}}, 3)
	// ids crossing a byte boundary: 32 series in partition 7 (ids 8..0x100) acknowledged, then create (id 0x108),
	// delete of it, create of two (0x110, 0x118), delete of the series with id 0x100, re-creation
	add(CrashHistory{Name: "id-byte-boundary", Cfg: p7, Ops: []Op{mkOp(OpCreate, seqKeys(0, 32)...), mkOp(OpCreate, 32), mkOp(OpDelete, 32), mkOp(OpCreate, 33, 32), mkOp(OpDelete, 31), mkOp(OpCreate, 31)}, From: 1}, 3)
	// segment roll-over in the tiny-segment build (segment 0000 = 128 bytes), cuts from the first op after the prefix on
	// (the prefix create{F0,P0} leaves f bytes free in 0000):
	//  - tombstone: f < 9, the delete of F0 does not fit: 0001 is created for a tombstone and holds no insert entry
	//    (cuts inside the delete; inside the following create of A before its entry reaches 0001; reopen; more ops);
	//  - insert: 9 <= f < 23, create A does not fit: 0001.initializing written, synced, renamed, then the entry is
	//    appended (cuts with an empty newest segment), then a delete of A (0001 = insert + tombstone) and create B;
	//  - batch: 23 <= f < 40, create{A,B} in one call: A is appended to 0000, B rolls over to 0001.
	segH := func(kind string, f int, ops ...Op) CrashHistory {
		name := fmt.Sprintf("%s/a/%d", DomSeg, f)
		pre := getDomain(name).Pre
		return CrashHistory{Name: fmt.Sprintf("seg-roll-%s-free%d", kind, f), Cfg: Cfg{Domain: name, SegShift: tinySegShift}, Ops: append(append([]Op(nil), pre...), ops...), From: len(pre)}
	}
	segTomb := func(f int) CrashHistory {
		return segH("tombstone", f, mkOp(OpDelete, 2), mkOp(OpCreate, 0), mkOp(OpReopen), mkOp(OpDelete, 3), mkOp(OpCreate, 1))
	}
	segIns := func(f int) CrashHistory {
		return segH("insert", f, mkOp(OpCreate, 0), mkOp(OpDelete, 0), mkOp(OpCreate, 1), mkOp(OpDelete, 2))
	}
	segBatch := func(f int) CrashHistory {
		return segH("batch", f, mkOp(OpCreate, 0, 1), mkOp(OpDelete, 0), mkOp(OpCreate, 0))
	}
	if !thorough {
		add(segTomb(4))
		add(segIns(12))
		add(segBatch(30))
	} else {
		for _, f := range []int{0, 4, tombstoneSize - 1} {
			add(segTomb(f))
		}
		for _, f := range []int{0, tombstoneSize, 12, segEntryA - 1} {
			add(segIns(f))
		}
		for _, f := range []int{segEntryA, 30, segEntryB - 1} {
			add(segBatch(f))
		}
	}
	if !thorough {
		// explicit index compaction (index.compacting written, synced, renamed over index) of the partition of K0/K1
		// with a live and a deleted series; entries behind the compacted index; second compaction over an existing index
		add(CrashHistory{Name: "compact", Cfg: ex, Ops: []Op{mkOp(OpCreate, 0, 1), mkOp(OpDelete, 1), mkOp(OpCompact, 0), mkOp(OpCreate, 1, 2), mkOp(OpCompact, 0), mkOp(OpDelete, 0)}}, 3)
		// the partition's own background compaction after every creating call (CompactThreshold = 1)
		add(CrashHistory{Name: "auto-compact", Cfg: au, Ops: []Op{mkOp(OpCreate, 0), mkOp(OpDelete, 0), mkOp(OpCreate, 0, 2)}}, 2)
		return hs
	}
	add(CrashHistory{Name: "compact", Cfg: ex, Ops: []Op{mkOp(OpCreate, 0, 1), mkOp(OpCreate, 2), mkOp(OpDelete, 1), mkOp(OpCompact, 0, 2), mkOp(OpCreate, 1, 3), mkOp(OpDelete, 0), mkOp(OpCompact, 0), mkOp(OpCreate, 0), mkOp(OpReopen), mkOp(OpDelete, 2)}})
	add(CrashHistory{Name: "auto-compact", Cfg: au, Ops: []Op{mkOp(OpCreate, 0), mkOp(OpCreate, 1), mkOp(OpDelete, 0), mkOp(OpCreate, 0, 2), mkOp(OpReopen), mkOp(OpCreate, 3)}})
	// the whole prefill write of the byte-boundary history (one write of 32 entries, every torn length)
	add(CrashHistory{Name: "id-byte-boundary-prefill", Cfg: p7, Ops: []Op{mkOp(OpCreate, seqKeys(0, 32)...)}})
	// compaction of all eight partitions
	add(CrashHistory{Name: "compact-all", Cfg: ex, Ops: []Op{mkOp(OpCreate, 3, 0, 1, 2, 0), mkOp(OpDelete, 2), mkOp(OpCompact), mkOp(OpCreate, 2)}, From: 1})
	// segment roll: 64 keys of 65 KB fill segment 0000, big key A rolls to 0001, short key, delete, big key B
	add(CrashHistory{Name: "segment-roll", Cfg: Cfg{Domain: DomBig}, Ops: append(BigPrefix(), mkOp(OpCreate, 0), mkOp(OpCreate, 2), mkOp(OpDelete, 0), mkOp(OpCreate, 1), mkOp(OpDelete, 3)), From: 1, Manual: true})
	// every sequence of length 1..2 over the crash alphabet and of length 3 over its same-partition part: cuts of the last op
	seq := func(ops []Op) bool {
		hs = append(hs, CrashHistory{Name: "seq", Cfg: ex, Ops: ops, From: len(ops) - 1})
		return true
	}
	forEachSeq(CrashAlphabet(), 1, 2, seq)
	forEachSeq(CrashPairAlphabet(), 3, envInt("C13_CRASH_DEPTH", 3), seq)
	return hs
}

// CrashPairAlphabet: the part of CrashAlphabet on the two keys sharing a partition.
func CrashPairAlphabet() []Op {
	return []Op{mkOp(OpCreate, 0), mkOp(OpCreate, 1), mkOp(OpDelete, 0), mkOp(OpDelete, 1), mkOp(OpReopen), mkOp(OpCompact, 0)}
}

// ---------------------------------------------------------------- history writer (runs under strace)

type crashWriterSpec struct {
	Dir     string `json:"dir"`
	Markers string `json:"markers"`
	Cfg     Cfg    `json:"cfg"`
	Ops     []Op   `json:"ops"`
}

// markerOp is the BEGIN payload: I = -1 is the initial Open.
type markerOp struct {
	I  int `json:"i"`
	Op Op  `json:"op"`
}

// shiftAcker turns PerformHistory's Begin/Ack(step) into markers k = step+1 and acknowledges the initial Open (k=0)
// right before the first op begins.
type shiftAcker struct {
	m      *crashfs.Markers
	opened bool
}

func (a *shiftAcker) open() {
	if !a.opened {
		a.opened = true
		a.m.Ack(0, "{}")
	}
}
func (a *shiftAcker) Begin(k int, v any)       { a.open(); a.m.Begin(k+1, markerOp{I: k, Op: v.(Op)}) }
func (a *shiftAcker) Ack(k int, result string) { a.m.Ack(k+1, result) }

func crashWriterMain(js string) int {
	var sp crashWriterSpec
	if err := json.Unmarshal([]byte(js), &sp); err != nil {
		fmt.Fprintln(os.Stderr, "c13 writer: bad spec:", err)
		return 2
	}
	getDomain(sp.Cfg.Domain) // before the first marker: pure computation
	m, err := crashfs.OpenMarkers(sp.Markers)
	if err != nil {
		fmt.Fprintln(os.Stderr, "c13 writer:", err)
		return 2
	}
	a := &shiftAcker{m: m}
	m.Begin(0, markerOp{I: -1, Op: Op{Kind: "open"}})
	_, _, err = PerformHistory(sp.Dir, sp.Cfg, sp.Ops, a, nil)
	if err != nil {
		fmt.Fprintln(os.Stderr, "c13 writer: history failed live:", err)
		return 1
	}
	a.open()
	return 0 // the process exits with the series file open (nothing is closed or flushed)
}

// ---------------------------------------------------------------- acknowledgement context

// crashCtx is the model of one image: the acknowledged ops applied to the reference model + the op in flight.
type crashCtx struct {
	M      *Model
	InFl   *InFlightOp
	Infl   string // kind of the op in flight: none | open | create | delete | reopen | compact
	InflI  int    // its index (-1: open or none)
	NAcked int    // acknowledged ops (without the initial Open)
}

// contextOf rebuilds the model from the acknowledgements before the cut. An acknowledged result that the model
// rejects is a LIVE failure of the history (the sequential family's business): it is returned as err.
func contextOf(d *Domain, im *crashfs.Image) (cx crashCtx, err error) {
	cx.M, cx.Infl, cx.InflI = NewModel(), "none", -1
	lastID := map[int]uint64{}
	for _, a := range im.Acked() {
		var mo markerOp
		if err := json.Unmarshal([]byte(a.Op), &mo); err != nil {
			return cx, fmt.Errorf("marker payload %q: %v", a.Op, err)
		}
		if mo.I < 0 {
			continue
		}
		var res OpResult
		if err := json.Unmarshal([]byte(a.Result), &res); err != nil {
			return cx, fmt.Errorf("ack payload %q: %v", a.Result, err)
		}
		cx.NAcked++
		if f := cx.M.Apply(d, mo.Op, res); f != nil {
			return cx, fmt.Errorf("the history failed live at op %d %s: %s: %s", mo.I, mo.Op, f.Clause, f.Why)
		}
		if mo.Op.Kind == OpCreate {
			for i, k := range mo.Op.Keys {
				lastID[k] = res.IDs[i]
			}
		}
	}
	if f := im.InFlight(); f != nil {
		var mo markerOp
		if err := json.Unmarshal([]byte(f.Op), &mo); err != nil {
			return cx, fmt.Errorf("marker payload %q: %v", f.Op, err)
		}
		cx.Infl, cx.InflI = mo.Op.Kind, mo.I
		if mo.I >= 0 {
			cx.InFl = &InFlightOp{Op: mo.Op}
			if mo.Op.Kind == OpDelete {
				if cx.InFl.Target = lastID[mo.Op.Keys[0]]; cx.InFl.Target == 0 {
					cx.InFl.Target = unknownID(d, mo.Op.Keys[0])
				}
			}
		}
	}
	return cx, nil
}

// keep reports whether the cut of an image lies inside or after op h.From.
func (h CrashHistory) keep(cx crashCtx) bool {
	pos := cx.NAcked - 1 // the op the cut belongs to: the one in flight, else the last acknowledged one (-1: the initial Open)
	if cx.Infl != "none" {
		pos = cx.InflI
	}
	return pos >= h.From && (h.Upto == 0 || pos < h.Upto)
}

// ---------------------------------------------------------------- recovery checker (fresh subprocess, batch of images)

// CrashObs is the verdict of the recovery checker on one image under one acknowledgement context.
type CrashObs struct {
	ID       string   `json:"id"`
	Done     bool     `json:"done"`
	Stage    string   `json:"stage,omitempty"`  // where CheckRecovery failed
	Clause   string   `json:"clause,omitempty"` // violated clause ("" = the image recovers as the oracle demands)
	Why      string   `json:"why,omitempty"`
	Panic    string   `json:"panic,omitempty"`
	Died     string   `json:"died,omitempty"` // set by the parent: the recovery subprocess died or hung on this image, also when run alone
	Settle   string   `json:"settle,omitempty"`
	Phantoms []string `json:"phantoms,omitempty"`
	State    string   `json:"state,omitempty"`
}

type crashRecItem struct {
	ID     string      `json:"id"`
	Dir    string      `json:"dir"`
	Cfg    Cfg         `json:"cfg"`
	M      *Model      `json:"model"`
	InFl   *InFlightOp `json:"in_flight,omitempty"`
	Second bool        `json:"second_restart"`
}

type crashRecJob struct {
	Items []crashRecItem `json:"items"`
	Out   string         `json:"out"`
}

func crashRecoverOne(it crashRecItem) (o CrashObs) {
	o.ID = it.ID
	d := getDomain(it.Cfg.Domain)
	var info RecoveryInfo
	panicked, desc := vlib.Guard(func() {
		_, stage, f := CheckRecoveryInfo(it.Dir, it.Cfg, Expect{M: it.M, InFlight: it.InFl}, tailKeys(d), it.Second, &info)
		if f != nil {
			o.Stage, o.Clause, o.Why = stage, f.Clause, f.Why
		}
		o.Done = true
	})
	if panicked {
		o.Panic = desc
	}
	o.Settle, o.Phantoms, o.State = info.Settle, info.Phantoms, info.State
	o.Why = strings.ReplaceAll(o.Why, it.Dir, "<image>")
	o.Panic = strings.ReplaceAll(o.Panic, it.Dir, "<image>")
	return
}

func crashRecoverMain(jobPath string) int {
	b, err := os.ReadFile(jobPath)
	if err != nil {
		fmt.Fprintln(os.Stderr, "c13 recover:", err)
		return 2
	}
	var job crashRecJob
	if err := json.Unmarshal(b, &job); err != nil {
		fmt.Fprintln(os.Stderr, "c13 recover:", err)
		return 2
	}
	out, err := os.OpenFile(job.Out, os.O_CREATE|os.O_WRONLY|os.O_APPEND, 0o666)
	if err != nil {
		fmt.Fprintln(os.Stderr, "c13 recover:", err)
		return 2
	}
	debug.SetMaxStack(32 << 20)
	for _, it := range job.Items {
		fmt.Fprintf(os.Stderr, "c13 recover: image %s\n", it.ID)
		o := crashRecoverOne(it)
		line, _ := json.Marshal(o)
		out.Write(append(line, '\n'))
	}
	out.Close()
	return 0
}

// classify turns an observation into (clause, stage, detail); clause "" = ok, "harness" = not a verdict.
func classify(o *CrashObs) (clause, stage, detail string) {
	switch {
	case o.Died != "":
		return "recovery-died", "open", "the recovery process did not survive the crash image: " + o.Died
	case o.Panic != "":
		fr := o.Panic[strings.LastIndex(o.Panic, "@ ")+2:]
		return "panic/" + strings.TrimPrefix(fr, "github.com/influxdata/influxdb/v2/"), "recovery", "panic during recovery: " + o.Panic
	case !o.Done:
		return "harness", "", "no verdict"
	case o.Clause == "":
		return "", "", ""
	}
	return o.Clause, o.Stage, o.Why
}

// ---------------------------------------------------------------- recording, image enumeration, driver

// sync classes: the segment files (also under their .initializing name) and the index files (index, index.compacting)
var crashImgOpts = crashfs.Options{SyncClasses: []string{"[0-9a-f][0-9a-f][0-9a-f][0-9a-f]", "[0-9a-f][0-9a-f][0-9a-f][0-9a-f].initializing", "index", "index.compacting"}, Torn: true, Unsynced: true}

func selfEnv(extra ...string) []string {
	var env []string
	for _, e := range os.Environ() {
		if strings.HasPrefix(e, "VERIF_WORKER") || strings.HasPrefix(e, "VERIF_REPLAY=") || strings.HasPrefix(e, "VERIF_CRASH_WRITER=") || strings.HasPrefix(e, "VERIF_C13_") || strings.HasPrefix(e, "GOMAXPROCS=") {
			continue
		}
		env = append(env, e)
	}
	return append(env, extra...)
}

func recordCrashHistory(scratch string, h CrashHistory) (*crashfs.Log, error) {
	dir, err := os.MkdirTemp(scratch, "rec-")
	if err != nil {
		return nil, err
	}
	defer os.RemoveAll(dir)
	sp := crashWriterSpec{Dir: filepath.Join(dir, "_series"), Markers: filepath.Join(dir, "markers"), Cfg: h.Cfg, Ops: h.Ops}
	js, _ := json.Marshal(sp)
	return crashfs.Record(crashfs.RecordSpec{
		Argv:       []string{os.Args[0], "-test.run", "^TestCheck$", "-test.timeout", "0"},
		Env:        selfEnv("VERIF_CRASH_WRITER="+string(js), "GOMAXPROCS=1"),
		DataDir:    sp.Dir,
		MarkerFile: sp.Markers,
	})
}

// contentKey identifies the directory content of an image (paths, sizes, bytes, hard-link structure).
func contentKey(im *crashfs.Image) string {
	h := sha256.New()
	first := map[int]int{}
	for i, f := range im.Files {
		fmt.Fprintf(h, "%s|%v|", f.Path, f.Dir)
		if f.Dir {
			continue
		}
		if j, ok := first[f.Ino]; ok {
			fmt.Fprintf(h, "link%d|", j)
			continue
		}
		first[f.Ino] = i
		d := f.Data
		if int64(len(d)) > f.Size {
			d = d[:f.Size]
		}
		for len(d) > 0 && d[len(d)-1] == 0 {
			d = d[:len(d)-1]
		}
		fmt.Fprintf(h, "%d|%d|", f.Size, len(d))
		h.Write(d)
	}
	return hex.EncodeToString(h.Sum(nil)[:12])
}

func ctxKey(cx crashCtx) string { return fmt.Sprintf("%d/%s/%d", cx.NAcked, cx.Infl, cx.InflI) }

// findImage locates the image of a recorded case in a (possibly different) recording of the same history: by its
// descriptor if that still names the same content and context, else by searching all images of the log (the series
// file writes its partitions from concurrent goroutines, so the event order of two recordings may differ).
func findImage(l *crashfs.Log, cs *CrashCase) (*crashfs.Image, crashCtx, bool) {
	d := getDomain(cs.History.Cfg.Domain)
	if im, err := l.Build(cs.Desc, crashImgOpts); err == nil {
		if cx, err := contextOf(d, im); err == nil && contentKey(im) == cs.Content && ctxKey(cx) == cs.Ctx {
			return im, cx, true
		}
	}
	if cs.History.Manual {
		for _, ds := range manualDescriptors(l, cs.History.From, cs.History.Upto) {
			im, err := l.Build(ds, crashImgOpts)
			if err != nil || contentKey(im) != cs.Content {
				continue
			}
			if cx, err := contextOf(d, im); err == nil && ctxKey(cx) == cs.Ctx {
				return im, cx, true
			}
		}
		return nil, crashCtx{}, false
	}
	for im := range l.Images(crashImgOpts, nil) {
		if contentKey(im) != cs.Content {
			continue
		}
		if cx, err := contextOf(d, im); err == nil && ctxKey(cx) == cs.Ctx {
			return im, cx, true
		}
	}
	return nil, crashCtx{}, false
}

var (
	crashLogMu    sync.Mutex
	crashLogCache = map[string]*crashfs.Log{} // recordings made by this process (the confirmation replays reuse them)
)

func crashHistoryKey(h CrashHistory) string {
	b, _ := json.Marshal(struct {
		Cfg Cfg
		Ops []Op
	}{h.Cfg, h.Ops})
	return string(b)
}

func cacheCrashLog(h CrashHistory, l *crashfs.Log) {
	if h.Cfg.Domain == DomBig || h.Cfg.Domain == DomTight {
		return // 4 MiB of payload: not kept
	}
	crashLogMu.Lock()
	crashLogCache[crashHistoryKey(h)] = l
	crashLogMu.Unlock()
}

// findCrashImage returns the image of the case from a cached or fresh recording of its history.
func findCrashImage(scratch string, cs *CrashCase) (*crashfs.Image, crashCtx, string) {
	h := cs.History
	crashLogMu.Lock()
	l := crashLogCache[crashHistoryKey(h)]
	crashLogMu.Unlock()
	if l != nil {
		if im, cx, ok := findImage(l, cs); ok {
			return im, cx, ""
		}
	}
	for try := 0; try < 6; try++ {
		l, err := recordCrashHistory(scratch, h)
		if err != nil {
			return nil, crashCtx{}, "recording failed: " + err.Error()
		}
		if im, cx, ok := findImage(l, cs); ok {
			cacheCrashLog(h, l)
			return im, cx, ""
		}
	}
	return nil, crashCtx{}, "could not re-record a log that contains the image of this case (the history is not deterministic enough)"
}

// isolatedTimeout bounds the recovery of ONE image in its own subprocess (normally milliseconds plus process start).
const isolatedTimeout = 60 * time.Second

type crashItem struct {
	im *crashfs.Image
	cx crashCtx
}

// runCrashRecovery materializes the items into dir/<i> and runs ONE recovery subprocess over them. Items missing
// from the result were not reached (the subprocess died or hung at the first missing one).
func runCrashRecovery(dir string, cfg Cfg, second bool, items []crashItem, timeout time.Duration) (map[string]*CrashObs, string, error) {
	job := crashRecJob{Out: filepath.Join(dir, "out.jsonl")}
	for i, it := range items {
		d := filepath.Join(dir, strconv.Itoa(i), "_series")
		if err := os.MkdirAll(filepath.Dir(d), 0o777); err != nil {
			return nil, "", err
		}
		if err := it.im.Materialize(d); err != nil {
			return nil, "", fmt.Errorf("materialize %v: %w", it.im.Desc, err)
		}
		job.Items = append(job.Items, crashRecItem{ID: strconv.Itoa(i), Dir: d, Cfg: cfg, M: it.cx.M, InFl: it.cx.InFl, Second: second})
	}
	jb, _ := json.Marshal(job)
	jp := filepath.Join(dir, "job.json")
	if err := os.WriteFile(jp, jb, 0o666); err != nil {
		return nil, "", err
	}
	cmd := exec.Command(os.Args[0], "-test.run", "^TestCheck$", "-test.timeout", "0")
	cmd.Env = selfEnv("VERIF_C13_RECOVER="+jp, "GOMAXPROCS=2")
	var stderr strings.Builder
	cmd.Stdout = &stderr
	cmd.Stderr = &stderr
	if err := cmd.Start(); err != nil {
		return nil, "", err
	}
	done := make(chan error, 1)
	go func() { done <- cmd.Wait() }()
	timedOut := false
	select {
	case <-done:
	case <-time.After(timeout):
		timedOut = true
		cmd.Process.Kill()
		<-done
	}
	res := map[string]*CrashObs{}
	if f, err := os.Open(job.Out); err == nil {
		sc := bufio.NewScanner(f)
		sc.Buffer(make([]byte, 1<<20), 64<<20)
		for sc.Scan() {
			var o CrashObs
			if json.Unmarshal(sc.Bytes(), &o) == nil && o.ID != "" {
				oo := o
				res[o.ID] = &oo
			}
		}
		f.Close()
	}
	t := stderr.String()
	if timedOut {
		t = "TIMEOUT (recovery hangs)\n" + t
	}
	return res, t, nil
}

var repoFrameRe = regexp.MustCompile(`(?m)^(github\.com/influxdata/influxdb/v2/[^\n]*)\([^()\n]*\)\s*$`)

// deathClass turns the output of a recovery subprocess that died or hung into a short deterministic description.
func deathClass(out string) string {
	what := "died"
	switch {
	case strings.HasPrefix(out, "TIMEOUT"):
		return "hang (no result within the time limit)"
	case strings.Contains(out, "stack overflow") || strings.Contains(out, "goroutine stack exceeds"):
		what = "fatal error: stack overflow"
	case strings.Contains(out, "fatal error:"):
		i := strings.Index(out, "fatal error:")
		what = strings.SplitN(out[i:], "\n", 2)[0]
	case strings.Contains(out, "unexpected fault address") || strings.Contains(out, "SIGBUS"):
		what = "SIGBUS (read of a mapping beyond the end of the file)"
	case strings.Contains(out, "panic:"):
		i := strings.Index(out, "panic:")
		what = strings.SplitN(out[i:], "\n", 2)[0]
	}
	if m := repoFrameRe.FindStringSubmatch(out); m != nil {
		what += " @ " + m[1]
	}
	return what
}

// recoverAll runs the recovery for all items in subprocess batches, isolating an item that kills its subprocess.
// expired (may be nil) is polled between batches; items not reached stay nil and capped is returned true.
func recoverAll(scratch string, cfg Cfg, second bool, items []crashItem, expired func() bool) (obs []*CrashObs, notes map[int]string, capped bool, err error) {
	obs = make([]*CrashObs, len(items))
	notes = map[int]string{}
	batch := 256
	if cfg.Domain == DomBig {
		batch = 16
	}
	for lo := 0; lo < len(items); {
		if expired != nil && expired() {
			return obs, notes, true, nil
		}
		hi := min(lo+batch, len(items))
		dir, err := os.MkdirTemp(scratch, "b-")
		if err != nil {
			return nil, nil, false, err
		}
		res, _, err := runCrashRecovery(dir, cfg, second, items[lo:hi], 120*time.Second+time.Duration(hi-lo)*time.Second)
		os.RemoveAll(dir)
		if err != nil {
			return nil, nil, false, err
		}
		next := hi
		for i := lo; i < hi; i++ {
			if o := res[strconv.Itoa(i-lo)]; o != nil {
				obs[i] = o
			} else if i < next {
				next = i
			}
		}
		if next == hi {
			lo = hi
			continue
		}
		// the subprocess died or hung at item `next`: run it alone, then go on behind it
		d2, _ := os.MkdirTemp(scratch, "iso-")
		r2, out2, err2 := runCrashRecovery(d2, cfg, second, items[next:next+1], isolatedTimeout)
		os.RemoveAll(d2)
		switch {
		case err2 != nil:
			notes[next] = "the isolated recovery could not be run: " + err2.Error()
		case r2["0"] != nil:
			obs[next] = r2["0"] // passed alone: the batch death was not caused by this image
		default:
			obs[next] = &CrashObs{ID: "0", Died: deathClass(out2)}
		}
		for i := next + 1; i < hi; i++ {
			obs[i] = nil
		}
		lo = next + 1
	}
	return obs, notes, false, nil
}

// CrashCase is the replayable form of one crash violation.
type CrashCase struct {
	History CrashHistory       `json:"history"`
	Desc    crashfs.Descriptor `json:"image"`
	Content string             `json:"image_content"` // contentKey of the image: a re-recording is searched for it
	Ctx     string             `json:"ack_context"`   // acknowledged ops / op in flight at the cut
	Second  bool               `json:"second_restart"`
	Cut     string             `json:"cut_description"`
}

// fileClass names the kind of file a path of the series file directory denotes.
func fileClass(p string) string {
	if i := strings.Index(p, "->"); i >= 0 {
		p = p[i+2:]
	}
	b := filepath.Base(p)
	switch {
	case p == "" || p == ".":
		return ""
	case b == "index" || b == "index.compacting":
		return b
	case strings.HasSuffix(b, ".initializing"):
		return "segment.initializing"
	case len(b) == 4:
		return "segment"
	case len(b) == 2:
		return "partition-dir"
	}
	return "other"
}

func cutClass(im *crashfs.Image) string {
	return strings.TrimSuffix(im.NextOp+":"+fileClass(im.NextPath), ":")
}

// crashSig: clause, stage of the recovery checker, kind of the op in flight, kind of file the cut lies in (for U
// images: the file whose unsynced data was dropped or torn, marked "unsynced:").
func crashSig(clause, stage string, im *crashfs.Image, cx crashCtx) string {
	at := fileClass(im.NextPath)
	if at == "" {
		at = "between-ops"
	}
	if im.Desc.Kind == crashfs.KindU {
		at = "unsynced:" + at
	}
	return vlib.JoinSig("crash", clause, stage, "inflight="+cx.Infl, "at="+at)
}

// manualTornLens: torn lengths of the manual enumeration: every length up to 4096 bytes, else the first and last 64
// and every 4096th.
func manualTornLens(n int) []int {
	var out []int
	if n <= 4096 {
		for i := 1; i < n; i++ {
			out = append(out, i)
		}
		return out
	}
	for i := 1; i <= 64; i++ {
		out = append(out, i)
	}
	for i := 4096; i < n-64; i += 4096 {
		out = append(out, i)
	}
	for i := n - 64; i < n; i++ {
		out = append(out, i)
	}
	return out
}

// manualDescriptors lists the descriptors of a Manual history.
func manualDescriptors(l *crashfs.Log, from, upto int) []crashfs.Descriptor {
	start, end := len(l.Events), len(l.Events)
	for i := range l.Events {
		if e := &l.Events[i]; e.Op == crashfs.OpMarker && e.Marker.Kind == "BEGIN" {
			if e.Marker.K == from+1 {
				start = i + 1
			}
			if upto != 0 && e.Marker.K == upto+1 {
				end = i
			}
		}
	}
	var ds []crashfs.Descriptor
	for c := start; c <= end; c++ {
		ds = append(ds, crashfs.Descriptor{Kind: crashfs.KindP, Cut: c, TornLen: -1})
		if c < len(l.Events) && l.Events[c].Op == crashfs.OpWrite {
			for _, tl := range manualTornLens(len(l.Events[c].Data)) {
				ds = append(ds, crashfs.Descriptor{Kind: crashfs.KindT, Cut: c, TornEvent: c, TornLen: tl})
			}
		}
		ds = append(ds, crashfs.Descriptor{Kind: crashfs.KindU, Cut: c, TornLen: -1, Drop: "all"}) // Build fails where nothing is dirty
	}
	return ds
}

// crashHistoryRun records one history, enumerates, recovers and judges its images.
func crashHistoryRun(c *vlib.Ctx, scratch string, h CrashHistory) (stop bool) {
	d := getDomain(h.Cfg.Domain)
	t0 := time.Now()
	l, err := recordCrashHistory(scratch, h)
	tRec := time.Since(t0)
	defer func() {
		c.Logf("crash item %s: record %.1fs, total %.1fs", h, tRec.Seconds(), time.Since(t0).Seconds())
	}()
	if err != nil {
		if errors.Is(err, crashfs.ErrNoTrace) {
			c.Cap("crash family: strace cannot trace in this environment, no crash image was produced (" + err.Error() + ")")
			return true
		}
		c.HarnessError(fmt.Sprintf("crash family: recording history %s: %v", h, err))
		return false
	}
	cacheCrashLog(h, l)
	c.Extra("crash_histories", 1)
	c.Extra("crash_events", int64(len(l.Events)))
	c.Extra("crash_syscalls_in_logs", int64(l.Syscalls))
	second := true
	seen := map[string]bool{}
	add := func(items []crashItem, im *crashfs.Image) ([]crashItem, bool) {
		cx, err := contextOf(d, im)
		if err != nil {
			c.HarnessError(fmt.Sprintf("crash family: history %s image %v: %v", h, im.Desc, err))
			return items, false
		}
		if !h.keep(cx) {
			return items, true
		}
		key := fmt.Sprintf("%s/%d/%d", im.Hash, cx.NAcked, cx.InflI)
		if cx.Infl == "none" {
			key += "/none"
		}
		if seen[key] {
			return items, true
		}
		seen[key] = true
		return append(items, crashItem{im, cx}), true
	}
	states := map[string]struct{}{}
	sampled := false
	judge := func(items []crashItem, obs []*CrashObs, notes map[int]string) {
		for i, it := range items {
			o := obs[i]
			if o == nil {
				if n, ok := notes[i]; ok {
					c.HarnessError(fmt.Sprintf("crash family: history %s image %v: %s", h, it.im.Desc, n))
				}
				continue
			}
			im, cx := it.im, it.cx
			clause, stage, detail := classify(o)
			if clause == "harness" || o.Clause == "harness" {
				c.HarnessError(fmt.Sprintf("crash family: history %s image %v: %s %s", h, im.Desc, detail, o.Why))
				continue
			}
			c.Eval(1)
			c.Extra("crash_images", 1)
			c.Extra("crash_recoveries", 1)
			c.Extra("crash_images_"+im.Desc.Kind, 1)
			c.Extra("crash_cuts_at:"+cutClass(im), 1)
			if o.State != "" {
				states[o.State] = struct{}{}
			}
			if len(o.Phantoms) > 0 {
				c.Extra("crash_images_with_unacknowledged_foreign_entries", 1)
			}
			if len(cx.M.Used) > 0 {
				c.Nontrivial("crash|" + crashHistoryKey(h) + "|" + im.Desc.String())
			}
			res := "ok"
			if clause != "" {
				res = "FAIL:" + clause + "@" + stage
			}
			ph := ""
			if len(o.Phantoms) > 0 {
				ph = "/foreign-entries"
			}
			c.Outcome(fmt.Sprintf("crash:%s/inflight=%s/%s%s:%s", im.Desc.Kind, cx.Infl, o.Settle, ph, res))
			cutDesc := fmt.Sprintf("%v: %s %s", im.Desc, im.NextOp, im.NextPath)
			if clause != "" {
				c.Violation(crashSig(clause, stage, im, cx),
					fmt.Sprintf("crash history %s, image %s; acknowledged: live=%v deleted=%v, in flight: %s — recovery checker stage %s: %s", h, cutDesc, cx.M.Live, cx.M.Dead, inflStr(cx), stage, detail),
					Case{Crash: &CrashCase{History: h, Desc: im.Desc, Content: contentKey(im), Ctx: ctxKey(cx), Second: second, Cut: cutDesc}})
			} else if !sampled && h.From <= 0 && c.WantSample() && im.Desc.Kind == crashfs.KindT && cx.Infl == OpCreate && len(cx.M.Live) > 0 {
				sampled = true
				c.Sample(map[string]any{"family": "crash", "history": h.String(), "image": im.Desc.String(), "at": im.NextOp + " " + im.NextPath,
					"acknowledged_live": fmt.Sprint(cx.M.Live), "in_flight": inflStr(cx), "in_flight_op_after_recovery": o.Settle, "recovered_state_after_recreating_all_keys": o.State})
			}
		}
	}
	run := func(items []crashItem) bool {
		t1 := time.Now()
		defer func() {
			c.Logf("crash item %s: %d images recovered in %.1fs (enumeration done at %.1fs)", h, len(items), time.Since(t1).Seconds(), t1.Sub(t0).Seconds())
		}()
		obs, notes, capped, err := recoverAll(scratch, h.Cfg, second, items, func() bool { return crashExpired(c) })
		if err != nil {
			c.HarnessError("crash family: recovery batch: " + err.Error())
			return false
		}
		judge(items, obs, notes)
		if capped {
			c.Cap("the crash family's share of the budget expired (recovery of history " + h.Name + ")")
			return false
		}
		return true
	}
	if h.Manual {
		var items []crashItem
		gen := map[string]int{}
		for _, ds := range manualDescriptors(l, h.From, h.Upto) {
			im, err := l.Build(ds, crashImgOpts)
			if err != nil {
				if ds.Kind == crashfs.KindU {
					continue // nothing dirty at this cut
				}
				c.HarnessError(fmt.Sprintf("crash family: history %s: %v", h, err))
				return false
			}
			gen[ds.Kind]++
			var ok bool
			if items, ok = add(items, im); !ok {
				return false
			}
			if len(items) >= 16 {
				if !run(items) {
					return false
				}
				items = nil
			}
		}
		for k, n := range gen {
			c.Extra("crash_images_generated_"+k, int64(n))
		}
		if len(items) > 0 && !run(items) {
			return false
		}
	} else {
		var items []crashItem
		var st crashfs.Stats
		for im := range l.Images(crashImgOpts, &st) {
			var ok bool
			if items, ok = add(items, im); !ok {
				return false
			}
		}
		for _, k := range []string{"P", "T", "U"} {
			c.Extra("crash_images_generated_"+k, int64(st.Generated[k])) // by the engine, before deduplication and the From filter
		}
		c.Extra("crash_writes_with_subsampled_torn_lengths", int64(st.LongTorn))
		if !run(items) {
			return false
		}
	}
	c.Extra("crash_distinct_recovered_states", int64(len(states)))
	return false
}

func inflStr(cx crashCtx) string {
	if cx.InFl == nil {
		return cx.Infl
	}
	s := cx.InFl.Op.String()
	if cx.InFl.Op.Kind == OpDelete {
		s += fmt.Sprintf(" id=%d", cx.InFl.Target)
	}
	return s
}

// The crash family may use at most half of the tier's wall budget, so that on an overloaded machine the sequence
// families still run (a cap is recorded, never an alarm).
var crashDeadline time.Time

func crashShare(c *vlib.Ctx) time.Duration {
	if s := os.Getenv("C13_CRASH_SHARE_S"); s != "" { // development aid (mutation runs on an overloaded machine)
		if v, err := strconv.Atoi(s); err == nil {
			return time.Duration(v) * time.Second
		}
	}
	if c.Thorough() {
		return 390 * time.Second
	}
	return 30 * time.Second
}

func crashExpired(c *vlib.Ctx) bool { return c.Expired() || time.Now().After(crashDeadline) }

// runCrash is the crash phase of Run: this worker's share of the histories.
func runCrash(c *vlib.Ctx) {
	defer func() {
		if r := recover(); r != nil { // a bug of the machinery must never look like a finding or kill the report
			c.HarnessError(fmt.Sprintf("crash family: explorer panicked: %v\n%s", r, debug.Stack()))
		}
	}()
	if os.Getenv("C13_ONLY") == "seq" || os.Getenv("C13_ONLY") == "sched" {
		return
	}
	scratch := vlib.Scratch("c13c-")
	defer os.RemoveAll(scratch)
	crashDeadline = time.Now().Add(crashShare(c))
	only := os.Getenv("C13_CRASH_ONLY") // development aid: only the histories whose name contains this
	for hi, h := range crashHistories(c.Tier) {
		if !c.Mine(int64(hi)) || !strings.Contains(h.Name, only) {
			continue
		}
		if crashExpired(c) {
			c.Cap("the crash family's share of the budget expired (before history " + h.Name + ")")
			break
		}
		if crashHistoryRun(c, scratch, h) {
			return
		}
	}
}

func replayCrash(cs *CrashCase) (bool, string) {
	scratch := vlib.Scratch("c13cr-")
	defer os.RemoveAll(scratch)
	h := cs.History
	im, cx, msg := findCrashImage(scratch, cs)
	if im == nil {
		return false, msg
	}
	dir, _ := os.MkdirTemp(scratch, "img-")
	res, out, err := runCrashRecovery(dir, h.Cfg, cs.Second, []crashItem{{im, cx}}, isolatedTimeout)
	if err != nil {
		return false, "recovery could not be run: " + err.Error()
	}
	obs := fmt.Sprintf("crash history %s image %s (content %s; acknowledged: live=%v deleted=%v, in flight: %s): ", h, cs.Cut, cs.Content, cx.M.Live, cx.M.Dead, inflStr(cx))
	o := res["0"]
	if o == nil {
		o = &CrashObs{ID: "0", Died: deathClass(out)}
	}
	clause, stage, detail := classify(o)
	if clause == "" {
		return false, obs + "recovers as the oracle demands; in-flight op: " + o.Settle + "; state after re-creating all keys: " + o.State
	}
	return clause != "harness" && o.Clause != "harness", obs + clause + "@" + stage + ": " + detail
}

// =========================================================================================================
// schedule part (engine: vsched) — one writer thread against the partition's own index compaction
//
// With CompactThreshold = 1 a creating call starts the partition's background index compaction (go Compact:
// snapshot under RLock, index rebuilt without a lock, swap + replay of the entries since the snapshot under Lock)
// and returns; the writer's NEXT calls run while that goroutine is somewhere between snapshot and swap. The
// scheduler (tsdb/series_partition.go compiled against the modelled sync) decides how far each side gets at
// every Lock/RLock of the partition.

// SchedCase is the replayable form of one schedule.
type SchedCase struct {
	Init     []Op  `json:"init,omitempty"` // executed unscheduled, compactions awaited
	Ops      []Op  `json:"ops"`            // the writer thread's program
	Schedule []int `json:"schedule"`
	// Points: which operations are decision points: "wlocks" = every write Lock of tsdb/series_partition.go plus the
	// compactor's snapshot RLock plus the writer's op boundaries; "locks" = every Lock and RLock (the series file fans
	// every call out to a goroutine per partition, each taking the RLock of its partition: 8 more points per call).
	Points string `json:"points"`
	Want   string `json:"want,omitempty"`
}

var cfgSched = Cfg{Domain: DomSmall, Auto: true}

func schedFilter(points string) func(kind vrt.OpKind, label string) bool {
	return func(kind vrt.OpKind, label string) bool {
		switch {
		case kind == vrt.OpLock || kind == vrt.OpHook:
			return true
		case kind == vrt.OpRLock:
			return points == "locks" || strings.Contains(label, "SeriesPartitionCompactor")
		}
		return false
	}
}

// schedExec performs one create/delete on the open series file WITHOUT waiting for the compaction it may start.
func schedExec(sf *tsdb.SeriesFile, d *Domain, op Op, lastID map[int]uint64) (res OpResult) {
	switch op.Kind {
	case OpCreate:
		names := make([][]byte, len(op.Keys))
		tags := make([]models.Tags, len(op.Keys))
		for i, k := range op.Keys {
			names[i], tags[i] = []byte(d.Keys[k].Name), d.Keys[k].mtags()
		}
		ids, e := sf.CreateSeriesListIfNotExists(names, tags)
		if e != nil {
			res.Err = e.Error()
			return
		}
		res.IDs = append([]uint64(nil), ids...)
		for i, k := range op.Keys {
			lastID[k] = ids[i]
		}
	case OpDelete:
		id := lastID[op.Keys[0]]
		if id == 0 {
			id = unknownID(d, op.Keys[0])
		}
		res.Target = id
		if _, e := sf.DeleteSeriesID(id, true); e != nil {
			res.Err = e.Error()
		}
	default:
		panic("schedule part: op " + op.Kind)
	}
	return
}

type schedOut struct {
	Harness string
	Fail    *Fail
	Stage   string // op-result | quiescent | re-create
	Model   *Model
	Layout  string
}

func schedHarness(base string, sc SchedCase, out *schedOut) *vrt.Harness {
	return &vrt.Harness{Name: "c13:" + opsString(sc.Init) + " | " + opsString(sc.Ops), Filter: schedFilter(sc.Points), Body: func(x *vrt.Exec) {
		*out = schedOut{}
		d := getDomain(cfgSched.Domain)
		dir, err := os.MkdirTemp(base, "s")
		if err != nil {
			out.Harness = err.Error()
			return
		}
		defer os.RemoveAll(dir)
		m := NewModel()
		out.Model = m
		sf, err := openSF(filepath.Join(dir, "_series"), cfgSched)
		if err != nil {
			out.Harness = "open: " + err.Error()
			return
		}
		defer sf.Close() // waits for the partitions' goroutines
		lastID := map[int]uint64{}
		for _, op := range sc.Init {
			res := schedExec(sf, d, op, lastID)
			waitIdle(sf)
			if f := m.Apply(d, op, res); f != nil {
				out.Harness = "init " + op.String() + ": " + f.Why
				return
			}
		}
		synctest.Wait()
		results := make([]OpResult, 0, len(sc.Ops))
		x.Go("writer", func() {
			for _, op := range sc.Ops {
				vrt.Hook("op:" + op.Kind)
				results = append(results, schedExec(sf, d, op, lastID))
			}
		})
		x.Run()
		if x.S.Deadlock || x.S.StepCap {
			x.S.Abort()
			return
		}
		x.S.Drain()
		waitIdle(sf)
		for i, res := range results {
			if f := m.Apply(d, sc.Ops[i], res); f != nil {
				out.Fail, out.Stage = f, "op-result"
				return
			}
		}
		o := ReadAll(sf, d, usedIDs(m))
		out.Layout = o.Layout
		if _, f := Compare(d, o, Expect{M: m}); f != nil {
			out.Fail, out.Stage = f, "quiescent"
			return
		}
		// every key once more: live keys keep their id, the others get ids never handed out
		all := Op{Kind: OpCreate, Keys: tailKeys(d)}
		res := schedExec(sf, d, all, lastID)
		waitIdle(sf)
		if f := m.Apply(d, all, res); f != nil {
			out.Fail, out.Stage = f, "re-create"
			return
		}
		if f := compareOpen(sf, d, m); f != nil {
			out.Fail, out.Stage = f, "re-create"
		}
	}}
}

// SchedAlphabet: the writer's ops on the two keys sharing a partition.
func SchedAlphabet() []Op {
	return []Op{mkOp(OpCreate, 0), mkOp(OpCreate, 1), mkOp(OpCreate, 0, 1), mkOp(OpDelete, 0), mkOp(OpDelete, 1)}
}

// SchedInits: what the series file holds (index compacted) when the writer starts.
func SchedInits() [][]Op {
	return [][]Op{nil, {mkOp(OpCreate, 0)}, {mkOp(OpCreate, 0, 1)}}
}

func schedScenarios(progLen int, points string) []SchedCase {
	var out []SchedCase
	for _, in := range SchedInits() {
		forEachSeq(SchedAlphabet(), progLen, progLen, func(ops []Op) bool {
			out = append(out, SchedCase{Init: in, Ops: ops, Points: points})
			return true
		})
	}
	return out
}

func schedSig(o *schedOut) string {
	clause := o.Fail.Clause
	if clause == "panic" {
		clause = "panic/" + strings.TrimPrefix(o.Fail.Why[strings.LastIndex(o.Fail.Why, "@ ")+2:], "github.com/influxdata/influxdb/v2/")
	}
	return vlib.JoinSig("schedule", clause, o.Stage, "writer-vs-index-compaction")
}

// runSched explores every schedule of one scenario with <= bound preemptions.
func runSched(t *testing.T, c *vlib.Ctx, base string, sc SchedCase, bound int) (complete bool) {
	var out schedOut
	h := schedHarness(base, sc, &out)
	st := vrt.Explore(t, h, bound, 0, 1, c.Expired, func(r *vrt.Result) {
		c.Eval(1)
		if r.Preempts > 0 {
			c.NontrivialN(1)
		}
		if r.Diverged != "" {
			c.HarnessError("sched " + h.Name + ": " + r.Diverged)
			return
		}
		cs := sc
		cs.Schedule = r.Choices
		if r.Deadlock || r.StepCap {
			what := "deadlock"
			if r.StepCap {
				what = "livelock(step cap)"
			}
			c.Outcome("sched:" + what)
			cs.Want = vlib.JoinSig("schedule", what)
			c.Violation(cs.Want, fmt.Sprintf("schedule part: init [%s], writer [%s]: %s: %s", opsString(sc.Init), opsString(sc.Ops), what, strings.Join(r.Blocked, "; ")), Case{Sched: &cs})
			return
		}
		if out.Harness != "" {
			c.HarnessError(fmt.Sprintf("sched init [%s] writer [%s] schedule %v: %s", opsString(sc.Init), opsString(sc.Ops), r.Choices, out.Harness))
			return
		}
		if out.Fail == nil {
			c.Outcome(fmt.Sprintf("sched:end:%d-live/%d-ids-used/%d-preemptions/%s", len(out.Model.Live), len(out.Model.Used), r.Preempts, layoutClass(out.Layout)))
			if c.WantSample() && r.Preempts == bound && len(out.Model.Used) > 1 {
				c.Sample(map[string]any{"part": "schedules", "init": opsString(sc.Init), "writer": opsString(sc.Ops), "schedule": r.Choices, "preemptions": r.Preempts, "live": fmt.Sprint(out.Model.Live)})
			}
			return
		}
		cs.Want = schedSig(&out)
		c.Outcome("FAIL:sched:" + out.Fail.Clause + "@" + out.Stage)
		var trace []string
		for _, s := range r.Steps {
			trace = append(trace, fmt.Sprintf("T%d %s", s.Thread, s.Label))
		}
		c.Violation(cs.Want, fmt.Sprintf("schedule part: init [%s], writer [%s], %d preemptions, stage %s: %s | steps: %s", opsString(sc.Init), opsString(sc.Ops), r.Preempts, out.Stage, out.Fail.Why, strings.Join(trace, "; ")), Case{Sched: &cs})
	})
	c.StateN(st.Nodes)
	c.Transition(st.Transitions)
	c.Trace(st.Executions)
	c.Extra("schedule_executions", st.Executions)
	return st.Complete
}

// layoutClass: did the compaction finish before the final read (on-disk index present in the pair's partition)?
func layoutClass(lay string) string {
	if strings.Contains(lay, "idxtrue") {
		return "index-on-disk"
	}
	return "index-in-memory"
}

// runSchedules: phases of (writer program length, preemption bound), simplest first. late = false: the phases run
// before the sequence families; late = true: the phase with every Lock/RLock as a decision point (thorough only),
// which runs last with whatever budget is left.
func runSchedules(t *testing.T, c *vlib.Ctx, late bool) {
	if os.Getenv("C13_ONLY") == "crash" || os.Getenv("C13_ONLY") == "seq" {
		return
	}
	base := vlib.Scratch("c13s-")
	defer os.RemoveAll(base)
	type phase struct {
		progLen, bound int
		points         string
	}
	phases := []phase{{2, 2, "wlocks"}}
	if c.Thorough() {
		phases = []phase{{1, 2, "wlocks"}, {2, 3, "wlocks"}, {3, 2, "wlocks"}}
	}
	if late {
		phases = nil
		if c.Thorough() {
			phases = []phase{{2, 1, "locks"}}
		}
	}
	for pi, ph := range phases {
		scs := schedScenarios(ph.progLen, ph.points)
		for si, sc := range scs {
			if !c.Mine(int64(si)) {
				continue
			}
			if c.Expired() || !runSched(t, c, base, sc, ph.bound) {
				c.Cap(fmt.Sprintf("budget expired in the schedule part, phase %d of %d (writer programs of length %d, preemption bound %d, points %s)", pi+1, len(phases), ph.progLen, ph.bound, ph.points))
				return
			}
		}
		if c.Shard == 0 {
			c.Extra(fmt.Sprintf("sched_scenarios_len%d_bound%d_%s", ph.progLen, ph.bound, ph.points), int64(len(scs)))
		}
	}
}

func replaySched(t *testing.T, cs *SchedCase) (bool, string) {
	base := vlib.Scratch("c13sr-")
	defer os.RemoveAll(base)
	var out schedOut
	r := vrt.RunOnce(t, schedHarness(base, *cs, &out), cs.Schedule)
	if os.Getenv("C13_TRACE") != "" { // development aid
		for i, st := range r.Steps {
			fmt.Fprintf(os.Stderr, "step %d: T%d %s enabled=%v\n", i, st.Thread, st.Label, st.Enabled)
		}
	}
	obs := fmt.Sprintf("schedule part: init=[%s] writer=[%s] schedule=%v", opsString(cs.Init), opsString(cs.Ops), cs.Schedule)
	switch {
	case r.Diverged != "":
		return false, obs + " -> diverged: " + r.Diverged
	case r.Deadlock || r.StepCap:
		return true, obs + fmt.Sprintf(" -> deadlock=%v stepcap=%v blocked=%v", r.Deadlock, r.StepCap, r.Blocked)
	case out.Harness != "":
		return false, obs + " -> harness problem: " + out.Harness
	case out.Fail == nil:
		return false, obs + fmt.Sprintf(" -> ok live=%v deleted=%v", out.Model.Live, out.Model.Dead)
	}
	return true, obs + fmt.Sprintf(" -> %s at stage %s: %s", out.Fail.Clause, out.Stage, out.Fail.Why)
}

func TestCheck(t *testing.T) {
	if js := os.Getenv("VERIF_CRASH_WRITER"); js != "" {
		os.Exit(crashWriterMain(js))
	}
	if jp := os.Getenv("VERIF_C13_RECOVER"); jp != "" {
		os.Exit(crashRecoverMain(jp))
	}
	if n := os.Getenv("VERIF_C13_DUMP"); n != "" { // development aid: print the event list of one crash history
		for _, h := range crashHistories("thorough") {
			if h.Name != n {
				continue
			}
			scratch := vlib.Scratch("c13d-")
			defer os.RemoveAll(scratch)
			l, err := recordCrashHistory(scratch, h)
			if err != nil {
				fmt.Println("record:", err)
				return
			}
			for _, e := range l.Events {
				if len(e.Data) > 48 {
					e.Data = e.Data[:48]
				}
				b, _ := json.Marshal(e)
				fmt.Println(string(b))
			}
		}
		return
	}
	vlib.Main(t, &vlib.Check{
		ID: "C13", Level: "model_checking", QuickBudgetS: 60, ThoroughBudgetS: 780, WorkerEnv: []string{"GOMAXPROCS=1"},
		Rule: "every op sequence within the stated length bounds, each executed from scratch on the real tsdb.SeriesFile (8 partitions) in a fresh directory, in eight families (visited simplest first: explicit up to length 2 / 3, then the segment-roll families up to length 2, then the rest in the order given here, thorough: segroll-a length 3 after roll-tight; a run that hits its wall budget says which family it stopped in). " +
			"(explicit: length <= 3 quick / <= 4 thorough) 13-op alphabet over 4 keys K0..K3 (K0,K1 in one partition, K2,K3 in two others): create{K0},{K1},{K2},{K3}, batch create {K0,K1}, {K1,K1} (duplicate inside one call), {K3,K0,K1,K2,K0}; DeleteSeriesID(id last returned for Ki) for i=0..3 (an id never handed out when Ki was never created; the same id again when already deleted); reopen (Close + new SeriesFile + Open); compact (SeriesPartitionCompactor.Compact on all 8 partitions: index rebuilt to index.compacting, renamed, in-memory tail replayed). " +
			"(auto: length <= 2 / <= 3) the same alphabet without the explicit compact but with CompactThreshold=1: every creating call starts the partition's own background index compaction, which is awaited. " +
			"(roll: length <= 2 / <= 4) all keys in one partition; fixed prefix = one call creating 64 keys of 65 KB that fill the fixed 4 MiB segment 0000 to within half an entry; then every sequence over {create big A, create big B (do not fit: roll to segment 0001), create short key (fits), delete A, delete short, delete first prefill key, reopen, compact}. " +
			"(roll-tight: length <= 1 / <= 2) the same 8 ops at the SHIPPED segment size after a prefix that fills segment 0000 up to 4 bytes before its end (64 keys of 65 KB + one pad key of about 32 KB in one call; the harness asserts 1 segment / 4 bytes free): not even a tombstone fits, so a delete is the entry that opens segment 0001. " +
			"(segroll-a, segroll-b: SEGMENT ROLL-OVER in the tiny-segment build) h/c13/shim.json turns the constant first-segment shift 22 of tsdb.SeriesSegmentSize into a package variable with the same initial value (asserted: 4 MiB / 8 MiB before the harness touches it); these families run with shift 7 (segment 0000 = 128 bytes, 0001 = 256, 0002 = 512), all keys in one partition, entries: tombstone 9 bytes, insert A 23, insert B 40. One family per number f of bytes left free in the newest segment, for EVERY f = 0..41 (so that for each entry of the alphabet both 'fits' and 'does not fit' and every combination occur): segroll-a/f: prefix create{F0,P0} leaves f bytes in 0000; segroll-b/f: prefix create{F0,P0} fills 0000 to the last byte and create{F1,P1} leaves f bytes in 0001 (the harness asserts the number of segments and the free bytes after the prefix through SeriesPartition.Segments). Then every sequence of length <= 2 (quick; segroll-b only f in {0,4,9,23,40}) / <= 3 (thorough; segroll-b <= 2, every f) over {create A, create B, create{A,B} in one call (rolls between its two entries when only A fits), delete A, delete F0, delete P0, reopen, compact}: roll-overs whose first entry in the new segment is an insert or a TOMBSTONE (then the newest segment holds no insert entry), followed by reopen and further creates; the closing phase always reopens and creates A and B again. Outcome classes record which kind of entry opened a new segment and whether a reopen (op or closing phase) found the newest segment without insert entry; non-trivial for these families = a roll-over caused by the ops. " +
			"(explicit-pair: length exactly 4 quick / 5 and 6 thorough) 6-op alphabet over the two keys sharing a partition {create K0, create K1, delete K0, delete K1, reopen, compact}; (auto-pair: length 3 / 4,5) the same without compact and with CompactThreshold=1. " +
			"After EVERY step: returned ids judged by the model (same key -> same id; two occurrences in one call -> same id; distinct keys -> distinct ids; new or re-created key -> id never handed out before, non-zero, and not below an id handed out before in the same residue class mod 8 = partition), then SeriesID/HasSeries of every key of the domain (live -> its id; deleted or never created -> 0), SeriesKey(id) of every live id parses back to its key, IsDeleted false for live and true for deleted ids, SeriesKey(id) of a deleted id is never the complete key of ANOTHER key of the domain. After the last step the recovery checker: Close, Open, read all, create all op keys again in one call (live keep ids, others get never-used ids), read all; thorough additionally Close, Open, read all. " +
			"State = canonical model state (per key never/live/deleted + number of incarnations) + file layout (per touched partition: on-disk index count, in-memory count, number of segments, index file present); transition = one executed op; trace = one complete history validated on the implementation. Non-trivial = histories that create at least one series (distinct by construction). " +
			"SCHEDULE PART (engine vsched; both tiers, after the crash family): series file with CompactThreshold=1, so a creating call starts the partition's background index compaction (go Compact: segment snapshot under RLock, index rebuilt without a lock, swap + replay of the entries since the snapshot under Lock) and returns; ONE writer thread then runs every program of length 2 (quick; thorough: 1, 2 and 3) over {create K0, create K1, create {K0,K1}, delete K0, delete K1} (K0, K1 in one partition) from 3 initial contents {empty, K0, K0+K1} (index compacted), nothing awaited between its calls; tsdb/series_partition.go is compiled against the modelled sync and EVERY schedule with <= 2 preemptions (thorough: 2 / 3 / 2) is executed at the decision points = every write Lock of the partition, the compactor's snapshot RLock and the writer's op boundaries (thorough additionally, after the sequence families with the budget they leave: programs of length 2 with <= 1 preemption at every Lock and RLock, i.e. also the 8 per-partition lookups of every call). When the writer has finished the scheduler is drained, compactions are awaited, the returned ids are judged by the model, SeriesID/HasSeries/SeriesKey/IsDeleted of every key and id are compared exactly, every key is created once more (live keep ids, others get never-used ids) and compared again (no reopen: a reopen re-reads the segments). Deadlock and step cap are violations. For this part states = decision nodes of the schedule trees, transitions = scheduling steps, traces = executions; non-trivial = executions with >= 1 preemption. " +
			"CRASH FAMILY (additional clause, engine crashfs; counted under the crash_* coverage keys and the crash:* outcomes, not under states/transitions/traces): histories performed by a writer subprocess (PerformHistory on the real SeriesFile, GOMAXPROCS=1) under strace with BEGIN/ACK markers around the initial Open of the empty directory and every op; the process exits without closing. Quick: 8 hand-picked histories, every cut (seg-roll-tombstone-free4 / seg-roll-insert-free12 / seg-roll-batch-free30, tiny-segment build, cuts from the first op after the prefix create{F0,P0} on: 4 bytes free, delete F0 = the tombstone opens 0001 (0001.initializing created, header written, truncated, fsynced, renamed, then the entry appended and fsynced), create A into 0001, reopen, delete P0, create B; 12 bytes free, create A opens 0001 — cuts with an EMPTY newest segment —, delete A, create B, delete F0; 30 bytes free, create{A,B} in one call: A appended to 0000, B opens 0001, then delete A, create A; open-create-batch: initial Open of 8 partitions, single create, create of a live + a new key of one partition, batch over 3 partitions with a repeat; delete-recreate: 8 ops with tombstones, re-creation, reopen, delete of a deleted id; id-byte-boundary: 32 series in partition 7 (ids 8..0x100) acknowledged in one call, then create (id 0x108), delete of it, create of two, delete of id 0x100, re-creation — cuts from op 1 on; compact: explicit index compaction of one partition twice (index.compacting written, fsynced, renamed over index) with live, deleted and later entries; auto-compact: CompactThreshold=1, background compaction inside the creating call), split into 13 work items by op window (each item re-records the history and evaluates the cuts of its ops only). Thorough: longer versions of these (one work item per op; the seg-roll histories for f in {0,4,8} tombstone, {0,9,12,22} insert, {23,30,39} batch), the whole 32-entry prefill write of id-byte-boundary, compaction of all 8 partitions, a segment-roll history (64 keys of 65 KB fill segment 0000; big key A rolls to 0001, short key, delete, big key B, delete of a prefill key; images built one by one from descriptors for the cuts from op 1 on: every P cut, torn lengths 1..64, every 4096th, last 64 of each write, and the drop-all U image of every cut), plus EVERY sequence of length 1..2 over the 8-op crash alphabet {create K0, K1, {K0,K1}, {K3,K0,K1,K2,K0}, delete K0, delete K1, reopen, compact(partition of K0)} and of length 3 over its 6-op same-partition part (cuts of the last op only, so every (prefix, cut) is evaluated once). Per history every prefix of the syscall-level event list (P), every torn length 1..n-1 of the write in flight (T; all writes of the non-roll histories are < 4096 bytes: no subsampling), and for the sync classes (segment files 0000.., also under their .initializing name; index and index.compacting) the images with un-fsynced data dropped or its last write torn (U); directory operations in program order; images deduplicated by (content, acknowledged ops, op in flight). One evaluation = one (image, acknowledgement context) recovered in a fresh subprocess by CheckRecovery: real SeriesFile.Open on the image; SeriesID/HasSeries of every key, SeriesKey/IsDeleted of every id ever acknowledged; re-creation of every key of the domain in one call; read all; Close; Open (second restart); read all. Crash oracle: Open succeeds; every series acknowledged before the cut keeps (key, id) (SeriesID(key) = id, SeriesKey(id) = key, not deleted), every acknowledged (flushed) delete stays deleted; keys of a create in flight are absent or live with a never-acknowledged id whose SeriesKey is the key; the target of a delete in flight is live with its id or deleted; keys created after the recovery get ids never acknowledged before, distinct, and all of this is unchanged after the second restart. Non-trivial crash case = at least one series acknowledged before the cut.",
		Assumptions: []string{
			"SeriesCount is not judged (the statement does not define it; it counts deleted series until the next index compaction) — only recorded as an outcome class",
			"SeriesKey(id) of a deleted id may be its old key or nothing (statement silent) but not the complete key of another key of the domain (that id would have been given away); id == partition+1 (mod 8) is not judged; a wrong congruence shows up as SeriesKey/IsDeleted of a live id being routed to the wrong partition",
			"'a new id is not below an earlier id of the same residue class mod 8' is judged after (and only reported when none of) the reuse clauses: ids of a partition are handed out densely in increasing order (anchor SeriesPartition.seq = next id), so in every history here an id below an earlier one lies in the range already handed out",
			"segment-roll families and seg-roll crash histories run the real code with ONE constant changed through the build overlay (first-segment size 128 bytes instead of 4 MiB, doubling per segment as shipped); the roll-tight family and the thorough segment-roll crash history exercise a roll-over at the shipped size",
			"DeleteSeriesID of an id never handed out writes no tombstone (the index reports unknown ids as deleted), so a segment holding tombstones only is reachable only as the newest segment right after a roll-over caused by a delete; two such segments in a row are not reachable through the API",
			"deleting an id that was never handed out, or twice, must not change any key->id mapping (it is executed; its own return value is not judged)",
			"index compaction = SeriesPartitionCompactor.Compact (explicit, synchronous) or the partition's own background compaction awaited via Compacting(); the offline segment rewrite SeriesSegment.CompactToPath (influxd inspect) is out of scope",
			"the key->partition choice of the fixture (xxhash of the serialised key mod 8) is only used to pick keys sharing a partition",
			"CompactThreshold=1 families open the series file with WithMaxCompactionConcurrency(8): with the default (GOMAXPROCS) the partitions of a batch that get to compact would depend on goroutine timing",
			"crash family: ordered-metadata crash model (creates/renames/unlinks persist in program order; data of sync-class files may be lost back to the last fsync = U images; a write in flight may persist any byte prefix = T images, byte-granular, into the pre-sized sparse segment); event order = syscall completion order",
			"crash family: deletes are flushed (DeleteSeriesID(id, true)); an acknowledged delete must then stay deleted. Unflushed deletes are not part of the crash histories",
			"crash family: an insert entry found in a segment after recovery that nobody acknowledged and that is not a key of the create in flight (a torn entry read back as a complete one with a truncated key) is NOT judged — the statement only protects series that had been created; it is counted (crash_images_with_unacknowledged_foreign_entries, outcome suffix /foreign-entries)",
			"crash family: the second restart is a clean Close + Open after the re-creation",
			"schedule part: sequentially consistent interleavings at Lock/RLock granularity of tsdb/series_partition.go only (series_index.go, series_segment.go, series_file.go keep the real sync package and run atomically between two points); one writer thread, no concurrent reader; queries at quiescence only",
			"the crash family runs first and may use at most half of the wall budget (30 s quick / 390 s thorough); beyond that it is capped (exhaustive:false), never an alarm",
		},
		Run: func(c *vlib.Ctx) {
			tsdb.VerifSeriesSegmentMinShift = shippedShiftAtInit
			if shippedShiftAtInit != shippedSegShift || tsdb.SeriesSegmentSize(0) != 4<<20 || tsdb.SeriesSegmentSize(1) != 8<<20 {
				c.HarnessError(fmt.Sprintf("the build's first-segment shift is %d (segment sizes %d, %d), the harness expects the shipped 22 (4 MiB, 8 MiB): shim.json out of date", shippedShiftAtInit, tsdb.SeriesSegmentSize(0), tsdb.SeriesSegmentSize(1)))
				return
			}
			runCrash(c)               // crash family first: of fixed size, so a budget cap always lands in the sequence families
			runSchedules(t, c, false) // schedule part: small
			if os.Getenv("C13_ONLY") == "sched" {
				runSchedules(t, c, true)
			}
			if os.Getenv("C13_ONLY") == "crash" || os.Getenv("C13_ONLY") == "sched" {
				return
			}
			defer runSchedules(t, c, true) // thorough: the all-locks phase, after the sequence families
			base := vlib.Scratch("c13-")
			defer os.RemoveAll(base)
			var idx int64
			tail := 1
			if c.Thorough() {
				tail = 2
			}
			onlyFam := os.Getenv("C13_FAMILY") // development aid: only the families whose name contains this
			for _, fam := range families(c.Thorough()) {
				fam := fam
				if !strings.Contains(fam.name, onlyFam) {
					continue
				}
				capped := false
				getDomain(fam.cfg.Domain)
				preIDs := fam.preIDs()
				forEachSeq(fam.alphabet, fam.minLen, fam.maxLen, func(ops []Op) bool {
					idx++
					if !c.Mine(idx) {
						return true
					}
					if c.Expired() {
						capped = true
						return false
					}
					cs := Case{Cfg: fam.cfg, Pre: fam.pre, Ops: ops, Tail: tail}
					rr := runCase(base, cs)
					c.Eval(1)
					c.Trace(1)
					c.Transition(rr.Steps)
					for _, s := range rr.States {
						c.State(fam.name + "|" + s)
					}
					switch {
					case getDomain(fam.cfg.Domain).Focus >= 0:
						// the new dimension: a roll-over caused by the ops (distinct by construction)
						if rr.Rolls > 0 {
							c.NontrivialN(1)
							c.Extra("segroll_histories_with_roll_over_in_ops", 1)
						}
						c.Extra("segroll_histories", 1)
						if rr.TailRolls > 0 {
							c.Extra("segroll_histories_with_roll_over_in_closing_phase", 1)
						}
						if rr.InsertlessReopens > 0 {
							c.Extra("segroll_histories_reopened_with_insertless_newest_segment", 1)
						}
					case rr.Model != nil && len(rr.Model.Used) > preIDs:
						c.NontrivialN(1)
					}
					for _, o := range rr.Outcomes {
						c.Outcome(fam.name + ":" + o)
					}
					if rr.CountRel != "" {
						c.Outcome(fam.name + ":final:" + rr.CountRel)
					}
					if rr.Fail == nil {
						c.Outcome(fmt.Sprintf("%s:end:%d-live/%d-ids-used", fam.name, min(len(rr.Model.Live), 5), min(len(rr.Model.Used)-preIDs, 6)))
						if c.WantSample() && len(ops) >= 3 && len(rr.Model.Dead) > 0 && len(rr.Model.Live) > 1 {
							c.Sample(map[string]any{"family": fam.name, "ops": opsString(ops), "live": fmt.Sprint(rr.Model.Live), "deleted": fmt.Sprint(rr.Model.Dead)})
						}
						return true
					}
					if rr.Fail.Clause == "harness" {
						c.HarnessError(fmt.Sprintf("%s [%s] step %d: %s", fam.name, opsString(ops), rr.Step, rr.Fail.Why))
						return true
					}
					c.Outcome("FAIL:" + rr.Fail.Clause)
					c.Violation(sigOf(cs, rr), fmt.Sprintf("family %s, ops [%s] (after prefix [%s]): step %d %s: %s", fam.name, opsString(ops), opsString(fam.pre), rr.Step, rr.Stage, rr.Fail.Why), cs)
					return true
				})
				if capped {
					c.Cap(fmt.Sprintf("budget expired inside family %s (lengths %d..%d); all earlier families of the list are complete, this one for all shorter lengths", fam.name, fam.minLen, fam.maxLen))
					break
				}
			}
		},
		Replay: func(c *vlib.Ctx, raw json.RawMessage) (bool, string) {
			var cs Case
			if err := json.Unmarshal(raw, &cs); err != nil {
				return false, err.Error()
			}
			if cs.Crash != nil {
				return replayCrash(cs.Crash)
			}
			if cs.Sched != nil {
				return replaySched(t, cs.Sched)
			}
			base := vlib.Scratch("c13r-")
			defer os.RemoveAll(base)
			rr := runCase(base, cs)
			obs := fmt.Sprintf("cfg=%+v pre=[%s] ops=[%s]", cs.Cfg, opsString(cs.Pre), opsString(cs.Ops))
			if rr.Fail == nil {
				return false, obs + fmt.Sprintf(" -> ok live=%v deleted=%v", rr.Model.Live, rr.Model.Dead)
			}
			return rr.Fail.Clause != "harness", obs + fmt.Sprintf(" -> %s at step %d %s: %s", rr.Fail.Clause, rr.Step, rr.Stage, rr.Fail.Why)
		},
	})
}
