// C13: series ids are unique, stable and never reused.
//
// Bounded-history part (level model_checking): every op sequence up to the depth bound over a small key
// domain is executed on the real tsdb.SeriesFile in a fresh directory and compared, after every step, with
// a reference model {key -> live id, ids ever handed out} written from the property statement.
//
// The file is split so that a crash-image engine can reuse it:
//   - PerformHistory = the "history writer": performs an op list on a directory and reports every
//     acknowledgement through an Acker (crashfs.Markers satisfies it);
//   - CheckRecovery  = the "recovery checker": opens a directory with the real code, reads everything
//     (ReadAll), compares with a Model of the acknowledged ops (+ at most one op in flight), creates every
//     key again (fresh ids), restarts a second time and compares again.
package c13

import (
	"encoding/json"
	"fmt"
	"os"
	"path/filepath"
	"runtime"
	"sort"
	"strconv"
	"strings"
	"sync"
	"testing"
	"time"

	"github.com/cespare/xxhash/v2"
	"github.com/influxdata/influxdb/v2/models"
	"github.com/influxdata/influxdb/v2/tsdb"
	"verif/h/vlib"
)

// ---------------------------------------------------------------------------------------------------------
// key domains

// KeyDef is one series key of a domain.
type KeyDef struct {
	Name string
	Tags [][2]string // sorted by tag key
}

func (k KeyDef) mtags() models.Tags {
	m := map[string]string{}
	for _, t := range k.Tags {
		m[t[0]] = t[1]
	}
	return models.NewTags(m)
}

func (k KeyDef) String() string {
	s := k.Name
	for _, t := range k.Tags {
		v := t[1]
		if len(v) > 12 {
			v = fmt.Sprintf("%s..(%d)", v[:6], len(v))
		}
		s += "," + t[0] + "=" + v
	}
	return s
}

// partitionOf is the fixture's own computation of the partition a key is stored in (xxhash of the
// serialised key mod 8). It is only used to CHOOSE keys (two sharing a partition); the oracle never needs it.
func partitionOf(k KeyDef) int {
	return int(xxhash.Sum64(tsdb.AppendSeriesKey(nil, []byte(k.Name), k.mtags())) % tsdb.SeriesFilePartitionN)
}

// Domain is a finite key domain; ops refer to keys by index.
type Domain struct {
	Keys []KeyDef
	Part []int
}

// Domain names.
const (
	DomSmall = "small" // 4 short keys, K[0] and K[1] in the same partition, K[2], K[3] in two other partitions
	DomBig   = "big"   // segment-roll domain: all keys in ONE partition; see bigDomain
)

// bigPrefill 64 KiB-class keys fill the fixed 4 MiB first segment of the partition up to less than one such
// entry, so that the next big key rolls over to segment 0001 while a short key or a tombstone still fits.
const (
	bigPad     = 65000
	bigPrefill = 64
)

var (
	domMu    sync.Mutex
	domCache = map[string]*Domain{}
)

func getDomain(name string) *Domain {
	domMu.Lock()
	defer domMu.Unlock()
	if d, ok := domCache[name]; ok {
		return d
	}
	var d *Domain
	switch name {
	case DomSmall:
		d = smallDomain()
	case DomBig:
		d = bigDomain()
	default:
		panic("unknown domain " + name)
	}
	domCache[name] = d
	return d
}

func smallDomain() *Domain {
	var pool []KeyDef
	for i := 0; i < 200; i++ {
		pool = append(pool, KeyDef{Name: "cpu", Tags: [][2]string{{"host", fmt.Sprintf("h%02d", i)}}})
	}
	d := &Domain{}
	add := func(k KeyDef) { d.Keys = append(d.Keys, k); d.Part = append(d.Part, partitionOf(k)) }
	add(pool[0])
	for _, k := range pool[1:] { // K[1]: same partition as K[0]
		if partitionOf(k) == d.Part[0] {
			add(k)
			break
		}
	}
	for _, k := range pool[1:] { // K[2], K[3]: two further partitions
		p := partitionOf(k)
		fresh := true
		for _, q := range d.Part {
			fresh = fresh && p != q
		}
		if fresh {
			add(k)
		}
		if len(d.Keys) == 4 {
			break
		}
	}
	if len(d.Keys) != 4 {
		panic("c13: could not choose the small key domain")
	}
	return d
}

// bigDomain: keys 0,1,2 = two further big keys and one short key (the op keys), keys 3.. = the prefill keys;
// every key hashes to the same partition (found by searching a nonce tag).
func bigDomain() *Domain {
	pad := strings.Repeat("x", bigPad)
	d := &Domain{}
	want := -1
	mk := func(big bool, label string) {
		for n := 0; ; n++ {
			k := KeyDef{Name: "big", Tags: [][2]string{{"i", fmt.Sprintf("%s-%d", label, n)}}}
			if big {
				k.Tags = append(k.Tags, [2]string{"pad", pad})
			}
			p := partitionOf(k)
			if want < 0 {
				want = p
			}
			if p == want {
				d.Keys = append(d.Keys, k)
				d.Part = append(d.Part, p)
				return
			}
		}
	}
	mk(true, "A")
	mk(true, "B")
	mk(false, "s")
	for i := 0; i < bigPrefill; i++ {
		mk(true, fmt.Sprintf("p%02d", i))
	}
	return d
}

// ---------------------------------------------------------------------------------------------------------
// ops, configuration, acknowledgements

// Op kinds.
const (
	OpCreate  = "create"  // SeriesFile.CreateSeriesListIfNotExists(Keys...) (one call; Keys may repeat)
	OpDelete  = "delete"  // SeriesFile.DeleteSeriesID(id last returned for Keys[0], flush) (unknown id if never created)
	OpReopen  = "reopen"  // Close + new SeriesFile + Open
	OpCompact = "compact" // SeriesPartitionCompactor.Compact on every partition (index rebuild + swap), synchronously
)

// Op is one step of a history.
type Op struct {
	Kind    string `json:"op"`
	Keys    []int  `json:"keys,omitempty"`
	NoFlush bool   `json:"noflush,omitempty"` // delete without fsync
}

func (o Op) String() string {
	if len(o.Keys) == 0 {
		return o.Kind
	}
	s := make([]string, len(o.Keys))
	for i, k := range o.Keys {
		s[i] = strconv.Itoa(k)
	}
	r := o.Kind + "(" + strings.Join(s, ",") + ")"
	if o.NoFlush {
		r += "nf"
	}
	return r
}

func opsString(ops []Op) string {
	s := make([]string, len(ops))
	for i, o := range ops {
		s[i] = o.String()
	}
	return strings.Join(s, " ")
}

// Cfg is the fixture configuration of a history.
type Cfg struct {
	Domain string `json:"domain"`
	// Auto: CompactThreshold = 1 on every partition, i.e. the partition starts its own background index
	// compaction at the end of every creating call; the writer waits for it to finish before the next op.
	Auto bool `json:"auto,omitempty"`
}

// OpResult is what an op acknowledged to its caller.
type OpResult struct {
	IDs    []uint64 `json:"ids,omitempty"`    // create: the returned ids
	Target uint64   `json:"target,omitempty"` // delete: the id passed to DeleteSeriesID
	Err    string   `json:"err,omitempty"`
}

// Acker receives the begin/acknowledge marks of a history (crashfs.Markers has exactly these methods).
type Acker interface {
	Begin(k int, v any)
	Ack(k int, result string)
}

type nopAcker struct{}

func (nopAcker) Begin(int, any)  {}
func (nopAcker) Ack(int, string) {}

// unknownID is the id a delete uses for a key that was never created (never reached by any history here).
func unknownID(d *Domain, key int) uint64 { return uint64(8*100000 + d.Part[key] + 1) }

func openSF(dir string, cfg Cfg) (*tsdb.SeriesFile, error) {
	sf := tsdb.NewSeriesFile(dir)
	if err := sf.Open(); err != nil {
		return nil, err
	}
	if cfg.Auto {
		for _, p := range sf.Partitions() {
			p.CompactThreshold = 1
		}
	}
	return sf, nil
}

func waitIdle(sf *tsdb.SeriesFile) {
	for _, p := range sf.Partitions() {
		for i := 0; p.Compacting(); i++ {
			if i < 100 {
				runtime.Gosched()
			} else {
				time.Sleep(20 * time.Microsecond)
			}
		}
	}
}

// PerformHistory is the history writer: it opens (creating if needed) the series file in dir, performs ops
// in order and reports Begin/Ack for each. after (optional) is called after every acknowledged step with the
// open series file; returning false stops the history. The series file is returned OPEN (nil after an open
// error); the caller closes it. lastID is writer-side bookkeeping only (which id a delete op names).
func PerformHistory(dir string, cfg Cfg, ops []Op, ack Acker, after func(step int, op Op, res OpResult, sf *tsdb.SeriesFile) bool) (results []OpResult, sf *tsdb.SeriesFile, err error) {
	if ack == nil {
		ack = nopAcker{}
	}
	d := getDomain(cfg.Domain)
	if sf, err = openSF(dir, cfg); err != nil {
		return nil, nil, fmt.Errorf("open: %w", err)
	}
	lastID := map[int]uint64{}
	for step, op := range ops {
		ack.Begin(step, op)
		var res OpResult
		switch op.Kind {
		case OpCreate:
			names := make([][]byte, len(op.Keys))
			tags := make([]models.Tags, len(op.Keys))
			for i, k := range op.Keys {
				names[i] = []byte(d.Keys[k].Name)
				tags[i] = d.Keys[k].mtags()
			}
			ids, e := sf.CreateSeriesListIfNotExists(names, tags)
			if e != nil {
				res.Err = e.Error()
			} else {
				res.IDs = append([]uint64(nil), ids...)
				for i, k := range op.Keys {
					lastID[k] = ids[i]
				}
			}
			if cfg.Auto {
				waitIdle(sf)
			}
		case OpDelete:
			id := lastID[op.Keys[0]]
			if id == 0 {
				id = unknownID(d, op.Keys[0])
			}
			res.Target = id
			if _, e := sf.DeleteSeriesID(id, !op.NoFlush); e != nil {
				res.Err = e.Error()
			}
		case OpReopen:
			if e := sf.Close(); e != nil {
				res.Err = "close: " + e.Error()
			}
			nsf, e := openSF(dir, cfg)
			if e != nil {
				res.Err += "open: " + e.Error()
				b, _ := json.Marshal(res)
				ack.Ack(step, string(b))
				results = append(results, res)
				return results, nil, fmt.Errorf("step %d reopen: %w", step, e)
			}
			sf = nsf
		case OpCompact:
			for _, p := range sf.Partitions() {
				if e := tsdb.NewSeriesPartitionCompactor().Compact(p); e != nil {
					res.Err += fmt.Sprintf("partition %d: %v;", p.ID(), e)
				}
			}
		default:
			panic("unknown op " + op.Kind)
		}
		b, _ := json.Marshal(res)
		ack.Ack(step, string(b))
		results = append(results, res)
		if after != nil && !after(step, op, res, sf) {
			break
		}
	}
	return results, sf, nil
}

// ---------------------------------------------------------------------------------------------------------
// reference model (from the statement)

// Model: which id each key currently has, and every id ever handed out.
type Model struct {
	Live map[int]uint64   // key -> id of the live series
	Dead map[int][]uint64 // key -> ids of its deleted incarnations, oldest first
	Used map[uint64]int   // every id ever returned by a create -> key
}

func NewModel() *Model {
	return &Model{Live: map[int]uint64{}, Dead: map[int][]uint64{}, Used: map[uint64]int{}}
}

func (m *Model) clone() *Model {
	n := NewModel()
	for k, v := range m.Live {
		n.Live[k] = v
	}
	for k, v := range m.Dead {
		n.Dead[k] = append([]uint64(nil), v...)
	}
	for k, v := range m.Used {
		n.Used[k] = v
	}
	return n
}

// Fail is one broken clause.
type Fail struct {
	Clause string // short clause name (part of the signature)
	Why    string
}

func failf(clause, f string, a ...any) *Fail { return &Fail{Clause: clause, Why: fmt.Sprintf(f, a...)} }

// Apply judges the acknowledged result of op against the model and advances the model.
func (m *Model) Apply(d *Domain, op Op, res OpResult) *Fail {
	if res.Err != "" {
		// I/O errors etc. are not part of the model; none is expected on tmpfs, so this is a harness problem.
		return failf("harness", "%s returned error %q", op, res.Err)
	}
	switch op.Kind {
	case OpCreate:
		if len(res.IDs) != len(op.Keys) {
			return failf("create/result-length", "%s returned %d ids for %d keys", op, len(res.IDs), len(op.Keys))
		}
		fresh := map[int]uint64{} // keys created by this very call
		var f *Fail
		for i, k := range op.Keys {
			id := res.IDs[i]
			switch {
			case id == 0:
				f = orFail(f, failf("create/zero-id", "%s: key %d (%s) got id 0", op, k, d.Keys[k]))
			case m.Live[k] != 0:
				if id != m.Live[k] {
					f = orFail(f, failf("create/same-key-different-id", "%s: live key %d (%s) has id %d but create returned %d", op, k, d.Keys[k], m.Live[k], id))
				}
			case fresh[k] != 0:
				if id != fresh[k] {
					f = orFail(f, failf("create/duplicate-in-batch-different-id", "%s: key %d (%s) occurs twice in the call and got ids %d and %d", op, k, d.Keys[k], fresh[k], id))
				}
			default:
				if ok, used := m.Used[id]; used {
					what := "reused"
					if len(m.Dead[k]) > 0 && ok == k {
						what = "resurrected"
					}
					f = orFail(f, failf("create/"+what+"-id", "%s: new series for key %d (%s) got id %d which was already handed out before (to key %d; deleted ids of this key %v)", op, k, d.Keys[k], id, ok, m.Dead[k]))
				}
				for k2, id2 := range fresh {
					if id2 == id && k2 != k {
						f = orFail(f, failf("create/distinct-keys-same-id", "%s: keys %d and %d both got id %d", op, k2, k, id))
					}
				}
				fresh[k] = id
			}
		}
		if f != nil {
			return f
		}
		ks := make([]int, 0, len(fresh))
		for k := range fresh {
			ks = append(ks, k)
		}
		sort.Ints(ks)
		for _, k := range ks {
			m.Live[k] = fresh[k]
			m.Used[fresh[k]] = k
		}
	case OpDelete:
		k := op.Keys[0]
		if id := m.Live[k]; id != 0 && id == res.Target {
			delete(m.Live, k)
			m.Dead[k] = append(m.Dead[k], id)
		}
		// deleting an id that is already deleted, or was never handed out, changes nothing
	}
	return nil
}

func orFail(a, b *Fail) *Fail {
	if a != nil {
		return a
	}
	return b
}

// ---------------------------------------------------------------------------------------------------------
// observation of a series file through its public API

// Obs is everything the check reads from an open series file.
type Obs struct {
	IDOf    []uint64          // SeriesID(key) for every key of the domain
	KeyOf   map[uint64]string // SeriesKey(id) parsed back to "name,tag=value" ("" = nil key) for the ids asked
	Deleted map[uint64]bool   // IsDeleted(id) for the ids asked
	Has     []bool            // HasSeries(key)
	Count   uint64            // SeriesCount()
	Layout  string            // per touched partition: on-disk index count / in-memory count / segments (state key only)
}

func keyString(name []byte, tags models.Tags) string {
	s := string(name)
	for _, t := range tags {
		s += "," + string(t.Key) + "=" + string(t.Value)
	}
	return s
}

func (k KeyDef) full() string {
	s := k.Name
	for _, t := range k.Tags {
		s += "," + t[0] + "=" + t[1]
	}
	return s
}

// ReadAll reads the id of every key of the domain, and key + deleted flag of every id in ids and of every id
// found for a key.
func ReadAll(sf *tsdb.SeriesFile, d *Domain, ids []uint64) *Obs {
	o := &Obs{KeyOf: map[uint64]string{}, Deleted: map[uint64]bool{}}
	ask := map[uint64]bool{}
	for _, id := range ids {
		ask[id] = true
	}
	for _, k := range d.Keys {
		id := sf.SeriesID([]byte(k.Name), k.mtags(), nil)
		o.IDOf = append(o.IDOf, id)
		o.Has = append(o.Has, sf.HasSeries([]byte(k.Name), k.mtags(), nil))
		if id != 0 {
			ask[id] = true
		}
	}
	for id := range ask {
		if b := sf.SeriesKey(id); b != nil {
			name, tags := tsdb.ParseSeriesKey(b)
			o.KeyOf[id] = keyString(name, tags)
		} else {
			o.KeyOf[id] = ""
		}
		o.Deleted[id] = sf.IsDeleted(id)
	}
	o.Count = sf.SeriesCount()
	var lay []string
	for _, p := range sf.Partitions() {
		idx := p.Index()
		if idx == nil {
			continue
		}
		segs := p.Segments()
		if idx.OnDiskCount() == 0 && idx.InMemCount() == 0 && len(segs) == 1 {
			if _, err := os.Stat(p.IndexPath()); err != nil {
				continue
			}
		}
		_, err := os.Stat(p.IndexPath())
		lay = append(lay, fmt.Sprintf("p%d:disk%d/mem%d/seg%d/idx%v", p.ID(), idx.OnDiskCount(), idx.InMemCount(), len(segs), err == nil))
	}
	o.Layout = strings.Join(lay, " ")
	return o
}

// Expect says how an observation is compared with a model.
type Expect struct {
	M *Model
	// InFlight: an op that was begun but not acknowledged when the directory image was taken (crash images
	// only). Its effect may be absent, or present intact: keys of an in-flight create that are not live in M
	// may be absent or live with an id never handed out before (and SeriesKey(id) = key); the target of an
	// in-flight delete may be live (same id) or deleted. nil = the observation must match M exactly.
	InFlight *InFlightOp
}

// InFlightOp is the op in flight with what the writer knew when it began.
type InFlightOp struct {
	Op     Op
	Target uint64 // delete: the id being deleted (0 = unknown to the checker: any one live series may be deleted)
}

// Compare checks an observation against the expectation. On success it returns the model the observation
// settles on (M itself, or M + the in-flight op's visible effect).
func Compare(d *Domain, o *Obs, e Expect) (*Model, *Fail) {
	m := e.M.clone()
	mayCreate := map[int]bool{}
	mayDelete := map[int]bool{}
	if e.InFlight != nil {
		switch e.InFlight.Op.Kind {
		case OpCreate:
			for _, k := range e.InFlight.Op.Keys {
				if m.Live[k] == 0 {
					mayCreate[k] = true
				}
			}
		case OpDelete:
			k := e.InFlight.Op.Keys[0]
			if id := m.Live[k]; id != 0 && (e.InFlight.Target == 0 || e.InFlight.Target == id) {
				mayDelete[k] = true
			}
		}
	}
	seen := map[uint64]int{}
	for k := range d.Keys {
		got, want := o.IDOf[k], m.Live[k]
		switch {
		case want != 0 && got == want:
		case want != 0 && got == 0 && mayDelete[k]:
			delete(m.Live, k)
			m.Dead[k] = append(m.Dead[k], want)
		case want != 0 && got == 0:
			return nil, failf("lookup/live-series-lost", "SeriesID(key %d %s) = 0 but the series was created with id %d and never deleted", k, d.Keys[k], want)
		case want != 0:
			return nil, failf("lookup/id-changed", "SeriesID(key %d %s) = %d but the series was created with id %d", k, d.Keys[k], got, want)
		case got == 0:
		case mayCreate[k]:
			if prev, used := m.Used[got]; used {
				return nil, failf("lookup/inflight-create-reused-id", "key %d (%s) of the unacknowledged create has id %d which was already handed out to key %d", k, d.Keys[k], got, prev)
			}
			m.Live[k] = got
			m.Used[got] = k
		default:
			st := "was never created"
			if len(m.Dead[k]) > 0 {
				st = fmt.Sprintf("was deleted (ids %v)", m.Dead[k])
			}
			return nil, failf("lookup/absent-key-has-id", "SeriesID(key %d %s) = %d but the series %s", k, d.Keys[k], got, st)
		}
		if id := m.Live[k]; id != 0 {
			if k2, dup := seen[id]; dup {
				return nil, failf("lookup/distinct-keys-same-id", "keys %d and %d both resolve to id %d", k2, k, id)
			}
			seen[id] = k
			if o.Has[k] != true {
				return nil, failf("lookup/has-series-false", "HasSeries(key %d %s) = false for a live series", k, d.Keys[k])
			}
			if got := o.KeyOf[id]; got != d.Keys[k].full() {
				return nil, failf("reverse/series-key-of-live-id", "SeriesKey(%d) = %q but id %d belongs to key %d %q", id, short(got), id, k, short(d.Keys[k].full()))
			}
			if o.Deleted[id] {
				return nil, failf("reverse/live-id-reported-deleted", "IsDeleted(%d) = true but key %d (%s) is live with this id", id, k, d.Keys[k])
			}
		} else if o.Has[k] {
			return nil, failf("lookup/absent-key-has-id", "HasSeries(key %d %s) = true but the series is not live", k, d.Keys[k])
		}
	}
	// deleted ids stay deleted (otherwise the id could be looked up / handed out again)
	ks := make([]int, 0, len(m.Dead))
	for k := range m.Dead {
		ks = append(ks, k)
	}
	sort.Ints(ks)
	for _, k := range ks {
		for _, id := range m.Dead[k] {
			if del, asked := o.Deleted[id]; asked && !del {
				return nil, failf("reverse/deleted-id-not-deleted", "IsDeleted(%d) = false but id %d (key %d %s) was deleted", id, id, k, d.Keys[k])
			}
		}
	}
	return m, nil
}

func short(s string) string {
	if len(s) > 60 {
		return fmt.Sprintf("%s..(%d bytes)", s[:40], len(s))
	}
	return s
}

func usedIDs(m *Model) []uint64 {
	ids := make([]uint64, 0, len(m.Used))
	for id := range m.Used {
		ids = append(ids, id)
	}
	sort.Slice(ids, func(i, j int) bool { return ids[i] < ids[j] })
	return ids
}

// CheckRecovery is the recovery checker: open dir with the real code, read everything, compare with the
// expectation; then create every key of createKeys (all keys when nil) in one call — live keys keep their
// ids, the others get ids never handed out — and (secondRestart) restart a second time and compare exactly
// with the settled model. stage tells where it failed ("open", "first-read", "create-after", "second-open", "second-read").
func CheckRecovery(dir string, cfg Cfg, e Expect, createKeys []int, secondRestart bool) (m *Model, stage string, f *Fail) {
	d := getDomain(cfg.Domain)
	sf, err := openSF(dir, cfg)
	if err != nil {
		return nil, "open", failf("recovery/open-failed", "series file does not open: %v", err)
	}
	closed := false
	defer func() {
		if !closed {
			sf.Close()
		}
	}()
	o := ReadAll(sf, d, usedIDs(e.M))
	if m, f = Compare(d, o, e); f != nil {
		return nil, "first-read", f
	}
	if createKeys == nil {
		for k := range d.Keys {
			createKeys = append(createKeys, k)
		}
	}
	op := Op{Kind: OpCreate, Keys: createKeys}
	names := make([][]byte, len(createKeys))
	tags := make([]models.Tags, len(createKeys))
	for i, k := range createKeys {
		names[i], tags[i] = []byte(d.Keys[k].Name), d.Keys[k].mtags()
	}
	ids, err := sf.CreateSeriesListIfNotExists(names, tags)
	res := OpResult{IDs: ids}
	if err != nil {
		res.Err = err.Error()
	}
	if cfg.Auto {
		waitIdle(sf)
	}
	if f = m.Apply(d, op, res); f != nil {
		return nil, "create-after", f
	}
	if f = compareOpen(sf, d, m); f != nil {
		return nil, "create-after", f
	}
	if !secondRestart {
		return m, "", nil
	}
	closed = true
	if err := sf.Close(); err != nil {
		return nil, "second-open", failf("harness", "close: %v", err)
	}
	sf2, err := openSF(dir, cfg)
	if err != nil {
		return nil, "second-open", failf("recovery/open-failed", "series file does not open a second time: %v", err)
	}
	defer sf2.Close()
	if f = compareOpen(sf2, d, m); f != nil {
		return nil, "second-read", f
	}
	return m, "", nil
}

func compareOpen(sf *tsdb.SeriesFile, d *Domain, m *Model) *Fail {
	_, f := Compare(d, ReadAll(sf, d, usedIDs(m)), Expect{M: m})
	return f
}

// ---------------------------------------------------------------------------------------------------------
// one case = configuration + op list (+ closing phase)

// Case is the replayable unit.
type Case struct {
	Cfg Cfg  `json:"cfg"`
	Pre []Op `json:"pre,omitempty"` // fixed prefix of a structured family (executed and judged like Ops)
	Ops []Op `json:"ops"`
	// Tail: after the last op run the recovery checker on the directory: 1 = clean Close, reopen, read all,
	// create every op key again, read all; 2 = additionally a second restart + read all; 0 = none.
	Tail int `json:"tail"`
}

type runResult struct {
	Fail     *Fail
	Step     int // index into Pre+Ops (len = in the tail)
	Stage    string
	Outcomes []string
	States   []string
	Steps    int64
	Model    *Model
	CountRel string
}

func modelKey(d *Domain, m *Model) string {
	var b strings.Builder
	for k := range d.Keys {
		gen := len(m.Dead[k])
		switch {
		case m.Live[k] != 0:
			fmt.Fprintf(&b, "L%d", gen+1)
		case gen > 0:
			fmt.Fprintf(&b, "D%d", gen)
		default:
			b.WriteString("N")
		}
		if k >= 4 && len(d.Keys) > 8 { // big domain: prefill keys are summarised
			live, dead := 0, 0
			for k2 := 3; k2 < len(d.Keys); k2++ {
				if m.Live[k2] != 0 {
					live++
				} else if len(m.Dead[k2]) > 0 {
					dead++
				}
			}
			fmt.Fprintf(&b, "+pre%d/%d", live, dead)
			break
		}
	}
	return b.String()
}

func runCase(base string, cs Case) (rr runResult) {
	d := getDomain(cs.Cfg.Domain)
	dir, err := os.MkdirTemp(base, "sf")
	if err != nil {
		rr.Fail = failf("harness", "mkdir: %v", err)
		return
	}
	defer os.RemoveAll(dir)
	dir = filepath.Join(dir, "_series")
	m := NewModel()
	rr.Model = m
	all := append(append([]Op(nil), cs.Pre...), cs.Ops...)
	var sf *tsdb.SeriesFile
	p, desc := vlib.Guard(func() {
		_, sf, err = PerformHistory(dir, cs.Cfg, all, nil, func(step int, op Op, res OpResult, sf *tsdb.SeriesFile) bool {
			rr.Step = step
			rr.Steps++
			before := len(m.Used)
			recreate := false
			for _, k := range op.Keys {
				recreate = recreate || (op.Kind == OpCreate && m.Live[k] == 0 && len(m.Dead[k]) > 0)
			}
			wasLive := op.Kind == OpDelete && m.Live[op.Keys[0]] != 0
			if f := m.Apply(d, op, res); f != nil {
				rr.Fail = f
				return false
			}
			o := ReadAll(sf, d, usedIDs(m))
			if _, f := Compare(d, o, Expect{M: m}); f != nil {
				rr.Fail = f
				return false
			}
			if step >= len(cs.Pre) {
				oc := op.Kind
				switch op.Kind {
				case OpCreate:
					oc = fmt.Sprintf("create:%d-of-%d-new", len(m.Used)-before, len(op.Keys))
					if recreate {
						oc += ":recreated"
					}
				case OpDelete:
					switch {
					case wasLive:
						oc = "delete:live"
					case len(m.Dead[op.Keys[0]]) > 0:
						oc = "delete:already-deleted"
					default:
						oc = "delete:unknown-id"
					}
				}
				rr.Outcomes = append(rr.Outcomes, oc)
				live := uint64(len(m.Live))
				switch {
				case o.Count == live:
					rr.CountRel = "count=live"
				case o.Count > live && o.Count <= uint64(len(m.Used)):
					rr.CountRel = "count=live+some-deleted"
				default:
					rr.CountRel = "count-other"
				}
				rr.States = append(rr.States, modelKey(d, m)+"|"+o.Layout)
			}
			return true
		})
	})
	if sf != nil {
		sf.Close()
	}
	if p {
		rr.Fail = &Fail{Clause: "panic", Why: desc}
		return
	}
	if err != nil && rr.Fail == nil {
		rr.Fail = failf("recovery/open-failed", "%v", err)
		return
	}
	if rr.Fail != nil || cs.Tail == 0 {
		return
	}
	rr.Step = len(all)
	p, desc = vlib.Guard(func() {
		var m2 *Model
		m2, rr.Stage, rr.Fail = CheckRecovery(dir, cs.Cfg, Expect{M: m}, tailKeys(d), cs.Tail >= 2)
		if m2 != nil {
			rr.Model = m2
		}
	})
	if p {
		rr.Fail = &Fail{Clause: "panic", Why: desc}
	}
	rr.Steps += int64(1 + cs.Tail)
	return
}

// tailKeys: the keys the closing phase creates again (the op keys; for the big domain not the prefill keys).
func tailKeys(d *Domain) []int {
	n := len(d.Keys)
	if n > 8 {
		n = 3
	}
	ks := make([]int, n)
	for i := range ks {
		ks[i] = i
	}
	return ks
}

// sigOf: clause + where (op kind / tail stage) + which maintenance ops happened before.
func sigOf(cs Case, rr runResult) string {
	all := append(append([]Op(nil), cs.Pre...), cs.Ops...)
	where := "tail:" + rr.Stage
	if rr.Step < len(all) {
		where = "after:" + all[rr.Step].Kind
	}
	var re, co, de bool
	for i, o := range all {
		if i > rr.Step {
			break
		}
		re = re || o.Kind == OpReopen
		co = co || o.Kind == OpCompact
		de = de || o.Kind == OpDelete
	}
	if rr.Step >= len(all) {
		re = true
	}
	clause := rr.Fail.Clause
	if clause == "panic" {
		clause = "panic/" + strings.TrimPrefix(rr.Fail.Why[strings.LastIndex(rr.Fail.Why, "@ ")+2:], "github.com/influxdata/influxdb/v2/")
	}
	return vlib.JoinSig(clause, where, fmt.Sprintf("dom=%s,auto=%v,reopen=%v,compact=%v,delete=%v", cs.Cfg.Domain, cs.Cfg.Auto, re, co || cs.Cfg.Auto, de))
}

// ---------------------------------------------------------------------------------------------------------
// enumeration

func forEachSeq(alphabet []Op, minLen, maxLen int, f func(ops []Op) bool) {
	for n := minLen; n <= maxLen; n++ {
		idx := make([]int, n)
		for {
			ops := make([]Op, n)
			for i, a := range idx {
				ops[i] = alphabet[a]
			}
			if !f(ops) {
				return
			}
			i := n - 1
			for ; i >= 0; i-- {
				idx[i]++
				if idx[i] < len(alphabet) {
					break
				}
				idx[i] = 0
			}
			if i < 0 {
				break
			}
		}
	}
}

// SmallAlphabet: 4 single creates, 3 batch creates (two keys of one partition; a duplicate inside the call;
// all four keys with a repeat), 4 deletes, reopen, compact.
func SmallAlphabet(withCompact bool) []Op {
	a := []Op{
		{Kind: OpCreate, Keys: []int{0}}, {Kind: OpCreate, Keys: []int{1}}, {Kind: OpCreate, Keys: []int{2}}, {Kind: OpCreate, Keys: []int{3}},
		{Kind: OpCreate, Keys: []int{0, 1}}, {Kind: OpCreate, Keys: []int{1, 1}}, {Kind: OpCreate, Keys: []int{3, 0, 1, 2, 0}},
		{Kind: OpDelete, Keys: []int{0}}, {Kind: OpDelete, Keys: []int{1}}, {Kind: OpDelete, Keys: []int{2}}, {Kind: OpDelete, Keys: []int{3}},
		{Kind: OpReopen},
	}
	if withCompact {
		a = append(a, Op{Kind: OpCompact})
	}
	return a
}

// BigPrefix fills segment 0000 of the partition; BigAlphabet are the ops around the segment roll.
func BigPrefix() []Op {
	ks := make([]int, bigPrefill)
	for i := range ks {
		ks[i] = 3 + i
	}
	return []Op{{Kind: OpCreate, Keys: ks}}
}

func BigAlphabet() []Op {
	return []Op{
		{Kind: OpCreate, Keys: []int{0}}, // big: does not fit segment 0000 any more
		{Kind: OpCreate, Keys: []int{1}},
		{Kind: OpCreate, Keys: []int{2}}, // short key: fits
		{Kind: OpDelete, Keys: []int{0}},
		{Kind: OpDelete, Keys: []int{2}},
		{Kind: OpDelete, Keys: []int{3}}, // a prefill key (first entry of segment 0000)
		{Kind: OpReopen},
		{Kind: OpCompact},
	}
}

type family struct {
	name     string
	cfg      Cfg
	pre      []Op
	alphabet []Op
	minLen   int
	maxLen   int
}

func envInt(name string, def int) int {
	if s := os.Getenv(name); s != "" {
		if v, err := strconv.Atoi(s); err == nil {
			return v
		}
	}
	return def
}

// PairAlphabet: the deep alphabet over the two keys sharing a partition (partitions are independent of each
// other apart from the id congruence, so depth is spent where ids can collide). Batch creates are covered by
// the full alphabet.
func PairAlphabet(withCompact bool) []Op {
	a := []Op{
		{Kind: OpCreate, Keys: []int{0}}, {Kind: OpCreate, Keys: []int{1}},
		{Kind: OpDelete, Keys: []int{0}}, {Kind: OpDelete, Keys: []int{1}},
		{Kind: OpReopen},
	}
	if withCompact {
		a = append(a, Op{Kind: OpCompact})
	}
	return a
}

// families in visiting order (simplest first). Sequences of length < minLen of a deep family are covered by
// the full-alphabet family of the same configuration (the deep alphabet is a subset).
func families(thorough bool) []family {
	ex, au, ro := Cfg{Domain: DomSmall}, Cfg{Domain: DomSmall, Auto: true}, Cfg{Domain: DomBig}
	if d := envInt("C13_DEPTH", -1); d >= 0 {
		return []family{{"explicit", ex, nil, SmallAlphabet(true), 0, d}}
	}
	if !thorough {
		return []family{
			{"explicit", ex, nil, SmallAlphabet(true), 0, 3},
			{"auto", au, nil, SmallAlphabet(false), 0, 2},
			{"roll", ro, BigPrefix(), BigAlphabet(), 0, 2},
			{"explicit-pair", ex, nil, PairAlphabet(true), 4, 4},
			{"auto-pair", au, nil, PairAlphabet(false), 3, 3},
		}
	}
	return []family{
		{"explicit", ex, nil, SmallAlphabet(true), 0, 4},
		{"auto", au, nil, SmallAlphabet(false), 0, 3},
		{"roll", ro, BigPrefix(), BigAlphabet(), 0, 3},
		{"explicit-pair", ex, nil, PairAlphabet(true), 5, 5},
		{"auto-pair", au, nil, PairAlphabet(false), 4, 4},
		{"roll", ro, BigPrefix(), BigAlphabet(), 4, 4},
		{"auto-pair", au, nil, PairAlphabet(false), 5, 5},
		{"explicit-pair", ex, nil, PairAlphabet(true), 6, 6},
	}
}

func TestCheck(t *testing.T) {
	vlib.Main(t, &vlib.Check{
		ID: "C13", Level: "model_checking", QuickBudgetS: 45, ThoroughBudgetS: 780, WorkerEnv: []string{"GOMAXPROCS=2"},
		Rule: "every op sequence within the stated length bounds, each executed from scratch on the real tsdb.SeriesFile (8 partitions) in a fresh directory, in five families (visited in this order; a run that hits its wall budget says which family it stopped in). " +
			"(explicit: length <= 3 quick / <= 4 thorough) 13-op alphabet over 4 keys K0..K3 (K0,K1 in one partition, K2,K3 in two others): create{K0},{K1},{K2},{K3}, batch create {K0,K1}, {K1,K1} (duplicate inside one call), {K3,K0,K1,K2,K0}; DeleteSeriesID(id last returned for Ki) for i=0..3 (an id never handed out when Ki was never created; the same id again when already deleted); reopen (Close + new SeriesFile + Open); compact (SeriesPartitionCompactor.Compact on all 8 partitions: index rebuilt to index.compacting, renamed, in-memory tail replayed). " +
			"(auto: length <= 2 / <= 3) the same alphabet without the explicit compact but with CompactThreshold=1: every creating call starts the partition's own background index compaction, which is awaited. " +
			"(roll: length <= 2 / <= 4) all keys in one partition; fixed prefix = one call creating 64 keys of 65 KB that fill the fixed 4 MiB segment 0000 to within half an entry; then every sequence over {create big A, create big B (do not fit: roll to segment 0001), create short key (fits), delete A, delete short, delete first prefill key, reopen, compact}. " +
			"(explicit-pair: length exactly 4 quick / 5 and 6 thorough) 6-op alphabet over the two keys sharing a partition {create K0, create K1, delete K0, delete K1, reopen, compact}; (auto-pair: length 3 / 4,5) the same without compact and with CompactThreshold=1. " +
			"After EVERY step: returned ids judged by the model (same key -> same id; two occurrences in one call -> same id; distinct keys -> distinct ids; new or re-created key -> id never handed out before, non-zero), then SeriesID/HasSeries of every key of the domain (live -> its id; deleted or never created -> 0), SeriesKey(id) of every live id parses back to its key, IsDeleted false for live and true for deleted ids. After the last step the recovery checker: Close, Open, read all, create all op keys again in one call (live keep ids, others get never-used ids), read all; thorough additionally Close, Open, read all. " +
			"State = canonical model state (per key never/live/deleted + number of incarnations) + file layout (per touched partition: on-disk index count, in-memory count, number of segments, index file present); transition = one executed op; trace = one complete history validated on the implementation. Non-trivial = histories that create at least one series (distinct by construction). Crash images are NOT part of this run (added separately with crashfs on PerformHistory / CheckRecovery).",
		Assumptions: []string{
			"SeriesCount is not judged (the statement does not define it; it counts deleted series until the next index compaction) — only recorded as an outcome class",
			"SeriesKey(id) of a deleted id and id == partition+1 (mod 8) are not judged (statement silent); a wrong congruence shows up as SeriesKey/IsDeleted of a live id being routed to the wrong partition",
			"deleting an id that was never handed out, or twice, must not change any key->id mapping (it is executed; its own return value is not judged)",
			"index compaction = SeriesPartitionCompactor.Compact (explicit, synchronous) or the partition's own background compaction awaited via Compacting(); the offline segment rewrite SeriesSegment.CompactToPath (influxd inspect) is out of scope",
			"the key->partition choice of the fixture (xxhash of the serialised key mod 8) is only used to pick keys sharing a partition",
		},
		Run: func(c *vlib.Ctx) {
			base := vlib.Scratch("c13-")
			defer os.RemoveAll(base)
			var idx int64
			tail := 1
			if c.Thorough() {
				tail = 2
			}
			for _, fam := range families(c.Thorough()) {
				fam := fam
				capped := false
				getDomain(fam.cfg.Domain)
				forEachSeq(fam.alphabet, fam.minLen, fam.maxLen, func(ops []Op) bool {
					idx++
					if !c.Mine(idx) {
						return true
					}
					if c.Expired() {
						capped = true
						return false
					}
					cs := Case{Cfg: fam.cfg, Pre: fam.pre, Ops: ops, Tail: tail}
					rr := runCase(base, cs)
					c.Eval(1)
					c.Trace(1)
					c.Transition(rr.Steps)
					for _, s := range rr.States {
						c.State(fam.name + "|" + s)
					}
					if rr.Model != nil && len(rr.Model.Used) > len(fam.pre)*bigPrefill {
						c.NontrivialN(1)
					}
					for _, o := range rr.Outcomes {
						c.Outcome(fam.name + ":" + o)
					}
					if rr.CountRel != "" {
						c.Outcome(fam.name + ":final:" + rr.CountRel)
					}
					if rr.Fail == nil {
						c.Outcome(fmt.Sprintf("%s:end:%d-live/%d-ids-used", fam.name, min(len(rr.Model.Live), 5), min(len(rr.Model.Used)-len(fam.pre)*bigPrefill, 6)))
						if c.WantSample() && len(ops) >= 3 && len(rr.Model.Dead) > 0 && len(rr.Model.Live) > 1 {
							c.Sample(map[string]any{"family": fam.name, "ops": opsString(ops), "live": fmt.Sprint(rr.Model.Live), "deleted": fmt.Sprint(rr.Model.Dead)})
						}
						return true
					}
					if rr.Fail.Clause == "harness" {
						c.HarnessError(fmt.Sprintf("%s [%s] step %d: %s", fam.name, opsString(ops), rr.Step, rr.Fail.Why))
						return true
					}
					c.Outcome("FAIL:" + rr.Fail.Clause)
					c.Violation(sigOf(cs, rr), fmt.Sprintf("family %s, ops [%s] (after prefix [%s]): step %d %s: %s", fam.name, opsString(ops), opsString(fam.pre), rr.Step, rr.Stage, rr.Fail.Why), cs)
					return true
				})
				if capped {
					c.Cap(fmt.Sprintf("budget expired inside family %s (lengths %d..%d); all earlier families of the list are complete, this one for all shorter lengths", fam.name, fam.minLen, fam.maxLen))
					break
				}
			}
		},
		Replay: func(c *vlib.Ctx, raw json.RawMessage) (bool, string) {
			var cs Case
			if err := json.Unmarshal(raw, &cs); err != nil {
				return false, err.Error()
			}
			base := vlib.Scratch("c13r-")
			defer os.RemoveAll(base)
			rr := runCase(base, cs)
			obs := fmt.Sprintf("cfg=%+v pre=[%s] ops=[%s]", cs.Cfg, opsString(cs.Pre), opsString(cs.Ops))
			if rr.Fail == nil {
				return false, obs + fmt.Sprintf(" -> ok live=%v deleted=%v", rr.Model.Live, rr.Model.Dead)
			}
			return rr.Fail.Clause != "harness", obs + fmt.Sprintf(" -> %s at step %d %s: %s", rr.Fail.Clause, rr.Step, rr.Stage, rr.Fail.Why)
		},
	})
}
