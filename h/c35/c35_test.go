// C35: HyperLogLog++ sketches (pkg/estimator/hll): Merge is commutative, associative and idempotent, a merged
// sketch is the sketch of the union and estimates it within the error bound, marshal->unmarshal preserves Count().
//
// Decided exhaustively at small precision (all pairs / triples of a declared family of key sets, sparse and dense
// representations in both directions); the error bound is enumerated over (precision, n) for two fixed key families.
// The state family merges every pair of operands in every representation state (sparse flushed, sparse with
// pending un-flushed adds, dense) in both directions at the precisions where pending values exist (>= 7).
// The own family enumerates every sequence of ownership / aliasing steps (up to a depth bound) after
// MarshalBinary -> UnmarshalBinary(buf): the caller rewrites buf, sketches restored from the same bytes are added to,
// merged, merged from and cloned; restored sketches, the original, the clone and buf must stay independent.
package c35

import (
	"bytes"
	"encoding/binary"
	"encoding/json"
	"fmt"
	"math"
	"runtime"
	"runtime/debug"
	"sort"
	"testing"
	"time"

	"github.com/influxdata/influxdb/v2/pkg/estimator/hll"
	"verif/h/vlib"
)

const universe = 24

var keys = func() (out [universe][]byte) {
	for i := range out {
		out[i] = []byte(fmt.Sprintf("key-%02d", i))
	}
	return
}()

func key(i int) []byte { return keys[i] }

// ladderKey is the i-th key of deterministic key family fam.
func ladderKey(fam, i int) []byte {
	if fam == 0 {
		return []byte(fmt.Sprintf("series,host=h%d,region=r%d", i, i%7))
	}
	b := make([]byte, 8)
	binary.BigEndian.PutUint64(b, uint64(i)*0x9e3779b97f4a7c15+1)
	return b
}

type Case struct {
	Fam string `json:"fam"` // single | pair | triple | ladder | state
	P   uint8  `json:"p"`
	A   []int  `json:"a,omitempty"` // indices into the 24-key universe, in insertion order
	B   []int  `json:"b,omitempty"`
	C   []int  `json:"c,omitempty"`
	// ladder
	KeyFam   int  `json:"key_family,omitempty"`
	N        int  `json:"n,omitempty"`
	Thorough bool `json:"thorough_checkpoints,omitempty"`
	// state: two operands, each built by a recipe that leaves it in a chosen representation state
	X *Operand `json:"x,omitempty"`
	Y *Operand `json:"y,omitempty"`
	// own: the sketch X is marshalled, the bytes are handed to UnmarshalBinary in the given buffer layout, then the
	// steps run in order
	Layout string   `json:"layout,omitempty"`
	Steps  []string `json:"steps,omitempty"`
}

// Operand is a sketch recipe of the state family. Kind says how the keys are added:
//
//	sparse-flushed     Add K1, Count()                      (Count flushes tmpSet into the sparse list)
//	sparse-pending     Add K1                               (nothing called after the last Add)
//	sparse-mixed       Add K1, Count(), Add K2              (flushed sparse list + pending values)
//	dense-merged       empty.Merge(sketch of K1)            (the result of a Merge is always dense)
//	dense-merged+adds  empty.Merge(sketch of K1), Add K2    (adds go straight into the registers)
//	dense-grown        Add Big ladder keys (family 1), Add K1 (dense through Add's own conversion)
//
// The state a recipe really reaches depends on the precision (Add flushes tmpSet as soon as it holds more than
// m/100 values and converts to dense when the sparse list outgrows m bytes); it is observed, not assumed.
type Operand struct {
	Kind string `json:"kind"`
	Big  int    `json:"big,omitempty"`
	K1   []int  `json:"k1,omitempty"`
	K2   []int  `json:"k2,omitempty"`
}

type V struct{ Sig, Msg string }

func viol(sig, f string, a ...any) *V { return &V{sig, fmt.Sprintf(f, a...)} }

func newPlus(p uint8) *hll.Plus {
	h, err := hll.NewPlus(p)
	if err != nil {
		panic(err)
	}
	return h
}

// build adds the keys in order, each `times` times.
func build(p uint8, ks []int, times int) *hll.Plus {
	h := newPlus(p)
	for _, k := range ks {
		for t := 0; t < times; t++ {
			h.Add(key(k))
		}
	}
	return h
}

func marshal(h *hll.Plus) []byte {
	b, err := h.MarshalBinary()
	if err != nil {
		panic(err)
	}
	return b
}

func repr(b []byte) string {
	if len(b) > 2 && b[2] == 1 {
		return "sparse"
	}
	return "dense"
}

// dense returns the registers-only form of a sketch: the sketch merged into an empty one.
func dense(p uint8, h *hll.Plus) (*hll.Plus, error) {
	d := newPlus(p)
	err := d.Merge(h)
	return d, err
}

func union(sets ...[]int) []int {
	seen := map[int]bool{}
	var out []int
	for _, s := range sets {
		for _, k := range s {
			if !seen[k] {
				seen[k] = true
				out = append(out, k)
			}
		}
	}
	return out
}

// bound is the statement's error bound at 3 standard errors (1.04/sqrt(m)) plus 0.5 because Count() is rounded
// to an integer.
func bound(p uint8, n int) float64 {
	return 3*1.04/math.Sqrt(float64(uint64(1)<<p))*float64(n) + 0.5
}

func sigmas(p uint8, n int, count uint64) string {
	if n == 0 {
		if count == 0 {
			return "exact"
		}
		return ">3s"
	}
	e := math.Abs(float64(count)-float64(n)) / (1.04 / math.Sqrt(float64(uint64(1)<<p)) * float64(n))
	switch {
	case float64(count) == float64(n):
		return "exact"
	case e < 1:
		return "<1s"
	case e < 2:
		return "<2s"
	case e < 3:
		return "<3s"
	}
	return ">3s"
}

func nsig(p uint8, n int, count uint64) float64 {
	if n == 0 {
		return float64(count)
	}
	return (float64(count) - float64(n)) / (1.04 / math.Sqrt(float64(uint64(1)<<p)) * float64(n))
}

func inBound(p uint8, n int, count uint64) bool {
	return math.Abs(float64(count)-float64(n)) <= bound(p, n)
}

func unmarshal(b []byte) (*hll.Plus, error) {
	var h hll.Plus
	err := h.UnmarshalBinary(append([]byte(nil), b...))
	return &h, err
}

// ---- single sketch: marshal round trip, multiset insensitivity, idempotence, bound
func execSingle(cs *Case) (*V, string) {
	s := build(cs.P, cs.A, 1)
	n := len(union(cs.A))
	c0 := s.Count()
	b0 := marshal(s)
	r := repr(b0)
	if c1 := s.Count(); c1 != c0 {
		return viol("single/Count-unstable/"+r, "Count()=%d, after MarshalBinary %d (keys %v)", c0, c1, cs.A), ""
	}
	u, err := unmarshal(b0)
	if err != nil {
		return viol("single/unmarshal-error/"+r, "UnmarshalBinary(MarshalBinary()) failed: %v (keys %v)", err, cs.A), ""
	}
	if c := u.Count(); c != c0 {
		return viol("single/marshal-roundtrip-count/"+r, "p=%d keys %v: Count()=%d, after marshal->unmarshal %d", cs.P, cs.A, c0, c), ""
	}
	// second generation
	u2, err := unmarshal(marshal(u))
	if err != nil || u2.Count() != c0 {
		return viol("single/marshal-roundtrip-count-2nd/"+r, "p=%d keys %v: Count()=%d, after two round trips %d (err %v)", cs.P, cs.A, c0, u2.Count(), err), ""
	}
	// a multiset has the estimate of its set
	if c := build(cs.P, cs.A, 2).Count(); c != c0 {
		return viol("single/duplicate-keys-change-count/"+r, "p=%d keys %v: Count()=%d, with every key added twice %d", cs.P, cs.A, c0, c), ""
	}
	// idempotence: s merged with an equal sketch is the registers-only form of s, from the original or the unmarshalled copy
	d, err := dense(cs.P, build(cs.P, cs.A, 1))
	if err != nil {
		return viol("single/merge-error/"+r, "Merge into empty sketch: %v", err), ""
	}
	bd := marshal(d)
	if err := s.Merge(build(cs.P, cs.A, 1)); err != nil {
		return viol("single/merge-error/"+r, "Merge with equal sketch: %v", err), ""
	}
	if bs := marshal(s); !bytes.Equal(bs, bd) {
		return viol("single/idempotent/"+r, "p=%d keys %v: s.Merge(s') differs from s merged into an empty sketch: %x vs %x", cs.P, cs.A, bs, bd), ""
	}
	if err := s.Merge(s); err != nil || !bytes.Equal(marshal(s), bd) {
		return viol("single/idempotent-self/"+r, "p=%d keys %v: s.Merge(s) changed the sketch (err %v): %x vs %x", cs.P, cs.A, err, marshal(s), bd), ""
	}
	du, err := dense(cs.P, u)
	if err != nil || !bytes.Equal(marshal(du), bd) {
		return viol("single/unmarshalled-sketch-merges-differently/"+r, "p=%d keys %v: merging the unmarshalled copy gives %x, the original %x (err %v)", cs.P, cs.A, marshal(du), bd, err), ""
	}
	return nil, fmt.Sprintf("single:p=%d,%s,err%s", cs.P, r, sigmas(cs.P, n, c0))
}

// ---- pair
func execPair(cs *Case) (*V, string) {
	p := cs.P
	ra, rb := repr(marshal(build(p, cs.A, 1))), repr(marshal(build(p, cs.B, 1)))
	feat := ra + "+" + rb
	x, y := build(p, cs.A, 1), build(p, cs.B, 1)
	cy := build(p, cs.B, 1).Count()
	if err := x.Merge(y); err != nil {
		return viol("pair/merge-error/"+feat, "A.Merge(B): %v", err), ""
	}
	bxy, cxy := marshal(x), x.Count()
	if c := y.Count(); c != cy {
		return viol("pair/merge-modifies-operand/"+feat, "p=%d A=%v B=%v: B.Count() was %d, after A.Merge(B) %d", p, cs.A, cs.B, cy, c), ""
	}
	x2, y2 := build(p, cs.B, 1), build(p, cs.A, 1)
	if err := x2.Merge(y2); err != nil {
		return viol("pair/merge-error/"+feat, "B.Merge(A): %v", err), ""
	}
	if byx := marshal(x2); !bytes.Equal(bxy, byx) {
		return viol("pair/commutative-registers/"+feat, "p=%d A=%v B=%v: A.Merge(B)=%x but B.Merge(A)=%x", p, cs.A, cs.B, bxy, byx), ""
	}
	if c := x2.Count(); c != cxy {
		return viol("pair/commutative-count/"+feat, "p=%d A=%v B=%v: Count %d vs %d", p, cs.A, cs.B, cxy, c), ""
	}
	// idempotent: merging B or A again changes nothing
	if err := x.Merge(build(p, cs.B, 1)); err != nil || !bytes.Equal(marshal(x), bxy) {
		return viol("pair/idempotent/"+feat, "p=%d A=%v B=%v: (A+B).Merge(B) changed the sketch (err %v)", p, cs.A, cs.B, err), ""
	}
	if err := x.Merge(build(p, cs.A, 1)); err != nil || !bytes.Equal(marshal(x), bxy) {
		return viol("pair/idempotent/"+feat, "p=%d A=%v B=%v: (A+B).Merge(A) changed the sketch (err %v)", p, cs.A, cs.B, err), ""
	}
	// the merged sketch is the sketch of the union
	un := union(cs.A, cs.B)
	du, err := dense(p, build(p, un, 1))
	if err != nil {
		return viol("pair/merge-error/"+feat, "merge of union sketch: %v", err), ""
	}
	if bu := marshal(du); !bytes.Equal(bu, bxy) {
		return viol("pair/merged-is-not-sketch-of-union/"+feat, "p=%d A=%v B=%v: A.Merge(B)=%x, sketch built from the union=%x", p, cs.A, cs.B, bxy, bu), ""
	}
	// marshal round trip of the merged sketch
	u, err := unmarshal(bxy)
	if err != nil || u.Count() != cxy {
		return viol("pair/marshal-roundtrip-count/"+feat, "p=%d A=%v B=%v: merged Count()=%d, after round trip %d (err %v)", p, cs.A, cs.B, cxy, u.Count(), err), ""
	}
	return nil, fmt.Sprintf("pair:p=%d,%s,err%s", p, feat, sigmas(p, len(un), cxy))
}

// ---- triple: every merge order and both associations give the sketch of the union
func execTriple(cs *Case) (*V, string) {
	p := cs.P
	sets := [][]int{cs.A, cs.B, cs.C}
	du, err := dense(p, build(p, union(cs.A, cs.B, cs.C), 1))
	if err != nil {
		return viol("triple/merge-error", "%v", err), ""
	}
	want := marshal(du)
	nd := 0
	for _, s := range sets {
		if repr(marshal(build(p, s, 1))) == "dense" {
			nd++
		}
	}
	feat := fmt.Sprintf("dense-operands=%d", nd)
	perms := [][3]int{{0, 1, 2}, {0, 2, 1}, {1, 0, 2}, {1, 2, 0}, {2, 0, 1}, {2, 1, 0}}
	for _, pm := range perms {
		// left: (x+y)+z
		l := build(p, sets[pm[0]], 1)
		if err := l.Merge(build(p, sets[pm[1]], 1)); err != nil {
			return viol("triple/merge-error", "%v", err), ""
		}
		if err := l.Merge(build(p, sets[pm[2]], 1)); err != nil {
			return viol("triple/merge-error", "%v", err), ""
		}
		// right: x+(y+z)
		yz := build(p, sets[pm[1]], 1)
		if err := yz.Merge(build(p, sets[pm[2]], 1)); err != nil {
			return viol("triple/merge-error", "%v", err), ""
		}
		r := build(p, sets[pm[0]], 1)
		if err := r.Merge(yz); err != nil {
			return viol("triple/merge-error", "%v", err), ""
		}
		bl, br := marshal(l), marshal(r)
		if !bytes.Equal(bl, br) {
			return viol("triple/associative/"+feat, "p=%d order %v of A=%v B=%v C=%v: (x+y)+z=%x, x+(y+z)=%x", p, pm, cs.A, cs.B, cs.C, bl, br), ""
		}
		if l.Count() != r.Count() {
			return viol("triple/associative-count/"+feat, "p=%d order %v: counts %d vs %d", p, pm, l.Count(), r.Count()), ""
		}
		if !bytes.Equal(bl, want) {
			return viol("triple/merged-is-not-sketch-of-union/"+feat, "p=%d order %v of A=%v B=%v C=%v: merged=%x, sketch of union=%x", p, pm, cs.A, cs.B, cs.C, bl, want), ""
		}
	}
	n := len(union(cs.A, cs.B, cs.C))
	c := du.Count()
	return nil, fmt.Sprintf("triple:p=%d,%s,err%s", p, feat, sigmas(p, n, c))
}

// ---- state: Merge for every (receiver state) x (argument state), both directions

func mkOperand(p uint8, o *Operand) *hll.Plus {
	h := newPlus(p)
	add := func(ks []int) {
		for _, k := range ks {
			h.Add(key(k))
		}
	}
	switch o.Kind {
	case "sparse-flushed":
		add(o.K1)
		h.Count()
	case "sparse-pending":
		add(o.K1)
	case "sparse-mixed":
		add(o.K1)
		h.Count()
		add(o.K2)
	case "dense-merged", "dense-merged+adds":
		if err := h.Merge(build(p, o.K1, 1)); err != nil {
			panic(err)
		}
		add(o.K2)
	case "dense-grown":
		for i := 0; i < o.Big; i++ {
			h.Add(ladderKey(1, i))
		}
		add(o.K1)
	default:
		panic("harness: unknown operand kind " + o.Kind)
	}
	return h
}

// stateOf observes the representation without flushing it.
func stateOf(h *hll.Plus) string {
	switch {
	case !hll.VerifC35Sparse(h):
		return "dense"
	case hll.VerifC35Pending(h) > 0:
		return "sparse-pending"
	}
	return "sparse-flushed"
}

// unionSketch is the registers-only sketch built by adding every key of the operands to one fresh sketch.
func unionSketch(p uint8, ops ...*Operand) (*hll.Plus, error) {
	h := newPlus(p)
	big := 0
	for _, o := range ops {
		if o.Big > big {
			big = o.Big
		}
	}
	for i := 0; i < big; i++ {
		h.Add(ladderKey(1, i))
	}
	for _, o := range ops {
		for _, k := range union(o.K1, o.K2) {
			h.Add(key(k))
		}
	}
	return dense(p, h)
}

func addUniverse(h *hll.Plus) {
	for i := 0; i < universe; i++ {
		h.Add(key(i))
	}
}

func execState(cs *Case) (*V, string) {
	p := cs.P
	if cs.X == nil || cs.Y == nil {
		return &V{"harness/state-case-without-operands", ""}, ""
	}
	du, err := unionSketch(p, cs.X, cs.Y)
	if err != nil {
		return viol("state/merge-error/union", "merge of the union sketch into an empty sketch: %v", err), ""
	}
	want, cwant := marshal(du), du.Count()
	var feats [2]string
	for dir, rc := range [2][2]*Operand{{cs.X, cs.Y}, {cs.Y, cs.X}} {
		ro, ao := rc[0], rc[1]
		x, y := mkOperand(p, ro), mkOperand(p, ao)
		feat := "recv=" + stateOf(x) + ",arg=" + stateOf(y)
		feats[dir] = feat
		desc := fmt.Sprintf("p=%d receiver %s k1=%v k2=%v big=%d (%s) <- argument %s k1=%v k2=%v big=%d (%s)", p,
			ro.Kind, ro.K1, ro.K2, ro.Big, stateOf(x), ao.Kind, ao.K1, ao.K2, ao.Big, stateOf(y))
		yref := mkOperand(p, ao)
		by0, cy0 := marshal(yref), yref.Count()
		if err := x.Merge(y); err != nil {
			return viol("state/merge-error/"+feat, "%s: Merge: %v", desc, err), ""
		}
		bxy, cxy := marshal(x), x.Count()
		if !bytes.Equal(bxy, want) {
			return viol("state/merged-is-not-sketch-of-union/"+feat, "%s: merged sketch differs from the sketch built from the union of the keys (Count %d vs %d; %s)", desc, cxy, cwant, firstDiff(bxy, want)), ""
		}
		if cxy != cwant {
			return viol("state/merged-count-differs-from-union/"+feat, "%s: merged Count()=%d, sketch of the union %d", desc, cxy, cwant), ""
		}
		if by, cy := marshal(y), y.Count(); !bytes.Equal(by, by0) || cy != cy0 {
			return viol("state/merge-modifies-operand/"+feat, "%s: the argument changed (Count %d -> %d; %s)", desc, cy0, cy, firstDiff(by, by0)), ""
		}
		// the merged sketch and its argument share no storage: adds to one do not show in the other
		addUniverse(x)
		if by := marshal(y); !bytes.Equal(by, by0) {
			return viol("state/result-aliases-operand/"+feat, "%s: adding keys to the merged sketch changed the argument (%s)", desc, firstDiff(by, by0)), ""
		}
		bx := marshal(x)
		addUniverse(y)
		if bx2 := marshal(x); !bytes.Equal(bx2, bx) {
			return viol("state/operand-aliases-result/"+feat, "%s: adding keys to the argument after the merge changed the merged sketch (%s)", desc, firstDiff(bx2, bx)), ""
		}
	}
	if feats[1] < feats[0] {
		feats[0], feats[1] = feats[1], feats[0]
	}
	return nil, fmt.Sprintf("state:p=%d,%s|%s", p, feats[0], feats[1])
}

// stateOperands: every recipe over the key-set family sets (mixed recipes split a set in two halves).
func stateOperands(p uint8, sets [][]int) []*Operand {
	var out []*Operand
	for _, s := range sets {
		for _, k := range []string{"sparse-flushed", "sparse-pending", "dense-merged"} {
			out = append(out, &Operand{Kind: k, K1: s})
		}
		if len(s) >= 2 {
			h := (len(s) + 1) / 2
			for _, k := range []string{"sparse-mixed", "dense-merged+adds"} {
				out = append(out, &Operand{Kind: k, K1: s[:h], K2: s[h:]})
			}
		}
	}
	for _, s := range [][]int{{}, {0}, rng(20, 24)} {
		out = append(out, &Operand{Kind: "dense-grown", Big: 2 << p, K1: s})
	}
	return out
}

// ---- own: ownership / aliasing of the marshalled bytes, of restored, merged and cloned sketches
//
// A sketch o (an Operand recipe) is marshalled; the bytes are the caller's buffer buf. Two sketches r1 and r2 are
// restored from the same buf with UnmarshalBinary. Then a sequence of steps runs; nothing is observed in between, the
// oracle is judged once at the end (every prefix of a sequence is a case of its own, so the shortest failing
// sequence is reported and un-flushed sparse state survives from one step to the next).
//
// Reference world: every real sketch has a twin that is built from the same recipe, marshalled once (MarshalBinary
// flushes pending sparse values, the restored sketches start from that state) and receives the same Add / Merge calls,
// but never went through UnmarshalBinary or Clone and never saw a caller's buffer. The buffer has a model copy that
// receives only the harness' own writes.

// ownSteps is the step alphabet. o = the original sketch, r1 r2 = the sketches restored from buf, c = the clone of r1,
// ze zs zd = a fresh empty / small sparse / dense sketch of keys nobody else has.
var ownSteps = []string{
	"buf=00", "buf=ff", "buf=other", // the caller rewrites its buffer: zeroes, 0xff, the bytes of another sketch
	"add(o)", "add(r1)", "add(r2)", // 16 new keys
	"r1.merge(zs)", "r1.merge(zd)", "r2.merge(zs)", "r2.merge(zd)", // merge another sketch into a restored one
	"ze.merge(r1)", "zs.merge(r1)", "ze.merge(r2)", "zs.merge(r2)", // merge a restored one into another, then add 16 keys to the result
	"c=r1.clone", "add(c)",
}

// ownSeqs returns every valid step sequence of exactly the given length, in alphabet order: c is cloned at most
// once and only used after it exists.
func ownSeqs(length int) [][]string {
	var out [][]string
	var rec func(cur []string, cloned bool)
	rec = func(cur []string, cloned bool) {
		if len(cur) == length {
			out = append(out, append([]string(nil), cur...))
			return
		}
		for _, s := range ownSteps {
			if (s == "add(c)" && !cloned) || (s == "c=r1.clone" && cloned) {
				continue
			}
			rec(append(cur, s), cloned || s == "c=r1.clone")
		}
	}
	rec(nil, false)
	return out
}

// addFam0 adds the keys [from,to) of ladder family 0 (disjoint from the 24-key universe and from the family-1 keys
// of the dense-grown recipe).
func addFam0(h *hll.Plus, from, to int) {
	for i := from; i < to; i++ {
		h.Add(fam0Keys[i])
	}
}

// fam0Keys: the family-0 keys the own family uses (step position j uses [1000(j+1), 1000(j+1)+316)).
var fam0Keys = func() [][]byte {
	out := make([][]byte, 6000)
	for i := range out {
		out[i] = ladderKey(0, i)
	}
	return out
}()

// mkZ builds the other sketch of a merge step; base makes the keys of every step position distinct.
func mkZ(p uint8, kind string, base int) *hll.Plus {
	h := newPlus(p)
	switch kind {
	case "ze":
	case "zs":
		addFam0(h, base+100, base+102)
	case "zd":
		src := newPlus(p)
		addFam0(src, base+104, base+136)
		if err := h.Merge(src); err != nil {
			panic(err)
		}
	default:
		panic("harness: unknown z kind " + kind)
	}
	return h
}

// otherRecord is the marshalled sketch the caller reads into its buffer next: same precision, same representation
// as the first record (a dense record has the same length), different keys.
func otherRecord(p uint8, dense bool) []byte {
	h := newPlus(p)
	if dense {
		src := newPlus(p)
		addFam0(src, 200, 232)
		if err := h.Merge(src); err != nil {
			panic(err)
		}
	} else {
		addFam0(h, 200, 202)
	}
	return marshal(h)
}

// ownDesc describes a case in violation messages (formatted only when needed).
type ownDesc struct {
	cs *Case
	rp string
	n  int
	c0 uint64
}

func (d ownDesc) String() string {
	return fmt.Sprintf("p=%d %s k1=%v k2=%v big=%d marshalled (%s, %d bytes, Count %d), buffer layout %s, r1 and r2 restored from the same bytes, then %v", d.cs.P,
		d.cs.X.Kind, d.cs.X.K1, d.cs.X.K2, d.cs.X.Big, d.rp, d.n, d.c0, d.cs.Layout, d.cs.Steps)
}

type ownSketch struct {
	name     string
	real     *hll.Plus
	twin     *hll.Plus // built lazily at the first step that needs it; nil = never touched
	mutated  bool
	hist     []func(*hll.Plus) error
	existing bool
}

func execOwn(cs *Case) (*V, string) {
	p := cs.P
	if cs.X == nil {
		return &V{"harness/own-case-without-operand", ""}, ""
	}
	newTwin := func(hist []func(*hll.Plus) error) *hll.Plus {
		t := mkOperand(p, cs.X)
		marshal(t)
		for _, op := range hist {
			if err := op(t); err != nil {
				panic(err)
			}
		}
		return t
	}
	o := &ownSketch{name: "the original sketch", real: mkOperand(p, cs.X), existing: true}
	ret := marshal(o.real)
	c0 := o.real.Count()
	pristine := append([]byte(nil), ret...)
	rp := repr(pristine)
	n := len(pristine)
	// the caller's buffer
	var arena []byte
	off := 0
	switch cs.Layout {
	case "returned": // the slice MarshalBinary returned
		arena = ret[:n:n]
	case "arena": // a copy inside a larger buffer (a stream reader's scratch space), sentinels before and after
		arena = bytes.Repeat([]byte{0xa5}, n+16)
		off = 8
		copy(arena[off:], pristine)
	default:
		return &V{"harness/own-unknown-layout", cs.Layout}, ""
	}
	buf := arena[off : off+n]
	model := append([]byte(nil), arena...)
	scribbled := false
	sig := func(clause string) string {
		s := "own/" + clause + "/" + rp + "/buffer-left-alone"
		if scribbled {
			s = "own/" + clause + "/" + rp + "/buffer-rewritten-by-caller"
		}
		return s
	}
	desc := ownDesc{cs, rp, n, c0}

	r1 := &ownSketch{name: "r1", real: new(hll.Plus), existing: true}
	r2 := &ownSketch{name: "r2", real: new(hll.Plus), existing: true}
	for _, r := range []*ownSketch{r1, r2} {
		if err := r.real.UnmarshalBinary(buf); err != nil {
			return viol(sig("unmarshal-error"), "%s: UnmarshalBinary(MarshalBinary()) failed: %v", desc, err), ""
		}
	}
	cl := &ownSketch{name: "c (clone of r1)"}
	byName := map[string]*ownSketch{"o": o, "r1": r1, "r2": r2, "c": cl}
	type pair struct {
		clause, what string
		real, twin   *hll.Plus
	}
	var pairs []pair
	needTwin := func(x *ownSketch) {
		if x.twin == nil {
			x.twin = newTwin(x.hist)
		}
	}
	mutate := func(x *ownSketch, op func(*hll.Plus) error) error {
		needTwin(x)
		if err := op(x.real); err != nil {
			return err
		}
		if err := op(x.twin); err != nil {
			panic(err)
		}
		x.hist = append(x.hist, op)
		x.mutated = true
		return nil
	}
	fill := func(b []byte, v byte) {
		for i := range b {
			b[i] = v
		}
	}
	for j, st := range cs.Steps {
		base := 1000 * (j + 1)
		switch st {
		case "buf=00", "buf=ff":
			v := byte(0)
			if st == "buf=ff" {
				v = 0xff
			}
			fill(buf, v)
			fill(model[off:off+n], v)
			scribbled = true
		case "buf=other":
			w := otherRecord(p, rp == "dense")
			copy(buf, w)
			copy(model[off:off+n], w)
			scribbled = true
		case "add(o)", "add(r1)", "add(r2)", "add(c)":
			x := byName[st[4:len(st)-1]]
			if !x.existing {
				return &V{"harness/own-step-on-missing-sketch", st}, ""
			}
			mutate(x, func(h *hll.Plus) error { addFam0(h, base, base+16); return nil })
		case "r1.merge(zs)", "r1.merge(zd)", "r2.merge(zs)", "r2.merge(zd)":
			x, kind := byName[st[:2]], st[9:11]
			z := mkZ(p, kind, base)
			first := true
			err := mutate(x, func(h *hll.Plus) error {
				if first { // the real sketch gets the z that is inspected afterwards, twins get their own
					first = false
					return h.Merge(z)
				}
				return h.Merge(mkZ(p, kind, base))
			})
			if err != nil {
				return viol(sig("merge-error"), "%s: step %d %s: %v", desc, j, st, err), ""
			}
			pairs = append(pairs, pair{"merge-modifies-argument", fmt.Sprintf("the argument %s of step %d", kind, j), z, mkZ(p, kind, base)})
		case "ze.merge(r1)", "zs.merge(r1)", "ze.merge(r2)", "zs.merge(r2)":
			x, kind := byName[st[9:11]], st[:2]
			needTwin(x)
			z, zt := mkZ(p, kind, base), mkZ(p, kind, base)
			if err := z.Merge(x.real); err != nil {
				return viol(sig("merge-error"), "%s: step %d %s: %v", desc, j, st, err), ""
			}
			if err := zt.Merge(x.twin); err != nil {
				panic(err)
			}
			addFam0(z, base+300, base+316)
			addFam0(zt, base+300, base+316)
			pairs = append(pairs, pair{"merge-result-differs", fmt.Sprintf("the receiver %s of step %d (after adding 16 keys to it)", kind, j), z, zt})
		case "c=r1.clone":
			cl.real = r1.real.Clone().(*hll.Plus)
			cl.hist = append([]func(*hll.Plus) error(nil), r1.hist...)
			cl.mutated = r1.mutated
			cl.existing = true
		default:
			return &V{"harness/own-unknown-step", st}, ""
		}
	}

	// judgement
	if !bytes.Equal(arena, model) {
		return viol(sig("buffer-modified-by-sketch-operation"), "%s: the caller's buffer changed although only sketches were operated on (%s; offset of the record in the buffer %d)", desc, firstDiff(arena, model), off), ""
	}
	visible := false
	for _, x := range []*ownSketch{r1, r2, o, cl} {
		if !x.existing {
			continue
		}
		b, cnt := marshal(x.real), x.real.Count()
		clause := "restored-sketch-differs"
		switch x {
		case o:
			clause = "original-sketch-changed"
		case cl:
			clause = "clone-differs"
		}
		if !x.mutated {
			// nothing was done to this sketch: it is the sketch that was marshalled
			if !bytes.Equal(b, pristine) || cnt != c0 {
				return viol(sig(clause+"/untouched"), "%s: %s was not operated on but no longer equals the sketch at marshal time: Count %d, was %d; MarshalBinary %s", desc, x.name, cnt, c0, firstDiff(b, pristine)), ""
			}
			continue
		}
		needTwin(x)
		tb, tcnt := marshal(x.twin), x.twin.Count()
		if !bytes.Equal(b, tb) || cnt != tcnt {
			return viol(sig(clause+"/operated-on"), "%s: %s differs from the same recipe and operations on a sketch that never went through UnmarshalBinary/Clone: Count %d vs %d; MarshalBinary %s", desc, x.name, cnt, tcnt, firstDiff(b, tb)), ""
		}
		visible = visible || !bytes.Equal(b, pristine)
	}
	for _, pr := range pairs {
		b, cnt := marshal(pr.real), pr.real.Count()
		tb, tcnt := marshal(pr.twin), pr.twin.Count()
		if !bytes.Equal(b, tb) || cnt != tcnt {
			return viol(sig(pr.clause), "%s: %s differs from the reference: Count %d vs %d; MarshalBinary %s", desc, pr.what, cnt, tcnt, firstDiff(b, tb)), ""
		}
	}
	if !bytes.Equal(arena, model) {
		return viol(sig("buffer-modified-by-sketch-observation"), "%s: Count()/MarshalBinary() of the sketches changed the caller's buffer (%s)", desc, firstDiff(arena, model)), ""
	}
	return nil, fmt.Sprintf("own:%s,steps=%d,caller-rewrote-buffer=%v,mutation-visible=%v", rp, len(cs.Steps), scribbled, visible)
}

// ownOperands: the sketches that are marshalled in the own family (every recipe kind of the state family).
func ownOperands(p uint8, more bool) []*Operand {
	sets := [][]int{{}, {0}, {0, 1}, rng(0, 4), rng(4, 9), rng(0, 12), rng(0, 24)}
	if more {
		sets = append(sets, []int{5}, []int{2, 7}, rng(0, 3), rng(9, 16), rng(12, 24))
	}
	return stateOperands(p, sets)
}

// ---- ladder: (precision, n) enumeration of the error bound, round trip and split-merge at checkpoints

// checkpoints returns the ascending n values at which a ladder is observed.
func checkpoints(p uint8, thorough bool) []int {
	m := 1 << p
	set := map[int]bool{}
	dense := 64
	step := m / 16
	if thorough {
		dense = 4096
		step = m / 64
	}
	if step < 1 {
		step = 1
	}
	for n := 0; n <= 3*m; n++ {
		if n <= dense || n%step == 0 {
			set[n] = true
		}
	}
	out := make([]int, 0, len(set))
	for n := range set {
		out = append(out, n)
	}
	sort.Ints(out)
	return out
}

// splitPoint: at these n the sketch of the first half merged with the sketch of the second half is compared
// with the sketch of all n keys.
func splitPoint(p uint8, n int) bool {
	m := 1 << p
	if n == 0 {
		return false
	}
	if p <= 8 {
		return n <= 64 || n%(m/4) == 0
	}
	return n == m/64 || n == m/8 || n == m/2 || n == m || n == 2*m || n == 3*m
}

// ladder runs one (p, key family) ladder up to upTo and calls visit at each checkpoint until visit returns false.
func ladder(p uint8, fam, upTo int, thorough bool, visit func(n int, v *V, outcome string) bool) {
	h := newPlus(p)
	added := 0
	for _, n := range checkpoints(p, thorough) {
		if n > upTo {
			return
		}
		for ; added < n; added++ {
			h.Add(ladderKey(fam, added))
		}
		v, o := ladderCheck(p, fam, n, h)
		if !visit(n, v, o) {
			return
		}
	}
}

// pclass separates the production precision (hll.DefaultPrecision = 16, the only one the repo constructs) from the
// others; 4..7 and 8..15 are kept apart because the unchanged tree is within the bound for 4..7.
func pclass(p uint8) string {
	switch {
	case p < 8:
		return "p=4..7"
	case p < hll.DefaultPrecision:
		return "p=8..15"
	case p > hll.DefaultPrecision:
		return "p=17..18"
	}
	return "p=16"
}

func ladderCheck(p uint8, fam, n int, h *hll.Plus) (*V, string) {
	c := h.Count()
	b := marshal(h)
	r := repr(b)
	if !inBound(p, n, c) {
		return viol("ladder/error-bound/"+r+"/"+pclass(p), "p=%d key family %d n=%d: Count()=%d, error %+.0f = %+.1f standard errors, exceeds 3*1.04/sqrt(m)*n+0.5=%.2f", p, fam, n, c, float64(c)-float64(n), nsig(p, n, c), bound(p, n)), ""
	}
	u, err := unmarshal(b)
	if err != nil {
		return viol("ladder/unmarshal-error/"+r, "p=%d n=%d: %v", p, n, err), ""
	}
	if cu := u.Count(); cu != c {
		return viol("ladder/marshal-roundtrip-count/"+r, "p=%d key family %d n=%d: Count()=%d, after marshal->unmarshal %d", p, fam, n, c, cu), ""
	}
	// the sketch merged into an empty sketch (a one-leaf merge tree; always the dense representation)
	d, err := dense(p, u)
	if err != nil {
		return viol("ladder/merge-error", "p=%d n=%d: %v", p, n, err), ""
	}
	if cd := d.Count(); !inBound(p, n, cd) {
		return viol("ladder/error-bound-after-merge/"+pclass(p), "p=%d key family %d n=%d: Count() of the sketch merged into an empty sketch=%d (before the merge %d, %s), error %+.1f standard errors, exceeds 3*1.04/sqrt(m)*n+0.5=%.2f", p, fam, n, cd, c, r, nsig(p, n, cd), bound(p, n)), ""
	}
	if splitPoint(p, n) {
		// the operands are merged as they are after their last Add (pending sparse entries not yet flushed by
		// Count/MarshalBinary), in both directions
		halves := func() (lo, hi *hll.Plus) {
			lo, hi = newPlus(p), newPlus(p)
			for i := 0; i < n; i++ {
				if i < n/2 {
					lo.Add(ladderKey(fam, i))
				} else {
					hi.Add(ladderKey(fam, i))
				}
			}
			return
		}
		bd := marshal(d)
		for dir := 0; dir < 2; dir++ {
			x, y := halves()
			if dir == 1 {
				x, y = y, x
			}
			if err := x.Merge(y); err != nil {
				return viol("ladder/merge-error", "p=%d n=%d: %v", p, n, err), ""
			}
			ry := repr(marshal(y))
			if bx := marshal(x); !bytes.Equal(bx, bd) {
				return viol("ladder/merged-halves-differ-from-whole/operand-"+ry, "p=%d key family %d n=%d direction %d: sketch(one half).Merge(sketch(other half)) differs from the sketch of all keys (Count %d vs %d; %s)", p, fam, n, dir, x.Count(), d.Count(), firstDiff(bx, bd)), ""
			}
		}
		return nil, fmt.Sprintf("ladder:%s,split,err%s", r, sigmas(p, n, c))
	}
	return nil, fmt.Sprintf("ladder:%s,err%s", r, sigmas(p, n, c))
}

func firstDiff(a, b []byte) string {
	if len(a) != len(b) {
		return fmt.Sprintf("lengths %d vs %d", len(a), len(b))
	}
	for i := range a {
		if a[i] != b[i] {
			return fmt.Sprintf("first difference at byte %d: %d vs %d", i, a[i], b[i])
		}
	}
	return "equal"
}

func execLadder(cs *Case) (v *V, outcome string) {
	ladder(cs.P, cs.KeyFam, cs.N, cs.Thorough, func(n int, vv *V, o string) bool {
		if n == cs.N {
			v, outcome = vv, o
			return false
		}
		return true
	})
	return
}

func exec(cs *Case) (v *V, outcome string) {
	p, d := vlib.Guard(func() {
		switch cs.Fam {
		case "single":
			v, outcome = execSingle(cs)
		case "pair":
			v, outcome = execPair(cs)
		case "triple":
			v, outcome = execTriple(cs)
		case "ladder":
			v, outcome = execLadder(cs)
		case "state":
			v, outcome = execState(cs)
		case "own":
			v, outcome = execOwn(cs)
		default:
			v = &V{"harness/unknown-family", cs.Fam}
		}
	})
	if p {
		frame := d
		for i := len(d) - 2; i >= 0; i-- {
			if d[i] == '@' {
				frame = d[i+2:]
				break
			}
		}
		return &V{cs.Fam + "/panic/" + frame, d}, ""
	}
	return
}

// ---- key-set families over the 24-key universe

func subsets(n, maxSize int) [][]int {
	out := [][]int{{}}
	var rec func(start int, cur []int)
	for size := 1; size <= maxSize; size++ {
		rec = func(start int, cur []int) {
			if len(cur) == size {
				out = append(out, append([]int(nil), cur...))
				return
			}
			for i := start; i < n; i++ {
				rec(i+1, append(cur, i))
			}
		}
		rec(0, nil)
	}
	return out
}

func exactly(sets [][]int, size int) [][]int {
	var out [][]int
	for _, s := range sets {
		if len(s) == size {
			out = append(out, s)
		}
	}
	return out
}

func rng(i, j int) []int {
	out := make([]int, 0, j-i)
	for k := i; k < j; k++ {
		out = append(out, k)
	}
	return out
}

// ranges: every contiguous run [i,j) of the universe with at least minLen keys (long runs reach the dense form).
func ranges(minLen int) [][]int {
	var out [][]int
	for l := minLen; l <= universe; l++ {
		for i := 0; i+l <= universe; i++ {
			out = append(out, rng(i, i+l))
		}
	}
	return out
}

func run(c *vlib.Ctx) {
	var idx int64
	one := func(cs Case, nontrivial bool) {
		idx++
		if !c.Mine(idx) {
			return
		}
		v, o := exec(&cs)
		c.Eval(1)
		if v != nil {
			c.Violation(v.Sig, v.Msg, cs)
			c.Outcome(cs.Fam + ":VIOLATION")
			return
		}
		c.Outcome(o)
		if nontrivial {
			c.NontrivialN(1)
			if c.WantSample() && idx%11 == 0 {
				c.Sample(map[string]any{"case": cs, "outcome": o})
			}
		}
	}
	expired := func(what string) bool {
		if c.Expired() {
			c.Cap("budget expired in " + what)
			return true
		}
		return false
	}

	if c.NShards > 1 {
		runtime.GOMAXPROCS(2)
	}
	debug.SetGCPercent(400)
	t0 := time.Now()
	lap := func(what string) { c.Logf("shard %d: %s done at %.1fs", c.Shard, what, time.Since(t0).Seconds()) }
	ps := []uint8{4}
	if c.Thorough() {
		ps = []uint8{4, 5}
	}
	s2 := subsets(universe, 2)
	rg := ranges(4)
	F2 := append(append([][]int{}, s2...), rg...)
	for _, p := range ps {
		big := c.Thorough() && p == 4 // the larger families; precision 5 repeats the pair family with the quick triples
		// singles: every subset up to size 4 and every range
		for _, a := range append(subsets(universe, 4), rg...) {
			one(Case{Fam: "single", P: p, A: a}, len(a) > 0)
		}
		lap("singles")
		// pairs
		F := F2
		if c.Thorough() {
			F = append(subsets(universe, 3), rg...)
		}
		for i, a := range F {
			if expired("pairs") {
				return
			}
			for _, b := range F[i:] {
				one(Case{Fam: "pair", P: p, A: a, B: b}, len(a) > 0 && len(b) > 0)
			}
		}
		if big {
			for _, a := range exactly(subsets(universe, 4), 4) {
				if expired("pairs with subsets of size 4") {
					return
				}
				for _, b := range F2 {
					one(Case{Fam: "pair", P: p, A: a, B: b}, len(b) > 0)
				}
			}
		}
		lap("pairs")
		// triples
		G := append([][]int{}, subsets(universe, 1)...)
		for _, r := range rg {
			l := len(r)
			if big && r[0]%4 == 0 && (l == 4 || l == 6 || l == 8 || l == 12 || l == 16 || l == 24) {
				G = append(G, r)
			} else if !big && r[0]%8 == 0 && (l == 4 || l == 8 || l == 16 || l == 24) {
				G = append(G, r)
			}
		}
		if big {
			G = append(G, exactly(subsets(10, 2), 2)...)
		}
		for _, a := range G {
			if expired("triples") {
				return
			}
			for _, b := range G {
				for _, cc := range G {
					one(Case{Fam: "triple", P: p, A: a, B: b, C: cc}, len(a) > 0 && len(b) > 0 && len(cc) > 0)
				}
			}
		}
	}
	lap("triples")
	// state: every unordered pair of operand recipes, merged in both directions. Precision 4 (5, 6) cannot hold a
	// pending value (m/100 < 1: every Add flushes); 7, 8, 9 hold at most 1, 2, 5.
	sps := []uint8{4, 7, 8, 9}
	ssets := subsets(8, 2)
	if c.Thorough() {
		sps = []uint8{4, 5, 6, 7, 8, 9, 10, 11, 12}
		ssets = subsets(8, 3)
	}
	ssets = append(ssets, rng(0, 3), rng(0, 4), rng(4, 9), rng(9, 16), rng(0, 12), rng(0, 24))
	nkeys := func(o *Operand) int { return o.Big + len(o.K1) + len(o.K2) }
	for _, p := range sps {
		ops := stateOperands(p, ssets)
		for i, x := range ops {
			if expired("state") {
				return
			}
			for _, y := range ops[i:] {
				one(Case{Fam: "state", P: p, X: x, Y: y}, nkeys(x) > 0 && nkeys(y) > 0)
			}
		}
	}
	lap("state")
	// own: every valid step sequence up to the depth bound, shortest first, for every precision, buffer layout and
	// marshalled sketch recipe
	type ownCfg struct {
		p       uint8
		depth   int
		moreOps bool
	}
	ocfg := []ownCfg{{4, 3, false}, {7, 3, false}, {8, 2, false}, {9, 2, false}, {hll.DefaultPrecision, 1, false}}
	if c.Thorough() {
		ocfg = []ownCfg{{4, 4, false}, {7, 4, false}, {5, 3, true}, {6, 3, true}, {8, 3, true}, {9, 3, true}, {10, 3, true}, {11, 3, true}, {12, 3, true}, {hll.DefaultPrecision, 2, false}}
	}
	maxDepth := 0
	for _, cf := range ocfg {
		if cf.depth > maxDepth {
			maxDepth = cf.depth
		}
	}
own:
	for d := 0; d <= maxDepth; d++ {
		seqs := ownSeqs(d)
		for _, cf := range ocfg {
			if d > cf.depth {
				continue
			}
			for _, layout := range []string{"returned", "arena"} {
				for _, op := range ownOperands(cf.p, cf.moreOps) {
					if expired(fmt.Sprintf("own at depth %d", d)) {
						break own
					}
					for _, sq := range seqs {
						one(Case{Fam: "own", P: cf.p, X: op, Layout: layout, Steps: sq}, d > 0)
					}
				}
			}
		}
	}
	lap("own")
	defer lap("ladders")
	// ladders: one unit of work per (p, key family)
	for p := uint8(4); p <= 18; p++ {
		for fam := 0; fam < 2; fam++ {
			idx++
			if !c.Mine(idx) {
				continue
			}
			ladder(p, fam, 3<<p, c.Thorough(), func(n int, v *V, o string) bool {
				c.Eval(1)
				if v != nil {
					c.Violation(v.Sig, v.Msg, Case{Fam: "ladder", P: p, KeyFam: fam, N: n, Thorough: c.Thorough()})
					c.Outcome("ladder:VIOLATION")
				} else {
					c.Outcome(o)
				}
				if n > 0 {
					c.NontrivialN(1)
				}
				if n&0xff == 0 && c.Expired() {
					c.Cap(fmt.Sprintf("budget expired in ladder p=%d at n=%d", p, n))
					return false
				}
				return true
			})
		}
	}
}

func replay(c *vlib.Ctx, raw json.RawMessage) (bool, string) {
	var cs Case
	if err := json.Unmarshal(raw, &cs); err != nil {
		return false, err.Error()
	}
	v, o := exec(&cs)
	if v != nil {
		return true, v.Sig + ": " + v.Msg
	}
	return false, "no violation; outcome " + o
}

func TestCheck(t *testing.T) {
	vlib.Main(t, &vlib.Check{
		ID: "C35", Level: "exploration",
		Rule: "hll.Plus at precision 4 (thorough: 4 with the larger families below, and 5 with the thorough pair family {size<=3} u {runs} and the quick triple family) over a universe of 24 fixed keys. " +
			"single: every key subset of size<=4 and every contiguous run of >=4 keys (runs reach the dense representation): marshal->unmarshal keeps Count (two generations), adding every key twice keeps Count, s.Merge(equal sketch) and s.Merge(s) equal s merged into an empty sketch, the unmarshalled copy merges to the same bytes. " +
			"pair: every unordered pair over {subsets of size<=2} u {runs} (thorough: {size<=3} u {runs}, plus every size-4 subset x the quick family): A.Merge(B) and B.Merge(A) marshal to the same bytes and Count, merging A or B again changes nothing, the result equals the sketch built by adding the union's keys (merged into an empty sketch), B unchanged, round trip of the merged sketch keeps Count. " +
			"triple: every ordered triple over {subsets of size<=1} u {runs starting at a multiple of 8 with length 4,8,16,24} (thorough: runs starting at a multiple of 4 with length 4,6,8,12,16,24, plus all 2-subsets of the first 10 keys): all 6 merge orders, left and right association, give the bytes of the union's sketch. " +
			"state: for precision 4, 7, 8, 9 (thorough: every precision 4..12) every unordered pair of operand recipes {sparse-flushed (Add, Count), sparse-pending (Add only: values still buffered in tmpSet), sparse-mixed (Add, Count, Add), dense-merged (result of a Merge), dense-merged+adds, dense-grown (2m ladder keys, converted by Add)} over the key sets {subsets of size<=2 (thorough <=3) of the first 8 keys} u {runs [0,3) [0,4) [4,9) [9,16) [0,12) [0,24)} (mixed recipes split a set in halves; dense-grown with 0, 1, 4 extra keys), merged in BOTH directions: the receiver's bytes and Count equal the sketch built from the union of the keys (hence both directions agree), the argument is unchanged, and adding all 24 keys to the merged sketch / to the argument afterwards does not show in the other. The representation state really reached (sparse with/without pending values, dense) is observed through read-only accessors before the merge and is the outcome class / signature feature: precision 4..6 cannot hold pending values (Add flushes when tmpSet exceeds m/100), 7, 8, 9 hold up to 1, 2, 5. " +
			"own (ownership / aliasing after marshal->unmarshal): for precision 4, 7 every step sequence of length<=3, for precision 8, 9 of length<=2 and for precision 16 of length<=1 (thorough: 4, 7 length<=4; 5, 6, 8, 9, 10, 11, 12 length<=3; 16 length<=2), for every operand recipe of the state family over the key sets {} {0} {0,1} [0,4) [4,9) [0,12) [0,24) (thorough, at the precisions with length<=3: also {5} {2,7} [0,3) [9,16) [12,24)) - sparse flushed/pending/mixed, dense by Merge, dense by Merge plus adds, dense grown by 2m Adds; the representation of the marshalled bytes is observed and is part of the outcome class / signature - and two buffer layouts (buf is the very slice MarshalBinary returned; buf is a copy inside a larger scratch buffer between sentinel bytes): o is marshalled into buf, r1 and r2 are both restored from the same buf by UnmarshalBinary(buf), then the steps run, alphabet {buf=00, buf=ff, buf=other (the caller overwrites buf with zeroes / 0xff / the marshalled bytes of a different sketch of the same representation); add(o), add(r1), add(r2), add(c) (16 keys nobody else has, different per step position); r1.merge(zs|zd), r2.merge(zs|zd) (a small sparse / a dense sketch of other keys merged into a restored sketch); ze.merge(r1|r2), zs.merge(r1|r2) (a restored sketch merged into an empty / a small sparse sketch, then 16 keys added to that receiver); c=r1.clone (at most once; add(c) only afterwards)}. Judged once at the end of the sequence (every prefix is its own case): buf and its surroundings hold exactly what the caller wrote (no sketch operation or observation writes to it); every sketch nothing was done to (o, r1, r2, c) has the Count() and MarshalBinary() bytes recorded at marshal time whatever happened to buf or to its siblings; every sketch that was added to / merged into equals, in bytes and Count, its twin (same recipe, marshalled once, same Add/Merge calls, never unmarshalled, cloned or near a caller buffer); every merge argument equals a fresh copy of itself; every receiver a restored sketch was merged into equals the receiver its twin was merged into. " +
			"ladder: for every precision 4..18 and two deterministic key families, keys are added one at a time up to 3m and at every n<=64 and every multiple of m/16 (thorough: every n<=4096 and every multiple of m/64): |Count-n| <= 3*1.04/sqrt(m)*n+0.5 for the sketch and for the sketch merged into an empty sketch (always dense), round trip keeps Count, and at split points sketch(first half).Merge(sketch(second half)) equals the sketch of all n keys. " +
			"non-trivial = all operand key sets non-empty / n>0 / own: at least one step (distinct by construction)",
		Assumptions: []string{
			"the error-bound clause is decided only for the enumerated (precision, n) ladder points of two fixed key families; 'within the bound for random multisets' is a statistical claim that bounded enumeration cannot decide. For the exhaustively enumerated key sets (precision 4/5) no numeric bound is demanded, because a worst-case key set exceeds any bound; there the clause is checked in its exact form: the merged sketch has the bytes, hence the estimate, of the sketch built from the union",
			"violation signatures separate the production precision (p=16, hll.DefaultPrecision, the only precision the repo constructs) from p=4..7, p=8..15 and p=17..18",
			"bound used: 3 standard errors (3*1.04/sqrt(m)*n) plus 0.5 because Count() is an integer",
			"sketches are compared through MarshalBinary bytes; after Merge the receiver is always in the dense representation, so equal registers give equal bytes",
			"operand sketches are rebuilt from their keys for every merge instead of being cloned",
			"own family: the reference for sketches that were operated on is a twin built with the code under test (same recipe, MarshalBinary once because the restored sketch starts from the flushed state, same Add/Merge calls) that never went through UnmarshalBinary or Clone and never shared a buffer; sketches that were not operated on are compared with plain data recorded at marshal time (bytes and Count). Demanding equal MarshalBinary bytes, not only equal Count, follows the other families (equal sketches marshal to equal bytes: the sparse form is flushed and sorted by MarshalBinary, the dense form is the register array)",
			"own family: nothing is observed between steps so that un-flushed sparse state survives from step to step; each shorter prefix is a case of its own, so the shortest failing sequence is reported. The caller's rewrite of its own buffer (buf=00/ff/other) is mirrored on a harness-side model copy; 'buffer modified' means a difference from that model",
			"state family: the oracle sketch (all keys added to one fresh sketch, merged into an empty sketch) is built with the code under test (Add, Merge into an empty receiver); the check is metamorphic, like the pair family",
		},
		QuickBudgetS: 70, ThoroughBudgetS: 800,
		Run:    run,
		Replay: replay,
	})
}
