// C34: configuration sizes and durations round-trip exactly; size suffixes mean what the
// documentation says; inputs that overflow the target type are rejected, not wrapped.
//
// Bounded-exhaustive enumeration of (a) a boundary value set through the written form
// (MarshalText / String for the 1.x types and Duration, the raw decimal integer BurntSushi/toml
// emits for the 2.x types, and a full toml Encode -> Decode of a one-field struct) and (b) every
// string <pre><sign><digits><mid><suffix><post> over the value set x every case variant of every
// suffix, against an exact math/big oracle written from the type documentation, and (c) the
// numeric-prefix alphabet: every string <pre><sign><number spelling><gap><suffix><post> where the number
// spelling ranges over EVERY string up to a length bound over the byte alphabet {0,1,5,'.',','} plus
// class representatives (exponents, hex, unicode digits, ...), judged by a reference number model and by
// a differential oracle "bare letter == the explicit unit the documentation says it stands for".
package c34

import (
	"bytes"
	"encoding"
	"encoding/json"
	"fmt"
	"math/big"
	"sort"
	"strings"
	"testing"
	"time"

	btoml "github.com/BurntSushi/toml"
	itoml "github.com/influxdata/influxdb/v2/toml"
	"verif/h/vlib"
)

// ---------------------------------------------------------------------------------------------
// big helpers

func bi(s string) *big.Int {
	v, ok := new(big.Int).SetString(s, 10)
	if !ok {
		panic("bad int " + s)
	}
	return v
}
func pow(b int64, e int) *big.Int { return new(big.Int).Exp(big.NewInt(b), big.NewInt(int64(e)), nil) }

var (
	two53     = pow(2, 53)
	maxU64    = new(big.Int).Sub(pow(2, 64), big.NewInt(1))
	maxI64    = new(big.Int).Sub(pow(2, 63), big.NewInt(1))
	minI64    = new(big.Int).Neg(pow(2, 63))
	zero      = big.NewInt(0)
	ulpShift  = uint(51) // |got-want| <= |want| / 2^51 counts as "within float64 rounding"
	suffixLtr = "kmgtpe"
)

func absBig(v *big.Int) *big.Int { return new(big.Int).Abs(v) }
func isBig(v *big.Int) bool      { return absBig(v).Cmp(two53) > 0 }
func withinUlp(got, want *big.Int) bool {
	d := absBig(new(big.Int).Sub(got, want))
	tol := new(big.Int).Rsh(absBig(want), ulpShift)
	return d.Cmp(tol) <= 0
}

// ---------------------------------------------------------------------------------------------
// adapters to the real types

type sizeType struct {
	name   string
	signed bool
	v1     bool // documented bare k/m/g meaning: true = binary (1.x), false = SI decimal (2.x)
	alias  bool // toml.Size / toml.SSize (checked on a reduced digit set: they are aliases)
	// parse runs UnmarshalText on a zero value.
	parse func(text string) (*big.Int, error)
	// written returns the text form the configuration layer writes for v: MarshalText when the type has
	// one, else the raw decimal integer (what BurntSushi/toml emits for an integer kind). how says which.
	written func(v *big.Int) (text string, how string, err error)
	// viaString: String() -> Set(); only demanded for types whose String is documented as the written form.
	viaString func(v *big.Int) (text string, got *big.Int, err error)
	// tomlRT: Encode a one-field struct with BurntSushi/toml and Decode it again.
	tomlRT func(v *big.Int) (doc string, got *big.Int, stage string, err error)
	// conv: the checked narrowing helpers; name -> (result, error)
	conv func(v *big.Int) map[string]convRes
}

type convRes struct {
	got *big.Int
	err error
}

type wrap[T any] struct {
	V T `toml:"v"`
}

func mkSize[T ~uint64 | ~int64, PT interface {
	*T
	encoding.TextUnmarshaler
}](name string, signed, v1, alias, stringIsWritten bool, set func(*T, string) error, conv func(T) map[string]convRes) *sizeType {
	toBig := func(x T) *big.Int {
		if signed {
			return big.NewInt(int64(x))
		}
		return new(big.Int).SetUint64(uint64(x))
	}
	fromBig := func(v *big.Int) T {
		if signed {
			return T(v.Int64())
		}
		return T(v.Uint64())
	}
	st := &sizeType{name: name, signed: signed, v1: v1, alias: alias}
	st.parse = func(text string) (*big.Int, error) {
		var x T
		if err := PT(&x).UnmarshalText([]byte(text)); err != nil {
			return nil, err
		}
		return toBig(x), nil
	}
	st.written = func(v *big.Int) (string, string, error) {
		x := fromBig(v)
		if m, ok := any(x).(encoding.TextMarshaler); ok {
			b, err := m.MarshalText()
			return string(b), "MarshalText", err
		}
		return v.String(), "decimal", nil
	}
	if stringIsWritten {
		st.viaString = func(v *big.Int) (string, *big.Int, error) {
			x := fromBig(v)
			s := any(x).(fmt.Stringer).String()
			var y T
			if err := set(&y, s); err != nil {
				return s, nil, err
			}
			return s, toBig(y), nil
		}
	}
	st.tomlRT = func(v *big.Int) (string, *big.Int, string, error) {
		var buf bytes.Buffer
		if err := btoml.NewEncoder(&buf).Encode(wrap[T]{fromBig(v)}); err != nil {
			return "", nil, "encode", err
		}
		var out wrap[T]
		if _, err := btoml.Decode(buf.String(), &out); err != nil {
			return buf.String(), nil, "decode", err
		}
		return buf.String(), toBig(out.V), "", nil
	}
	st.conv = func(v *big.Int) map[string]convRes { return conv(fromBig(v)) }
	return st
}

func cr[N int | int64 | uint64](n N, err error) convRes {
	var b *big.Int
	switch x := any(n).(type) {
	case int:
		b = big.NewInt(int64(x))
	case int64:
		b = big.NewInt(x)
	case uint64:
		b = new(big.Int).SetUint64(x)
	}
	return convRes{b, err}
}

func sizeTypes() []*sizeType {
	return []*sizeType{
		mkSize[itoml.SizeV1]("SizeV1", false, true, false, true, (*itoml.SizeV1).Set,
			func(x itoml.SizeV1) map[string]convRes {
				return map[string]convRes{"ToInt": cr(x.ToInt()), "ToInt64": cr(x.ToInt64())}
			}),
		mkSize[itoml.SSizeV1]("SSizeV1", true, true, false, true, (*itoml.SSizeV1).Set,
			func(x itoml.SSizeV1) map[string]convRes {
				return map[string]convRes{"ToInt": cr(x.ToInt()), "ToUint64": cr(x.ToUint64())}
			}),
		mkSize[itoml.SizeV2]("SizeV2", false, false, false, false, (*itoml.SizeV2).Set,
			func(x itoml.SizeV2) map[string]convRes {
				return map[string]convRes{"ToInt": cr(x.ToInt()), "ToInt64": cr(x.ToInt64())}
			}),
		mkSize[itoml.SSizeV2]("SSizeV2", true, false, false, false, (*itoml.SSizeV2).Set,
			func(x itoml.SSizeV2) map[string]convRes {
				return map[string]convRes{"ToInt": cr(x.ToInt()), "ToUint64": cr(x.ToUint64())}
			}),
		// size_alias.go: on the 2.x branch Size/SSize are the SI-decimal (V2) parsers.
		mkSize[itoml.Size]("Size", false, false, true, false, (*itoml.Size).Set,
			func(x itoml.Size) map[string]convRes {
				return map[string]convRes{"ToInt": cr(x.ToInt()), "ToInt64": cr(x.ToInt64())}
			}),
		mkSize[itoml.SSize]("SSize", true, false, true, false, (*itoml.SSize).Set,
			func(x itoml.SSize) map[string]convRes {
				return map[string]convRes{"ToInt": cr(x.ToInt()), "ToUint64": cr(x.ToUint64())}
			}),
	}
}

func (st *sizeType) fits(v *big.Int) bool {
	if st.signed {
		return v.Cmp(minI64) >= 0 && v.Cmp(maxI64) <= 0
	}
	return v.Sign() >= 0 && v.Cmp(maxU64) <= 0
}

// ---------------------------------------------------------------------------------------------
// the value set (simplest first)

func valueSet() []*big.Int {
	seen := map[string]bool{}
	var out []*big.Int
	add := func(v *big.Int) {
		if v.Sign() < 0 || v.Cmp(pow(2, 65)) > 0 {
			return
		}
		if k := v.String(); !seen[k] {
			seen[k] = true
			out = append(out, new(big.Int).Set(v))
		}
	}
	pm := func(v *big.Int, ds ...int64) {
		for _, d := range ds {
			add(new(big.Int).Add(v, big.NewInt(d)))
		}
	}
	add(zero)
	for k := 0; k <= 64; k++ {
		pm(pow(2, k), -1, 0, 1)
	}
	var mults []*big.Int
	for j := 1; j <= 6; j++ {
		mults = append(mults, pow(1000, j), pow(1024, j))
	}
	for _, m := range mults {
		pm(m, -1, 0, 1)
		for _, lim := range []*big.Int{maxU64, maxI64, pow(2, 63), two53} {
			pm(new(big.Int).Quo(lim, m), -1, 0, 1, 2)
		}
	}
	// ordinary configuration values and mixed-unit values (exercise the suffix choice when writing)
	for _, s := range []string{"25000000", "1536", "3221225472", "5243904", "1047552", "1024000", "123456789",
		"1073742848", "1074790400", "2147483648000", "10", "100", "512", "4096", "9007199254740993", "18446744073709551000",
		"9223372036854775000", "12345678901234567890", "1234567890123456789"} {
		add(bi(s))
	}
	sort.Slice(out, func(i, j int) bool { return out[i].Cmp(out[j]) < 0 })
	return out
}

// signedSet: every ±u of the value set that is an int64.
func signedSet(us []*big.Int) []*big.Int {
	var out []*big.Int
	for _, u := range us {
		if u.Cmp(maxI64) <= 0 {
			out = append(out, u)
		}
		if n := new(big.Int).Neg(u); u.Sign() > 0 && n.Cmp(minI64) >= 0 {
			out = append(out, n)
		}
	}
	return out
}

// ---------------------------------------------------------------------------------------------
// suffix vocabulary

var baseSuffixes = func() []string {
	l := []string{"", "b"}
	for _, c := range suffixLtr {
		l = append(l, string(c), string(c)+"b", string(c)+"ib", string(c)+"i")
	}
	return l
}()

func caseVariants(s string) []string {
	n := len(s)
	var out []string
	for m := 0; m < 1<<n; m++ {
		b := []byte(s)
		for i := 0; i < n; i++ {
			if m&(1<<i) != 0 {
				b[i] -= 'a' - 'A'
			}
		}
		out = append(out, string(b))
	}
	return out
}

// conventional spellings that any reader of the documentation would expect to be accepted
func conventional(s string) bool {
	l := strings.ToLower(s)
	if s == l || s == strings.ToUpper(s) {
		return true
	}
	switch len(s) {
	case 2: // kB, MB, Ki
		return s == strings.ToUpper(s[:1])+l[1:] || s == l[:1]+strings.ToUpper(s[1:])
	case 3: // KiB
		return s == strings.ToUpper(l[:1])+"i"+"B"
	}
	return false
}

func sfxClass(l string) string {
	switch {
	case l == "":
		return "none"
	case l == "b":
		return "b"
	case len(l) == 1 && strings.Contains("kmg", l):
		return "bare-kmg"
	case len(l) == 1:
		return "bare-tpe"
	case len(l) == 2 && l[1] == 'b':
		return "si"
	case len(l) == 3:
		return "iec"
	}
	return "iec-short"
}

// multipliers returns the multiplier(s) the documentation allows for (type, lower-cased suffix).
// One entry = documented; two entries = the documentation is silent/ambiguous, either is accepted.
func multipliers(st *sizeType, l string) []*big.Int {
	if l == "" || l == "b" {
		return []*big.Int{big.NewInt(1)}
	}
	n := strings.IndexByte(suffixLtr, l[0]) + 1
	si, iec := pow(1000, n), pow(1024, n)
	switch sfxClass(l) {
	case "si": // explicit kb: as named
		return []*big.Int{si}
	case "iec", "iec-short": // explicit kib (and humanize's "ki"): as named
		return []*big.Int{iec}
	case "bare-kmg":
		if st.v1 {
			return []*big.Int{iec} // 1.x bare k/m/g are binary
		}
		return []*big.Int{si} // SizeV2: bare k/m/g mean SI decimal
	default: // bare t/p/e
		if st.v1 {
			return []*big.Int{si, iec} // 1.x documentation only speaks about k/m/g
		}
		return []*big.Int{si}
	}
}

// ---------------------------------------------------------------------------------------------
// cases

type Case struct {
	Fam  string `json:"family"` // roundtrip | roundtrip-string | roundtrip-toml | suffix | fraction | numspell | conv | duration-roundtrip | duration-toml | duration-string
	Typ  string `json:"type"`
	Val  string `json:"value,omitempty"` // decimal, for the value-driven families
	Pre  string `json:"pre,omitempty"`
	Sign string `json:"sign,omitempty"`
	Dig  string `json:"digits,omitempty"`
	Mid  string `json:"mid,omitempty"`
	Sfx  string `json:"suffix,omitempty"`
	Post string `json:"post,omitempty"`
}

func (c Case) text() string { return c.Pre + c.Sign + c.Dig + c.Mid + c.Sfx + c.Post }

type verdict struct {
	sig     string // "" = no violation
	outcome string
	obs     string
	nontriv bool
	lazy    func() string // observation built on demand (numspell family: millions of cases)
}

func mkv(sig, outcome, obs string, nontriv bool) verdict {
	return verdict{sig: sig, outcome: outcome, obs: obs, nontriv: nontriv}
}

func (v verdict) observation() string {
	if v.obs == "" && v.lazy != nil {
		return v.lazy()
	}
	return v.obs
}

func magnitude(v *big.Int) string {
	if isBig(v) {
		return ">2^53"
	}
	return "<=2^53"
}

func evalRoundtrip(st *sizeType, cs Case) verdict {
	v := bi(cs.Val)
	var text, how, doc, stage string
	var got *big.Int
	var err error
	switch cs.Fam {
	case "roundtrip":
		text, how, err = st.written(v)
		if err != nil {
			return mkv(vlib.JoinSig("roundtrip", st.name, "marshal-error"), "roundtrip:marshal-error", fmt.Sprintf("%s(%s).MarshalText: %v", st.name, v, err), true)
		}
		got, err = st.parse(text)
	case "roundtrip-string":
		how = "String->Set"
		text, got, err = st.viaString(v)
	case "roundtrip-toml":
		how = "toml.Encode->toml.Decode"
		doc, got, stage, err = st.tomlRT(v)
		text = strings.TrimSpace(doc)
	}
	mag := magnitude(v)
	if v.Cmp(maxI64) > 0 && cs.Fam == "roundtrip-toml" {
		mag = ">MaxInt64" // not representable as a TOML integer
	}
	o := fmt.Sprintf("%s value %s written via %s as %q", st.name, v, how, text)
	if err != nil {
		o += fmt.Sprintf(" -> rejected%s: %v", map[bool]string{true: " at " + stage, false: ""}[stage != ""], err)
		k := "rejected"
		if stage == "encode" {
			k = "encode-error"
		}
		return mkv(vlib.JoinSig(cs.Fam, st.name, k, mag), cs.Fam+":"+k, o, true)
	}
	o += fmt.Sprintf(" -> parsed back as %s", got)
	if got.Cmp(v) != 0 {
		f := mag
		if withinUlp(got, v) {
			f += ",within-float-rounding"
		}
		return mkv(vlib.JoinSig(cs.Fam, st.name, "wrong-value", f), cs.Fam+":wrong-value", o, true)
	}
	form := "plain"
	if how == "MarshalText" || how == "String->Set" || strings.Contains(text, "\"") {
		if t := strings.Trim(text, "v =\""); t != "" && strings.ContainsAny(t[len(t)-1:], "kmg") {
			form = "suffix-" + t[len(t)-1:]
		}
	}
	return mkv("", cs.Fam+":identical/"+form, o, true)
}

func evalSuffix(st *sizeType, cs Case) verdict {
	text := cs.text()
	lower := strings.ToLower(cs.Sfx)
	class := sfxClass(lower)
	var num *big.Rat
	if cs.Fam == "fraction" {
		r, ok := new(big.Rat).SetString(strings.ReplaceAll(cs.Dig, ",", ""))
		if !ok {
			panic("bad fraction " + cs.Dig)
		}
		num = r
	} else {
		num = new(big.Rat).SetInt(bi(cs.Dig))
	}
	if cs.Sign == "-" {
		num.Neg(num)
	}
	// exact products for every documented multiplier; non-integer products are outside the statement
	var prods []*big.Int
	for _, m := range multipliers(st, lower) {
		p := new(big.Rat).Mul(num, new(big.Rat).SetInt(m))
		if !p.IsInt() {
			return mkv("", cs.Fam+":non-integer-product(not-judged)", "", false)
		}
		prods = append(prods, new(big.Int).Set(p.Num()))
	}
	anyFits, allFit := false, true
	for _, p := range prods {
		if st.fits(p) {
			anyFits = true
		} else {
			allFit = false
		}
	}
	canonical := cs.Pre == "" && cs.Post == "" && cs.Sign != "+" && !(cs.Sign == "-" && !st.signed) &&
		conventional(cs.Sfx) && (cs.Mid == "" || (cs.Mid == " " && cs.Sfx != "")) && cs.Fam == "suffix"
	form := "loose"
	if canonical {
		form = "canonical"
	}
	got, err := st.parse(text)
	o := fmt.Sprintf("%s.UnmarshalText(%q)", st.name, text)
	want := fmt.Sprintf("exact product %s", prods[0])
	if len(prods) > 1 {
		want = fmt.Sprintf("exact product %s or %s", prods[0], prods[1])
	}
	if err != nil {
		o += fmt.Sprintf(" rejected (%v); %s, fits=%v", err, want, allFit)
		switch {
		case !anyFits:
			return mkv("", "suffix:overflow-rejected/"+class, o, true)
		case canonical && allFit && !isBig(prods[0]):
			return mkv(vlib.JoinSig("suffix", st.name, "valid-rejected", "sfx="+class), "suffix:valid-rejected", o, true)
		case canonical && allFit:
			// the documentation itself concedes float64 precision loss of the humanize path at the top of the
			// range; the statement does not promise acceptance there (the round-trip families do, for written forms)
			return mkv("", "suffix:valid>2^53-rejected(not-demanded)/"+class, o, true)
		}
		return mkv("", "suffix:loose-form-rejected(not-demanded)", o, false)
	}
	o += fmt.Sprintf(" = %s; %s", got, want)
	for _, p := range prods {
		if st.fits(p) && got.Cmp(p) == 0 {
			return mkv("", "suffix:exact/"+class+"/"+form, o, true)
		}
	}
	if !anyFits {
		// accepted although the value overflows the target type
		p := prods[0]
		bound := maxU64
		if st.signed {
			bound = maxI64
			if p.Sign() < 0 {
				bound = minI64
			}
		} else if p.Sign() < 0 {
			bound = zero
		}
		res := "result=other(wrapped)"
		if got.Cmp(bound) == 0 {
			res = "result=bound(clamped)"
		}
		dir := "pos"
		if p.Sign() < 0 {
			dir = "neg"
		}
		return mkv(vlib.JoinSig("overflow", st.name, "accepted", dir+","+res), "overflow:accepted", o+" which does not fit the type", true)
	}
	// accepted, some documented product fits, but the value is none of them
	for _, p := range prods {
		if st.fits(p) && isBig(p) && withinUlp(got, p) {
			// documented float64 precision loss above 2^53: the suffix still means the documented multiplier
			return mkv("", "suffix:inexact>2^53-within-float-rounding(not-judged)/"+class, o, true)
		}
	}
	return mkv(vlib.JoinSig("suffix", st.name, "wrong-value", "sfx="+class+","+magnitude(prods[0])), "suffix:wrong-value", o, true)
}

// ---------------------------------------------------------------------------------------------
// number-spelling family: the numeric-prefix alphabet of size inputs

// numAlphabet: every string over these bytes up to the tier's length bound is a number spelling.
const numAlphabet = "015.,"

// numClassReps: one representative of every other spelling class (two-digit and long integers, ordinary and
// long fractions, well-formed and malformed grouping, leading zeros, exponents, hex, underscores, inner blank,
// words, non-ASCII digits). Most are rejected by the real parser; the oracle never demands acceptance.
var numClassReps = []string{"12", "1024", "007", "2.25", "10.75", "0.001", "1.50", "1,024", "1,000,000", "1,000.5",
	"1e3", "1E3", "1e+3", "1.5e2", "0x10", "1_000", "1 5", "inf", "nan", "١", "１"}

func numSpellings(maxLen int) []string {
	seen := map[string]bool{}
	var out []string
	add := func(s string) {
		if !seen[s] {
			seen[s] = true
			out = append(out, s)
		}
	}
	level := []string{""}
	add("")
	for l := 1; l <= maxLen; l++ {
		if l == 3 {
			for _, s := range numClassReps {
				add(s)
			}
		}
		var next []string
		for _, p := range level {
			for _, ch := range numAlphabet {
				next = append(next, p+string(ch))
				add(p + string(ch))
			}
		}
		level = next
	}
	return out
}

func asciiDigits(s string) bool {
	for i := 0; i < len(s); i++ {
		if s[i] < '0' || s[i] > '9' {
			return false
		}
	}
	return true
}

// refNum is the reference reading of a number spelling, independent of the code under test: ASCII decimal
// digits with at most one '.', at least one digit ("1.", ".5" included), the integer part optionally written
// with well-formed thousands groups (1,024 / 1,000,000). Every other spelling (stray commas, exponents, ...)
// has no reference value: the statement says nothing about it and only the differential oracle applies.
func refNum(d string) (*big.Rat, bool) {
	ip, fp, _ := strings.Cut(d, ".")
	if !asciiDigits(fp) { // also rejects a second '.'
		return nil, false
	}
	if strings.Contains(ip, ",") {
		gs := strings.Split(ip, ",")
		if len(gs[0]) < 1 || len(gs[0]) > 3 {
			return nil, false
		}
		for i, g := range gs {
			if !asciiDigits(g) || (i > 0 && len(g) != 3) {
				return nil, false
			}
		}
		ip = strings.Join(gs, "")
	}
	if !asciiDigits(ip) || len(ip)+len(fp) == 0 {
		return nil, false
	}
	r := new(big.Rat)
	if ip != "" {
		r.SetInt(bi(ip))
	}
	if fp != "" {
		r.Add(r, new(big.Rat).SetFrac(bi(fp), pow(10, len(fp))))
	}
	return r, true
}

// numShape / gapClass: the discriminating features of a number spelling for class signatures.
func numShape(d string) string {
	if d == "" {
		return "empty"
	}
	for i := 0; i < len(d); i++ {
		if !(d[i] >= '0' && d[i] <= '9') && d[i] != '.' && d[i] != ',' {
			return "other"
		}
	}
	sep := func(b byte) bool { return b == '.' || b == ',' }
	switch {
	case sep(d[len(d)-1]):
		return "ends-in-separator"
	case sep(d[0]):
		return "starts-with-separator"
	case strings.Contains(d, ","):
		return "grouped"
	case strings.Contains(d, "."):
		return "fraction"
	}
	return "integer"
}

func gapClass(g string) string {
	if g == "" {
		return "none"
	}
	if strings.Trim(g, " \t") == "" {
		return "blank"
	}
	return "unicode-space"
}

// twinInfo: the explicit unit a bare letter stands for according to the documentation (1.x types: bare k/m/g
// = kib/mib/gib; 2.x types: every bare letter = the SI unit Xb), and what the REAL parser makes of
// <sign><number> + " " + that explicit unit. The explicit-unit path is humanize's own vocabulary and involves no
// bare-suffix detection, so it also tells whether the number spelling as such is accepted by the real parser.
type twinInfo struct {
	sfx     string // "" = no twin (not a bare letter, or bare t/p/e on the 1.x types where the documentation is silent)
	unit    string // "iec" | "si": what the bare letter must mean
	val     *big.Int
	err     error
	alt     *big.Int // value of the OTHER explicit unit, nil if rejected (names what a deviating result was read as)
	altUnit string
	// reference model, independent of the code under test: refNum(spelling) with the sign applied, times every
	// documented multiplier of (type, suffix)
	numOK   bool
	prods   []*big.Rat
	anyFits bool
}

func twinFor(st *sizeType, sign, dig, lower string) twinInfo {
	var t twinInfo
	if num, ok := refNum(dig); ok {
		t.numOK = true
		if sign == "-" {
			num = new(big.Rat).Neg(num)
		}
		for _, m := range multipliers(st, lower) {
			p := new(big.Rat).Mul(num, new(big.Rat).SetInt(m))
			t.prods = append(t.prods, p)
			if ratFits(st, p) {
				t.anyFits = true
			}
		}
	}
	other := ""
	switch class := sfxClass(lower); {
	case st.v1 && class == "bare-kmg":
		t.sfx, t.unit, other, t.altUnit = lower+"ib", "iec", lower+"b", "si"
	case !st.v1 && (class == "bare-kmg" || class == "bare-tpe"):
		t.sfx, t.unit, other, t.altUnit = lower+"b", "si", lower+"ib", "iec"
	default:
		return t
	}
	t.val, t.err = st.parse(sign + dig + " " + t.sfx)
	if v, err := st.parse(sign + dig + " " + other); err == nil {
		t.alt = v
	}
	return t
}

func ratFits(st *sizeType, p *big.Rat) bool {
	lo, hi := zero, maxU64
	if st.signed {
		lo, hi = minI64, maxI64
	}
	return p.Cmp(new(big.Rat).SetInt(lo)) >= 0 && p.Cmp(new(big.Rat).SetInt(hi)) <= 0
}

func evalNumspell(st *sizeType, cs Case, tw *twinInfo) verdict {
	text := cs.text()
	lower := strings.ToLower(cs.Sfx)
	class := sfxClass(lower)
	if tw == nil {
		t := twinFor(st, cs.Sign, cs.Dig, lower)
		tw = &t
	}
	shape := "num=" + numShape(cs.Dig) + ",gap=" + gapClass(cs.Mid)
	if gapClass(cs.Mid) == "unicode-space" {
		shape = "num=any,gap=unicode-space" // the number's shape does not discriminate behind a non-ASCII blank
	}
	got, err := st.parse(text)

	// (a) differential oracle: a bare letter means exactly the explicit unit the documentation names.
	twinNote := ""
	if tw.sfx != "" {
		twinNote = "/twin-rejected"
		if tw.err == nil {
			twinNote = "/bare=explicit-" + tw.unit
		}
	}
	if err == nil && tw.sfx != "" && tw.err == nil && got.Cmp(tw.val) != 0 {
		if isBig(tw.val) && withinUlp(got, tw.val) {
			return verdict{outcome: "numspell:bare~explicit>2^53-within-float-rounding(not-judged)/" + class, nontriv: true}
		}
		as := "other"
		if tw.alt != nil && got.Cmp(tw.alt) == 0 {
			as = tw.altUnit
		}
		twv, alt := tw.val, tw.alt
		return verdict{
			sig:     vlib.JoinSig("numspell", st.name, "bare-differs-from-explicit-"+tw.unit, "read-as="+as+","+shape),
			outcome: "numspell:bare-differs-from-explicit", nontriv: true,
			lazy: func() string {
				o := fmt.Sprintf("%s.UnmarshalText(%q) = %s but the explicit %s spelling %q = %s", st.name, text, got, tw.unit,
					cs.Sign+cs.Dig+" "+tw.sfx, twv)
				if alt != nil {
					o += fmt.Sprintf(" (%q = %s)", cs.Sign+cs.Dig+" "+lower+map[string]string{"si": "b", "iec": "ib"}[tw.altUnit], alt)
				}
				return o
			}}
	}

	// (b) reference number model x documented multiplier (precomputed per (type, sign, spelling, suffix) in tw)
	if !tw.numOK {
		if err != nil {
			return verdict{outcome: "numspell:unmodelled-number-rejected", nontriv: false}
		}
		return verdict{outcome: "numspell:unmodelled-number-accepted(value-not-judged)/" + class + twinNote, nontriv: tw.sfx != "" && tw.err == nil,
			lazy: func() string { return fmt.Sprintf("%s.UnmarshalText(%q) = %s", st.name, text, got) }}
	}
	prods, anyFits := tw.prods, tw.anyFits
	want := func() string {
		w := "exact product " + prods[0].RatString()
		if len(prods) > 1 {
			w += " or " + prods[1].RatString()
		}
		return w
	}
	if err != nil {
		if !anyFits {
			return verdict{outcome: "numspell:overflow-rejected/" + class, nontriv: true}
		}
		// acceptance of a spelling is never demanded in this family (the canonical spellings are family 2)
		return verdict{outcome: "numspell:rejected(not-demanded)" + twinNote, nontriv: false}
	}
	obs := func() string { return fmt.Sprintf("%s.UnmarshalText(%q) = %s; %s", st.name, text, got, want()) }
	gr := new(big.Rat).SetInt(got)
	one := big.NewRat(1, 1)
	for _, p := range prods {
		if !ratFits(st, p) {
			continue
		}
		if p.IsInt() {
			if gr.Cmp(p) == 0 {
				return verdict{outcome: "numspell:exact/" + class + twinNote, nontriv: true, lazy: obs}
			}
			continue
		}
		// a fractional byte count: the statement does not say how it is rounded; floor and ceiling are accepted
		if d := new(big.Rat).Sub(gr, p); d.Abs(d).Cmp(one) < 0 {
			return verdict{outcome: "numspell:fractional-product-rounded/" + class + twinNote, nontriv: true, lazy: obs}
		}
	}
	p0 := prods[0]
	if !anyFits {
		dir, bound := "pos", maxU64
		if st.signed {
			bound = maxI64
		}
		if p0.Sign() < 0 {
			dir, bound = "neg", zero
			if st.signed {
				bound = minI64
			}
		}
		res := "result=other(wrapped)"
		if got.Cmp(bound) == 0 {
			res = "result=bound(clamped)"
		}
		return verdict{sig: vlib.JoinSig("overflow", st.name, "accepted", dir+","+res), outcome: "overflow:accepted", nontriv: true,
			lazy: func() string { return obs() + " which does not fit the type" }}
	}
	mag := "<=2^53"
	for _, p := range prods {
		if a := new(big.Rat).Abs(p); ratFits(st, p) && a.Cmp(new(big.Rat).SetInt(two53)) > 0 {
			mag = ">2^53"
			tol := new(big.Rat).Quo(a, new(big.Rat).SetInt(pow(2, int(ulpShift))))
			if d := new(big.Rat).Sub(gr, p); d.Abs(d).Cmp(tol) <= 0 {
				return verdict{outcome: "numspell:inexact>2^53-within-float-rounding(not-judged)/" + class, nontriv: true, lazy: obs}
			}
		}
	}
	return verdict{sig: vlib.JoinSig("numspell", st.name, "wrong-value", "sfx="+class+","+mag+","+shape), outcome: "numspell:wrong-value", nontriv: true, lazy: obs}
}

func evalConv(st *sizeType, cs Case) verdict {
	v := bi(cs.Val)
	res := st.conv(v)
	names := make([]string, 0, len(res))
	for k := range res {
		names = append(names, k)
	}
	sort.Strings(names)
	var o []string
	sig := ""
	oc := "conv:"
	for _, n := range names {
		r := res[n]
		fits := true
		switch n {
		case "ToInt", "ToInt64": // int is 64 bit on the platforms the check runs on
			fits = v.Cmp(minI64) >= 0 && v.Cmp(maxI64) <= 0
		case "ToUint64":
			fits = v.Sign() >= 0
		}
		o = append(o, fmt.Sprintf("%s(%s).%s() = %s, err=%v", st.name, v, n, r.got, r.err))
		switch {
		case !fits && r.err == nil:
			sig = vlib.JoinSig("conv", st.name, n, "overflow-accepted")
		case fits && (r.err != nil || r.got.Cmp(v) != 0):
			sig = vlib.JoinSig("conv", st.name, n, "wrong-result")
		}
		oc += fmt.Sprintf("%s=%v,", n, r.err == nil)
	}
	return mkv(sig, oc, strings.Join(o, "; "), true)
}

// ---- Duration ----

var durUnits = map[string]int64{"ns": 1, "us": 1e3, "µs": 1e3, "ms": 1e6, "s": 1e9, "m": 60e9, "h": 3600e9}
var durUnitOrder = []string{"ns", "us", "µs", "ms", "s", "m", "h"}

type wrapD struct {
	V itoml.Duration `toml:"v"`
}

func evalDuration(cs Case) verdict {
	switch cs.Fam {
	case "duration-roundtrip", "duration-toml":
		v := bi(cs.Val)
		d := itoml.Duration(v.Int64())
		var got itoml.Duration
		var text string
		var err error
		if cs.Fam == "duration-roundtrip" {
			var b []byte
			b, err = d.MarshalText()
			text = string(b)
			if err == nil {
				err = got.UnmarshalText(b)
			}
		} else {
			var buf bytes.Buffer
			err = btoml.NewEncoder(&buf).Encode(wrapD{d})
			text = strings.TrimSpace(buf.String())
			if err == nil {
				var out wrapD
				_, err = btoml.Decode(buf.String(), &out)
				got = out.V
			}
		}
		o := fmt.Sprintf("Duration %s written as %q", v, text)
		if err != nil {
			return mkv(vlib.JoinSig(cs.Fam, "Duration", "rejected"), cs.Fam+":rejected", o+" -> rejected: "+err.Error(), true)
		}
		o += fmt.Sprintf(" -> parsed back as %d", int64(got))
		if int64(got) != v.Int64() {
			return mkv(vlib.JoinSig(cs.Fam, "Duration", "wrong-value"), cs.Fam+":wrong-value", o, true)
		}
		shape := "ns-only"
		switch a := absBig(v); {
		case a.Sign() == 0:
			shape = "zero"
		case a.Cmp(big.NewInt(3600e9)) >= 0:
			shape = "hours"
		case a.Cmp(big.NewInt(1e9)) >= 0:
			shape = "seconds"
		}
		return mkv("", cs.Fam+":identical/"+shape, o, true)
	case "duration-string":
		text := cs.text()
		p := new(big.Int).Mul(bi(cs.Dig), big.NewInt(durUnits[cs.Sfx]))
		if cs.Sign == "-" {
			p.Neg(p)
		}
		fits := p.Cmp(minI64) >= 0 && p.Cmp(maxI64) <= 0
		var d itoml.Duration
		err := d.UnmarshalText([]byte(text))
		o := fmt.Sprintf("Duration.UnmarshalText(%q)", text)
		if err != nil {
			if !fits {
				return mkv("", "duration-string:overflow-rejected", o+" rejected", true)
			}
			return mkv("", "duration-string:in-range-rejected(not-demanded)", o+" rejected: "+err.Error(), true)
		}
		o += fmt.Sprintf(" = %d; exact product %s", int64(d), p)
		if !fits {
			return mkv(vlib.JoinSig("overflow", "Duration", "accepted"), "overflow:accepted", o+" which does not fit int64", true)
		}
		if big.NewInt(int64(d)).Cmp(p) == 0 {
			return mkv("", "duration-string:exact", o, true)
		}
		return mkv("", "duration-string:inexact(not-judged)", o, true)
	}
	panic("unknown duration family " + cs.Fam)
}

func evalCase(types map[string]*sizeType, cs Case, tw ...*twinInfo) (v verdict) {
	p, desc := vlib.Guard(func() {
		if strings.HasPrefix(cs.Fam, "duration") {
			v = evalDuration(cs)
			return
		}
		st := types[cs.Typ]
		if st == nil {
			panic("unknown type " + cs.Typ)
		}
		switch cs.Fam {
		case "roundtrip", "roundtrip-string", "roundtrip-toml":
			v = evalRoundtrip(st, cs)
		case "suffix", "fraction":
			v = evalSuffix(st, cs)
		case "numspell":
			if len(tw) > 0 {
				v = evalNumspell(st, cs, tw[0])
			} else {
				v = evalNumspell(st, cs, nil)
			}
		case "conv":
			v = evalConv(st, cs)
		default:
			panic("unknown family " + cs.Fam)
		}
	})
	if p {
		fr := desc
		if i := strings.LastIndex(desc, "@ "); i >= 0 {
			fr = desc[i+2:]
		}
		return verdict{sig: vlib.JoinSig(cs.Fam, cs.Typ, "panic", fr), outcome: cs.Fam + ":panic", obs: desc, nontriv: true}
	}
	if v.sig != "" {
		v.obs = v.observation()
	}
	return v
}

func TestCheck(t *testing.T) {
	_ = time.Second
	sts := sizeTypes()
	types := map[string]*sizeType{}
	for _, st := range sts {
		types[st.name] = st
	}
	vlib.Main(t, &vlib.Check{
		ID: "C34", Level: "exploration",
		Rule: "value set U = {0,1, 2^k-1,2^k,2^k+1 (k=0..64), 1000^j,1024^j (+-1, j=1..6), floor(L/m)+{-1,0,1,2} for L in {MaxUint64,MaxInt64,2^63,2^53} and every multiplier m, a few ordinary config values} (~390 values) and its signed closure. " +
			"Families: (1) every value of the type's range in U through the written form -> UnmarshalText for SizeV1/SSizeV1 (MarshalText, String->Set), SizeV2/SSizeV2/Size/SSize (raw decimal integer, the form BurntSushi/toml writes) and Duration (MarshalText), and through a real BurntSushi toml Encode->Decode of a one-field struct: must be identical; " +
			"(2) every string <pre><sign><digits><mid><suffix><post> with digits in U, sign in {'',-} (thorough: also +), suffix over EVERY case variant of {'',b,X,Xb,Xib,Xi | X in k,m,g,t,p,e} (111 spellings), mid in {'',' '} (thorough: pre,mid,post in {'',' '}) for SizeV1,SSizeV1,SizeV2,SSizeV2 (aliases Size/SSize: digits<=2^32): accepted value must equal digits x documented multiplier exactly (math/big), an input whose exact product does not fit the type must be rejected, canonical spellings of in-range values <=2^53 must be accepted; " +
			"(3) fractional digit strings {1.5,0.5,2.25,1,024,...} x all suffixes; (4) ToInt/ToInt64/ToUint64 on every value; (5) Duration strings sign x digits x {ns,us,µs,ms,s,m,h}: overflow must be rejected; " +
			"(6) numeric-prefix alphabet: the full product <pre><sign><number spelling><gap><suffix><post> for all six size types with pre,post in {'',' '} (thorough: also tab), sign in {'',+,-}, gap in {'',' '} (thorough: also tab, two blanks, U+00A0), suffix over all 111 case variants, and number spelling = EVERY string of length 0..3 (thorough: 0..4) over the bytes {0,1,5,'.',','} (156 / 781 spellings: integers, leading zeros, .5, 1., 1.5, ',5', '1,', '1..', ...) plus 21 class representatives (12, 1024, 007, 2.25, 0.001, 1,024, 1,000,000, 1,000.5, 1e3, 1E3, 1e+3, 1.5e2, 0x10, 1_000, '1 5', inf, nan, non-ASCII digits): " +
			"(6a) differential oracle - wherever the real parser accepts both <text with a bare letter> and <sign><spelling>' '<the explicit unit the documentation gives that letter> (kib/mib/gib for bare k/m/g on SizeV1/SSizeV1, Xb for every bare letter on the 2.x types) the two values must be identical; (6b) when the spelling has a reference reading (ASCII digits, at most one '.', optional well-formed thousands groups) an accepted value must equal reference number x documented multiplier (math/big; a fractional product may be rounded either way) and a product that does not fit the type must be rejected. " +
			"Cases are distinct by construction; non-trivial = every judged case (not-judged loose spellings that are rejected are excluded; in family 6 a case is non-trivial when the real parser accepted the text, so a value was compared, or rejected an overflowing product)",
		Assumptions: []string{
			"documented multipliers: 1.x types (SizeV1/SSizeV1) bare k/m/g = 1024^n; 2.x types and the Size/SSize aliases bare letters = 1000^n; Xb = 1000^n, Xib/Xi = 1024^n; bare t/p/e on the 1.x types: the documentation is silent, 1000^n and 1024^n are both accepted",
			"the toml.go documentation concedes float64 precision loss of the humanize path above 2^53: for suffixed INPUT strings whose exact product exceeds 2^53 an accepted value within float64 rounding of the product, or a rejection of an in-range value, is counted (outcome histogram) but not judged; the round-trip and overflow clauses are judged without that tolerance",
			"acceptance of loose spellings (leading/trailing blanks, '+', mixed case, '-0' for unsigned) is not demanded, only that an accepted value is exact",
			"'written out by the configuration layer' for the 2.x types = the raw decimal integer, because SizeV2/SSizeV2 deliberately have no MarshalText and BurntSushi/toml then emits the integer kind (documented in toml.go)",
			"family 6: acceptance of a number spelling is never demanded (whether '.5', '1.', ',5', '1e3' are numbers is the parser's business: it is observed on the explicit-unit spelling, which involves no bare-suffix detection); demanded is only that an ACCEPTED bare k/m/g (1.x types) means the same as the explicit kib/mib/gib and an accepted bare letter (2.x types) the same as the explicit Xb, whatever the number in front is spelled like, and that accepted values of spellings with a reference reading are number x documented multiplier",
			"family 6: spellings without a reference reading (stray or misplaced commas, exponents, hex, ...) are judged by the differential oracle only; the rounding direction of a fractional byte count (e.g. '.3k' = 307.2) is not part of the statement: floor and ceiling are both accepted",
			"int is 64 bit",
		},
		QuickBudgetS: 60, ThoroughBudgetS: 800,
		Run: func(c *vlib.Ctx) {
			U := valueSet()
			S := signedSet(U)
			var idx int64
			var blk int64
			var doNow func(cs Case)
			do := func(cs Case) {
				idx++
				if !c.Mine(idx) {
					return
				}
				doNow(cs)
			}
			doNow = func(cs Case) {
				v := evalCase(types, cs)
				c.Eval(1)
				if v.nontriv {
					c.NontrivialN(1)
				}
				c.Outcome(v.outcome)
				if v.sig != "" {
					c.Violation(v.sig, v.obs, cs)
				} else if v.nontriv && (idx+blk)%499 == 0 && c.WantSample() {
					c.Sample(map[string]any{"case": cs, "observed": v.observation()})
				}
			}
			small := pow(2, 32)
			// (1) round trips, (4) conversions
			for _, st := range sts {
				vals := U
				if st.signed {
					vals = S
				}
				for _, v := range vals {
					if !st.fits(v) || (st.alias && absBig(v).Cmp(small) > 0) {
						continue
					}
					do(Case{Fam: "roundtrip", Typ: st.name, Val: v.String()})
					if st.viaString != nil {
						do(Case{Fam: "roundtrip-string", Typ: st.name, Val: v.String()})
					}
					do(Case{Fam: "roundtrip-toml", Typ: st.name, Val: v.String()})
					do(Case{Fam: "conv", Typ: st.name, Val: v.String()})
				}
			}
			for _, v := range S {
				do(Case{Fam: "duration-roundtrip", Typ: "Duration", Val: v.String()})
				do(Case{Fam: "duration-toml", Typ: "Duration", Val: v.String()})
			}
			// (5) duration strings
			for _, d := range U {
				for _, sg := range []string{"", "-", "+"} {
					for _, u := range durUnitOrder {
						do(Case{Fam: "duration-string", Typ: "Duration", Sign: sg, Dig: d.String(), Sfx: u})
					}
				}
			}
			// (3) fractions
			for _, st := range sts {
				for _, f := range []string{"1.5", "0.5", "2.25", "0.001", "1,024", "1,000,000", "1.0", "10.75"} {
					for _, sg := range []string{"", "-"} {
						for _, base := range baseSuffixes {
							for _, sfx := range []string{base, strings.ToUpper(base)} {
								for _, mid := range []string{"", " "} {
									do(Case{Fam: "fraction", Typ: st.name, Sign: sg, Dig: f, Mid: mid, Sfx: sfx})
								}
								if base == "" {
									break
								}
							}
						}
					}
				}
			}
			// (6) number spellings: <pre><sign><spelling><gap><suffix><post>, full product
			spell, outer, gaps := numSpellings(3), []string{"", " "}, []string{"", " "}
			if c.Thorough() {
				spell, outer, gaps = numSpellings(4), []string{"", " ", "\t"}, []string{"", " ", "\t", "  ", "\u00a0"}
			}
			for _, dg := range spell {
				if c.Expired() {
					c.Cap(fmt.Sprintf("budget expired in the number-spelling family at spelling %q", dg))
					return
				}
				for _, st := range sts {
					for _, sg := range []string{"", "-", "+"} {
						for _, base := range baseSuffixes {
							// one shard unit = (spelling, type, sign, base suffix); the explicit-unit twin is parsed once per unit
							blk++
							if !c.Mine(blk) {
								continue
							}
							tw := twinFor(st, sg, dg, base)
							for _, sfx := range caseVariants(base) {
								for _, pre := range outer {
									for _, gap := range gaps {
										if base == "" && gap != "" {
											continue // without a suffix the gap is the trailing blank: same text as post
										}
										for _, post := range outer {
											cs := Case{Fam: "numspell", Typ: st.name, Pre: pre, Sign: sg, Dig: dg, Mid: gap, Sfx: sfx, Post: post}
											v := evalCase(types, cs, &tw)
											c.Eval(1)
											if v.nontriv {
												c.NontrivialN(1)
											}
											c.Outcome(v.outcome)
											if v.sig != "" {
												c.Violation(v.sig, v.observation(), cs)
											} else if v.nontriv && v.lazy != nil && blk%9973 == 0 && sfx == base && pre == "" && post == "" && c.WantSample() {
												c.Sample(map[string]any{"case": cs, "observed": v.observation()})
											}
										}
									}
								}
							}
						}
					}
				}
			}
			// (2) suffix strings
			blanks, signs := []string{""}, []string{"", "-"}
			if c.Thorough() {
				blanks, signs = []string{"", " "}, []string{"", "-", "+"}
			}
			for _, d := range U {
				if c.Expired() {
					c.Cap("budget expired in the suffix family at digits " + d.String())
					return
				}
				for _, st := range sts {
					if st.alias && d.Cmp(small) > 0 {
						continue
					}
					for _, sg := range signs {
						for _, base := range baseSuffixes {
							// one shard unit = (digits, type, sign, base suffix); its spellings are evaluated together
							blk++
							if !c.Mine(blk) {
								continue
							}
							for _, sfx := range caseVariants(base) {
								for _, pre := range blanks {
									for _, mid := range []string{"", " "} {
										for _, post := range blanks {
											doNow(Case{Fam: "suffix", Typ: st.name, Pre: pre, Sign: sg, Dig: d.String(), Mid: mid, Sfx: sfx, Post: post})
										}
									}
								}
							}
						}
					}
				}
			}
		},
		Replay: func(c *vlib.Ctx, raw json.RawMessage) (bool, string) {
			var cs Case
			if err := json.Unmarshal(raw, &cs); err != nil {
				return false, err.Error()
			}
			v := evalCase(types, cs)
			return v.sig != "", v.obs
		},
	})
}
