// Self-test of the crashfs engine (plain `go test`, not a registered check):
//   - parser unit tests on strace log snippets (format captured from strace 6.1 -f -y -xx),
//   - a real recording of a syscall exerciser whose final state Record compares with the kernel's,
//   - a toy append-only log ("fsync before ack") with a recovery function: no violation on the correct toy,
//     and the engine finds the bug in three broken variants, each by the image family that should find it.
package zcrash

import (
	"bytes"
	"encoding/binary"
	"encoding/json"
	"fmt"
	"hash/crc32"
	"os"
	"path/filepath"
	"sort"
	"strings"
	"syscall"
	"testing"

	"golang.org/x/sys/unix"
	"verif/h/crashfs"
)

// ---------------------------------------------------------------------------------------------------------
// writer side (the test binary re-executed under strace with VERIF_CRASH_WRITER=<json spec>)

type spec struct {
	Mode    string   `json:"mode"` // "toy" | "exercise"
	Variant string   `json:"variant"`
	Dir     string   `json:"dir"`
	Markers string   `json:"markers"`
	Ops     []string `json:"ops"` // "a:<payload>" append, "c" compact
}

func TestMain(m *testing.M) {
	if s := os.Getenv("VERIF_CRASH_WRITER"); s != "" {
		var sp spec
		if err := json.Unmarshal([]byte(s), &sp); err != nil {
			fmt.Fprintln(os.Stderr, "bad writer spec:", err)
			os.Exit(2)
		}
		var err error
		if sp.Mode == "exercise" {
			err = exercise(sp)
		} else {
			err = runToy(sp)
		}
		if err != nil {
			fmt.Fprintln(os.Stderr, "writer:", err)
			os.Exit(1)
		}
		os.Exit(0)
	}
	os.Exit(m.Run())
}

// The toy: an append-only log of records with "fsync before ack", plus a compaction that rewrites the log
// into log.tmp and renames it into place.
//
//	variant "ok":            record = [len u16][crc32 u32][payload]; write; fsync; ack
//	variant "ack-no-fsync":  same, but no fsync before ack                         (found by U only)
//	variant "hdr-nocrc":     file = [committed u32 LE][records [len u16][payload]...]; body written first, then the
//	                         header is overwritten with the new committed length; fsync; ack. No checksum protects
//	                         the header, so a torn header update yields a wrong length   (found by T only)
//	variant "tmp-nosync":    like "ok", but compaction renames log.tmp into place without fsyncing it
//	                         (passes under P/T = ordered metadata; found by U when *.tmp is a sync class)
type toy struct {
	variant string
	dir     string
	f       *os.File
	end     int64 // hdr-nocrc: committed length
}

func openToy(variant, dir string) (*toy, error) {
	if err := os.MkdirAll(dir, 0o777); err != nil {
		return nil, err
	}
	t := &toy{variant: variant, dir: dir}
	flags := os.O_CREATE | os.O_RDWR
	if variant != "hdr-nocrc" {
		flags |= os.O_APPEND
	}
	f, err := os.OpenFile(filepath.Join(dir, "log.dat"), flags, 0o666)
	if err != nil {
		return nil, err
	}
	t.f = f
	if variant == "hdr-nocrc" {
		var h [4]byte
		if _, err := f.WriteAt(h[:], 0); err != nil {
			return nil, err
		}
		if err := f.Sync(); err != nil {
			return nil, err
		}
		t.end = 0
	}
	return t, nil
}

func encRec(p []byte) []byte {
	b := make([]byte, 6+len(p))
	binary.LittleEndian.PutUint16(b, uint16(len(p)))
	binary.LittleEndian.PutUint32(b[2:], crc32.ChecksumIEEE(p))
	copy(b[6:], p)
	return b
}

func (t *toy) append(p []byte) error {
	switch t.variant {
	case "hdr-nocrc":
		b := make([]byte, 2+len(p))
		binary.LittleEndian.PutUint16(b, uint16(len(p)))
		copy(b[2:], p)
		if _, err := t.f.WriteAt(b, 4+t.end); err != nil {
			return err
		}
		t.end += int64(len(b))
		var h [4]byte
		binary.LittleEndian.PutUint32(h[:], uint32(t.end))
		if _, err := t.f.WriteAt(h[:], 0); err != nil {
			return err
		}
		return t.f.Sync()
	default:
		if _, err := t.f.Write(encRec(p)); err != nil {
			return err
		}
		if t.variant == "ack-no-fsync" {
			return nil
		}
		return t.f.Sync()
	}
}

func (t *toy) compact() error {
	if t.variant == "hdr-nocrc" {
		return nil
	}
	recs, err := recoverToy(t.variant, t.dir, false)
	if err != nil {
		return err
	}
	tmp := filepath.Join(t.dir, "log.tmp")
	f, err := os.OpenFile(tmp, os.O_CREATE|os.O_WRONLY|os.O_TRUNC, 0o666)
	if err != nil {
		return err
	}
	for _, r := range recs {
		if _, err := f.Write(encRec([]byte(r))); err != nil {
			return err
		}
	}
	if t.variant != "tmp-nosync" {
		if err := f.Sync(); err != nil {
			return err
		}
	}
	if err := f.Close(); err != nil {
		return err
	}
	if err := os.Rename(tmp, filepath.Join(t.dir, "log.dat")); err != nil {
		return err
	}
	t.f.Close()
	t.f, err = os.OpenFile(filepath.Join(t.dir, "log.dat"), os.O_RDWR|os.O_APPEND, 0o666)
	return err
}

// recoverToy is the toy's recovery: returns the records of the log, discarding a torn tail.
func recoverToy(variant, dir string, cleanup bool) ([]string, error) {
	if cleanup {
		os.Remove(filepath.Join(dir, "log.tmp"))
	}
	b, err := os.ReadFile(filepath.Join(dir, "log.dat"))
	if os.IsNotExist(err) {
		return nil, nil
	}
	if err != nil {
		return nil, err
	}
	var out []string
	if variant == "hdr-nocrc" {
		if len(b) < 4 {
			return nil, nil
		}
		n := int(binary.LittleEndian.Uint32(b))
		b = b[4:]
		if n > len(b) {
			return nil, fmt.Errorf("header claims %d bytes, file has %d", n, len(b))
		}
		b = b[:n]
		for len(b) > 0 {
			if len(b) < 2 {
				return out, fmt.Errorf("garbage inside the committed area")
			}
			l := int(binary.LittleEndian.Uint16(b))
			if 2+l > len(b) {
				return out, fmt.Errorf("record crosses the committed length")
			}
			out = append(out, string(b[2:2+l]))
			b = b[2+l:]
		}
		return out, nil
	}
	for len(b) >= 6 {
		l := int(binary.LittleEndian.Uint16(b))
		if 6+l > len(b) || crc32.ChecksumIEEE(b[6:6+l]) != binary.LittleEndian.Uint32(b[2:]) {
			break
		}
		out = append(out, string(b[6:6+l]))
		b = b[6+l:]
	}
	return out, nil
}

func runToy(sp spec) error {
	m, err := crashfs.OpenMarkers(sp.Markers)
	if err != nil {
		return err
	}
	defer m.Close()
	t, err := openToy(sp.Variant, sp.Dir)
	if err != nil {
		return err
	}
	for k, op := range sp.Ops {
		m.Begin(k, op)
		var err error
		if op == "c" {
			err = t.compact()
		} else {
			err = t.append([]byte(strings.TrimPrefix(op, "a:")))
		}
		if err != nil {
			return err
		}
		m.Ack(k, "ok")
	}
	return nil
}

// exercise performs a sequence of awkward-but-legal syscalls; Record then compares the model with the kernel.
func exercise(sp spec) error {
	d := sp.Dir
	must := func(err error) {
		if err != nil {
			panic(err)
		}
	}
	m, err := crashfs.OpenMarkers(sp.Markers)
	must(err)
	m.Begin(0, "exercise")
	must(os.MkdirAll(filepath.Join(d, "sub", "deep"), 0o777))
	fd, err := unix.Open(filepath.Join(d, "a.wal"), unix.O_CREAT|unix.O_RDWR|unix.O_APPEND, 0o666)
	must(err)
	_, err = unix.Write(fd, []byte("hello world"))
	must(err)
	_, err = unix.Pwrite(fd, []byte("XY"), 1) // O_APPEND: lands at the end on Linux
	must(err)
	must(unix.Fsync(fd))
	_, err = unix.Writev(fd, [][]byte{[]byte("ab"), []byte("cd")})
	must(err)
	fd2, err := unix.Dup(fd)
	must(err)
	must(unix.Close(fd))
	must(unix.Ftruncate(fd2, 6))
	_, err = unix.Write(fd2, []byte("!"))
	must(err)
	must(unix.Link(filepath.Join(d, "a.wal"), filepath.Join(d, "sub", "b.wal")))
	must(unix.Rename(filepath.Join(d, "sub", "b.wal"), filepath.Join(d, "c.wal")))
	must(unix.Unlink(filepath.Join(d, "a.wal")))
	_, err = unix.Write(fd2, []byte("still-linked-as-c"))
	must(err)
	// plain fd with offsets
	g, err := unix.Open(filepath.Join(d, "sub", "p.dat"), unix.O_CREAT|unix.O_RDWR|unix.O_EXCL, 0o666)
	must(err)
	_, err = unix.Write(g, []byte("0123456789"))
	must(err)
	_, err = unix.Seek(g, 2, 0)
	must(err)
	_, err = unix.Write(g, []byte("ab"))
	must(err)
	_, err = unix.Pwrite(g, []byte("ZZ"), 20) // hole
	must(err)
	_, err = unix.Seek(g, -1, 2)
	must(err)
	_, err = unix.Write(g, []byte("END"))
	must(err)
	must(unix.Fdatasync(g))
	must(unix.Ftruncate(g, 1<<20)) // sparse tail
	// rename over an existing file, with the victim still open
	h, err := unix.Open(filepath.Join(d, "victim"), unix.O_CREAT|unix.O_WRONLY, 0o666)
	must(err)
	_, err = unix.Write(h, []byte("victim"))
	must(err)
	must(os.WriteFile(filepath.Join(d, "new.tmp"), []byte("replacement"), 0o666))
	must(os.Rename(filepath.Join(d, "new.tmp"), filepath.Join(d, "victim")))
	_, err = unix.Write(h, []byte(" (written after being replaced)"))
	must(err)
	must(unix.Close(h))
	// O_TRUNC reopen
	must(os.WriteFile(filepath.Join(d, "c.wal"), []byte("truncated+rewritten"), 0o666))
	// copy between two data files (Go uses copy_file_range or sendfile)
	src, err := os.Open(filepath.Join(d, "victim"))
	must(err)
	dst, err := os.OpenFile(filepath.Join(d, "copy.tombstone"), os.O_CREATE|os.O_RDWR|os.O_EXCL, 0o666)
	must(err)
	_, err = dst.ReadFrom(src)
	must(err)
	_, err = dst.Write([]byte("+tail"))
	must(err)
	must(dst.Close())
	src.Close()
	// failing calls must have no effect
	if _, err := unix.Open(filepath.Join(d, "nonexistent", "x"), unix.O_CREAT|unix.O_RDWR, 0o666); err == nil {
		panic("open in a missing directory succeeded")
	}
	if err := unix.Mkdir(filepath.Join(d, "sub"), 0o777); err == nil {
		panic("mkdir of an existing directory succeeded")
	}
	// directory fsync, rmdir, RemoveAll
	df, err := os.Open(d)
	must(err)
	must(df.Sync())
	df.Close()
	must(os.RemoveAll(filepath.Join(d, "sub", "deep")))
	// read-only mapping of a data file is fine
	r, err := os.Open(filepath.Join(d, "victim"))
	must(err)
	mm, err := syscall.Mmap(int(r.Fd()), 0, 4, syscall.PROT_READ, syscall.MAP_SHARED)
	must(err)
	syscall.Munmap(mm)
	r.Close()
	m.Ack(0, "ok")
	return nil
}

// ---------------------------------------------------------------------------------------------------------
// helpers

func scratch(t *testing.T) string {
	base := "/dev/shm"
	if st, err := os.Stat(base); err != nil || !st.IsDir() {
		base = os.TempDir()
	}
	d, err := os.MkdirTemp(base, "zcrash-")
	if err != nil {
		t.Fatal(err)
	}
	t.Cleanup(func() { os.RemoveAll(d) })
	return d
}

func record(t *testing.T, sp spec) *crashfs.Log {
	t.Helper()
	root := scratch(t)
	sp.Dir = filepath.Join(root, "data")
	sp.Markers = filepath.Join(root, "markers")
	js, _ := json.Marshal(sp)
	log, err := crashfs.Record(crashfs.RecordSpec{
		Argv:       []string{os.Args[0], "-test.run", "^$"},
		Env:        append(os.Environ(), "VERIF_CRASH_WRITER="+string(js)),
		DataDir:    sp.Dir,
		MarkerFile: sp.Markers,
	})
	if err != nil {
		t.Fatalf("record: %v", err)
	}
	return log
}

// checkToy runs the recovery function on every image and compares with the acknowledgement context.
// Returns violation counts per cut kind.
func checkToy(t *testing.T, log *crashfs.Log, variant string, opts crashfs.Options) (map[string]int, crashfs.Stats) {
	t.Helper()
	root := scratch(t)
	viol := map[string]int{}
	var st crashfs.Stats
	i := 0
	for im := range log.Images(opts, &st) {
		i++
		dir := filepath.Join(root, fmt.Sprint(i))
		if err := im.Materialize(dir); err != nil {
			t.Fatalf("materialize %v: %v", im.Desc, err)
		}
		got, err := recoverToy(variant, dir, true)
		os.RemoveAll(dir)
		var want []string
		for _, op := range im.Acked() {
			var s string
			json.Unmarshal([]byte(op.Op), &s)
			if strings.HasPrefix(s, "a:") {
				want = append(want, strings.TrimPrefix(s, "a:"))
			}
		}
		ok := err == nil && equal(got, want)
		if !ok && err == nil && im.InFlight() != nil {
			var s string
			json.Unmarshal([]byte(im.InFlight().Op), &s)
			if strings.HasPrefix(s, "a:") {
				ok = equal(got, append(append([]string{}, want...), strings.TrimPrefix(s, "a:")))
			}
		}
		if !ok {
			viol[im.Desc.Kind]++
			if viol[im.Desc.Kind] == 1 {
				t.Logf("variant %s: first %s violation at %v (in flight at cut: %s %s): recovered %q err=%v, acked %q", variant, im.Desc.Kind, im.Desc, im.NextOp, im.NextPath, got, err, want)
			}
			// the descriptor must rebuild the same image
			re, berr := log.Build(im.Desc, opts)
			if berr != nil || re.Hash != im.Hash {
				t.Fatalf("descriptor %v does not rebuild its image: %v", im.Desc, berr)
			}
		}
	}
	return viol, st
}

func equal(a, b []string) bool {
	if len(a) != len(b) {
		return false
	}
	for i := range a {
		if a[i] != b[i] {
			return false
		}
	}
	return true
}

var toyOps = []string{
	"a:first record with some length to it, padded to sixty bytes.....",
	"a:second record with some length to it, padded to sixty bytes....",
	"a:third record with some length to it, padded to sixty bytes.....",
	"c",
	"a:fourth record with some length to it, padded to sixty bytes....",
	"a:fifth record: after this one the committed length crosses 256...",
	"a:sixth",
}

var all = crashfs.Options{SyncClasses: []string{"*.dat", "*.tmp"}, Torn: true, Unsynced: true}

// ---------------------------------------------------------------------------------------------------------
// toy tests

func TestToyCorrect(t *testing.T) {
	log := record(t, spec{Mode: "toy", Variant: "ok", Ops: toyOps})
	viol, st := checkToy(t, log, "ok", all)
	t.Logf("events=%d generated=%v distinct=%v contents=%d", len(log.Events), st.Generated, st.Distinct, st.Contents)
	if len(viol) != 0 {
		t.Fatalf("correct toy: violations %v", viol)
	}
	if st.Distinct["P"] < 10 || st.Distinct["T"] < 100 || st.Generated["U"] < 100 {
		t.Fatalf("suspiciously few images: %+v", st)
	}
	// determinism: a second recording has the same shape and the same images
	log2 := record(t, spec{Mode: "toy", Variant: "ok", Ops: toyOps})
	if log.Shape() != log2.Shape() {
		t.Fatalf("two recordings of the same history differ in shape")
	}
	var st2 crashfs.Stats
	for range log2.Images(all, &st2) {
	}
	if fmt.Sprint(st.Distinct) != fmt.Sprint(st2.Distinct) {
		t.Fatalf("image counts differ between recordings: %v vs %v", st.Distinct, st2.Distinct)
	}
}

func TestToyAckBeforeFsync(t *testing.T) {
	log := record(t, spec{Mode: "toy", Variant: "ack-no-fsync", Ops: toyOps})
	viol, _ := checkToy(t, log, "ack-no-fsync", all)
	if viol["U"] == 0 || viol["P"] != 0 || viol["T"] != 0 {
		t.Fatalf("ack-before-fsync must be found by U images only, got %v", viol)
	}
	noU := all
	noU.Unsynced = false
	if v, _ := checkToy(t, log, "ack-no-fsync", noU); len(v) != 0 {
		t.Fatalf("without U the bug must be invisible (process-death model), got %v", v)
	}
}

func TestToyHeaderAfterBodyNoChecksum(t *testing.T) {
	log := record(t, spec{Mode: "toy", Variant: "hdr-nocrc", Ops: toyOps})
	viol, _ := checkToy(t, log, "hdr-nocrc", all)
	if viol["T"] == 0 && viol["U"] == 0 {
		t.Fatalf("torn header update must be found, got %v", viol)
	}
	if viol["P"] != 0 {
		t.Fatalf("prefix images must be consistent for hdr-nocrc, got %v", viol)
	}
	noT := all
	noT.Torn = false
	if v, _ := checkToy(t, log, "hdr-nocrc", noT); len(v) != 0 {
		t.Fatalf("without torn writes the bug must be invisible, got %v", v)
	}
}

func TestToyTmpNotSyncedBeforeRename(t *testing.T) {
	log := record(t, spec{Mode: "toy", Variant: "tmp-nosync", Ops: toyOps})
	// ordered-metadata model without U: allowed to pass
	pt := crashfs.Options{Torn: true}
	if v, _ := checkToy(t, log, "tmp-nosync", pt); len(v) != 0 {
		t.Fatalf("P/T images must pass for tmp-nosync (ordered metadata), got %v", v)
	}
	u := crashfs.Options{SyncClasses: []string{"*.tmp"}, Torn: true, Unsynced: true}
	v, _ := checkToy(t, log, "tmp-nosync", u)
	if v["U"] == 0 || v["P"] != 0 || v["T"] != 0 {
		t.Fatalf("unsynced tmp content at rename must be found by U with *.tmp as sync class, got %v", v)
	}
	// and the correct toy passes with the same options
	okLog := record(t, spec{Mode: "toy", Variant: "ok", Ops: toyOps})
	if v, _ := checkToy(t, okLog, "ok", u); len(v) != 0 {
		t.Fatalf("correct toy with *.tmp class: %v", v)
	}
}

func TestExerciserMatchesKernel(t *testing.T) {
	log := record(t, spec{Mode: "exercise"}) // Record fails if the model's final tree differs from the real one
	ops := map[string]int{}
	for _, e := range log.Events {
		ops[e.Op+"/"+e.Syscall]++
	}
	t.Logf("events: %v ignored: %v", ops, log.Ignored)
	for _, want := range []string{"write/write", "write/pwrite64", "write/writev", "trunc/ftruncate", "link/linkat", "rename/renameat", "unlink/unlinkat", "fsync/fdatasync", "dirsync/fsync", "rmdir/unlinkat", "trunc/openat"} {
		if ops[want] == 0 {
			t.Errorf("exerciser produced no %s event", want)
		}
	}
	if ops["write/copy_file_range"]+ops["write/sendfile"] == 0 {
		t.Errorf("file-to-file copy was not seen as copy_file_range/sendfile: %v", ops)
	}
	// every image materializes and reads back identically
	root := scratch(t)
	n := 0
	for im := range log.Images(crashfs.Options{Torn: true, Unsynced: true, SyncClasses: []string{"*.wal"}}, nil) {
		n++
		if n%7 != 0 {
			continue
		}
		dir := filepath.Join(root, fmt.Sprint(n))
		if err := im.Materialize(dir); err != nil {
			t.Fatal(err)
		}
		back, err := crashfs.ReadTree(dir)
		if err != nil {
			t.Fatal(err)
		}
		if d := crashfs.DiffTrees(im.Files, back); d != "" {
			t.Fatalf("image %v does not read back: %s", im.Desc, d)
		}
		os.RemoveAll(dir)
	}
	t.Logf("%d images", n)
}

// ---------------------------------------------------------------------------------------------------------
// parser unit tests on log snippets

func hx(s string) string {
	var b strings.Builder
	for i := 0; i < len(s); i++ {
		fmt.Fprintf(&b, `\x%02x`, s[i])
	}
	return b.String()
}

const dd = "/dev/shm/x/data"
const mk = "/dev/shm/x/markers"

func fdp(fd int, p string) string { return fmt.Sprintf("%d<%s>", fd, hx(p)) }
func q(s string) string           { return `"` + hx(s) + `"` }
func cwd() string                 { return "AT_FDCWD<" + hx("/dev/shm/x") + ">" }

func parse(t *testing.T, lines ...string) (*crashfs.Log, error) {
	t.Helper()
	return crashfs.ParseLog(strings.NewReader(strings.Join(lines, "\n")+"\n"), dd, mk)
}

func final(l *crashfs.Log) map[string]string {
	m := map[string]string{}
	for _, f := range l.Final {
		if f.Dir {
			m[f.Path] = "<dir>"
		} else {
			b := make([]byte, f.Size)
			copy(b, f.Data)
			m[f.Path] = string(b)
		}
	}
	return m
}

func expectFinal(t *testing.T, l *crashfs.Log, want map[string]string) {
	t.Helper()
	got := final(l)
	var ks []string
	for k := range got {
		ks = append(ks, k)
	}
	for k := range want {
		if _, ok := got[k]; !ok {
			ks = append(ks, k)
		}
	}
	sort.Strings(ks)
	for _, k := range ks {
		if got[k] != want[k] {
			t.Errorf("final[%q] = %q, want %q", k, got[k], want[k])
		}
	}
}

func TestParseUnfinishedResumed(t *testing.T) {
	a := dd + "/a.wal"
	l, err := parse(t,
		`100   mkdirat(`+cwd()+`, `+q(dd)+`, 0777) = 0`,
		`100   openat(`+cwd()+`, `+q(a)+`, O_RDWR|O_CREAT|O_CLOEXEC, 0666) = 3<`+hx(a)+`>`,
		`100   clone(child_stack=0xc000050000, flags=CLONE_VM|CLONE_FS|CLONE_FILES|CLONE_SIGHAND|CLONE_THREAD|CLONE_SYSVSEM|CLONE_SETTLS) = 101`,
		`100   write(`+fdp(3, a)+`, `+q("AAAA")+`, 4 <unfinished ...>`,
		`101   mmap(NULL, 262144, PROT_READ|PROT_WRITE, MAP_PRIVATE|MAP_ANONYMOUS, -1, 0 <unfinished ...>`,
		`100   <... write resumed>)             = 4`,
		`101   <... mmap resumed>)              = 0x7f0000000000`,
		`101   fsync(`+fdp(3, a)+` <unfinished ...>`,
		`100   --- SIGURG {si_signo=SIGURG, si_code=SI_TKILL, si_pid=100, si_uid=0} ---`,
		`101   <... fsync resumed>)             = 0`,
		`101   write(`+fdp(3, a)+`, `+q("BB")+`, 2) = 2`,
		`100   +++ exited with 0 +++`,
	)
	if err != nil {
		t.Fatal(err)
	}
	expectFinal(t, l, map[string]string{"a.wal": "AAAABB"})
	var ops []string
	for _, e := range l.Events {
		ops = append(ops, e.Op)
	}
	if strings.Join(ops, ",") != "create,write,fsync,write" {
		t.Fatalf("events %v", ops)
	}
	if l.Events[3].Off != 4 {
		t.Fatalf("thread 101 must share the file offset of thread 100: off=%d", l.Events[3].Off)
	}
}

func TestParseAppendPwriteSeekDupTrunc(t *testing.T) {
	a, b := dd+"/a.wal", dd+"/b.dat"
	l, err := parse(t,
		`7 openat(`+cwd()+`, `+q(a)+`, O_RDWR|O_CREAT|O_APPEND|O_CLOEXEC, 0666) = 3<`+hx(a)+`>`,
		`7 write(`+fdp(3, a)+`, `+q("hello")+`, 5) = 5`,
		`7 pwrite64(`+fdp(3, a)+`, `+q("XY")+`, 2, 1) = 2`, // O_APPEND: appended
		`7 openat(`+cwd()+`, `+q(b)+`, O_RDWR|O_CREAT|O_EXCL|O_CLOEXEC, 0666) = 4<`+hx(b)+`>`,
		`7 write(`+fdp(4, b)+`, `+q("0123456789")+`, 10) = 10`,
		`7 pwrite64(`+fdp(4, b)+`, `+q("ab")+`, 2, 3) = 2`,
		`7 lseek(`+fdp(4, b)+`, 1, SEEK_SET) = 1`,
		`7 fcntl(`+fdp(4, b)+`, F_DUPFD_CLOEXEC, 0) = 9<`+hx(b)+`>`,
		`7 close(`+fdp(4, b)+`) = 0`,
		`7 write(`+fdp(9, b)+`, `+q("Z")+`, 1) = 1`, // shares the offset set by lseek through fd 4
		`7 writev(`+fdp(9, b)+`, [{iov_base=`+q("p")+`, iov_len=1}, {iov_base=`+q("q")+`, iov_len=1}], 2) = 2`,
		`7 write(`+fdp(9, b)+`, `+q("LONGER")+`, 6) = 3`, // short write: only 3 bytes land
		`7 ftruncate(`+fdp(9, b)+`, 8) = 0`,
		`7 openat(`+cwd()+`, `+q(dd+"/nodir/x")+`, O_RDWR|O_CREAT|O_CLOEXEC, 0666) = -1 ENOENT (No such file or directory)`,
		`7 pwrite64(`+fdp(9, b)+`, `+q("!!")+`, 2, 100) = -1 EFBIG (File too large)`,
		`7 openat(`+cwd()+`, `+q(a)+`, O_WRONLY|O_TRUNC|O_CLOEXEC) = 5<`+hx(a)+`>`,
		`7 write(`+fdp(5, a)+`, `+q("t")+`, 1) = 1`,
	)
	if err != nil {
		t.Fatal(err)
	}
	expectFinal(t, l, map[string]string{"a.wal": "t", "b.dat": "0ZpqLON7"})
}

func TestParseRenameLinkUnlink(t *testing.T) {
	a, b, c, tmp := dd+"/a", dd+"/b", dd+"/c", dd+"/x.tmp"
	l, err := parse(t,
		`7 openat(`+cwd()+`, `+q(a)+`, O_RDWR|O_CREAT|O_CLOEXEC, 0666) = 3<`+hx(a)+`>`,
		`7 write(`+fdp(3, a)+`, `+q("one")+`, 3) = 3`,
		`7 linkat(`+cwd()+`, `+q(a)+`, `+cwd()+`, `+q(b)+`, 0) = 0`,
		`7 write(`+fdp(3, a)+`, `+q("+two")+`, 4) = 4`, // visible under both names
		`7 openat(`+cwd()+`, `+q(tmp)+`, O_RDWR|O_CREAT|O_EXCL|O_CLOEXEC, 0666) = 4<`+hx(tmp)+`>`,
		`7 write(`+fdp(4, tmp)+`, `+q("new")+`, 3) = 3`,
		`7 renameat(`+cwd()+`, `+q(tmp)+`, `+cwd()+`, `+q(a)+`) = 0`, // a now names the tmp inode; b keeps the old one
		`7 write(3<`+hx(a)+`>(deleted), `+q("+three")+`, 6) = 6`,     // fd 3 still is the old inode, now only named b (its dentry "a" was replaced)
		`7 write(`+fdp(4, a)+`, `+q("er")+`, 2) = 2`,
		`7 openat(AT_FDCWD<`+hx(dd)+`>, `+q("c")+`, O_RDWR|O_CREAT|O_CLOEXEC, 0666) = 5<`+hx(c)+`>`, // relative path
		`7 unlinkat(`+cwd()+`, `+q(c)+`, 0) = 0`,
		`7 write(5<`+hx(c)+`>(deleted), `+q("gone")+`, 4) = 4`,
		`7 fsync(5<`+hx(c)+`>(deleted)) = 0`,
		`7 mkdirat(`+cwd()+`, `+q(dd+"/d")+`, 0777) = 0`,
		`7 renameat(`+cwd()+`, `+q(b)+`, `+cwd()+`, `+q(dd+"/d/b2")+`) = 0`,
		`7 unlinkat(`+cwd()+`, `+q(dd+"/d")+`, AT_REMOVEDIR) = -1 ENOTEMPTY (Directory not empty)`,
		`7 write(8<`+hx("/dev/shm/x/other")+`>, `+q("foreign")+`, 7) = 7`,
		`7 openat(`+cwd()+`, `+q(mk)+`, O_WRONLY|O_CREAT|O_APPEND|O_CLOEXEC, 0666) = 6<`+hx(mk)+`>`,
		`7 write(`+fdp(6, mk)+`, `+q("BEGIN 0 \"op\"\n")+`, 13) = 13`,
		`7 write(`+fdp(6, mk)+`, `+q("ACK 0 ok\n")+`, 9) = 9`,
	)
	if err != nil {
		t.Fatal(err)
	}
	expectFinal(t, l, map[string]string{"a": "newer", "d": "<dir>", "d/b2": "one+two+three"})
	ms := l.Markers()
	if len(ms) != 2 || ms[0].Kind != "BEGIN" || ms[0].Payload != `"op"` || ms[1].Kind != "ACK" || ms[1].Payload != "ok" {
		t.Fatalf("markers %+v", ms)
	}
	// hard link structure: at the cut after the linkat+write both names show the same content
	for im := range l.Images(crashfs.Options{}, nil) {
		if im.Desc.Cut == 4 {
			var s []string
			for _, f := range im.Files {
				s = append(s, fmt.Sprintf("%s=%s/ino%d", f.Path, f.Data, f.Ino))
			}
			if strings.Join(s, " ") != "a=one+two/ino1 b=one+two/ino1" {
				t.Fatalf("image at cut 4: %v", s)
			}
		}
	}
}

func TestParseRejectsWhatItCannotModel(t *testing.T) {
	a := dd + "/a.tsm"
	open := `7 openat(` + cwd() + `, ` + q(a) + `, O_RDWR|O_CREAT|O_CLOEXEC, 0666) = 3<` + hx(a) + `>`
	cases := map[string][]string{
		"writable shared mapping": {open, `7 mmap(NULL, 4096, PROT_READ|PROT_WRITE, MAP_SHARED, ` + fdp(3, a) + `, 0) = 0x7f0000000000`},
		"truncated payload":       {open, `7 write(` + fdp(3, a) + `, ` + q("abc") + `..., 10) = 10`},
		"fd never opened":         {`7 write(` + fdp(3, a) + `, ` + q("abc") + `, 3) = 3`},
		"annotation mismatch":     {open, `7 write(3<` + hx(dd+"/other") + `>, ` + q("abc") + `, 3) = 3`},
		"symlink":                 {`7 symlinkat(` + q("t") + `, ` + cwd() + `, ` + q(dd+"/s") + `) = 0`},
		"unfinished data write":   {open, `7 write(` + fdp(3, a) + `, ` + q("abc") + `, 3 <unfinished ...>`},
		"rename across boundary":  {open, `7 renameat(` + cwd() + `, ` + q(a) + `, ` + cwd() + `, ` + q("/dev/shm/x/out") + `) = 0`},
		"relative without dirfd":  {`7 mkdir(` + q("rel") + `, 0777) = 0`},
		"sync_file_range":         {open, `7 sync_file_range(` + fdp(3, a) + `, 0, 0, SYNC_FILE_RANGE_WRITE) = 0`},
		"excl on existing":        {open, `7 openat(` + cwd() + `, ` + q(a) + `, O_RDWR|O_CREAT|O_EXCL, 0666) = 4<` + hx(a) + `>`},
		"marker not sequential":   nil,
	}
	for name, lines := range cases {
		if lines == nil {
			continue
		}
		if _, err := parse(t, lines...); err == nil {
			t.Errorf("%s: accepted", name)
		} else {
			t.Logf("%s: %v", name, err)
		}
	}
	// read-only mapping and private writable mapping are fine
	if _, err := parse(t, open, `7 mmap(NULL, 4096, PROT_READ, MAP_SHARED, `+fdp(3, a)+`, 0) = 0x7f0000000000`,
		`7 mmap(NULL, 4096, PROT_READ|PROT_WRITE, MAP_PRIVATE, `+fdp(3, a)+`, 0) = 0x7f0000001000`); err != nil {
		t.Errorf("read-only / private mapping rejected: %v", err)
	}
	// marker discipline
	l, err := parse(t,
		`7 openat(`+cwd()+`, `+q(mk)+`, O_WRONLY|O_CREAT|O_APPEND|O_CLOEXEC, 0666) = 6<`+hx(mk)+`>`,
		`7 write(`+fdp(6, mk)+`, `+q("BEGIN 0 1\n")+`, 10) = 10`,
		`7 write(`+fdp(6, mk)+`, `+q("BEGIN 1 2\n")+`, 10) = 10`)
	if err != nil {
		t.Fatal(err)
	}
	if l.Validate() == nil {
		t.Errorf("overlapping BEGINs accepted")
	}
}

func TestTornAndUnsyncedImages(t *testing.T) {
	a := dd + "/a.wal"
	l, err := parse(t,
		`7 openat(`+cwd()+`, `+q(mk)+`, O_WRONLY|O_CREAT|O_APPEND|O_CLOEXEC, 0666) = 6<`+hx(mk)+`>`,
		`7 openat(`+cwd()+`, `+q(a)+`, O_RDWR|O_CREAT|O_CLOEXEC, 0666) = 3<`+hx(a)+`>`, // ev0 create
		`7 write(`+fdp(6, mk)+`, `+q("BEGIN 0 1\n")+`, 10) = 10`,                       // ev1
		`7 write(`+fdp(3, a)+`, `+q("abcd")+`, 4) = 4`,                                 // ev2
		`7 fsync(`+fdp(3, a)+`) = 0`,                                                   // ev3
		`7 write(`+fdp(6, mk)+`, `+q("ACK 0 ok\n")+`, 9) = 9`,                          // ev4
		`7 write(`+fdp(6, mk)+`, `+q("BEGIN 1 2\n")+`, 10) = 10`,                       // ev5
		`7 pwrite64(`+fdp(3, a)+`, `+q("XYZ")+`, 3, 2) = 3`,                            // ev6: overwrites "cd", extends by 1
		`7 write(`+fdp(6, mk)+`, `+q("ACK 1 ok\n")+`, 9) = 9`,                          // ev7 (acknowledged without fsync)
	)
	if err != nil {
		t.Fatal(err)
	}
	var got []string
	var st crashfs.Stats
	for im := range l.Images(crashfs.Options{SyncClasses: []string{"*.wal"}, Torn: true, Unsynced: true}, &st) {
		c := ""
		for _, f := range im.Files {
			c = string(f.Data)
		}
		infl := "-"
		if im.InFlight() != nil {
			infl = fmt.Sprint(im.InFlight().K)
		}
		got = append(got, fmt.Sprintf("%v:%q:acked=%d:inflight=%s", im.Desc, c, len(im.Acked()), infl))
	}
	want := []string{
		`P@0:"":acked=0:inflight=-`,
		`P@1:"":acked=0:inflight=-`,
		`P@2:"":acked=0:inflight=0`,
		`T@2/torn(ev=2,len=1):"a":acked=0:inflight=0`,
		`T@2/torn(ev=2,len=2):"ab":acked=0:inflight=0`,
		`T@2/torn(ev=2,len=3):"abc":acked=0:inflight=0`,
		`P@3:"abcd":acked=0:inflight=0`,
		// U at cut 3 (written, not yet synced): drop gives "" (dup of P@2), torn lengths dup of T@2 → nothing new
		`P@5:"abcd":acked=1:inflight=-`,
		`P@6:"abcd":acked=1:inflight=1`,
		`T@6/torn(ev=6,len=1):"abXd":acked=1:inflight=1`,
		`T@6/torn(ev=6,len=2):"abXY":acked=1:inflight=1`,
		`P@7:"abXYZ":acked=1:inflight=1`,
		`P@8:"abXYZ":acked=2:inflight=-`,
		`U@8/drop=all:"abcd":acked=2:inflight=-`, // overwritten range restored, extension dropped
		`U@8/torn(ev=6,len=1):"abXd":acked=2:inflight=-`,
		`U@8/torn(ev=6,len=2):"abXY":acked=2:inflight=-`,
	}
	if strings.Join(got, "\n") != strings.Join(want, "\n") {
		t.Fatalf("images:\n%s\nwant:\n%s", strings.Join(got, "\n"), strings.Join(want, "\n"))
	}
	if st.Generated["U"] == 0 || st.Distinct["P"] != 8 {
		t.Fatalf("stats %+v", st)
	}
	_ = bytes.Equal
}
