// C26 (sequential part): the durable queue delivers entries in append order, keeps every acknowledged and
// not-advanced entry across a reopen, never yields bytes that were not appended, and a rejected append leaves
// the queue unchanged.
//
// Engine: opseq — every op sequence up to the depth bound is replayed from scratch on the real
// pkg/durablequeue.Queue in a fresh directory and compared, step by step and by a final complete read-out, with a
// FIFO list model written from the statement.
//
// The file is organised so that a crash-image engine can be added without touching the sequential part:
//
//	PerformHistory(dir, cfg, ops, keepOpen)  = the "history writer": performs an op list on a directory, returns
//	                                           the model (what was acknowledged, where the head is)
//	CheckRecovery(dir, cfg, expect, how)     = the "recovery checker": opens the directory with a fresh Queue, reads
//	                                           everything, compares with the expectation (exact for clean
//	                                           histories, suffix-at-or-before-head + optional unacknowledged tail
//	                                           for crash images)
package c26

import (
	"bytes"
	"encoding/json"
	"fmt"
	"io"
	"os"
	"path/filepath"
	"strconv"
	"strings"
	"testing"
	"time"

	"github.com/influxdata/influxdb/v2/pkg/durablequeue"
	"verif/h/vlib"
)

// ---------------------------------------------------------------- configuration and alphabet

// Cfg is the queue geometry. MaxSeg forces a segment rollover after about three small entries.
type Cfg struct {
	MaxSeg   int64 `json:"max_segment_size"`
	MaxSize  int64 `json:"max_size"`       // initial ("large") maximum queue size
	SmallMax int64 `json:"small_max_size"` // value used by the shrink op (the smallest the queue accepts: 2*MaxSeg)
}

var DefaultCfg = Cfg{MaxSeg: 40, MaxSize: 1024, SmallMax: 80}

// Ops of the history alphabet.
const (
	OpAppend1   = "append1"   // Append of a 1-byte entry
	OpAppend9   = "append9"   // Append of a 9-byte entry
	OpAppendSeg = "appendSeg" // Append of a segment-filling entry (MaxSeg bytes)
	OpAdvance   = "advance"   // Queue.Advance
	OpScan1     = "scan1"     // NewScanner, Next x1, Scanner.Advance
	OpScanAll   = "scanAll"   // NewScanner, Next until false, Scanner.Advance
	OpReopen    = "reopen"    // Close, then a fresh Queue (fresh SharedCount) on the same directory, Open
	OpPurgeNone = "purgeNone" // PurgeOlderThan(epoch): nothing is that old
	OpPurgeAll  = "purgeAll"  // all segment files aged to 2000-01-01, PurgeOlderThan(2001-01-01)
	OpShrink    = "shrinkMax" // SetMaxSize(SmallMax)
	OpGrow      = "growMax"   // SetMaxSize(MaxSize)
)

var Alphabet = []string{OpAppend1, OpAppend9, OpAppendSeg, OpAdvance, OpScan1, OpScanAll, OpReopen, OpPurgeNone, OpPurgeAll, OpShrink, OpGrow}

// EntryFor returns the unique payload of the append at op position i: a letter repeated.
func EntryFor(cfg Cfg, op string, i int) []byte {
	n := 1
	switch op {
	case OpAppend9:
		n = 9
	case OpAppendSeg:
		n = int(cfg.MaxSeg)
	}
	return bytes.Repeat([]byte{byte('a' + i%26)}, n)
}

// VerifyBlock is the block verification function given to the queue: an entry is a run of one lower-case letter
// of one of the three lengths of the alphabet.
func VerifyBlock(cfg Cfg) func([]byte) error {
	return func(b []byte) error {
		if len(b) != 1 && len(b) != 9 && len(b) != int(cfg.MaxSeg) {
			return fmt.Errorf("bad entry length %d", len(b))
		}
		for _, c := range b {
			if c != b[0] || c < 'a' || c > 'z' {
				return fmt.Errorf("bad entry content")
			}
		}
		return nil
	}
}

// ---------------------------------------------------------------- model

// Model is the FIFO list model of the statement.
type Model struct {
	Appended [][]byte // every acknowledged entry, in append order
	Head     int      // index of the first entry not yet advanced past
	MaxSize  int64    // current maximum queue size
	Rejected [][]byte // entries whose Append returned an error (must never be delivered)
}

func (m *Model) Remaining() [][]byte { return m.Appended[m.Head:] }

func (m *Model) remainingPayload() int64 {
	var n int64
	for _, e := range m.Remaining() {
		n += int64(len(e))
	}
	return n
}

// Fail describes the first divergence from the model.
type Fail struct {
	Clause string // violated clause
	Feat   string // discriminating features (part of the class signature)
	Why    string // human text
	Step   int    // op index (-1 = final read-out)
}

func short(b []byte) string {
	if b == nil {
		return "<nil>"
	}
	if len(b) == 0 {
		return `""`
	}
	return fmt.Sprintf("%c*%d", b[0], len(b))
}

func shortList(l [][]byte) string {
	var s []string
	for _, e := range l {
		s = append(s, short(e))
	}
	return "[" + strings.Join(s, " ") + "]"
}

func errClass(err error) string {
	switch {
	case err == nil:
		return "nil"
	case err == io.EOF:
		return "EOF"
	case err == durablequeue.ErrQueueFull:
		return "ErrQueueFull"
	case err == durablequeue.ErrNotOpen:
		return "ErrNotOpen"
	case strings.Contains(err.Error(), "record size out of range"):
		return "record-size-out-of-range"
	case strings.Contains(err.Error(), "bad read"):
		return "bad-read"
	case strings.Contains(err.Error(), "unread queue"):
		return "unread"
	case strings.Contains(err.Error(), "dropped bad disk queue segment"):
		return "dropped-bad-segment"
	}
	return "other"
}

// ---------------------------------------------------------------- history writer

func openQueue(dir string, cfg Cfg, maxSize int64) (*durablequeue.Queue, error) {
	q, err := durablequeue.NewQueue(dir, maxSize, cfg.MaxSeg, &durablequeue.SharedCount{}, durablequeue.MaxWritesPending, VerifyBlock(cfg))
	if err != nil {
		return nil, err
	}
	if err := q.Open(); err != nil {
		return nil, err
	}
	return q, nil
}

// checkHead is the non-destructive observation made after every op: Current is the model head, or an error when
// the model is empty.
func checkHead(q *durablequeue.Queue, m *Model, step int, after string) *Fail {
	cur, err := q.Current()
	rem := m.Remaining()
	if len(rem) == 0 {
		if err == nil {
			return &Fail{"fabricated-entry", "Current/after=" + after, fmt.Sprintf("queue is empty by the model but Current returned %s", short(cur)), step}
		}
		return nil
	}
	if err != nil {
		return &Fail{"entry-not-delivered", "Current/after=" + after + "/err=" + errClass(err), fmt.Sprintf("Current failed with %q; model head is %s, remaining %s", err, short(rem[0]), shortList(rem)), step}
	}
	if !bytes.Equal(cur, rem[0]) {
		return &Fail{"wrong-order", "Current/after=" + after, fmt.Sprintf("Current returned %s; model head is %s, remaining %s", short(cur), short(rem[0]), shortList(rem)), step}
	}
	return nil
}

// HistoryResult is what PerformHistory hands back.
type HistoryResult struct {
	Model    *Model
	Queue    *durablequeue.Queue // still open iff keepOpen and no failure
	Fail     *Fail
	Outcomes []string // per-op outcome classes (for the vacuity histogram)
}

// PerformHistory is the history writer: it opens a queue on dir (an existing, empty directory) and performs ops,
// checking every answer against the model. On return the queue is closed unless keepOpen (and no failure).
func PerformHistory(dir string, cfg Cfg, ops []string, keepOpen bool) (res HistoryResult) {
	m := &Model{MaxSize: cfg.MaxSize}
	res.Model = m
	q, err := openQueue(dir, cfg, m.MaxSize)
	if err != nil {
		res.Fail = &Fail{"open-failed", "fresh", err.Error(), 0}
		return
	}
	defer func() {
		if res.Fail != nil || !keepOpen {
			if q != nil {
				q.Close()
			}
		} else {
			res.Queue = q
		}
	}()
	out := func(s string) { res.Outcomes = append(res.Outcomes, s) }

	for i, op := range ops {
		switch op {
		case OpAppend1, OpAppend9, OpAppendSeg:
			b := EntryFor(cfg, op, i)
			usage := diskUsage(dir)
			err := q.Append(append([]byte(nil), b...))
			if err != nil {
				// rejected: the queue must be unchanged (verified by every later observation)
				m.Rejected = append(m.Rejected, b)
				out(op + ":rejected:" + errClass(err))
				// only the size limit may reject: with the segment files using `usage` bytes, this entry plus its
				// length word plus a possible new segment footer still fits
				if usage >= 0 && usage+int64(len(b))+16 <= m.MaxSize {
					res.Fail = &Fail{"rejected-below-size-limit", "Append/err=" + errClass(err), fmt.Sprintf("Append of %d bytes failed with %q although the segment files use only %d of max size %d bytes", len(b), err, usage, m.MaxSize), i}
					return
				}
			} else {
				m.Appended = append(m.Appended, b)
				out(op + ":ok")
				// size limit: even counting payload bytes only, the limit would be exceeded
				if p := m.remainingPayload(); p > m.MaxSize {
					res.Fail = &Fail{"size-limit-not-enforced", "Append", fmt.Sprintf("Append of %d bytes accepted although the not-yet-advanced payload is then %d bytes > max size %d", len(b), p, m.MaxSize), i}
					return
				}
			}
		case OpAdvance:
			empty := len(m.Remaining()) == 0
			err := q.Advance()
			if empty {
				out("advance:on-empty:" + errClass(err))
			} else {
				if err != nil {
					res.Fail = &Fail{"advance-failed", "Queue.Advance/err=" + errClass(err), fmt.Sprintf("Advance failed with %q; remaining %s", err, shortList(m.Remaining())), i}
					return
				}
				m.Head++
				out("advance:ok")
			}
		case OpScan1, OpScanAll:
			rem := m.Remaining()
			sc, err := q.NewScanner()
			if err != nil {
				if len(rem) > 0 {
					res.Fail = &Fail{"entry-not-delivered", "NewScanner/err=" + errClass(err), fmt.Sprintf("NewScanner failed with %q; remaining %s", err, shortList(rem)), i}
					return
				}
				out(op + ":empty:" + errClass(err))
				break
			}
			limit := 1
			if op == OpScanAll {
				limit = len(rem) + 2
			}
			n := 0
			for n < limit && sc.Next() {
				got := sc.Bytes()
				if n >= len(rem) {
					res.Fail = &Fail{"fabricated-entry", "Scanner.Next", fmt.Sprintf("scanner yielded %s beyond the model's remaining %s", short(got), shortList(rem)), i}
					return
				}
				if !bytes.Equal(got, rem[n]) {
					res.Fail = &Fail{"wrong-order", "Scanner.Next", fmt.Sprintf("scanner entry #%d is %s, model says %s (remaining %s)", n, short(got), short(rem[n]), shortList(rem)), i}
					return
				}
				n++
			}
			if e := sc.Err(); e != nil {
				res.Fail = &Fail{"entry-not-delivered", "Scanner.Err/err=" + errClass(e), fmt.Sprintf("scanner error %q after %d entries; remaining %s", e, n, shortList(rem)), i}
				return
			}
			if n == 0 && len(rem) > 0 {
				res.Fail = &Fail{"entry-not-delivered", "Scanner.Next/none", fmt.Sprintf("scanner yielded nothing; remaining %s", shortList(rem)), i}
				return
			}
			if _, err := sc.Advance(); err != nil {
				res.Fail = &Fail{"advance-failed", "Scanner.Advance/err=" + errClass(err), fmt.Sprintf("Scanner.Advance failed with %q after %d entries; remaining %s", err, n, shortList(rem)), i}
				return
			}
			m.Head += n
			switch {
			case n == len(rem):
				out(op + ":to-end")
			default:
				out(op + ":part")
			}
		case OpReopen:
			if err := q.Close(); err != nil {
				res.Fail = &Fail{"close-failed", "Close", err.Error(), i}
				q = nil
				return
			}
			q, err = openQueue(dir, cfg, m.MaxSize)
			if err != nil {
				q = nil
				res.Fail = &Fail{"open-failed", "reopen", err.Error(), i}
				return
			}
			out("reopen:ok")
		case OpPurgeNone:
			if err := q.PurgeOlderThan(time.Unix(0, 0)); err != nil {
				res.Fail = &Fail{"purge-failed", "PurgeOlderThan(epoch)", err.Error(), i}
				return
			}
			out("purgeNone:ok")
		case OpPurgeAll:
			if f := ageSegments(dir); f != nil {
				res.Fail = f
				return
			}
			if err := q.PurgeOlderThan(time.Date(2001, 1, 1, 0, 0, 0, 0, time.UTC)); err != nil {
				res.Fail = &Fail{"purge-failed", "PurgeOlderThan(2001)", err.Error(), i}
				return
			}
			// a purge may drop entries from the head only: resynchronise the model head on what is now current
			cur, err := q.Current()
			before := len(m.Remaining())
			if err != nil {
				m.Head = len(m.Appended)
			} else {
				j := -1
				for k := m.Head; k < len(m.Appended); k++ {
					if bytes.Equal(m.Appended[k], cur) {
						j = k
						break
					}
				}
				if j < 0 {
					res.Fail = &Fail{"fabricated-entry", "Current/after=purgeAll", fmt.Sprintf("after the purge Current returned %s which is not among the remaining %s", short(cur), shortList(m.Remaining())), i}
					return
				}
				m.Head = j
			}
			switch after := len(m.Remaining()); {
			case before == 0:
				out("purgeAll:was-empty")
			case after == 0:
				out("purgeAll:dropped-all")
			case after < before:
				out("purgeAll:dropped-some")
			default:
				out("purgeAll:dropped-none")
			}
		case OpShrink, OpGrow:
			v := cfg.SmallMax
			if op == OpGrow {
				v = cfg.MaxSize
			}
			if err := q.SetMaxSize(v); err != nil {
				res.Fail = &Fail{"set-max-size-failed", op, err.Error(), i}
				return
			}
			m.MaxSize = v
			out(op + ":ok")
		default:
			res.Fail = &Fail{"harness", "unknown-op", op, i}
			return
		}
		if f := checkHead(q, m, i, opClass(op)); f != nil {
			res.Fail = f
			return
		}
	}
	return
}

func opClass(op string) string {
	switch op {
	case OpAppend1, OpAppend9, OpAppendSeg:
		return "append"
	case OpScan1, OpScanAll:
		return "scan"
	}
	return op
}

// diskUsage sums the sizes of the segment files (numeric names) of dir; -1 if unreadable.
func diskUsage(dir string) int64 {
	des, err := os.ReadDir(dir)
	if err != nil {
		return -1
	}
	var n int64
	for _, de := range des {
		if _, err := strconv.ParseUint(de.Name(), 10, 64); err != nil {
			continue
		}
		fi, err := de.Info()
		if err != nil {
			return -1
		}
		n += fi.Size()
	}
	return n
}

func ageSegments(dir string) *Fail {
	des, err := os.ReadDir(dir)
	if err != nil {
		return &Fail{"harness", "readdir", err.Error(), -1}
	}
	old := time.Date(2000, 1, 1, 0, 0, 0, 0, time.UTC)
	for _, de := range des {
		if _, err := strconv.ParseUint(de.Name(), 10, 64); err != nil {
			continue
		}
		if err := os.Chtimes(filepath.Join(dir, de.Name()), old, old); err != nil {
			return &Fail{"harness", "chtimes", err.Error(), -1}
		}
	}
	return nil
}

// ---------------------------------------------------------------- read-out and recovery checker

// Drain reads everything out of an open queue: how = "current" (Current + Queue.Advance per entry) or "scanner"
// (NewScanner, Next to the end of the segment, Scanner.Advance, repeat). bound limits the number of entries so a
// broken queue cannot hang the check.
func Drain(q *durablequeue.Queue, how string, bound int) (got [][]byte, f *Fail) {
	switch how {
	case "current":
		for {
			b, err := q.Current()
			if err == io.EOF {
				return got, nil
			}
			if err != nil {
				return got, &Fail{"entry-not-delivered", "drain-current/err=" + errClass(err), fmt.Sprintf("Current failed with %q after reading %s", err, shortList(got)), -1}
			}
			got = append(got, b)
			if len(got) > bound {
				return got, &Fail{"fabricated-entry", "drain-current/too-many", fmt.Sprintf("read-out yields more than %d entries: %s…", bound, shortList(got)), -1}
			}
			if err := q.Advance(); err != nil {
				return got, &Fail{"advance-failed", "drain-current/err=" + errClass(err), fmt.Sprintf("Advance failed with %q after reading %s", err, shortList(got)), -1}
			}
		}
	case "scanner":
		for round := 0; ; round++ {
			sc, err := q.NewScanner()
			if err == io.EOF {
				return got, nil
			}
			if err != nil {
				return got, &Fail{"entry-not-delivered", "drain-scanner/NewScanner/err=" + errClass(err), fmt.Sprintf("NewScanner failed with %q after reading %s", err, shortList(got)), -1}
			}
			n := 0
			for sc.Next() {
				got = append(got, sc.Bytes())
				n++
				if len(got) > bound {
					return got, &Fail{"fabricated-entry", "drain-scanner/too-many", fmt.Sprintf("read-out yields more than %d entries: %s…", bound, shortList(got)), -1}
				}
			}
			if e := sc.Err(); e != nil {
				return got, &Fail{"entry-not-delivered", "drain-scanner/Err/err=" + errClass(e), fmt.Sprintf("scanner error %q after reading %s", e, shortList(got)), -1}
			}
			if n == 0 || round > bound {
				// a scanner that yields nothing ends the read-out; Compare decides whether something is missing
				return got, nil
			}
			if _, err := sc.Advance(); err != nil {
				return got, &Fail{"advance-failed", "drain-scanner/Advance/err=" + errClass(err), fmt.Sprintf("Scanner.Advance failed with %q after reading %s", err, shortList(got)), -1}
			}
		}
	}
	return nil, &Fail{"harness", "drain-mode", how, -1}
}

// Expect is what a read-out is compared with.
type Expect struct {
	Appended [][]byte // acknowledged entries in append order
	Head     int      // model head
	// Exact: clean history — the read-out must be exactly Appended[Head:].
	// !Exact (crash images): the read-out must be Appended[k:] for some k <= Head, optionally followed by Unacked
	// as a whole.
	Exact   bool
	Unacked []byte // entry of an append that was in flight (crash images only; nil = none)
}

// Compare decides a read-out against the expectation.
func Compare(got [][]byte, e Expect) *Fail {
	known := func(b []byte) bool {
		for _, a := range e.Appended {
			if bytes.Equal(a, b) {
				return true
			}
		}
		return e.Unacked != nil && bytes.Equal(e.Unacked, b)
	}
	for _, g := range got {
		if !known(g) {
			return &Fail{"fabricated-entry", "read-out", fmt.Sprintf("read-out %s contains %s which was never (successfully) appended; acknowledged %s head=%d", shortList(got), short(g), shortList(e.Appended), e.Head), -1}
		}
	}
	eq := func(a, b [][]byte) bool {
		if len(a) != len(b) {
			return false
		}
		for i := range a {
			if !bytes.Equal(a[i], b[i]) {
				return false
			}
		}
		return true
	}
	lo := e.Head
	if !e.Exact {
		lo = 0
	}
	for k := e.Head; k >= lo; k-- {
		want := e.Appended[k:]
		if eq(got, want) {
			return nil
		}
		if !e.Exact && e.Unacked != nil && eq(got, append(append([][]byte(nil), want...), e.Unacked)) {
			return nil
		}
	}
	want := e.Appended[e.Head:]
	switch {
	case len(got) < len(want) && eq(got, want[:len(got)]):
		return &Fail{"entry-not-delivered", "read-out/short", fmt.Sprintf("read-out %s ends early; expected %s", shortList(got), shortList(want)), -1}
	case len(got) < len(want) && eq(got, want[len(want)-len(got):]):
		return &Fail{"entry-not-delivered", "read-out/head-lost", fmt.Sprintf("read-out %s misses the head; expected %s", shortList(got), shortList(want)), -1}
	case len(got) > len(want) && eq(got[len(got)-len(want):], want):
		return &Fail{"wrong-order", "read-out/redelivers-advanced", fmt.Sprintf("read-out %s redelivers entries already advanced past; expected %s", shortList(got), shortList(want)), -1}
	case len(got) > len(want) && eq(got[:len(want)], want):
		return &Fail{"fabricated-entry", "read-out/extra-tail", fmt.Sprintf("read-out %s has extra entries after the expected %s", shortList(got), shortList(want)), -1}
	}
	return &Fail{"wrong-order", "read-out/differs", fmt.Sprintf("read-out %s; expected %s", shortList(got), shortList(want)), -1}
}

// CheckRecovery is the recovery checker: open dir with a fresh Queue, read everything (how = current|scanner),
// close, compare with e.
func CheckRecovery(dir string, cfg Cfg, maxSize int64, e Expect, how string) (got [][]byte, f *Fail) {
	q, err := openQueue(dir, cfg, maxSize)
	if err != nil {
		return nil, &Fail{"open-failed", "recovery", err.Error(), -1}
	}
	defer q.Close()
	got, f = Drain(q, how, len(e.Appended)+2)
	if f != nil {
		f.Feat = "recovery/" + f.Feat
		return got, f
	}
	if f = Compare(got, e); f != nil {
		f.Feat = "recovery/" + f.Feat
	}
	return got, f
}

// ---------------------------------------------------------------- case, run, enumeration

// End modes: how the complete read-out after the history is made.
var EndModes = []string{"live-current", "live-scanner", "reopen-current", "reopen-scanner"}

type Case struct {
	Ops []string `json:"ops"`
	End string   `json:"end"`
}

type runResult struct {
	Fail     *Fail
	Outcomes []string
	Final    [][]byte
	Model    *Model
}

func runCase(base string, cs Case) (rr runResult) {
	dir, err := os.MkdirTemp(base, "q")
	if err != nil {
		rr.Fail = &Fail{"harness", "mkdir", "cannot create scratch directory", -1}
		return
	}
	defer os.RemoveAll(dir)
	cfg := DefaultCfg
	var pf *Fail
	panicked, desc := vlib.Guard(func() {
		live := strings.HasPrefix(cs.End, "live-")
		how := strings.TrimPrefix(strings.TrimPrefix(cs.End, "live-"), "reopen-")
		h := PerformHistory(dir, cfg, cs.Ops, live)
		rr.Outcomes, rr.Model = h.Outcomes, h.Model
		if h.Fail != nil {
			pf = h.Fail
			return
		}
		e := Expect{Appended: h.Model.Appended, Head: h.Model.Head, Exact: true}
		if live {
			defer h.Queue.Close()
			got, f := Drain(h.Queue, how, len(e.Appended)+2)
			rr.Final = got
			if f == nil {
				f = Compare(got, e)
			}
			if f != nil {
				f.Feat = "live/" + f.Feat
				pf = f
			}
			return
		}
		got, f := CheckRecovery(dir, cfg, h.Model.MaxSize, e, how)
		rr.Final = got
		pf = f
	})
	if panicked {
		rr.Fail = &Fail{"panic", desc[strings.LastIndex(desc, "@")+1:], desc, -1}
		return
	}
	if pf != nil {
		pf.Why = strings.ReplaceAll(pf.Why, dir, "<dir>")
	}
	rr.Fail = pf
	return
}

// historyFeat: features of the history prefix that led to the failure (part of the class signature).
//
// An Advance on a queue that is empty by the model is a root cause of its own (segment.advance reads the footer as a
// record length and segment.advanceTo moves the in-memory head position past the end of the segment): whatever goes
// wrong after it is filed under ONE class per clause, "after-advance-on-empty".
func historyFeat(cs Case, f *Fail, outcomes []string) string {
	for _, o := range outcomes {
		if strings.HasPrefix(o, "advance:on-empty") {
			return "after-advance-on-empty"
		}
	}
	upto := len(cs.Ops)
	if f.Step >= 0 && f.Step < upto {
		upto = f.Step
	}
	seen := map[string]bool{}
	for _, op := range cs.Ops[:upto] {
		seen[opClass(op)] = true
	}
	var parts []string
	for _, k := range []string{"reopen", "purgeAll", "shrinkMax"} {
		if k == "shrinkMax" && !strings.Contains(f.Clause, "size-limit") {
			continue // the max size only matters for the size-limit clauses
		}
		if seen[k] {
			parts = append(parts, k)
		}
	}
	if len(parts) == 0 {
		return "plain"
	}
	return "after-" + strings.Join(parts, "+")
}

func sigOf(cs Case, f *Fail, outcomes []string) string {
	hf := historyFeat(cs, f, outcomes)
	if hf == "after-advance-on-empty" {
		return vlib.JoinSig(hf, f.Clause)
	}
	return vlib.JoinSig(f.Clause, f.Feat, hf)
}

// forEachSeq visits every sequence over alphabet with minLen <= length <= maxLen, simplest first (by length, then
// lexicographic in alphabet order).
func forEachSeq(alphabet []string, minLen, maxLen int, f func(ops []string) bool) {
	for l := minLen; l <= maxLen; l++ {
		idx := make([]int, l)
		for {
			ops := make([]string, l)
			for i, k := range idx {
				ops[i] = alphabet[k]
			}
			if !f(ops) {
				return
			}
			i := l - 1
			for ; i >= 0; i-- {
				idx[i]++
				if idx[i] < len(alphabet) {
					break
				}
				idx[i] = 0
			}
			if i < 0 {
				break
			}
		}
	}
}

// ReducedAlphabet drops the two ops that never change what is delivered (used for the deepest level only).
var ReducedAlphabet = []string{OpAppend1, OpAppend9, OpAppendSeg, OpAdvance, OpScan1, OpScanAll, OpReopen, OpPurgeAll, OpShrink}

func TestCheck(t *testing.T) {
	vlib.Main(t, &vlib.Check{
		ID: "C26", Level: "model_checking", QuickBudgetS: 45, ThoroughBudgetS: 780,
		Rule: "every op sequence of length <= d (quick d=4; thorough d=5, plus every sequence of length exactly 6 over the 9-op alphabet without the two delivery-neutral ops purgeNone and growMax) over the 11-op alphabet {append 1 B, append 9 B, append segment-filling 40 B, Queue.Advance, scanner Next x1 + Advance, scanner Next-to-end + Advance, reopen (Close + fresh Queue + Open), PurgeOlderThan(nothing old), PurgeOlderThan(all segments aged), SetMaxSize(80 = smallest legal), SetMaxSize(1024)} with max segment size 40 (rollover after <= 3 small entries), each replayed from scratch on the real Queue in a fresh directory, times 4 complete read-outs {live|after reopen} x {Current+Advance | scanner}; oracle = FIFO list model: Current after every op is the model head (or an error when empty), scanner output is a non-empty prefix of the remaining list, the final read-out equals the remaining list exactly, a rejected Append never shows up, an accepted Append never leaves more not-advanced payload than the max size, an Append is not rejected while the segment files plus the entry (+16 bytes framing) fit the max size. State = (sequence, read-out) node of the exploration tree, transition = one executed op, trace = one sequence validated against the implementation. Non-trivial = sequences containing at least one accepted append (distinct by construction). Crash images are NOT part of this run (added separately).",
		Assumptions: []string{
			"entries are non-empty (the scanner skips zero-length records by design)",
			"Queue.Advance / scanner on a queue that is empty by the model is executed, but only its effect on later deliveries is judged (the statement does not define it)",
			"a reopen is a clean Close followed by a new Queue object with a fresh SharedCount (process restart); the configured max size is carried over",
			"after a clean reopen the read-out must start exactly at the model head (no redelivery); the statement's at-least-once latitude is reserved for crash images (Expect.Exact=false)",
			"PurgeOlderThan may drop any prefix of the remaining list when all segments are older than the cutoff, and nothing when none is",
			"which appends the size limit must reject is judged only by payload bytes (accepted => not-advanced payload <= max size), and which it must accept only by the bytes the segment files really occupy (files + entry + 16 <= max size => accepted); the exact accounting of headers/footers in between is not part of the statement",
		},
		Run: func(c *vlib.Ctx) {
			base := vlib.Scratch("c26-")
			defer os.RemoveAll(base)
			depth, deep := 4, 0
			if c.Thorough() {
				depth, deep = 5, 6
			}
			if d := os.Getenv("C26_DEPTH"); d != "" {
				depth, _ = strconv.Atoi(d)
				deep = 0
			}
			var idx int64
			capped := false
			visit := func(ops []string) bool {
				idx++
				if !c.Mine(idx) {
					return true
				}
				if c.Expired() {
					capped = true
					return false
				}
				for _, end := range EndModes {
					cs := Case{Ops: ops, End: end}
					rr := runCase(base, cs)
					c.Eval(1)
					c.StateN(1)
					c.Transition(int64(len(ops)))
					c.Trace(1)
					if rr.Model != nil && len(rr.Model.Appended) > 0 {
						c.NontrivialN(1)
					}
					if end == EndModes[0] {
						for _, o := range rr.Outcomes {
							c.Outcome(o)
						}
					}
					if rr.Fail == nil {
						c.Outcome(fmt.Sprintf("readout:%s:%d-entries", end, min(len(rr.Final), 4)))
						if c.WantSample() && len(ops) >= 4 && len(rr.Final) > 1 {
							c.Sample(map[string]any{"case": cs, "read_out": shortList(rr.Final), "acknowledged": shortList(rr.Model.Appended), "head": rr.Model.Head})
						}
						continue
					}
					f := rr.Fail
					if f.Clause == "harness" {
						c.HarnessError(f.Feat + ": " + f.Why)
						continue
					}
					c.Outcome("FAIL:" + f.Clause)
					c.Violation(sigOf(cs, f, rr.Outcomes), fmt.Sprintf("ops %v, read-out %s: step %d: %s", ops, end, f.Step, f.Why), cs)
				}
				return true
			}
			forEachSeq(Alphabet, 0, depth, visit)
			if deep > depth && !capped {
				forEachSeq(ReducedAlphabet, deep, deep, visit)
			}
			if capped {
				c.Cap(fmt.Sprintf("budget expired before all sequences (full alphabet <= %d, reduced alphabet = %d) were visited", depth, deep))
			}
		},
		Replay: func(c *vlib.Ctx, raw json.RawMessage) (bool, string) {
			var cs Case
			if err := json.Unmarshal(raw, &cs); err != nil {
				return false, err.Error()
			}
			base := vlib.Scratch("c26r-")
			defer os.RemoveAll(base)
			rr := runCase(base, cs)
			obs := fmt.Sprintf("ops=%v end=%s outcomes=%v", cs.Ops, cs.End, rr.Outcomes)
			if rr.Model != nil {
				obs += fmt.Sprintf(" acknowledged=%s head=%d", shortList(rr.Model.Appended), rr.Model.Head)
			}
			if rr.Fail == nil {
				return false, obs + " read_out=" + shortList(rr.Final) + " -> ok"
			}
			return rr.Fail.Clause != "harness", obs + fmt.Sprintf(" -> %s/%s at step %d: %s", rr.Fail.Clause, rr.Fail.Feat, rr.Fail.Step, rr.Fail.Why)
		},
	})
}
