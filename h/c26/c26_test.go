// C26: the durable queue delivers entries in append order, keeps every acknowledged and not-advanced entry across
// a reopen and across a crash at any point of a later append or advance, never yields bytes that were not appended,
// and a rejected append leaves the queue unchanged.
//
// Sequence family (engine opseq): every op sequence up to the depth bound is replayed from scratch on the real
// pkg/durablequeue.Queue in a fresh directory and compared, step by step and by a final complete read-out, with a
// FIFO list model written from the statement.
//
// Crash family (engine verif/h/crashfs, see "crash family" below): a history writer (this binary re-executed under
// strace) runs performHistory with BEGIN/ACK markers; every prefix / torn-write / unsynced image of the syscall log
// is materialized and recovered by a fresh subprocess with the real Queue.Open, appended to, copied without closing,
// read out, reopened and read out again.
//
//	PerformHistory(dir, cfg, ops, keepOpen)  = the "history writer": performs an op list on a directory, returns
//	                                           the model (what was acknowledged, where the head is)
//	CheckRecovery(dir, cfg, expect, how)     = the clean-reopen "recovery checker": opens the directory with a fresh
//	                                           Queue, reads everything, compares with the expectation
//	Compare(got, Expect{Exact:false,Unacked})= the crash oracle on one read-out: suffix at or before the head +
//	                                           optional unacknowledged tail entry as a whole
package c26

import (
	"bufio"
	"bytes"
	"crypto/sha256"
	"encoding/hex"
	"encoding/json"
	"errors"
	"fmt"
	"io"
	"os"
	"os/exec"
	"path/filepath"
	"regexp"
	"runtime/debug"
	"strconv"
	"strings"
	"sync"
	"testing"
	"time"

	"github.com/influxdata/influxdb/v2/pkg/durablequeue"
	"github.com/influxdata/influxdb/v2/pkg/verifrt/vrt"
	"verif/h/crashfs"
	"verif/h/vlib"
)

// ---------------------------------------------------------------- configuration and alphabet

// Cfg is the queue geometry. MaxSeg forces a segment rollover after about three small entries.
type Cfg struct {
	MaxSeg   int64 `json:"max_segment_size"`
	MaxSize  int64 `json:"max_size"`       // initial ("large") maximum queue size
	SmallMax int64 `json:"small_max_size"` // value used by the shrink op (the smallest the queue accepts: 2*MaxSeg)
	// ByteFamily: the history uses appendB ops (payload byte alphabet of the crash family); the block verification
	// function then also accepts every well-formed entry of that alphabet.
	ByteFamily bool `json:"byte_family,omitempty"`
}

var DefaultCfg = Cfg{MaxSeg: 40, MaxSize: 1024, SmallMax: 80}

// ByteCfg is the geometry of the payload-byte family of the crash histories: the segment is large enough that two
// acknowledged entries and the append in flight (<= 64 bytes) share ONE segment file, so the last 8 bytes of a torn
// append are read as the footer of a segment that holds acknowledged entries.
var ByteCfg = Cfg{MaxSeg: 160, MaxSize: 1024, SmallMax: 320, ByteFamily: true}

// Ops of the history alphabet.
const (
	OpAppend1   = "append1"   // Append of a 1-byte entry
	OpAppend9   = "append9"   // Append of a 9-byte entry
	OpAppendSeg = "appendSeg" // Append of a segment-filling entry (MaxSeg bytes)
	OpAdvance   = "advance"   // Queue.Advance
	OpScan1     = "scan1"     // NewScanner, Next x1, Scanner.Advance
	OpScanAll   = "scanAll"   // NewScanner, Next until false, Scanner.Advance
	OpReopen    = "reopen"    // Close, then a fresh Queue (fresh SharedCount) on the same directory, Open
	OpPurgeNone = "purgeNone" // PurgeOlderThan(epoch): nothing is that old
	OpPurgeAll  = "purgeAll"  // all segment files aged to 2000-01-01, PurgeOlderThan(2001-01-01)
	OpShrink    = "shrinkMax" // SetMaxSize(SmallMax)
	OpGrow      = "growMax"   // SetMaxSize(MaxSize)
)

// OpAppendB is the parametrised append of the crash family's payload-byte alphabet: "appendB:<len>:<fill>" appends an
// entry of <len> bytes whose content is the fill pattern <fill> (see FillPattern). It is not part of the sequence
// family's alphabet.
const OpAppendB = "appendB"

func AppendB(n int, fill string) string { return fmt.Sprintf("%s:%d:%s", OpAppendB, n, fill) }

// parseAppendB splits an appendB op.
func parseAppendB(op string) (n int, fill string, ok bool) {
	f := strings.Split(op, ":")
	if len(f) != 3 || f[0] != OpAppendB {
		return 0, "", false
	}
	n, err := strconv.Atoi(f[1])
	if err != nil || n < 1 || n > MaxByteLen || !knownFill(f[2]) {
		return 0, "", false
	}
	return n, f[2], true
}

func isAppend(op string) bool {
	return op == OpAppend1 || op == OpAppend9 || op == OpAppendSeg || strings.HasPrefix(op, OpAppendB+":")
}

// MaxByteLen bounds the payload length of an appendB op.
const MaxByteLen = 64

// Fill patterns of the payload-byte alphabet. The single-byte fills repeat one byte value; "L" repeats the unique
// lower-case letter of the op position (the payload the other ops use); the mixed fills combine bytes with and without
// the high bit so that the 8-byte windows of the payload decode (big endian) to negative-as-signed, huge positive and
// small values.
var (
	ByteFillsQuick    = []string{"00", "01", "L", "7f", "80", "ff", "mix"}
	ByteFillsThorough = []string{"00", "01", "L", "7f", "80", "ff", "mix", "inc80", "min64", "ff-00"}
)

func knownFill(fill string) bool {
	for _, f := range ByteFillsThorough {
		if f == fill {
			return true
		}
	}
	return false
}

// FillPattern returns the n-byte payload of a fill.
func FillPattern(fill string, n int, letter byte) []byte {
	b := make([]byte, n)
	for i := range b {
		switch fill {
		case "L":
			b[i] = letter
		case "mix": // ff 00 80 01 ff 00 80 01 ...
			b[i] = []byte{0xff, 0x00, 0x80, 0x01}[i%4]
		case "inc80": // 80 81 82 ...: every byte has the high bit, all positions differ
			b[i] = 0x80 | byte(i%128)
		case "min64": // 80 00 00 00 00 00 00 00 repeated: the aligned window is the smallest int64
			if i%8 == 0 {
				b[i] = 0x80
			}
		case "ff-00": // first half ff, second half 00
			if i < (n+1)/2 {
				b[i] = 0xff
			}
		default: // two hex digits: one byte value repeated
			v, _ := strconv.ParseUint(fill, 16, 8)
			b[i] = byte(v)
		}
	}
	return b
}

// legalByteEntry: b is a well-formed entry of the payload-byte alphabet (some fill pattern of its length).
func legalByteEntry(b []byte) bool {
	if len(b) < 1 || len(b) > MaxByteLen {
		return false
	}
	for _, f := range ByteFillsThorough {
		letter := byte('a')
		if f == "L" {
			if b[0] < 'a' || b[0] > 'z' {
				continue
			}
			letter = b[0]
		}
		if bytes.Equal(b, FillPattern(f, len(b), letter)) {
			return true
		}
	}
	return false
}

var Alphabet = []string{OpAppend1, OpAppend9, OpAppendSeg, OpAdvance, OpScan1, OpScanAll, OpReopen, OpPurgeNone, OpPurgeAll, OpShrink, OpGrow}

// EntryFor returns the unique payload of the append at op position i: a letter repeated.
func EntryFor(cfg Cfg, op string, i int) []byte {
	if n, fill, ok := parseAppendB(op); ok {
		return FillPattern(fill, n, byte('a'+i%26))
	}
	n := 1
	switch op {
	case OpAppend9:
		n = 9
	case OpAppendSeg:
		n = int(cfg.MaxSeg)
	}
	return bytes.Repeat([]byte{byte('a' + i%26)}, n)
}

// VerifyBlock is the block verification function given to the queue: an entry is a run of one lower-case letter
// of one of the three lengths of the alphabet; in a payload-byte history also every well-formed entry of that alphabet.
func VerifyBlock(cfg Cfg) func([]byte) error {
	return func(b []byte) error {
		if cfg.ByteFamily && legalByteEntry(b) {
			return nil
		}
		if len(b) != 1 && len(b) != 9 && len(b) != int(cfg.MaxSeg) {
			return fmt.Errorf("bad entry length %d", len(b))
		}
		for _, c := range b {
			if c != b[0] || c < 'a' || c > 'z' {
				return fmt.Errorf("bad entry content")
			}
		}
		return nil
	}
}

// ---------------------------------------------------------------- model

// Model is the FIFO list model of the statement.
type Model struct {
	Appended [][]byte // every acknowledged entry, in append order
	Head     int      // index of the first entry not yet advanced past
	MaxSize  int64    // current maximum queue size
	Rejected [][]byte // entries whose Append returned an error (must never be delivered)
}

func (m *Model) Remaining() [][]byte { return m.Appended[m.Head:] }

func (m *Model) remainingPayload() int64 {
	var n int64
	for _, e := range m.Remaining() {
		n += int64(len(e))
	}
	return n
}

// Fail describes the first divergence from the model.
type Fail struct {
	Clause string // violated clause
	Feat   string // discriminating features (part of the class signature)
	Why    string // human text
	Step   int    // op index (-1 = final read-out)
}

func short(b []byte) string {
	if b == nil {
		return "<nil>"
	}
	if len(b) == 0 {
		return `""`
	}
	for _, c := range b {
		if c != b[0] { // not a run of one byte value: a mixed fill pattern or garbage
			if len(b) > 12 {
				return fmt.Sprintf("x%x..(%d)", b[:12], len(b))
			}
			return fmt.Sprintf("x%x(%d)", b, len(b))
		}
	}
	if b[0] < 0x21 || b[0] > 0x7e {
		return fmt.Sprintf("0x%02x*%d", b[0], len(b))
	}
	return fmt.Sprintf("%c*%d", b[0], len(b))
}

func shortList(l [][]byte) string {
	var s []string
	for _, e := range l {
		s = append(s, short(e))
	}
	return "[" + strings.Join(s, " ") + "]"
}

func errClass(err error) string {
	switch {
	case err == nil:
		return "nil"
	case err == io.EOF:
		return "EOF"
	case err == durablequeue.ErrQueueFull:
		return "ErrQueueFull"
	case err == durablequeue.ErrNotOpen:
		return "ErrNotOpen"
	case strings.Contains(err.Error(), "record size out of range"):
		return "record-size-out-of-range"
	case strings.Contains(err.Error(), "bad read"):
		return "bad-read"
	case strings.Contains(err.Error(), "unread queue"):
		return "unread"
	case strings.Contains(err.Error(), "dropped bad disk queue segment"):
		return "dropped-bad-segment"
	}
	return "other"
}

// ---------------------------------------------------------------- history writer

func openQueue(dir string, cfg Cfg, maxSize int64) (*durablequeue.Queue, error) {
	q, err := durablequeue.NewQueue(dir, maxSize, cfg.MaxSeg, &durablequeue.SharedCount{}, durablequeue.MaxWritesPending, VerifyBlock(cfg))
	if err != nil {
		return nil, err
	}
	if err := q.Open(); err != nil {
		return nil, err
	}
	return q, nil
}

// checkHead is the non-destructive observation made after every op: Current is the model head, or an error when
// the model is empty.
func checkHead(q *durablequeue.Queue, m *Model, step int, after string) *Fail {
	cur, err := q.Current()
	rem := m.Remaining()
	if len(rem) == 0 {
		if err == nil {
			return &Fail{"fabricated-entry", "Current/after=" + after, fmt.Sprintf("queue is empty by the model but Current returned %s", short(cur)), step}
		}
		return nil
	}
	if err != nil {
		return &Fail{"entry-not-delivered", "Current/after=" + after + "/err=" + errClass(err), fmt.Sprintf("Current failed with %q; model head is %s, remaining %s", err, short(rem[0]), shortList(rem)), step}
	}
	if !bytes.Equal(cur, rem[0]) {
		return &Fail{"wrong-order", "Current/after=" + after, fmt.Sprintf("Current returned %s; model head is %s, remaining %s", short(cur), short(rem[0]), shortList(rem)), step}
	}
	return nil
}

// HistoryResult is what PerformHistory hands back.
type HistoryResult struct {
	Model    *Model
	Queue    *durablequeue.Queue // still open iff keepOpen and no failure
	Fail     *Fail
	Outcomes []string // per-op outcome classes (for the vacuity histogram)
}

// PerformHistory is the history writer: it opens a queue on dir (an existing, empty directory) and performs ops,
// checking every answer against the model. On return the queue is closed unless keepOpen (and no failure).
func PerformHistory(dir string, cfg Cfg, ops []string, keepOpen bool) (res HistoryResult) {
	return performHistory(dir, cfg, ops, keepOpen, nil)
}

// OpHook is called before (begin=true) and after (begin=false, with the op's result "ok" | "rejected:<class>")
// every real call of a history; i = -1 is the initial Open. The crash family's history writer turns it into
// BEGIN/ACK markers.
type OpHook func(i int, op string, begin bool, result string)

func performHistory(dir string, cfg Cfg, ops []string, keepOpen bool, hook OpHook) (res HistoryResult) {
	if hook == nil {
		hook = func(int, string, bool, string) {}
	}
	m := &Model{MaxSize: cfg.MaxSize}
	res.Model = m
	hook(-1, "open", true, "")
	q, err := openQueue(dir, cfg, m.MaxSize)
	if err != nil {
		res.Fail = &Fail{"open-failed", "fresh", err.Error(), 0}
		return
	}
	hook(-1, "open", false, "ok")
	defer func() {
		if res.Fail != nil || !keepOpen {
			if q != nil {
				q.Close()
			}
		} else {
			res.Queue = q
		}
	}()
	out := func(s string) { res.Outcomes = append(res.Outcomes, s) }

	for i, op := range ops {
		result := "ok"
		if !isAppend(op) {
			hook(i, op, true, "") // appends: after the (read-only) disk usage probe, right before the real call
		}
		kind, opName := op, op
		if isAppend(op) {
			kind = OpAppend1
			if strings.HasPrefix(op, OpAppendB) {
				opName = OpAppendB
			}
		}
		switch kind {
		case OpAppend1:
			b := EntryFor(cfg, op, i)
			usage := diskUsage(dir)
			hook(i, op, true, "")
			err := q.Append(append([]byte(nil), b...))
			if err != nil {
				result = "rejected:" + errClass(err)
				// rejected: the queue must be unchanged (verified by every later observation)
				m.Rejected = append(m.Rejected, b)
				out(opName + ":rejected:" + errClass(err))
				// only the size limit may reject: with the segment files using `usage` bytes, this entry plus its
				// length word plus a possible new segment footer still fits
				if usage >= 0 && usage+int64(len(b))+16 <= m.MaxSize {
					res.Fail = &Fail{"rejected-below-size-limit", "Append/err=" + errClass(err), fmt.Sprintf("Append of %d bytes failed with %q although the segment files use only %d of max size %d bytes", len(b), err, usage, m.MaxSize), i}
					return
				}
			} else {
				m.Appended = append(m.Appended, b)
				out(opName + ":ok")
				// size limit: even counting payload bytes only, the limit would be exceeded
				if p := m.remainingPayload(); p > m.MaxSize {
					res.Fail = &Fail{"size-limit-not-enforced", "Append", fmt.Sprintf("Append of %d bytes accepted although the not-yet-advanced payload is then %d bytes > max size %d", len(b), p, m.MaxSize), i}
					return
				}
			}
		case OpAdvance:
			empty := len(m.Remaining()) == 0
			err := q.Advance()
			if empty {
				out("advance:on-empty:" + errClass(err))
			} else {
				if err != nil {
					res.Fail = &Fail{"advance-failed", "Queue.Advance/err=" + errClass(err), fmt.Sprintf("Advance failed with %q; remaining %s", err, shortList(m.Remaining())), i}
					return
				}
				m.Head++
				out("advance:ok")
			}
		case OpScan1, OpScanAll:
			rem := m.Remaining()
			sc, err := q.NewScanner()
			if err != nil {
				if len(rem) > 0 {
					res.Fail = &Fail{"entry-not-delivered", "NewScanner/err=" + errClass(err), fmt.Sprintf("NewScanner failed with %q; remaining %s", err, shortList(rem)), i}
					return
				}
				out(op + ":empty:" + errClass(err))
				break
			}
			limit := 1
			if op == OpScanAll {
				limit = len(rem) + 2
			}
			n := 0
			for n < limit && sc.Next() {
				got := sc.Bytes()
				if n >= len(rem) {
					res.Fail = &Fail{"fabricated-entry", "Scanner.Next", fmt.Sprintf("scanner yielded %s beyond the model's remaining %s", short(got), shortList(rem)), i}
					return
				}
				if !bytes.Equal(got, rem[n]) {
					res.Fail = &Fail{"wrong-order", "Scanner.Next", fmt.Sprintf("scanner entry #%d is %s, model says %s (remaining %s)", n, short(got), short(rem[n]), shortList(rem)), i}
					return
				}
				n++
			}
			if e := sc.Err(); e != nil {
				res.Fail = &Fail{"entry-not-delivered", "Scanner.Err/err=" + errClass(e), fmt.Sprintf("scanner error %q after %d entries; remaining %s", e, n, shortList(rem)), i}
				return
			}
			if n == 0 && len(rem) > 0 {
				res.Fail = &Fail{"entry-not-delivered", "Scanner.Next/none", fmt.Sprintf("scanner yielded nothing; remaining %s", shortList(rem)), i}
				return
			}
			if _, err := sc.Advance(); err != nil {
				res.Fail = &Fail{"advance-failed", "Scanner.Advance/err=" + errClass(err), fmt.Sprintf("Scanner.Advance failed with %q after %d entries; remaining %s", err, n, shortList(rem)), i}
				return
			}
			m.Head += n
			switch {
			case n == len(rem):
				out(op + ":to-end")
			default:
				out(op + ":part")
			}
		case OpReopen:
			if err := q.Close(); err != nil {
				res.Fail = &Fail{"close-failed", "Close", err.Error(), i}
				q = nil
				return
			}
			q, err = openQueue(dir, cfg, m.MaxSize)
			if err != nil {
				q = nil
				res.Fail = &Fail{"open-failed", "reopen", err.Error(), i}
				return
			}
			out("reopen:ok")
		case OpPurgeNone:
			if err := q.PurgeOlderThan(time.Unix(0, 0)); err != nil {
				res.Fail = &Fail{"purge-failed", "PurgeOlderThan(epoch)", err.Error(), i}
				return
			}
			out("purgeNone:ok")
		case OpPurgeAll:
			if f := ageSegments(dir); f != nil {
				res.Fail = f
				return
			}
			if err := q.PurgeOlderThan(time.Date(2001, 1, 1, 0, 0, 0, 0, time.UTC)); err != nil {
				res.Fail = &Fail{"purge-failed", "PurgeOlderThan(2001)", err.Error(), i}
				return
			}
			// a purge may drop entries from the head only: resynchronise the model head on what is now current
			cur, err := q.Current()
			before := len(m.Remaining())
			if err != nil {
				m.Head = len(m.Appended)
			} else {
				j := -1
				for k := m.Head; k < len(m.Appended); k++ {
					if bytes.Equal(m.Appended[k], cur) {
						j = k
						break
					}
				}
				if j < 0 {
					res.Fail = &Fail{"fabricated-entry", "Current/after=purgeAll", fmt.Sprintf("after the purge Current returned %s which is not among the remaining %s", short(cur), shortList(m.Remaining())), i}
					return
				}
				m.Head = j
			}
			switch after := len(m.Remaining()); {
			case before == 0:
				out("purgeAll:was-empty")
			case after == 0:
				out("purgeAll:dropped-all")
			case after < before:
				out("purgeAll:dropped-some")
			default:
				out("purgeAll:dropped-none")
			}
		case OpShrink, OpGrow:
			v := cfg.SmallMax
			if op == OpGrow {
				v = cfg.MaxSize
			}
			if err := q.SetMaxSize(v); err != nil {
				res.Fail = &Fail{"set-max-size-failed", op, err.Error(), i}
				return
			}
			m.MaxSize = v
			out(op + ":ok")
		default:
			res.Fail = &Fail{"harness", "unknown-op", op, i}
			return
		}
		hook(i, op, false, result)
		if f := checkHead(q, m, i, opClass(op)); f != nil {
			res.Fail = f
			return
		}
	}
	return
}

func opClass(op string) string {
	if isAppend(op) {
		return "append"
	}
	switch op {
	case OpScan1, OpScanAll:
		return "scan"
	}
	return op
}

// diskUsage sums the sizes of the segment files (numeric names) of dir; -1 if unreadable.
func diskUsage(dir string) int64 {
	des, err := os.ReadDir(dir)
	if err != nil {
		return -1
	}
	var n int64
	for _, de := range des {
		if _, err := strconv.ParseUint(de.Name(), 10, 64); err != nil {
			continue
		}
		fi, err := de.Info()
		if err != nil {
			return -1
		}
		n += fi.Size()
	}
	return n
}

func ageSegments(dir string) *Fail {
	des, err := os.ReadDir(dir)
	if err != nil {
		return &Fail{"harness", "readdir", err.Error(), -1}
	}
	old := time.Date(2000, 1, 1, 0, 0, 0, 0, time.UTC)
	for _, de := range des {
		if _, err := strconv.ParseUint(de.Name(), 10, 64); err != nil {
			continue
		}
		if err := os.Chtimes(filepath.Join(dir, de.Name()), old, old); err != nil {
			return &Fail{"harness", "chtimes", err.Error(), -1}
		}
	}
	return nil
}

// ---------------------------------------------------------------- read-out and recovery checker

// Drain reads everything out of an open queue: how = "current" (Current + Queue.Advance per entry) or "scanner"
// (NewScanner, Next to the end of the segment, Scanner.Advance, repeat). bound limits the number of entries so a
// broken queue cannot hang the check.
func Drain(q *durablequeue.Queue, how string, bound int) (got [][]byte, f *Fail) {
	switch how {
	case "current":
		for {
			b, err := q.Current()
			if err == io.EOF {
				return got, nil
			}
			if err != nil {
				return got, &Fail{"entry-not-delivered", "drain-current/err=" + errClass(err), fmt.Sprintf("Current failed with %q after reading %s", err, shortList(got)), -1}
			}
			got = append(got, b)
			if len(got) > bound {
				return got, &Fail{"fabricated-entry", "drain-current/too-many", fmt.Sprintf("read-out yields more than %d entries: %s…", bound, shortList(got)), -1}
			}
			if err := q.Advance(); err != nil {
				return got, &Fail{"advance-failed", "drain-current/err=" + errClass(err), fmt.Sprintf("Advance failed with %q after reading %s", err, shortList(got)), -1}
			}
		}
	case "scanner":
		for round := 0; ; round++ {
			sc, err := q.NewScanner()
			if err == io.EOF {
				return got, nil
			}
			if err != nil {
				return got, &Fail{"entry-not-delivered", "drain-scanner/NewScanner/err=" + errClass(err), fmt.Sprintf("NewScanner failed with %q after reading %s", err, shortList(got)), -1}
			}
			n := 0
			for sc.Next() {
				got = append(got, sc.Bytes())
				n++
				if len(got) > bound {
					return got, &Fail{"fabricated-entry", "drain-scanner/too-many", fmt.Sprintf("read-out yields more than %d entries: %s…", bound, shortList(got)), -1}
				}
			}
			if e := sc.Err(); e != nil {
				return got, &Fail{"entry-not-delivered", "drain-scanner/Err/err=" + errClass(e), fmt.Sprintf("scanner error %q after reading %s", e, shortList(got)), -1}
			}
			if n == 0 || round > bound {
				// a scanner that yields nothing ends the read-out; Compare decides whether something is missing
				return got, nil
			}
			if _, err := sc.Advance(); err != nil {
				return got, &Fail{"advance-failed", "drain-scanner/Advance/err=" + errClass(err), fmt.Sprintf("Scanner.Advance failed with %q after reading %s", err, shortList(got)), -1}
			}
		}
	}
	return nil, &Fail{"harness", "drain-mode", how, -1}
}

// Expect is what a read-out is compared with.
type Expect struct {
	Appended [][]byte // acknowledged entries in append order
	Head     int      // model head
	// Exact: clean history — the read-out must be exactly Appended[Head:].
	// !Exact (crash images): the read-out must be Appended[k:] for some k <= Head, optionally followed by Unacked
	// as a whole.
	Exact   bool
	Unacked []byte // entry of an append that was in flight (crash images only; nil = none)
}

// Compare decides a read-out against the expectation.
func Compare(got [][]byte, e Expect) *Fail {
	known := func(b []byte) bool {
		for _, a := range e.Appended {
			if bytes.Equal(a, b) {
				return true
			}
		}
		return e.Unacked != nil && bytes.Equal(e.Unacked, b)
	}
	for _, g := range got {
		if !known(g) {
			return &Fail{"fabricated-entry", "read-out", fmt.Sprintf("read-out %s contains %s which was never (successfully) appended; acknowledged %s head=%d", shortList(got), short(g), shortList(e.Appended), e.Head), -1}
		}
	}
	eq := func(a, b [][]byte) bool {
		if len(a) != len(b) {
			return false
		}
		for i := range a {
			if !bytes.Equal(a[i], b[i]) {
				return false
			}
		}
		return true
	}
	lo := e.Head
	if !e.Exact {
		lo = 0
	}
	for k := e.Head; k >= lo; k-- {
		want := e.Appended[k:]
		if eq(got, want) {
			return nil
		}
		if !e.Exact && e.Unacked != nil && eq(got, append(append([][]byte(nil), want...), e.Unacked)) {
			return nil
		}
	}
	want := e.Appended[e.Head:]
	switch {
	case len(got) < len(want) && eq(got, want[:len(got)]):
		return &Fail{"entry-not-delivered", "read-out/short", fmt.Sprintf("read-out %s ends early; expected %s", shortList(got), shortList(want)), -1}
	case len(got) < len(want) && eq(got, want[len(want)-len(got):]):
		return &Fail{"entry-not-delivered", "read-out/head-lost", fmt.Sprintf("read-out %s misses the head; expected %s", shortList(got), shortList(want)), -1}
	case len(got) > len(want) && eq(got[len(got)-len(want):], want):
		return &Fail{"wrong-order", "read-out/redelivers-advanced", fmt.Sprintf("read-out %s redelivers entries already advanced past; expected %s", shortList(got), shortList(want)), -1}
	case len(got) > len(want) && eq(got[:len(want)], want):
		return &Fail{"fabricated-entry", "read-out/extra-tail", fmt.Sprintf("read-out %s has extra entries after the expected %s", shortList(got), shortList(want)), -1}
	}
	return &Fail{"wrong-order", "read-out/differs", fmt.Sprintf("read-out %s; expected %s", shortList(got), shortList(want)), -1}
}

// CheckRecovery is the recovery checker: open dir with a fresh Queue, read everything (how = current|scanner),
// close, compare with e.
func CheckRecovery(dir string, cfg Cfg, maxSize int64, e Expect, how string) (got [][]byte, f *Fail) {
	q, err := openQueue(dir, cfg, maxSize)
	if err != nil {
		return nil, &Fail{"open-failed", "recovery", err.Error(), -1}
	}
	defer q.Close()
	got, f = Drain(q, how, len(e.Appended)+2)
	if f != nil {
		f.Feat = "recovery/" + f.Feat
		return got, f
	}
	if f = Compare(got, e); f != nil {
		f.Feat = "recovery/" + f.Feat
	}
	return got, f
}

// ---------------------------------------------------------------- case, run, enumeration

// End modes: how the complete read-out after the history is made.
var EndModes = []string{"live-current", "live-scanner", "reopen-current", "reopen-scanner"}

type Case struct {
	Ops   []string   `json:"ops,omitempty"`
	End   string     `json:"end,omitempty"`
	Crash *CrashCase `json:"crash,omitempty"` // crash family (then Ops/End are unused)
	Sched *SchedCase `json:"sched,omitempty"` // schedule part (then Ops/End are unused)
}

type runResult struct {
	Fail     *Fail
	Outcomes []string
	Final    [][]byte
	Model    *Model
}

func runCase(base string, cs Case) (rr runResult) {
	dir, err := os.MkdirTemp(base, "q")
	if err != nil {
		rr.Fail = &Fail{"harness", "mkdir", "cannot create scratch directory", -1}
		return
	}
	defer os.RemoveAll(dir)
	cfg := DefaultCfg
	var pf *Fail
	panicked, desc := vlib.Guard(func() {
		live := strings.HasPrefix(cs.End, "live-")
		how := strings.TrimPrefix(strings.TrimPrefix(cs.End, "live-"), "reopen-")
		h := PerformHistory(dir, cfg, cs.Ops, live)
		rr.Outcomes, rr.Model = h.Outcomes, h.Model
		if h.Fail != nil {
			pf = h.Fail
			return
		}
		e := Expect{Appended: h.Model.Appended, Head: h.Model.Head, Exact: true}
		if live {
			defer h.Queue.Close()
			got, f := Drain(h.Queue, how, len(e.Appended)+2)
			rr.Final = got
			if f == nil {
				f = Compare(got, e)
			}
			if f != nil {
				f.Feat = "live/" + f.Feat
				pf = f
			}
			return
		}
		got, f := CheckRecovery(dir, cfg, h.Model.MaxSize, e, how)
		rr.Final = got
		pf = f
	})
	if panicked {
		rr.Fail = &Fail{"panic", desc[strings.LastIndex(desc, "@")+1:], desc, -1}
		return
	}
	if pf != nil {
		pf.Why = strings.ReplaceAll(pf.Why, dir, "<dir>")
	}
	rr.Fail = pf
	return
}

// historyFeat: features of the history prefix that led to the failure (part of the class signature).
//
// An Advance on a queue that is empty by the model is a root cause of its own (segment.advance reads the footer as a
// record length and segment.advanceTo moves the in-memory head position past the end of the segment): whatever goes
// wrong after it is filed under ONE class per clause, "after-advance-on-empty".
func historyFeat(cs Case, f *Fail, outcomes []string) string {
	for _, o := range outcomes {
		if strings.HasPrefix(o, "advance:on-empty") {
			return "after-advance-on-empty"
		}
	}
	upto := len(cs.Ops)
	if f.Step >= 0 && f.Step < upto {
		upto = f.Step
	}
	seen := map[string]bool{}
	for _, op := range cs.Ops[:upto] {
		seen[opClass(op)] = true
	}
	var parts []string
	for _, k := range []string{"reopen", "purgeAll", "shrinkMax"} {
		if k == "shrinkMax" && !strings.Contains(f.Clause, "size-limit") {
			continue // the max size only matters for the size-limit clauses
		}
		if seen[k] {
			parts = append(parts, k)
		}
	}
	if len(parts) == 0 {
		return "plain"
	}
	return "after-" + strings.Join(parts, "+")
}

func sigOf(cs Case, f *Fail, outcomes []string) string {
	hf := historyFeat(cs, f, outcomes)
	if hf == "after-advance-on-empty" {
		return vlib.JoinSig(hf, f.Clause)
	}
	return vlib.JoinSig(f.Clause, f.Feat, hf)
}

// forEachSeq visits every sequence over alphabet with minLen <= length <= maxLen, simplest first (by length, then
// lexicographic in alphabet order).
func forEachSeq(alphabet []string, minLen, maxLen int, f func(ops []string) bool) {
	for l := minLen; l <= maxLen; l++ {
		idx := make([]int, l)
		for {
			ops := make([]string, l)
			for i, k := range idx {
				ops[i] = alphabet[k]
			}
			if !f(ops) {
				return
			}
			i := l - 1
			for ; i >= 0; i-- {
				idx[i]++
				if idx[i] < len(alphabet) {
					break
				}
				idx[i] = 0
			}
			if i < 0 {
				break
			}
		}
	}
}

// ================================================================ crash family (engine: verif/h/crashfs)
//
// A history writer (this binary re-executed under strace) performs a history through performHistory, bracketing the
// initial Open (k=0) and every op (k=i+1) with BEGIN/ACK markers. Every prefix / torn-write / unsynced image of the
// syscall log is materialized and recovered in a fresh subprocess with the real Queue.Open.
//
// Payload-byte family (byteFamily, deriveByteLog): histories whose last op is an appendB:<len>:<fill> - payloads of
// several lengths filled with 0x00 / 0x01 / a letter / 0x7f / 0x80 / 0xff / mixed patterns - so that the torn images
// of that append put every window of (old footer | length word | payload | new footer) where segment.open reads the
// head position, including values with the high bit set and values that look like a valid position.

// CrashHistory is one recorded history of the crash family.
type CrashHistory struct {
	Name string   `json:"name"`
	Cfg  Cfg      `json:"cfg"`
	Ops  []string `json:"ops"`
	// LastOnly: only the images whose cut lies inside or after the LAST op are evaluated; the earlier cuts belong to
	// the history without that op, which the enumerated family contains too (so every image is evaluated once).
	LastOnly bool `json:"last_only,omitempty"`
}

// CrashAlphabet is the alphabet of the enumerated crash histories.
var CrashAlphabet = []string{OpAppend1, OpAppend9, OpAppendSeg, OpAdvance, OpScanAll, OpReopen}

// crashHistories lists the histories of a tier: hand-picked ones (every cut), then (thorough) every sequence of length
// 0..3 over CrashAlphabet (cuts of the last op only).
func crashHistories(tier string) []CrashHistory {
	cfg := DefaultCfg
	hs := []CrashHistory{
		// appends into a fresh segment; a length word that equals a record boundary (9 B entry behind a 1 B entry);
		// segment roll (the 4th append finds 51 > 40 bytes: create + footer of segment 2); append into the rolled segment
		{Name: "append-roll", Cfg: cfg, Ops: []string{OpAppend1, OpAppend9, OpAppend9, OpAppend1, OpAppend9}},
		// Queue.Advance footer writes; the second advance empties the full single segment (42 >= 40): addSegment +
		// remove (trim); append + advance on the new segment (not full: no trim); append behind a fully advanced head
		{Name: "advance-trim", Cfg: cfg, Ops: []string{OpAppend9, OpAppend9, OpAdvance, OpAdvance, OpAppend1, OpAdvance, OpAppend9}},
		// segment-filling entry, roll on the next append, scanner advance that trims the head segment while a tail
		// segment exists, reopen (Close + Open) between appends, scanner to the end, reopen
		{Name: "scan-reopen", Cfg: cfg, Ops: []string{OpAppendSeg, OpAppend1, OpScan1, OpReopen, OpAppend9, OpScanAll, OpAppend1, OpReopen}},
		// partial advance inside a segment, appends and rolls with a non-zero head position in the footer, advance in
		// the head segment while the tail is another segment
		{Name: "advance-append", Cfg: cfg, Ops: []string{OpAppend1, OpAppend1, OpAdvance, OpAppend9, OpAppend9, OpAdvance, OpAppend9, OpAppend1}},
	}
	if tier != "thorough" {
		return hs
	}
	hs = append(hs,
		// three segments alive, trims of two of them, reopen with several segments
		CrashHistory{Name: "three-segments", Cfg: cfg, Ops: []string{OpAppendSeg, OpAppendSeg, OpAppend9, OpReopen, OpAdvance, OpAppend1, OpScanAll, OpScanAll, OpAppend9}},
		// reopen of a fully advanced queue (Open trims), advance on the empty queue, appends afterwards
		CrashHistory{Name: "empty-reopen", Cfg: cfg, Ops: []string{OpAppend9, OpAdvance, OpReopen, OpAdvance, OpAppend1, OpAppend9, OpReopen, OpScan1}},
		// scanner over part of a segment, appends behind a moved head, roll, scanner to the end of the old segment
		CrashHistory{Name: "scan-part", Cfg: cfg, Ops: []string{OpAppend9, OpAppend1, OpScan1, OpAppend9, OpAppend9, OpScan1, OpScanAll, OpAppend1}},
	)
	forEachSeq(CrashAlphabet, 0, 3, func(ops []string) bool {
		hs = append(hs, CrashHistory{Name: "seq:" + strings.Join(ops, ","), Cfg: cfg, Ops: ops, LastOnly: true})
		return true
	})
	return hs
}

// bytePrefix is an acknowledged history in front of the append in flight of the payload-byte family.
type bytePrefix struct {
	Name string
	Cfg  Cfg
	Ops  []string
}

func byteHistory(p bytePrefix, n int, fill string) CrashHistory {
	ops := append(append([]string(nil), p.Ops...), AppendB(n, fill))
	return CrashHistory{Name: fmt.Sprintf("bytes:%s:%d:%s", p.Name, n, fill), Cfg: p.Cfg, Ops: ops, LastOnly: true}
}

// byteFamily is the payload-byte family: (acknowledged prefix) x (payload length) x (fill pattern), each a history
// "prefix, appendB:<len>:<fill>" of which only the cuts inside or after the appendB are evaluated. The write of
// segment.append (length word | payload | footer, overwriting the old footer) is torn at EVERY byte length, so the last
// 8 bytes of the tail segment file run through every window of (old footer | length word | payload | new footer).
func byteFamily(tier string) (prefixes []bytePrefix, lens []int, fills []string) {
	rolled := DefaultCfg
	rolled.ByteFamily = true
	prefixes = []bytePrefix{
		{"after-9", ByteCfg, []string{OpAppend9}},
		{"after-1,9", ByteCfg, []string{OpAppend1, OpAppend9}},
		{"after-9,9,advance", ByteCfg, []string{OpAppend9, OpAppend9, OpAdvance}}, // footer position 17, one entry left
		{"after-9,advance", ByteCfg, []string{OpAppend9, OpAdvance}},              // footer position 17, nothing left to deliver
		{"fresh", ByteCfg, nil},                                                   // the append overwrites the initial footer of an empty segment
		{"rolled-after-9,9", rolled, []string{OpAppend9, OpAppend9}},              // max segment size 40: the append creates segment 2, the acknowledged entries are in segment 1
	}
	lens = []int{1, 8, 9, 16, 17, 40}
	fills = ByteFillsQuick
	if tier == "thorough" {
		prefixes = append(prefixes,
			bytePrefix{"after-1", ByteCfg, []string{OpAppend1}},
			bytePrefix{"after-9,9", ByteCfg, []string{OpAppend9, OpAppend9}},
			bytePrefix{"after-1,1", ByteCfg, []string{OpAppend1, OpAppend1}},
			bytePrefix{"after-9,1", ByteCfg, []string{OpAppend9, OpAppend1}},
			bytePrefix{"after-1,advance", ByteCfg, []string{OpAppend1, OpAdvance}},
			bytePrefix{"after-1,9,advance", ByteCfg, []string{OpAppend1, OpAppend9, OpAdvance}},
			bytePrefix{"after-9,reopen", ByteCfg, []string{OpAppend9, OpReopen}},
			bytePrefix{"after-9,9,scanAll", ByteCfg, []string{OpAppend9, OpAppend9, OpScanAll}},
			bytePrefix{"after-1,9,9", ByteCfg, []string{OpAppend1, OpAppend9, OpAppend9}},
			bytePrefix{"after-9,advance,9", ByteCfg, []string{OpAppend9, OpAdvance, OpAppend9}},
		)
		// 26 and 34 are the record boundaries behind the prefixes (1 B, 9 B) and (9 B, 9 B)
		lens = []int{1, 2, 8, 9, 16, 17, 24, 26, 34, 40}
		fills = ByteFillsThorough
	}
	return
}

// deriveByteLog returns the recording of the history "prefix, appendB:<n>:<fill>" derived from the REAL recording l of
// "prefix, appendB:<fromN>:<fromFill>": the ONE write of the appendB in flight (length word | payload | footer) gets
// the length word and payload of the other entry and keeps the recorded offset and footer bytes, and the op name in
// the BEGIN marker is replaced; every other event (syscall sequence, offsets, segment creation of the rolled prefix,
// fsyncs, markers) is what was recorded. Neither Queue.Append nor segment.append looks at the payload, and whether the
// segment rolls depends on the size of the tail segment only, so two real recordings differ in nothing else; this is
// cross-checked against further real recordings (quick: one (length, fill) per prefix; thorough: every second length of
// every prefix, the fill rotating), and every violation is confirmed on a real recording of its own history (Replay records that history itself and
// compares the digest of the event prefix, payload bytes included).
func deriveByteLog(l *crashfs.Log, p bytePrefix, fromN int, fromFill string, n int, fill string) (*crashfs.Log, error) {
	i := len(p.Ops) // op index of the appendB
	oldP, newP := EntryFor(p.Cfg, AppendB(fromN, fromFill), i), EntryFor(p.Cfg, AppendB(n, fill), i)
	oldM, _ := json.Marshal(markerOp{I: i, Op: AppendB(fromN, fromFill)})
	newM, _ := json.Marshal(markerOp{I: i, Op: AppendB(n, fill)})
	d := *l
	d.Events = append([]crashfs.Event(nil), l.Events...)
	d.Final = nil
	begin, writes := -1, 0
	for k := range d.Events {
		e := &d.Events[k]
		switch {
		case e.Marker != nil && e.Marker.Kind == "BEGIN" && e.Marker.K == i+1:
			if e.Marker.Payload != string(oldM) {
				return nil, fmt.Errorf("BEGIN marker of the append in flight is %q, expected %q", e.Marker.Payload, oldM)
			}
			m := *e.Marker
			m.Payload = string(newM)
			e.Marker = &m
			begin = k
		case begin >= 0 && e.Op == crashfs.OpWrite && len(e.Data) == 8:
			// initial footer of a segment the append creates (rolled prefix)
		case begin >= 0 && e.Op == crashfs.OpWrite:
			// the only other data written after the BEGIN of the last op: length word | payload | footer
			var lw [8]byte
			lw[7] = byte(fromN)
			if len(e.Data) != fromN+16 || !bytes.Equal(e.Data[:8], lw[:]) || !bytes.Equal(e.Data[8:8+fromN], oldP) {
				return nil, fmt.Errorf("event %d after the BEGIN of the append in flight writes %d bytes that are not length word | payload | footer", k, len(e.Data))
			}
			lw[7] = byte(n)
			nd := append(append(append([]byte(nil), lw[:]...), newP...), e.Data[8+fromN:]...)
			e.Data = nd
			writes++
		}
	}
	if begin < 0 || writes != 1 {
		return nil, fmt.Errorf("expected exactly one payload write after the BEGIN of the append in flight, found begin=%d writes=%d", begin, writes)
	}
	return &d, nil
}

// fullDigest pins a whole log (every event with its payload bytes).
func fullDigest(l *crashfs.Log) string {
	return prefixDigest(l, crashfs.Descriptor{Kind: crashfs.KindP, Cut: len(l.Events), TornLen: -1})
}

// tailWindowClass classifies the last 8 bytes of the highest-numbered segment file of an image the way segment.open
// reads them (a big-endian head position): for the coverage report of the payload-byte family.
func tailWindowClass(im *crashfs.Image) string {
	var tail *crashfs.File
	var tailID uint64
	for i := range im.Files {
		f := &im.Files[i]
		if f.Dir {
			continue
		}
		id, err := strconv.ParseUint(filepath.Base(f.Path), 10, 64)
		if err != nil {
			continue
		}
		if tail == nil || id > tailID {
			tail, tailID = f, id
		}
	}
	switch {
	case tail == nil:
		return "no-segment"
	case tail.Size < 8:
		return "shorter-than-footer"
	}
	var w [8]byte
	for i := range w {
		if off := tail.Size - 8 + int64(i); off < int64(len(tail.Data)) {
			w[i] = tail.Data[off]
		}
	}
	v := uint64(0)
	for _, c := range w {
		v = v<<8 | uint64(c)
	}
	switch {
	case v>>63 == 1:
		return "high-bit-set(negative-as-int64)"
	case v > uint64(tail.Size-8):
		return "positive-beyond-segment"
	case v == uint64(tail.Size-8):
		return "in-range(end-of-segment)"
	}
	return "in-range(inside-segment)"
}

// Entries appended after the recovery (never used by a history: op index i < 24 gives letters a..x).
var (
	postEntry1 = bytes.Repeat([]byte{'z'}, 9)
	postEntry2 = bytes.Repeat([]byte{'y'}, 9)
)

// ---------------------------------------------------------------- history writer (runs under strace)

type crashWriterSpec struct {
	Dir     string   `json:"dir"`
	Markers string   `json:"markers"`
	Cfg     Cfg      `json:"cfg"`
	Ops     []string `json:"ops"`
}

type markerOp struct {
	I  int    `json:"i"`
	Op string `json:"op"`
}

func crashWriterMain(js string) int {
	var sp crashWriterSpec
	if err := json.Unmarshal([]byte(js), &sp); err != nil {
		fmt.Fprintln(os.Stderr, "c26 writer: bad spec:", err)
		return 2
	}
	m, err := crashfs.OpenMarkers(sp.Markers)
	if err != nil {
		fmt.Fprintln(os.Stderr, "c26 writer:", err)
		return 2
	}
	if err := os.Mkdir(sp.Dir, 0o777); err != nil {
		fmt.Fprintln(os.Stderr, "c26 writer:", err)
		return 2
	}
	h := performHistory(sp.Dir, sp.Cfg, sp.Ops, true, func(i int, op string, begin bool, result string) {
		if begin {
			m.Begin(i+1, markerOp{I: i, Op: op})
		} else {
			m.Ack(i+1, result)
		}
	})
	if h.Fail != nil {
		// the live behaviour of a history is the sequential family's business; a history that fails live is not recorded
		fmt.Fprintf(os.Stderr, "c26 writer: history failed live at step %d: %s/%s: %s\n", h.Fail.Step, h.Fail.Clause, h.Fail.Feat, h.Fail.Why)
		return 1
	}
	return 0 // the process simply exits with the queue open
}

// ---------------------------------------------------------------- recovery checker (fresh subprocess, batch of images)

// CrashObs is what the real code did on one image with one read-out mode.
type CrashObs struct {
	ID    string `json:"id"`
	Mode  string `json:"mode"`
	Panic string `json:"panic,omitempty"`
	Died  string `json:"died,omitempty"` // set by the parent: the recovery subprocess died or hung on this image, also when run alone
	// stage 1: Open, one more Append, (copy of the directory without closing), complete read-out
	OpenErr   string   `json:"open_err,omitempty"`
	AppendErr string   `json:"append_err,omitempty"`
	Got1      [][]byte `json:"got1,omitempty"`
	Fail1     *ObsFail `json:"fail1,omitempty"`
	// stage 2: second restart on the copy: Open, complete read-out, one more Append, read-out
	Open2Err   string   `json:"open2_err,omitempty"`
	Got2       [][]byte `json:"got2,omitempty"`
	Fail2      *ObsFail `json:"fail2,omitempty"`
	Append2Err string   `json:"append2_err,omitempty"`
	Got3       [][]byte `json:"got3,omitempty"`
	Fail3      *ObsFail `json:"fail3,omitempty"`
	Stage      int      `json:"stage"` // 1: first read-out done, 2: second read-out done, 3: all done
}

type ObsFail struct {
	Clause string `json:"clause"`
	Feat   string `json:"feat"`
	Why    string `json:"why"`
}

func obsFail(f *Fail) *ObsFail {
	if f == nil {
		return nil
	}
	return &ObsFail{f.Clause, f.Feat, f.Why}
}

func copyTree(src, dst string) error {
	return filepath.Walk(src, func(p string, fi os.FileInfo, err error) error {
		if err != nil {
			return err
		}
		rel, _ := filepath.Rel(src, p)
		t := filepath.Join(dst, rel)
		if fi.IsDir() {
			return os.MkdirAll(t, 0o777)
		}
		b, err := os.ReadFile(p)
		if err != nil {
			return err
		}
		return os.WriteFile(t, b, 0o666)
	})
}

// crashRecoverOne runs the recovery procedure on the image in dir/img (dir/img2 is created for the second restart).
func crashRecoverOne(dir string, cfg Cfg, how string, bound int, id string) (o CrashObs) {
	o.ID, o.Mode = id, how
	img, img2 := filepath.Join(dir, "img"), filepath.Join(dir, "img2")
	scrubS := func(s string) string {
		s = strings.ReplaceAll(s, img2, "<image2>")
		return strings.ReplaceAll(s, img, "<image>")
	}
	defer func() {
		for _, p := range []*string{&o.Panic, &o.OpenErr, &o.AppendErr, &o.Open2Err, &o.Append2Err} {
			*p = scrubS(*p)
		}
		for _, f := range []*ObsFail{o.Fail1, o.Fail2, o.Fail3} {
			if f != nil {
				f.Why = scrubS(f.Why)
			}
		}
	}()
	panicked, desc := vlib.Guard(func() {
		q1, err := openQueue(img, cfg, cfg.MaxSize)
		if err != nil {
			o.OpenErr = err.Error()
			return
		}
		defer q1.Close()
		if err := q1.Append(append([]byte(nil), postEntry1...)); err != nil {
			o.AppendErr = err.Error()
			return
		}
		if err := copyTree(img, img2); err != nil { // second process death: q1 is still open
			panic("harness: copy: " + err.Error())
		}
		var f *Fail
		o.Got1, f = Drain(q1, how, bound)
		o.Fail1 = obsFail(f)
		o.Stage = 1
		q2, err := openQueue(img2, cfg, cfg.MaxSize)
		if err != nil {
			o.Open2Err = err.Error()
			return
		}
		defer q2.Close()
		o.Got2, f = Drain(q2, how, bound)
		o.Fail2 = obsFail(f)
		o.Stage = 2
		if err := q2.Append(append([]byte(nil), postEntry2...)); err != nil {
			o.Append2Err = err.Error()
			return
		}
		o.Got3, f = Drain(q2, how, bound)
		o.Fail3 = obsFail(f)
		o.Stage = 3
	})
	if panicked {
		o.Panic = desc
	}
	return
}

type crashRecJob struct {
	Dirs   []string `json:"dirs"`
	IDs    []string `json:"ids"`
	Modes  []string `json:"modes"`
	Cfgs   []Cfg    `json:"cfgs"`
	Bounds []int    `json:"bounds"`
	Out    string   `json:"out"`
}

func crashRecoverMain(jobPath string) int {
	b, err := os.ReadFile(jobPath)
	if err != nil {
		fmt.Fprintln(os.Stderr, "c26 recover:", err)
		return 2
	}
	var job crashRecJob
	if err := json.Unmarshal(b, &job); err != nil {
		fmt.Fprintln(os.Stderr, "c26 recover:", err)
		return 2
	}
	out, err := os.OpenFile(job.Out, os.O_CREATE|os.O_WRONLY|os.O_APPEND, 0o666)
	if err != nil {
		fmt.Fprintln(os.Stderr, "c26 recover:", err)
		return 2
	}
	debug.SetMaxStack(32 << 20) // a runaway recursion of the recovery code dies quickly
	for i, d := range job.Dirs {
		fmt.Fprintf(os.Stderr, "c26 recover: image %s\n", job.IDs[i])
		o := crashRecoverOne(d, job.Cfgs[i], job.Modes[i], job.Bounds[i], job.IDs[i])
		line, _ := json.Marshal(o)
		out.Write(append(line, '\n'))
	}
	out.Close()
	return 0
}

// ---------------------------------------------------------------- acknowledgement context and oracle

// crashCtx is the model of one image: what was acknowledged before the cut and what was in flight.
type crashCtx struct {
	Appended [][]byte // acknowledged (accepted) entries
	Head     int      // entries advanced past by acknowledged ops
	Unacked  []byte   // entry of the append in flight (nil: none)
	AdvMax   int      // number of entries the advance/scan in flight passes if it completes
	Infl     string   // op class in flight: none | open | append | advance | scan | reopen
	NAcked   int      // number of acknowledged ops of the history (without the initial Open)
}

func contextOf(cfg Cfg, im *crashfs.Image) (cx crashCtx, err error) {
	cx.Infl = "none"
	parse := func(o crashfs.Op) (markerOp, error) {
		var mo markerOp
		if err := json.Unmarshal([]byte(o.Op), &mo); err != nil {
			return mo, fmt.Errorf("marker payload %q: %v", o.Op, err)
		}
		return mo, nil
	}
	rem := func() int { return len(cx.Appended) - cx.Head }
	for _, a := range im.Acked() {
		mo, err := parse(a)
		if err != nil {
			return cx, err
		}
		if mo.I < 0 {
			continue
		}
		cx.NAcked++
		if isAppend(mo.Op) {
			if a.Result == "ok" {
				cx.Appended = append(cx.Appended, EntryFor(cfg, mo.Op, mo.I))
			}
			continue
		}
		switch mo.Op {
		case OpAdvance, OpScan1:
			if rem() > 0 {
				cx.Head++
			}
		case OpScanAll:
			cx.Head = len(cx.Appended)
		case OpReopen:
		default:
			return cx, fmt.Errorf("op %q is not part of the crash alphabet", mo.Op)
		}
	}
	if f := im.InFlight(); f != nil {
		mo, err := parse(*f)
		if err != nil {
			return cx, err
		}
		cx.Infl = opClass(mo.Op)
		if isAppend(mo.Op) {
			cx.Unacked = EntryFor(cfg, mo.Op, mo.I)
		}
		switch mo.Op {
		case OpAdvance, OpScan1:
			cx.AdvMax = min(1, rem())
		case OpScanAll:
			cx.AdvMax = rem()
		}
	}
	return cx, nil
}

// judgeReadout decides one complete read-out that must end with the entries appended after the recovery (post).
// It returns the violated clause (or "") and, for the outcome histogram, where the read-out started relative to the
// model head and whether the unacknowledged entry was delivered.
func judgeReadout(got [][]byte, drainFail *ObsFail, cx crashCtx, post [][]byte) (clause, detail, start, unacked string) {
	start, unacked = "?", "n/a"
	if drainFail != nil {
		return drainFail.Clause, drainFail.Why, start, unacked
	}
	if len(got) < len(post) {
		return "post-recovery-append-not-delivered", fmt.Sprintf("read-out %s does not end with the entries %s appended (successfully) after the recovery", shortList(got), shortList(post)), start, unacked
	}
	body, tail := got[:len(got)-len(post)], got[len(got)-len(post):]
	for i := range post {
		if !bytes.Equal(tail[i], post[i]) {
			return "post-recovery-append-not-delivered", fmt.Sprintf("read-out %s does not end with the entries %s appended (successfully) after the recovery", shortList(got), shortList(post)), start, unacked
		}
	}
	e := Expect{Appended: cx.Appended, Head: cx.Head + cx.AdvMax, Exact: false, Unacked: cx.Unacked}
	if f := Compare(body, e); f != nil {
		why := f.Why
		if cx.AdvMax > 0 {
			why += fmt.Sprintf(" (the op in flight may move the head from %d up to %d)", cx.Head, cx.Head+cx.AdvMax)
		}
		if cx.Unacked != nil {
			why += fmt.Sprintf(" (append of %s in flight: may follow as a whole)", short(cx.Unacked))
		}
		return f.Clause, why, start, unacked
	}
	n := len(body)
	if cx.Unacked != nil {
		unacked = "absent"
		if n > 0 && bytes.Equal(body[n-1], cx.Unacked) {
			unacked = "present"
			n--
		}
	}
	switch k := len(cx.Appended) - n; {
	case k == cx.Head:
		start = "at-head"
	case k < cx.Head:
		start = "before-head(redelivery)"
	default:
		start = "after-head(advance-in-flight-applied)"
	}
	return "", "", start, unacked
}

// judgeCrash applies the crash oracle to one observation under one acknowledgement context.
func judgeCrash(o *CrashObs, cx crashCtx) (clause, stage, detail, start, unacked string) {
	start, unacked = "?", "n/a"
	switch {
	case o.Died != "":
		return "recovery-died", "recovery", "the recovery process did not survive the crash image: " + o.Died, start, unacked
	case o.Panic != "":
		return "panic", "recovery", "panic during recovery: " + o.Panic, start, unacked
	case o.OpenErr != "":
		return "open-failed", "recovery", "Queue.Open on the crash image: " + o.OpenErr, start, unacked
	case o.AppendErr != "":
		return "rejects-append", "recovery", "Append after the recovery: " + o.AppendErr, start, unacked
	case o.Stage < 1:
		return "harness", "recovery", "no read-out", start, unacked
	}
	var c, d string
	if c, d, start, unacked = judgeReadout(o.Got1, o.Fail1, cx, [][]byte{postEntry1}); c != "" {
		return c, "recovery", "after recovery + one more Append: " + d, start, unacked
	}
	if o.Open2Err != "" {
		return "open-failed", "second-restart", "Queue.Open after the second process death: " + o.Open2Err, start, unacked
	}
	if o.Stage < 2 {
		return "harness", "second-restart", "no read-out", start, unacked
	}
	if c, d, _, _ := judgeReadout(o.Got2, o.Fail2, cx, [][]byte{postEntry1}); c != "" {
		return c, "second-restart", "after the second restart: " + d, start, unacked
	}
	if o.Append2Err != "" {
		return "rejects-append", "second-restart", "Append after the second restart: " + o.Append2Err, start, unacked
	}
	if o.Stage < 3 {
		return "harness", "second-restart", "no read-out", start, unacked
	}
	if o.Fail3 != nil {
		return o.Fail3.Clause, "second-restart", "read-out after the Append that followed the second restart: " + o.Fail3.Why, start, unacked
	}
	if len(o.Got3) != 1 || !bytes.Equal(o.Got3[0], postEntry2) {
		return "post-recovery-append-not-delivered", "second-restart", fmt.Sprintf("the drained queue delivered %s after Append(%s)", shortList(o.Got3), short(postEntry2)), start, unacked
	}
	return "", "", "", start, unacked
}

// ---------------------------------------------------------------- recording, image enumeration, driver

var crashImgOpts = crashfs.Options{SyncClasses: []string{"[0-9]*"}, Torn: true, Unsynced: true}

var crashModes = []string{"current", "scanner"}

func selfEnv(extra ...string) []string {
	var env []string
	for _, e := range os.Environ() {
		if strings.HasPrefix(e, "VERIF_WORKER") || strings.HasPrefix(e, "VERIF_REPLAY=") || strings.HasPrefix(e, "VERIF_CRASH_WRITER=") || strings.HasPrefix(e, "VERIF_C26_") {
			continue
		}
		env = append(env, e)
	}
	return append(env, extra...)
}

func recordCrashHistory(scratch string, h CrashHistory) (*crashfs.Log, error) {
	dir, err := os.MkdirTemp(scratch, "rec-")
	if err != nil {
		return nil, err
	}
	defer os.RemoveAll(dir)
	sp := crashWriterSpec{Dir: filepath.Join(dir, "q"), Markers: filepath.Join(dir, "markers"), Cfg: h.Cfg, Ops: h.Ops}
	js, _ := json.Marshal(sp)
	return crashfs.Record(crashfs.RecordSpec{
		Argv:       []string{os.Args[0], "-test.run", "^TestCheck$", "-test.timeout", "0"},
		Env:        selfEnv("VERIF_CRASH_WRITER="+string(js), "GOMAXPROCS=1"),
		DataDir:    sp.Dir,
		MarkerFile: sp.Markers,
	})
}

// prefixDigest pins the part of a log a descriptor depends on: every event up to the cut (and the torn write) with
// paths, offsets and payload bytes. Two recordings with equal digests give byte-identical images.
func prefixDigest(l *crashfs.Log, d crashfs.Descriptor) string {
	n := d.Cut
	if d.TornLen >= 0 && d.TornEvent >= n {
		n = d.TornEvent + 1
	}
	if n > len(l.Events) {
		return "log-too-short"
	}
	h := sha256.New()
	for i := 0; i < n; i++ {
		e := &l.Events[i]
		fmt.Fprintf(h, "%s|%s|%s|%d|%d|%d|%x|", e.Op, e.Path, e.Path2, e.Ino, e.Off, e.Size, sha256.Sum256(e.Data))
		if e.Marker != nil {
			fmt.Fprintf(h, "%s|%d|%s|", e.Marker.Kind, e.Marker.K, e.Marker.Payload)
		}
	}
	return hex.EncodeToString(h.Sum(nil)[:8])
}

var (
	crashLogMu    sync.Mutex
	crashLogCache = map[string]*crashfs.Log{} // recordings made by this process (the confirmation replays reuse them)
)

func crashHistoryKey(h CrashHistory) string {
	b, _ := json.Marshal(struct {
		Cfg Cfg
		Ops []string
	}{h.Cfg, h.Ops})
	return string(b)
}

func findCrashLog(scratch string, h CrashHistory, d crashfs.Descriptor, digest string) (*crashfs.Log, string) {
	crashLogMu.Lock()
	l := crashLogCache[crashHistoryKey(h)]
	crashLogMu.Unlock()
	if l != nil && (digest == "" || prefixDigest(l, d) == digest) {
		return l, ""
	}
	for try := 0; try < 4; try++ {
		l, err := recordCrashHistory(scratch, h)
		if err != nil {
			return nil, "recording failed: " + err.Error()
		}
		crashLogMu.Lock()
		crashLogCache[crashHistoryKey(h)] = l
		crashLogMu.Unlock()
		if digest == "" || prefixDigest(l, d) == digest {
			return l, ""
		}
	}
	return nil, "could not re-record a log with the same event prefix (the history is not deterministic enough for this descriptor)"
}

// isolatedTimeout bounds the recovery of ONE image in its own subprocess (normally milliseconds plus process start).
const isolatedTimeout = 45 * time.Second

type crashItem struct {
	im    *crashfs.Image
	mode  string
	cfg   Cfg
	bound int // read-out bound (a broken queue must not hang the check)
}

// runCrashRecovery materializes the items into dir/<i>/img and runs ONE recovery subprocess over them. Items missing
// from the result were not reached (the subprocess died or hung at the first missing one).
func runCrashRecovery(dir string, items []crashItem, timeout time.Duration) (map[string]*CrashObs, string, error) {
	job := crashRecJob{Out: filepath.Join(dir, "out.jsonl")}
	for i, it := range items {
		d := filepath.Join(dir, strconv.Itoa(i))
		if err := it.im.Materialize(filepath.Join(d, "img")); err != nil {
			return nil, "", fmt.Errorf("materialize %v: %w", it.im.Desc, err)
		}
		job.Dirs = append(job.Dirs, d)
		job.IDs = append(job.IDs, strconv.Itoa(i))
		job.Modes = append(job.Modes, it.mode)
		job.Cfgs = append(job.Cfgs, it.cfg)
		job.Bounds = append(job.Bounds, it.bound)
	}
	jb, _ := json.Marshal(job)
	jp := filepath.Join(dir, "job.json")
	if err := os.WriteFile(jp, jb, 0o666); err != nil {
		return nil, "", err
	}
	cmd := exec.Command(os.Args[0], "-test.run", "^TestCheck$", "-test.timeout", "0")
	cmd.Env = selfEnv("VERIF_C26_RECOVER=" + jp)
	var stderr strings.Builder
	cmd.Stdout = &stderr
	cmd.Stderr = &stderr
	if err := cmd.Start(); err != nil {
		return nil, "", err
	}
	done := make(chan error, 1)
	go func() { done <- cmd.Wait() }()
	timedOut := false
	select {
	case <-done:
	case <-time.After(timeout):
		timedOut = true
		cmd.Process.Kill()
		<-done
	}
	res := map[string]*CrashObs{}
	if f, err := os.Open(job.Out); err == nil {
		sc := bufio.NewScanner(f)
		sc.Buffer(make([]byte, 1<<20), 64<<20)
		for sc.Scan() {
			var o CrashObs
			if json.Unmarshal(sc.Bytes(), &o) == nil && o.ID != "" {
				oo := o
				res[o.ID] = &oo
			}
		}
		f.Close()
	}
	t := stderr.String()
	if timedOut {
		t = "TIMEOUT (recovery hangs)\n" + t
	}
	return res, t, nil
}

var repoFrameRe = regexp.MustCompile(`(?m)^(github\.com/influxdata/influxdb/v2/[^\n]*)\([^()\n]*\)\s*$`)

// deathClass turns the output of a recovery subprocess that died or hung into a short deterministic description.
func deathClass(out string) string {
	what := "died"
	switch {
	case strings.HasPrefix(out, "TIMEOUT"):
		return "hang (no result within the time limit)"
	case strings.Contains(out, "stack overflow") || strings.Contains(out, "goroutine stack exceeds"):
		what = "fatal error: stack overflow"
	case strings.Contains(out, "fatal error:"):
		i := strings.Index(out, "fatal error:")
		what = strings.SplitN(out[i:], "\n", 2)[0]
	case strings.Contains(out, "panic:"):
		i := strings.Index(out, "panic:")
		what = strings.SplitN(out[i:], "\n", 2)[0]
	}
	if m := repoFrameRe.FindStringSubmatch(out); m != nil {
		what += " @ " + m[1]
	}
	return what
}

// recoverAll runs the recovery for all items in subprocess batches, isolating an item that kills its subprocess.
// expired (may be nil) is polled between batches; items not reached stay nil and capped is returned true.
func recoverAll(scratch string, items []crashItem, expired func() bool) (obs []*CrashObs, notes map[int]string, capped bool, err error) {
	obs = make([]*CrashObs, len(items))
	notes = map[int]string{}
	const batch = 512
	for lo := 0; lo < len(items); {
		if expired != nil && expired() {
			return obs, notes, true, nil
		}
		hi := min(lo+batch, len(items))
		dir, err := os.MkdirTemp(scratch, "b-")
		if err != nil {
			return nil, nil, false, err
		}
		res, _, err := runCrashRecovery(dir, items[lo:hi], 90*time.Second+time.Duration(hi-lo)*time.Second/2)
		os.RemoveAll(dir)
		if err != nil {
			return nil, nil, false, err
		}
		next := hi
		for i := lo; i < hi; i++ {
			if o := res[strconv.Itoa(i-lo)]; o != nil {
				obs[i] = o
			} else if i < next {
				next = i
			}
		}
		if next == hi {
			lo = hi
			continue
		}
		// the subprocess died or hung at item `next`: run it alone, then go on behind it
		d2, _ := os.MkdirTemp(scratch, "iso-")
		r2, out2, err2 := runCrashRecovery(d2, items[next:next+1], isolatedTimeout)
		os.RemoveAll(d2)
		switch {
		case err2 != nil:
			notes[next] = "the isolated recovery could not be run: " + err2.Error()
		case r2["0"] != nil:
			obs[next] = r2["0"] // passed alone: the batch death was not caused by this image
		default:
			obs[next] = &CrashObs{ID: "0", Mode: items[next].mode, Died: deathClass(out2)}
		}
		for i := next + 1; i < hi; i++ {
			obs[i] = nil
		}
		lo = next + 1
	}
	return obs, notes, false, nil
}

// CrashCase is the replayable form of one crash violation.
type CrashCase struct {
	History CrashHistory       `json:"history"`
	Desc    crashfs.Descriptor `json:"image"`
	Digest  string             `json:"log_prefix_digest"`
	Mode    string             `json:"read_out"`
	Cut     string             `json:"cut_description"`
}

func cutClass(im *crashfs.Image) string {
	p := im.NextPath
	if i := strings.Index(p, "->"); i >= 0 {
		p = p[i+2:]
	}
	if p != "" {
		if _, err := strconv.ParseUint(filepath.Base(p), 10, 64); err == nil {
			p = "segment"
		} else {
			p = "other"
		}
	}
	return strings.TrimSuffix(im.NextOp+":"+p, ":")
}

// crashSig is the class signature of a crash violation: clause, stage (first recovery | second restart), kind of cut
// and the discriminating feature — for a failing Open the error class and whether acknowledged, not-advanced entries
// exist at all (the in-flight op does not matter: any op that creates a segment file can be cut there), otherwise
// the kind of op in flight.
func crashSig(clause, stage string, o *CrashObs, im *crashfs.Image, cx crashCtx) string {
	if clause == "open-failed" {
		e := o.OpenErr
		if stage == "second-restart" {
			e = o.Open2Err
		}
		rem := "undelivered-entries=none"
		if len(cx.Appended)-cx.Head > 0 {
			rem = "undelivered-entries=some"
		}
		return vlib.JoinSig("crash", clause, stage, "cut="+im.Desc.Kind, "err="+openErrClass(e), rem)
	}
	if cx.Infl == "append" && im.Desc.TornLen > 8 && strings.HasPrefix(tailWindowClass(im), "in-range") {
		// the append's write is torn BEHIND its length word and the last 8 bytes on disk (payload bytes, or payload bytes
		// and the first bytes of the new footer) decode to a position inside the segment: segment.open takes them for
		// the footer. A root cause of its own, one class per clause. (Torn exactly after the length word, TornLen == 8,
		// is the class without this feature.)
		return vlib.JoinSig("crash", clause, stage, "cut="+im.Desc.Kind, "inflight="+cx.Infl, "torn-tail=payload-reads-as-head-position")
	}
	return vlib.JoinSig("crash", clause, stage, "cut="+im.Desc.Kind, "inflight="+cx.Infl)
}

func openErrClass(e string) string {
	switch {
	case strings.HasPrefix(e, "seek ") && strings.HasSuffix(e, "invalid argument"):
		return "seek-invalid-argument"
	case strings.Contains(e, "EOF"):
		return "EOF"
	case strings.Contains(e, "bad read"):
		return "bad-read"
	}
	return "other"
}

type ctxImg struct {
	im *crashfs.Image
	cx crashCtx
}

// crashPrep is one recorded history with its images grouped by content.
type crashPrep struct {
	h    CrashHistory
	log  *crashfs.Log
	uniq []*crashfs.Image // first image of every distinct content
	ctxs [][]ctxImg       // per content: the (image, context) pairs to judge
	item [][]int          // per content, per read-out mode: index in the worker's item list (contents shared by the histories of a worker are recovered once)
}

// prepareCrashHistory records one history and enumerates its images.
func prepareCrashHistory(c *vlib.Ctx, scratch string, h CrashHistory) (pr *crashPrep, stop bool) {
	l, stop := recordForRun(c, scratch, h)
	if l == nil {
		return nil, stop
	}
	return prepareCrashLog(c, h, l), false
}

// recordForRun records one history for the exploration (one strace session).
func recordForRun(c *vlib.Ctx, scratch string, h CrashHistory) (l *crashfs.Log, stop bool) {
	l, err := recordCrashHistory(scratch, h)
	if err != nil {
		if errors.Is(err, crashfs.ErrNoTrace) {
			c.Cap("crash family: strace cannot trace in this environment, no crash image was produced (" + err.Error() + ")")
			return nil, true
		}
		c.HarnessError(fmt.Sprintf("crash family: recording history %s: %v", h.Name, err))
		return nil, false
	}
	crashLogMu.Lock()
	crashLogCache[crashHistoryKey(h)] = l
	crashLogMu.Unlock()
	c.Extra("crash_recordings", 1)
	c.Extra("crash_syscalls_in_logs", int64(l.Syscalls))
	return l, false
}

// prepareCrashLog enumerates the images of one history from its log (nil after a harness error).
func prepareCrashLog(c *vlib.Ctx, h CrashHistory, l *crashfs.Log) (pr *crashPrep) {
	c.Extra("crash_histories", 1)
	if h.Cfg.ByteFamily {
		c.Extra("crash_bytefamily_histories", 1)
	}
	c.Extra("crash_events", int64(len(l.Events)))
	pr = &crashPrep{h: h, log: l}
	byHash := map[string]int{} // content hash -> index in uniq
	var st crashfs.Stats
	for im := range l.Images(crashImgOpts, &st) {
		cx, err := contextOf(h.Cfg, im)
		if err != nil {
			c.HarnessError("crash family: " + err.Error())
			return nil
		}
		if h.LastOnly && len(h.Ops) > 0 {
			// keep the cuts inside or after the last op only
			if !(cx.NAcked == len(h.Ops) || (cx.NAcked == len(h.Ops)-1 && cx.Infl != "none")) {
				continue
			}
			if h.Cfg.ByteFamily && cx.Infl == "open" {
				continue // (payload-byte family on a fresh queue: the cuts inside the initial Open are the same for all payloads)
			}
		}
		gi, ok := byHash[im.Hash]
		if !ok {
			gi = len(pr.uniq)
			byHash[im.Hash] = gi
			pr.uniq = append(pr.uniq, im)
			pr.ctxs = append(pr.ctxs, nil)
		}
		pr.ctxs[gi] = append(pr.ctxs[gi], ctxImg{im, cx})
	}
	for _, k := range []string{"P", "T", "U"} {
		c.Extra("crash_images_generated_"+k, int64(st.Generated[k])) // by the engine, before deduplication and the last-op filter
	}
	c.Extra("crash_writes_with_subsampled_torn_lengths", int64(st.LongTorn))
	c.Extra("crash_image_contents", int64(len(pr.uniq)))
	return pr
}

// judgeCrashHistory judges every (image, context, read-out mode) of one prepared history; obs/notes are indexed like
// the worker's item list.
func judgeCrashHistory(c *vlib.Ctx, pr *crashPrep, obs []*CrashObs, notes map[int]string) {
	h := pr.h
	states := map[string]struct{}{}
	sampled := false
	for gi := range pr.uniq {
		for mi, mode := range crashModes {
			ii := pr.item[gi][mi]
			o := obs[ii]
			if o == nil {
				if n, ok := notes[ii]; ok {
					c.HarnessError(fmt.Sprintf("crash family: history %s image %v: %s", h.Name, pr.uniq[gi].Desc, n))
				}
				continue
			}
			if o.Stage >= 1 {
				states[shortList(o.Got1)] = struct{}{}
			}
			for _, ci := range pr.ctxs[gi] {
				im, cx := ci.im, ci.cx
				clause, stage, detail, start, unacked := judgeCrash(o, cx)
				if clause == "harness" {
					c.HarnessError(fmt.Sprintf("crash family: history %s image %v: %s", h.Name, im.Desc, detail))
					continue
				}
				c.Eval(1)
				if mi == 0 {
					c.Extra("crash_images", 1)
					c.Extra("crash_images_"+im.Desc.Kind, 1)
					c.Extra("crash_cuts_at:"+cutClass(im), 1)
					if h.Cfg.ByteFamily {
						c.Extra("crash_bytefamily_images", 1)
						if cx.Infl == "append" && im.Desc.TornLen >= 0 {
							c.Extra("crash_bytefamily_torn_append_tail_window:"+tailWindowClass(im), 1)
						}
					}
				}
				nops := cx.NAcked
				if cx.Infl != "none" && cx.Infl != "open" {
					nops++
				}
				// payload-byte family: also every image whose append in flight is torn behind its length word (payload bytes
				// are part of what segment.open reads as the footer), whatever the recovery made of it
				byteTorn := h.Cfg.ByteFamily && cx.Infl == "append" && im.Desc.TornLen > 8
				if (o.Stage >= 1 && len(o.Got1) > 1) || byteTorn {
					c.Nontrivial("crash|" + strings.Join(h.Ops[:nops], ",") + "|" + im.Desc.String() + "|" + mode)
				}
				res := "ok"
				if clause != "" {
					res = "FAIL:" + clause + "@" + stage
				}
				c.Outcome(fmt.Sprintf("crash:%s/inflight=%s/unacked=%s/start=%s:%s", im.Desc.Kind, cx.Infl, unacked, start, res))
				if clause != "" {
					cutDesc := fmt.Sprintf("%v: %s %s", im.Desc, im.NextOp, im.NextPath)
					c.Violation(crashSig(clause, stage, o, im, cx),
						fmt.Sprintf("crash history %s %v, image %s, read-out %s; acknowledged %s head=%d, in flight: %s — %s", h.Name, h.Ops, cutDesc, mode, shortList(cx.Appended), cx.Head, cx.Infl, detail),
						Case{Crash: &CrashCase{History: h, Desc: im.Desc, Digest: prefixDigest(pr.log, im.Desc), Mode: mode, Cut: cutDesc}})
				} else if !sampled && byteTorn && im.Desc.TornLen >= 24 && len(cx.Appended) > 0 && c.WantSample() && strings.HasPrefix(tailWindowClass(im), "high-bit") {
					sampled = true
					c.Sample(map[string]any{"family": "crash/payload-bytes", "history": h.Name, "ops": h.Ops, "image": im.Desc.String(), "at": im.NextOp + " " + im.NextPath,
						"acknowledged": shortList(cx.Appended), "head": cx.Head, "in_flight": short(cx.Unacked), "last_8_bytes_of_tail_segment": tailWindowClass(im), "read_out_mode": mode, "read_out_after_recovery_and_one_append": shortList(o.Got1), "unacked_entry": unacked})
				} else if !sampled && !h.LastOnly && (h.Name == "append-roll" || h.Name == "advance-trim") && c.WantSample() && cx.Infl == "append" && im.Desc.Kind == crashfs.KindT && len(cx.Appended) > 1 {
					sampled = true
					c.Sample(map[string]any{"family": "crash", "history": h.Name, "ops": h.Ops, "image": im.Desc.String(), "at": im.NextOp + " " + im.NextPath,
						"acknowledged": shortList(cx.Appended), "head": cx.Head, "in_flight": cx.Infl, "read_out_mode": mode, "read_out_after_recovery_and_one_append": shortList(o.Got1), "unacked_entry": unacked})
				}
			}
		}
	}
	c.Extra("crash_distinct_states", int64(len(states)))
}

// runCrash is the crash phase of Run: this worker's share of the histories is recorded (one strace session each),
// all their images are recovered in shared subprocess batches, then judged.
func runCrash(c *vlib.Ctx) {
	defer func() {
		if r := recover(); r != nil { // a bug of the machinery must never look like a finding or kill the report
			c.HarnessError(fmt.Sprintf("crash family: explorer panicked: %v\n%s", r, debug.Stack()))
		}
	}()
	if os.Getenv("C26_ONLY") == "seq" || os.Getenv("C26_ONLY") == "sched" {
		return
	}
	scratch := vlib.Scratch("c26c-")
	defer os.RemoveAll(scratch)
	var preps []*crashPrep
	var items []crashItem
	itemOf := map[string]int{} // (content, geometry, read-out bound, mode) -> item
	add := func(pr *crashPrep) {
		h := pr.h
		cfgKey, _ := json.Marshal(h.Cfg)
		for _, im := range pr.uniq {
			var idx []int
			for _, mode := range crashModes {
				key := fmt.Sprintf("%s|%s|%d|%s", im.Hash, cfgKey, len(h.Ops)+4, mode)
				ii, ok := itemOf[key]
				if !ok {
					ii = len(items)
					itemOf[key] = ii
					items = append(items, crashItem{im, mode, h.Cfg, len(h.Ops) + 4})
				}
				idx = append(idx, ii)
			}
			pr.item = append(pr.item, idx)
		}
		preps = append(preps, pr)
	}
	hs := crashHistories(c.Tier)
	for hi, h := range hs {
		if !c.Mine(int64(hi)) {
			continue
		}
		if c.Expired() {
			c.Cap("budget expired inside the crash family (recording)")
			break
		}
		pr, stop := prepareCrashHistory(c, scratch, h)
		if stop {
			return
		}
		if pr != nil {
			add(pr)
		}
	}
	// payload-byte family: every worker owns ONE prefix (with more workers than prefixes the lengths of a prefix are dealt
	// to its owners; with fewer, a worker owns several prefixes). ONE real recording per prefix and worker serves all its
	// lengths and fill patterns (deriveByteLog); a second real recording of another (length, fill) cross-checks the
	// derivation (quick: the last length of the prefix's first owner; thorough: every second length, the fill rotating)
	prefixes, lens, fills := byteFamily(c.Tier)
	for pi, p := range prefixes {
		var owners []int
		for w := 0; w < c.NShards; w++ {
			if w%len(prefixes) == pi%c.NShards {
				owners = append(owners, w)
			}
		}
		var mine []int // my lengths of this prefix
		for li, n := range lens {
			if owners[li%len(owners)] == c.Shard {
				mine = append(mine, n)
			}
		}
		if len(mine) == 0 {
			continue
		}
		if c.Expired() {
			c.Cap("budget expired inside the crash family (recording, payload-byte family)")
			break
		}
		baseN, baseFill := mine[0], fills[0]
		base, stop := recordForRun(c, scratch, byteHistory(p, baseN, baseFill))
		if stop {
			return
		}
		if base == nil {
			continue
		}
	lengths:
		for k, n := range mine {
			logs := map[string]*crashfs.Log{}
			for _, f := range fills {
				if n == baseN && f == baseFill {
					logs[f] = base
					continue
				}
				l, err := deriveByteLog(base, p, baseN, baseFill, n, f)
				if err != nil {
					c.HarnessError(fmt.Sprintf("crash family: payload-byte family %s/%d: %v", p.Name, n, err))
					continue lengths
				}
				logs[f] = l
			}
			if ((c.Thorough() && k%2 == 1) || (k == len(mine)-1 && c.Shard == owners[0])) && !c.Expired() {
				f := fills[1+(pi+k)%(len(fills)-1)]
				real, stop := recordForRun(c, scratch, byteHistory(p, n, f))
				if stop {
					return
				}
				if real != nil {
					if fullDigest(real) != fullDigest(logs[f]) {
						c.HarnessError(fmt.Sprintf("crash family: payload-byte family %s/%d: the recording derived for fill %s differs from the real recording of that history", p.Name, n, f))
						continue
					}
					c.Extra("crash_bytefamily_derived_logs_cross_checked", 1)
				}
			}
			for _, f := range fills {
				if pr := prepareCrashLog(c, byteHistory(p, n, f), logs[f]); pr != nil {
					add(pr)
				}
			}
		}
	}
	obs, notes, capped, err := recoverAll(scratch, items, c.Expired)
	if err != nil {
		c.HarnessError("crash family: recovery batch: " + err.Error())
		return
	}
	if capped {
		c.Cap("budget expired inside the crash family (recovery)")
	}
	for _, o := range obs {
		if o != nil {
			c.Extra("crash_recoveries", 1) // one recovery subprocess run per distinct (image content, geometry, read-out mode) of this worker
		}
	}
	for _, pr := range preps {
		judgeCrashHistory(c, pr, obs, notes)
	}
}

func replayCrash(cs *CrashCase) (bool, string) {
	scratch := vlib.Scratch("c26cr-")
	defer os.RemoveAll(scratch)
	l, msg := findCrashLog(scratch, cs.History, cs.Desc, cs.Digest)
	if l == nil {
		return false, msg
	}
	im, err := l.Build(cs.Desc, crashImgOpts)
	if err != nil {
		return false, "cannot rebuild the image: " + err.Error()
	}
	cx, err := contextOf(cs.History.Cfg, im)
	if err != nil {
		return false, err.Error()
	}
	dir, _ := os.MkdirTemp(scratch, "img-")
	res, out, err := runCrashRecovery(dir, []crashItem{{im, cs.Mode, cs.History.Cfg, len(cs.History.Ops) + 4}}, isolatedTimeout)
	if err != nil {
		return false, "recovery could not be run: " + err.Error()
	}
	obs := fmt.Sprintf("crash history %v image %v (at the cut: %s %s; acknowledged %s head=%d, in flight: %s) read-out %s: ", cs.History.Ops, cs.Desc, im.NextOp, im.NextPath, shortList(cx.Appended), cx.Head, cx.Infl, cs.Mode)
	o := res["0"]
	if o == nil {
		o = &CrashObs{ID: "0", Mode: cs.Mode, Died: deathClass(out)}
	}
	clause, stage, detail, _, _ := judgeCrash(o, cx)
	if clause == "" {
		return false, obs + "recovered queue satisfies the model: " + shortList(o.Got1)
	}
	return clause != "harness", obs + clause + "@" + stage + ": " + detail
}

// ================================================================ schedule part (engine: vsched)
//
// pkg/durablequeue/queue.go (the only file of the package that imports sync: Queue.mu and segment.mu are declared there;
// scanner.go locks them through those types) is compiled against the modelled sync. A small queue state is built
// unscheduled, then 2 threads (an appender against a scanner / a Current+Advance consumer / a purge / a second
// appender) run on the SAME real Queue and every interleaving with <= B preemptions at the Lock/RLock operations of
// Queue.mu and segment.mu (and at the threads' call boundaries) is executed. The call/return history and the complete
// read-outs made after the threads have finished (live, and after a restart on copies of the directory) are judged by
// the FIFO / at-least-once model.

// SchedThread is one thread program.
type SchedThread struct {
	Kind    string   `json:"kind"`              // append | scan | advance | purge
	Appends []string `json:"appends,omitempty"` // append: OpAppend1 | OpAppend9 | OpAppendSeg, in order
	N       int      `json:"next,omitempty"`    // scan: number of Next calls (0 = until Next returns false)
}

func (t SchedThread) String() string {
	switch t.Kind {
	case "append":
		return "append(" + strings.Join(t.Appends, ",") + ")"
	case "scan":
		if t.N == 0 {
			return "scan(NewScanner,Next*,Advance)"
		}
		return fmt.Sprintf("scan(NewScanner,Next x%d,Advance)", t.N)
	case "advance":
		return "consume(Current,Queue.Advance)"
	}
	return t.Kind
}

// SchedScenario = initial history (ops of the sequential alphabet, executed unscheduled) + thread programs.
type SchedScenario struct {
	Init    []string      `json:"init"`
	Threads []SchedThread `json:"threads"`
}

func (s SchedScenario) String() string {
	var ts []string
	for _, t := range s.Threads {
		ts = append(ts, t.String())
	}
	return fmt.Sprintf("init %v: %s", s.Init, strings.Join(ts, " || "))
}

func (s SchedScenario) kinds() string {
	var ks []string
	for _, t := range s.Threads {
		k := t.Kind
		if k == "advance" {
			k = "Queue.Advance"
		}
		ks = append(ks, k)
	}
	return strings.Join(ks, "||")
}

// SchedCase is the replayable form of one schedule.
type SchedCase struct {
	Scenario SchedScenario `json:"scenario"`
	Schedule []int         `json:"schedule"`
	Trace    []string      `json:"trace,omitempty"`
}

// schedRec is one call of a thread with its place in the global call/return order.
type schedRec struct {
	Thread    int
	Op        string
	Call, Ret int
	Entry     []byte   // append: the payload
	Err       error    // append / NewScanner / Current / purge: the call's error
	Delivered [][]byte // scan: what Next yielded; advance: what Current returned
	ScanErr   error    // scan: Scanner.Err() after the last Next
	AdvCalled bool     // scan / advance: the Advance call was made
	AdvErr    error    // its error
}

// schedObs: what the quiescent queue delivered after the threads had finished.
type schedObs struct {
	LiveCur    []byte
	LiveCurErr error
	Live       [][]byte // complete live read-out (scanner)
	LiveFail   *Fail
	ReCur      [][]byte // read-out after a restart on a copy of the directory, Current+Advance
	ReCurFail  *Fail
	ReScan     [][]byte // the same with the scanner
	ReScanFail *Fail
}

type schedOut struct {
	Harness  string
	Fail     *Fail
	Stage    string // history | live | reopen
	Recs     []schedRec
	Obs      schedObs
	Model    *Model // after the initial history
	Outcome  string
	Deadlock string
}

// schedEntry: the payload of append j of thread ti (letters m.. : never used by an initial history, whose op index is < 12).
func schedEntry(cfg Cfg, op string, ti, j int) []byte { return EntryFor(cfg, op, 12+4*ti+j) }

func schedFilter(kind vrt.OpKind, label string) bool {
	return kind == vrt.OpLock || kind == vrt.OpRLock || kind == vrt.OpHook
}

var schedPurgeCutoff = time.Date(2001, 1, 1, 0, 0, 0, 0, time.UTC)

func schedHarness(base string, sc SchedScenario, out *schedOut) *vrt.Harness {
	return &vrt.Harness{Name: "c26:" + sc.String(), Filter: schedFilter, Body: func(x *vrt.Exec) {
		*out = schedOut{}
		cfg := DefaultCfg
		dir, err := os.MkdirTemp(base, "s")
		if err != nil {
			out.Harness = "cannot create scratch directory"
			return
		}
		defer os.RemoveAll(dir)
		qdir := filepath.Join(dir, "q")
		if err := os.Mkdir(qdir, 0o777); err != nil {
			out.Harness = "cannot create scratch directory"
			return
		}
		h := PerformHistory(qdir, cfg, sc.Init, true)
		if h.Fail != nil {
			out.Harness = fmt.Sprintf("initial history failed (sequential family's business): %s/%s", h.Fail.Clause, h.Fail.Feat)
			return
		}
		q := h.Queue
		closed := false
		defer func() {
			if !closed {
				q.Close()
			}
		}()
		out.Model = h.Model
		hasPurge := false
		for _, t := range sc.Threads {
			hasPurge = hasPurge || t.Kind == "purge"
		}
		if hasPurge {
			if f := ageSegments(qdir); f != nil {
				out.Harness = "aging the segment files: " + f.Why
				return
			}
		}
		ev := 0
		recs := make([][]schedRec, len(sc.Threads))
		for ti, t := range sc.Threads {
			ti, t := ti, t
			x.Go(fmt.Sprintf("T%d:%s", ti, t.Kind), func() {
				switch t.Kind {
				case "append":
					for j, op := range t.Appends {
						b := schedEntry(cfg, op, ti, j)
						vrt.Hook("call:Append")
						ev++
						r := schedRec{Thread: ti, Op: "Append(" + short(b) + ")", Call: ev, Entry: b}
						r.Err = q.Append(append([]byte(nil), b...))
						ev++
						r.Ret = ev
						recs[ti] = append(recs[ti], r)
					}
				case "scan":
					vrt.Hook("call:NewScanner")
					ev++
					r := schedRec{Thread: ti, Op: t.String(), Call: ev}
					s, err := q.NewScanner()
					if err != nil {
						r.Err = err
					} else {
						for n := 0; (t.N == 0 || n < t.N) && n < 8 && s.Next(); n++ {
							r.Delivered = append(r.Delivered, s.Bytes())
						}
						r.ScanErr = s.Err()
						r.AdvCalled = true
						_, r.AdvErr = s.Advance()
					}
					ev++
					r.Ret = ev
					recs[ti] = append(recs[ti], r)
				case "advance":
					vrt.Hook("call:Current")
					ev++
					r := schedRec{Thread: ti, Op: t.String(), Call: ev}
					b, err := q.Current()
					if err != nil {
						r.Err = err
					} else {
						r.Delivered = [][]byte{b}
						r.AdvCalled = true
						r.AdvErr = q.Advance()
					}
					ev++
					r.Ret = ev
					recs[ti] = append(recs[ti], r)
				case "purge":
					vrt.Hook("call:PurgeOlderThan")
					ev++
					r := schedRec{Thread: ti, Op: "PurgeOlderThan(all initial segments aged)", Call: ev}
					r.Err = q.PurgeOlderThan(schedPurgeCutoff)
					ev++
					r.Ret = ev
					recs[ti] = append(recs[ti], r)
				}
			})
		}
		x.S.MaxSteps = 5000
		x.Run()
		if x.S.Deadlock || x.S.StepCap {
			out.Deadlock = "deadlock"
			if x.S.StepCap {
				out.Deadlock = "livelock(step cap)"
			}
			x.S.Abort()
			return
		}
		x.S.Drain()
		for _, rs := range recs {
			out.Recs = append(out.Recs, rs...)
		}
		// quiescent observations: the head, two copies of the directory (restart images; everything acknowledged has
		// been written and fsynced), the complete live read-out, then the restarts
		bound := len(h.Model.Appended) + 8
		o := &out.Obs
		o.LiveCur, o.LiveCurErr = q.Current()
		d2, d3 := filepath.Join(dir, "copy-current"), filepath.Join(dir, "copy-scanner")
		if err := copyTree(qdir, d2); err != nil {
			out.Harness = "copying the queue directory failed"
			return
		}
		if err := copyTree(qdir, d3); err != nil {
			out.Harness = "copying the queue directory failed"
			return
		}
		o.Live, o.LiveFail = Drain(q, "scanner", bound)
		closed = true
		if err := q.Close(); err != nil {
			out.Harness = "Close failed"
			return
		}
		reopen := func(d, how string) ([][]byte, *Fail) {
			q2, err := openQueue(d, cfg, h.Model.MaxSize)
			if err != nil {
				return nil, &Fail{"open-failed", "restart", strings.ReplaceAll(err.Error(), d, "<dir>"), -1}
			}
			defer q2.Close()
			return Drain(q2, how, bound)
		}
		o.ReCur, o.ReCurFail = reopen(d2, "current")
		o.ReScan, o.ReScanFail = reopen(d3, "scanner")
		judgeSched(sc, out)
		x.Outcome = out.Outcome
	}}
}

// judgeSched applies the FIFO / at-least-once model to the call/return history and the quiescent read-outs.
//
// Q = entries of the initial history ++ the threads' acknowledged appends in an order consistent with their
// call/return order (two appends that overlap in time may take either order). The consumer thread (there is at most
// one) must have been handed Q[head], Q[head+1], ... and, if its Advance returned nil, has moved the head behind
// them. Every complete read-out made afterwards must be Q[head:] for the head so moved (no process died: as in the
// sequential family a clean history is judged exactly; a read-out starting earlier is the class redelivery-without-crash);
// a purge may additionally drop any prefix of the entries of the initial history (whose segment files were aged), never
// an entry appended during the run. Nothing else may be delivered.
func judgeSched(sc SchedScenario, out *schedOut) {
	m := out.Model
	fail := func(stage string, f *Fail) {
		if out.Fail == nil {
			out.Fail, out.Stage = f, stage
		}
	}
	var apps []schedRec
	var cons *schedRec
	purge := false
	for i := range out.Recs {
		r := &out.Recs[i]
		switch {
		case r.Entry != nil:
			if r.Err != nil {
				// 1024 bytes of max size are never reached: nothing may reject an append
				fail("history", &Fail{"rejected-below-size-limit", "Append/err=" + errClass(r.Err), fmt.Sprintf("%s failed with %q although the queue holds far less than its max size", r.Op, r.Err), -1})
				return
			}
			apps = append(apps, *r)
		case strings.HasPrefix(r.Op, "Purge"):
			purge = true
			if r.Err != nil {
				fail("history", &Fail{"purge-failed", "PurgeOlderThan(2001)", r.Err.Error(), -1})
				return
			}
		default:
			cons = r
		}
	}
	rem0 := m.Remaining()
	adv := 0
	if cons != nil {
		what := "Scanner"
		if !strings.HasPrefix(cons.Op, "scan") {
			what = "Current"
		}
		switch {
		case cons.Err != nil && len(rem0) > 0:
			fail("history", &Fail{"entry-not-delivered", what + "/err=" + errClass(cons.Err), fmt.Sprintf("%s: failed with %q although %s were in the queue before the threads started", cons.Op, cons.Err, shortList(rem0)), -1})
			return
		case cons.ScanErr != nil:
			fail("history", &Fail{"entry-not-delivered", "Scanner.Err/err=" + errClass(cons.ScanErr), fmt.Sprintf("%s: scanner error %q after %s", cons.Op, cons.ScanErr, shortList(cons.Delivered)), -1})
			return
		case cons.Err == nil && len(cons.Delivered) == 0 && len(rem0) > 0:
			fail("history", &Fail{"entry-not-delivered", "Scanner.Next/none", fmt.Sprintf("%s: yielded nothing although %s were in the queue before the threads started", cons.Op, shortList(rem0)), -1})
			return
		case cons.AdvCalled && cons.AdvErr != nil:
			fail("history", &Fail{"advance-failed", what + ".Advance/err=" + errClass(cons.AdvErr), fmt.Sprintf("%s: Advance failed with %q after %s", cons.Op, cons.AdvErr, shortList(cons.Delivered)), -1})
			return
		}
		if cons.AdvCalled {
			adv = len(cons.Delivered)
		}
	}
	// every order of the acknowledged appends that respects returned-before-called
	var orders [][]schedRec
	var rec func(cur []schedRec, used []bool)
	rec = func(cur []schedRec, used []bool) {
		if len(cur) == len(apps) {
			orders = append(orders, append([]schedRec(nil), cur...))
			return
		}
		for i := range apps {
			if used[i] {
				continue
			}
			ok := true
			for j := range apps {
				if !used[j] && j != i && apps[j].Ret < apps[i].Call {
					ok = false
				}
			}
			if !ok {
				continue
			}
			used[i] = true
			rec(append(cur, apps[i]), used)
			used[i] = false
		}
	}
	rec(nil, make([]bool, len(apps)))
	type verdict struct {
		stage string
		f     *Fail
	}
	check := func(order []schedRec) verdict {
		Q := append([][]byte(nil), m.Appended...)
		for _, a := range order {
			Q = append(Q, a.Entry)
		}
		if cons != nil {
			for i, d := range cons.Delivered {
				switch k := m.Head + i; {
				case k >= len(Q):
					return verdict{"history", &Fail{"fabricated-entry", "delivered-beyond-queue", fmt.Sprintf("%s: was handed %s but the queue held only %s", cons.Op, shortList(cons.Delivered), shortList(Q[m.Head:])), -1}}
				case !bytes.Equal(Q[k], d):
					return verdict{"history", &Fail{"wrong-order", "delivered", fmt.Sprintf("%s: was handed %s, the queue held %s", cons.Op, shortList(cons.Delivered), shortList(Q[m.Head:])), -1}}
				}
			}
		}
		head := m.Head + adv
		maxk := head
		if purge {
			maxk = max(maxk, len(m.Appended))
		}
		e := Expect{Appended: Q, Head: maxk, Exact: false}
		o := &out.Obs
		// the head of the live queue
		switch {
		case o.LiveCurErr != nil:
			if maxk < len(Q) {
				return verdict{"live", &Fail{"entry-not-delivered", "Current/err=" + errClass(o.LiveCurErr), fmt.Sprintf("after the threads finished Current failed with %q; acknowledged and not advanced past: %s", o.LiveCurErr, shortList(Q[head:])), -1}}
			}
		default:
			found := false
			for k := head; k <= maxk && k < len(Q); k++ {
				found = found || bytes.Equal(Q[k], o.LiveCur)
			}
			if !found {
				clause, feat := "fabricated-entry", "Current"
				for k := range Q {
					if bytes.Equal(Q[k], o.LiveCur) && k > maxk {
						clause, feat = "entry-not-delivered", "Current/skips-undelivered"
					} else if bytes.Equal(Q[k], o.LiveCur) {
						clause, feat = "redelivery-without-crash", "Current"
					}
				}
				return verdict{"live", &Fail{clause, feat, fmt.Sprintf("after the threads finished Current returned %s; acknowledged and not advanced past: %s", short(o.LiveCur), shortList(Q[head:])), -1}}
			}
		}
		for _, ro := range []struct {
			stage, how string
			got        [][]byte
			df         *Fail
		}{{"live", "scanner", o.Live, o.LiveFail}, {"reopen", "current", o.ReCur, o.ReCurFail}, {"reopen", "scanner", o.ReScan, o.ReScanFail}} {
			f := ro.df
			if f == nil {
				f = Compare(ro.got, e)
			}
			if f != nil {
				ff := *f
				ff.Why = fmt.Sprintf("complete read-out (%s, %s) after the threads finished: %s (queue in append order %s, consumer advanced past %d)", ro.stage, ro.how, f.Why, shortList(Q), adv)
				return verdict{ro.stage, &ff}
			}
			if len(ro.got) > len(Q)-head {
				// no crash happened: like the sequential family (clean histories are judged exactly) a read-out that starts
				// before the position an acknowledged Advance moved the head to is reported, as a class of its own
				return verdict{ro.stage, &Fail{"redelivery-without-crash", "read-out/" + ro.how, fmt.Sprintf("complete read-out (%s, %s) after the threads finished is %s: it redelivers entries the consumer had advanced past with a nil error (queue in append order %s, consumer advanced past %d)", ro.stage, ro.how, shortList(ro.got), shortList(Q), adv), -1}}
			}
		}
		return verdict{"", nil}
	}
	var first verdict
	for i, ord := range orders {
		v := check(ord)
		if v.f == nil {
			break
		}
		if i == 0 {
			first = v
		}
		if i == len(orders)-1 {
			fail(first.stage, first.f)
			return
		}
	}
	nd := 0
	if cons != nil {
		nd = len(cons.Delivered)
	}
	out.Outcome = fmt.Sprintf("sched:ok:%s/consumer-got=%d/left=%d", sc.kinds(), min(nd, 4), min(len(out.Obs.Live), 4))
}

func (r schedRec) String() string {
	s := fmt.Sprintf("T%d %s [%d,%d]", r.Thread, r.Op, r.Call, r.Ret)
	switch {
	case r.Entry != nil || strings.HasPrefix(r.Op, "Purge"):
		s += " -> " + errClass(r.Err)
	case r.Err != nil:
		s += " -> " + errClass(r.Err)
	default:
		s += " -> got " + shortList(r.Delivered)
		if r.AdvCalled {
			s += ", Advance " + errClass(r.AdvErr)
		}
	}
	return s
}

func schedHistory(o *schedOut) string {
	var s []string
	for _, r := range o.Recs {
		s = append(s, r.String())
	}
	return strings.Join(s, "; ")
}

// schedSig: clause + where it showed (call/return history | live read-out | read-out after restart) + the kinds of
// threads that ran concurrently. Initial state, sizes and the schedule are not part of it.
func schedSig(sc SchedScenario, o *schedOut) string {
	return vlib.JoinSig("sched", o.Fail.Clause, o.Stage, o.Fail.Feat, sc.kinds())
}

func schedScenarios(thorough bool) []SchedScenario {
	inits := [][]string{
		{OpAppend9},                       // one segment with room for one more 9-byte entry (25 -> 42 >= 40 bytes: full)
		{OpAppend9, OpAppend1},            // one segment, 34 bytes: any further entry fills it
		{OpAppend9, OpAdvance},            // one segment, not full, head behind its only entry (nothing to deliver)
		{OpAppend9, OpAppend9},            // one full segment: the next append rolls
		{OpAppend9, OpAppend9, OpAppend9}, // two segments: full head, tail with room
		{OpAppend9, OpAppend9, OpAdvance}, // one full segment, head advanced inside it
		{},                                // fresh queue
		{OpAppendSeg},                     // one over-full segment holding one segment-filling entry
		{OpAppend9, OpAppend9, OpAppend9, OpScanAll}, // the full head segment consumed and trimmed: one segment with room
	}
	appenders := [][]string{{OpAppend9}, {OpAppend1}, {OpAppend9, OpAppend9}, {OpAppendSeg}, {OpAppend1, OpAppend9}}
	consumers := []SchedThread{{Kind: "scan"}, {Kind: "scan", N: 1}, {Kind: "advance"}, {Kind: "purge"}}
	others := append(append([]SchedThread{}, consumers...), SchedThread{Kind: "append", Appends: []string{OpAppend9}}, SchedThread{Kind: "append", Appends: []string{OpAppend1, OpAppendSeg}})
	if !thorough {
		appenders, others = appenders[:4], others[:5]
	}
	var out []SchedScenario
	for _, ap := range appenders {
		for _, in := range inits {
			for _, ot := range others {
				out = append(out, SchedScenario{Init: in, Threads: []SchedThread{{Kind: "append", Appends: ap}, ot}})
			}
		}
	}
	if thorough {
		// three threads: two appenders against one consumer
		for _, ap2 := range [][]string{{OpAppend9}, {OpAppend1}} {
			for _, in := range inits {
				for _, ot := range consumers {
					out = append(out, SchedScenario{Init: in, Threads: []SchedThread{{Kind: "append", Appends: []string{OpAppend9}}, {Kind: "append", Appends: ap2}, ot}})
				}
			}
		}
	}
	return out
}

func schedTrace(r *vrt.Result) []string {
	var tr []string
	for _, s := range r.Steps {
		p := ""
		if s.Preempt {
			p = " (preemption)"
		}
		tr = append(tr, fmt.Sprintf("T%d %s%s", s.Thread, s.Label, p))
	}
	return tr
}

// runSchedules is the schedule phase of Run: this worker's share of the scenarios, every schedule with <= bound
// preemptions each. It may use at most `share` of wall time.
func runSchedules(t *testing.T, c *vlib.Ctx, share time.Duration) {
	defer func() {
		if r := recover(); r != nil {
			c.HarnessError(fmt.Sprintf("schedule part: explorer panicked: %v\n%s", r, debug.Stack()))
		}
	}()
	base := vlib.Scratch("c26s-")
	defer os.RemoveAll(base)
	bound := 2
	if c.Thorough() {
		bound = 3
	}
	if b := os.Getenv("C26_SCHED_BOUND"); b != "" {
		bound, _ = strconv.Atoi(b)
	}
	deadline := time.Now().Add(share)
	stop := func() bool { return c.Expired() || time.Now().After(deadline) }
	scs := schedScenarios(c.Thorough())
	if c.Shard == 0 {
		c.Extra("sched_scenarios", int64(len(scs)))
		c.Extra("sched_preemption_bound", int64(bound))
	}
	for si, sc := range scs {
		if !c.Mine(int64(si)) {
			continue
		}
		if stop() {
			c.Cap("the schedule part's share of the budget expired before all of its scenarios were explored")
			return
		}
		var out schedOut
		h := schedHarness(base, sc, &out)
		b := bound
		if len(sc.Threads) > 2 {
			b = min(b, 2) // three-thread scenarios (thorough tier): <= 2 preemptions
		}
		st := vrt.Explore(t, h, b, 0, 1, stop, func(r *vrt.Result) {
			c.Eval(1)
			if r.Diverged != "" {
				c.HarnessError("schedule part, " + sc.String() + ": " + r.Diverged)
				return
			}
			if r.Preempts > 0 {
				c.NontrivialN(1) // distinct by construction: a different choice sequence of the same scenario
			}
			cs := SchedCase{Scenario: sc, Schedule: r.Choices}
			if out.Deadlock != "" || r.Deadlock || r.StepCap {
				what := out.Deadlock
				if what == "" {
					what = "deadlock"
				}
				c.Outcome("sched:" + what)
				cs.Trace = schedTrace(r)
				c.Violation(vlib.JoinSig("sched", what, sc.kinds()), fmt.Sprintf("schedule part, %s: %s: %s", sc, what, strings.Join(r.Blocked, "; ")), Case{Sched: &cs})
				return
			}
			if out.Harness != "" {
				c.HarnessError(fmt.Sprintf("schedule part, %s, schedule %v: %s", sc, r.Choices, out.Harness))
				return
			}
			if out.Fail == nil {
				c.Outcome(out.Outcome)
				if c.WantSample() && r.Preempts == b && len(out.Obs.Live) > 0 {
					c.Sample(map[string]any{"part": "schedules", "scenario": sc.String(), "schedule": r.Choices, "preemptions": r.Preempts, "history": schedHistory(&out), "live_read_out": shortList(out.Obs.Live), "read_out_after_restart": shortList(out.Obs.ReScan)})
				}
				return
			}
			c.Outcome("FAIL:sched:" + out.Fail.Clause + "@" + out.Stage)
			cs.Trace = schedTrace(r)
			c.Violation(schedSig(sc, &out), fmt.Sprintf("schedule part, %s, %d preemptions: %s | history: %s | steps: %s", sc, r.Preempts, out.Fail.Why, schedHistory(&out), strings.Join(cs.Trace, "; ")), Case{Sched: &cs})
		})
		c.StateN(st.Nodes)
		c.Transition(st.Transitions)
		c.Trace(st.Executions)
		c.Extra("sched_states", st.Nodes)
		c.Extra("sched_transitions", st.Transitions)
		c.Extra("sched_traces", st.Executions)
		if !st.Complete {
			c.Cap("the schedule part's share of the budget expired inside scenario " + sc.String())
			return
		}
		c.Extra("sched_scenarios_completed", 1)
	}
}

func replaySched(t *testing.T, cs *SchedCase) (bool, string) {
	base := vlib.Scratch("c26sr-")
	defer os.RemoveAll(base)
	var out schedOut
	r := vrt.RunOnce(t, schedHarness(base, cs.Scenario, &out), cs.Schedule)
	obs := fmt.Sprintf("schedule part: %s schedule=%v", cs.Scenario, cs.Schedule)
	switch {
	case r.Diverged != "":
		return false, obs + " -> diverged: " + r.Diverged
	case out.Deadlock != "" || r.Deadlock || r.StepCap:
		return true, obs + fmt.Sprintf(" -> deadlock=%v stepcap=%v blocked=%v", r.Deadlock, r.StepCap, r.Blocked)
	case out.Harness != "":
		return false, obs + " -> harness problem: " + out.Harness
	}
	obs += fmt.Sprintf(" history=[%s] live: Current=%s/%s read-out=%s; after restart: %s (Current+Advance) %s (scanner)", schedHistory(&out), short(out.Obs.LiveCur), errClass(out.Obs.LiveCurErr), shortList(out.Obs.Live), shortList(out.Obs.ReCur), shortList(out.Obs.ReScan))
	if out.Fail == nil {
		return false, obs + " -> ok"
	}
	return true, obs + fmt.Sprintf(" -> %s@%s/%s: %s", out.Fail.Clause, out.Stage, out.Fail.Feat, out.Fail.Why)
}

// ReducedAlphabet drops the two ops that never change what is delivered (used for the deepest level only).
var ReducedAlphabet = []string{OpAppend1, OpAppend9, OpAppendSeg, OpAdvance, OpScan1, OpScanAll, OpReopen, OpPurgeAll, OpShrink}

func TestCheck(t *testing.T) {
	if js := os.Getenv("VERIF_CRASH_WRITER"); js != "" {
		os.Exit(crashWriterMain(js))
	}
	if jp := os.Getenv("VERIF_C26_RECOVER"); jp != "" {
		os.Exit(crashRecoverMain(jp))
	}
	if n := os.Getenv("VERIF_C26_DUMP"); n != "" { // development aid: print the event list of one crash history
		for _, h := range crashHistories("thorough") {
			if h.Name != n {
				continue
			}
			scratch := vlib.Scratch("c26d-")
			defer os.RemoveAll(scratch)
			l, err := recordCrashHistory(scratch, h)
			if err != nil {
				fmt.Println("record:", err)
				return
			}
			for _, e := range l.Events {
				e.Data = nil
				b, _ := json.Marshal(e)
				fmt.Println(string(b))
			}
		}
		return
	}
	vlib.Main(t, &vlib.Check{
		ID: "C26", Level: "model_checking", QuickBudgetS: 90, ThoroughBudgetS: 780, WorkerEnv: []string{"GOMAXPROCS=1"},
		Rule: "every op sequence of length <= d (quick d=4; thorough d=5, plus every sequence of length exactly 6 over the 9-op alphabet without the two delivery-neutral ops purgeNone and growMax) over the 11-op alphabet {append 1 B, append 9 B, append segment-filling 40 B, Queue.Advance, scanner Next x1 + Advance, scanner Next-to-end + Advance, reopen (Close + fresh Queue + Open), PurgeOlderThan(nothing old), PurgeOlderThan(all segments aged), SetMaxSize(80 = smallest legal), SetMaxSize(1024)} with max segment size 40 (rollover after <= 3 small entries), each replayed from scratch on the real Queue in a fresh directory, times 4 complete read-outs {live|after reopen} x {Current+Advance | scanner}; oracle = FIFO list model: Current after every op is the model head (or an error when empty), scanner output is a non-empty prefix of the remaining list, the final read-out equals the remaining list exactly, a rejected Append never shows up, an accepted Append never leaves more not-advanced payload than the max size, an Append is not rejected while the segment files plus the entry (+16 bytes framing) fit the max size. State = (sequence, read-out) node of the exploration tree, transition = one executed op, trace = one sequence validated against the implementation. Non-trivial = sequences containing at least one accepted append (distinct by construction). CRASH FAMILY (additional clause, engine crashfs; counted under the crash_* coverage keys and the crash:* outcomes, not under states/transitions/traces): histories over {append 1 B, append 9 B, append 40 B, Queue.Advance, scanner Next x1 + Advance, scanner Next-to-end + Advance, reopen} performed by a writer subprocess on the real Queue (max segment size 40) under strace with BEGIN/ACK markers around the initial Open and every op; quick: 4 hand-picked histories of 5-8 ops (append into fresh/rolled segment, length word equal to a record boundary, segment roll, Advance footer writes, trim of a full single segment = addSegment + remove, scanner trim with a tail segment, reopen), every cut; thorough: 7 hand-picked histories (every cut) plus EVERY sequence of length 0..3 over the 6-op alphabet without scanner-x1 (259 recordings; of each only the cuts inside or after its last op, so every (history prefix, cut) is evaluated once). Per history every prefix of the syscall-level event list (P), every torn length 1..n-1 of the write in flight (T; all writes are <= 56 bytes, no subsampling), and for the segment files (sync class [0-9]*) the images with un-fsynced data dropped or its last write torn (U); directory operations in program order; images deduplicated by (content, acknowledged ops, op in flight). One evaluation = one (image, acknowledgement context, read-out mode in {Current+Advance, scanner}) recovered in a fresh subprocess: real Queue.Open on the image, one more Append (must be accepted), directory copied without closing (second process death), complete read-out, then Open of the copy, complete read-out, one more Append, read-out. Crash oracle: each complete read-out = Appended[k:] for some k <= model head (k <= head + n while an Advance/scanner-Advance over n entries is in flight), optionally followed by the entry of the Append in flight as a whole, followed by the entry appended after the recovery; nothing else; Open must succeed. PAYLOAD-BYTE FAMILY of the crash family (both tiers, coverage keys crash_bytefamily_*): histories (acknowledged prefix, appendB(len, fill)) whose last op appends a payload of len bytes filled with a byte pattern; of each only the cuts inside or after that append are evaluated, i.e. EVERY byte length 1..len+15 of the ONE write (length word | payload | footer) that overwrites the old footer, plus the prefix and unsynced images around it, so that the last 8 bytes of the tail segment file - what segment.open reads as the head position - run through every window of old footer, length word, payload and new footer bytes (counted per class: high bit set = negative as int64 / positive beyond the segment / inside the segment / file shorter than a footer). Quick: prefixes {fresh queue | 9 B | 1 B, 9 B | 9 B, Advance (footer position 17, nothing left) | 9 B, 9 B, Advance (footer position 17, one entry left)} in ONE segment (max segment size 160) and {9 B, 9 B} with max segment size 40 (the append creates segment 2 while the acknowledged entries are in segment 1) x len in {1, 8, 9, 16, 17, 40} x fill in {0x00, 0x01, the op position's lower-case letter, 0x7f, 0x80, 0xff, mixed ff 00 80 01 repeated} = 252 histories; thorough: 16 prefixes (additionally 1 B | 9 B, 9 B | 1 B, 1 B | 9 B, 1 B | 1 B, Advance | 1 B, 9 B, Advance | 9 B, reopen | 9 B, 9 B, scanner-to-end | 1 B, 9 B, 9 B | 9 B, Advance, 9 B) x len in {1, 2, 8, 9, 16, 17, 24, 26, 34, 40} (26 and 34 are record boundaries of the prefixes) x 10 fills (additionally 80 81 82 ..., 80 00 00 00 00 00 00 00 repeated, first half ff + second half 00) = 1600 histories. Same recovery procedure and crash oracle as above. Class signatures: a violation whose append is torn BEHIND its length word while the last 8 bytes on disk decode to a position inside the segment carries the feature torn-tail=payload-reads-as-head-position (one class per clause); torn exactly after the length word (length = record boundary) keeps the plain signature. Non-trivial crash case = first read-out holds at least one entry of the history, or (payload-byte family) the append in flight is torn behind its length word. SCHEDULE PART (engine vsched; both tiers, after the crash family, limited to 25 s quick / 300 s thorough of wall time; its decision nodes / scheduling steps / executions are ADDED to states / transitions / traces and reported separately as sched_states / sched_transitions / sched_traces): pkg/durablequeue/queue.go (the only file of the package that imports sync; Queue.mu and segment.mu live there, scanner.go locks them through these types) is compiled against the modelled sync. Scenarios = 9 initial queue states built unscheduled on the real Queue (max segment size 40) {[9 B] one segment with room for one more entry, [9 B, 1 B] 34 bytes: any entry fills it, [9 B, advance] not full and fully consumed, [9 B, 9 B] one full segment, [9 B x3] full head + tail, [9 B, 9 B, advance] full single segment with the head inside, fresh, [40 B] one over-full segment, [9 B x3, scanner-to-end] head trimmed} x appender thread programs {9 B | 1 B | 9 B, 9 B | 40 B (thorough: + 1 B, 9 B)} x one other thread {scanner: NewScanner, Next until false, Advance | scanner: NewScanner, Next x1, Advance | Current + Queue.Advance | PurgeOlderThan(2001) with the initial segment files aged to 2000 | second appender 9 B (thorough: + second appender 1 B, 40 B)}; thorough additionally two appenders (9 B; 9 B | 1 B) against each of the 4 consumer/purge threads (<= 2 preemptions). All threads work on the SAME Queue; EVERY schedule with <= 2 preemptions (thorough <= 3) at the decision points = every Lock/RLock of Queue.mu and segment.mu plus the threads' call boundaries is executed (baton passing inside a synctest bubble; the atomics of SharedCount pass silently). When the threads have finished: Current, two copies of the directory (restart images), complete live read-out by scanner, Close, then fresh Queue.Open on the copies and complete read-outs by Current+Advance and by scanner. Oracle on the call/return history: let Q = entries of the initial history ++ the acknowledged appends in some order consistent with returned-before-called; no Append may fail; the consumer thread was handed Q[head], Q[head+1], ... in order and its Advance returned nil; Current and every complete read-out equal Q[head':] with head' = head + number of entries the consumer advanced past (a purge may instead drop any prefix of the initial entries, never an entry appended during the run); nothing else is delivered; a read-out that starts before head' is the class redelivery-without-crash; deadlock and step cap are violations. Non-trivial schedule = execution with >= 1 preemption.",
		Assumptions: []string{
			"entries are non-empty (the scanner skips zero-length records by design)",
			"Queue.Advance / scanner on a queue that is empty by the model is executed, but only its effect on later deliveries is judged (the statement does not define it)",
			"a reopen is a clean Close followed by a new Queue object with a fresh SharedCount (process restart); the configured max size is carried over",
			"after a clean reopen the read-out must start exactly at the model head (no redelivery); the statement's at-least-once latitude is reserved for crash images (Expect.Exact=false)",
			"PurgeOlderThan may drop any prefix of the remaining list when all segments are older than the cutoff, and nothing when none is",
			"crash family: ordered-metadata crash model (creates/unlinks persist in program order; data of segment files may be lost back to the last fsync = U images; a write in flight may persist any byte prefix = T images, byte-granular); event order is syscall completion order of the single writer goroutine",
			"crash family: a lost acknowledged Advance (redelivery from an earlier position) is allowed by the statement (at-least-once), so a missing fsync in advanceTo is by design not a violation; footer positions stay below 256 (one significant byte) in all histories",
			"crash family, payload-byte family: Queue.Append / segment.append issue the same syscalls whatever the payload bytes and (up to 64 bytes) the payload length - only the bytes of the one write differ - and whether the segment rolls depends on the size of the tail segment only; so ONE real strace recording per prefix and worker is made and the recordings of the other (length, fill) are derived from it by replacing the length word and the payload inside the recorded write and the op name in the BEGIN marker (offset, footer bytes, every other event as recorded). The derivation is cross-checked against a second real recording (quick: one (length, fill) per prefix; thorough: one fill for every second length of every prefix; coverage key crash_bytefamily_derived_logs_cross_checked, a mismatch is a harness error), and every violation is confirmed on a real recording of its own history (Replay records the history itself and compares the digest of the event prefix, payload bytes included)",
			"crash family, payload-byte family: the block verification function accepts exactly the well-formed entries of the alphabet (a fill pattern of 1..64 bytes), as it accepts exactly the letter runs in the other families (the replication service passes a function that accepts everything); acknowledged entries are letter runs and the entry in flight is the fill pattern with the letter of its own op position, so the entries of a history are pairwise distinct",
			"crash family: a Queue.Open that fails on a crash image is reported also when no acknowledged, not-advanced entry exists (signature feature undelivered-entries=none): the queue then cannot accept the further append the oracle requires",
			"schedule part: sequentially consistent interleavings at the granularity of the Lock/RLock operations of Queue.mu and segment.mu (file I/O between two lock operations runs atomically); at most one consuming thread (scanner or Current+Advance) and never a purge concurrent with a scanner, as in replications/internal/queue_management.go where one goroutine scans and purges while other goroutines append; no process death in this part, so read-outs are judged exactly (no redelivery), like clean histories of the sequential family",
			"which appends the size limit must reject is judged only by payload bytes (accepted => not-advanced payload <= max size), and which it must accept only by the bytes the segment files really occupy (files + entry + 16 <= max size => accepted); the exact accounting of headers/footers in between is not part of the statement",
		},
		Run: func(c *vlib.Ctx) {
			runCrash(c) // crash family first: small and of fixed size, so a budget cap always lands in the sequence family
			if os.Getenv("C26_ONLY") == "crash" {
				return
			}
			if os.Getenv("C26_ONLY") != "seq" {
				share := 25 * time.Second
				if c.Thorough() {
					share = 300 * time.Second
				}
				runSchedules(t, c, share) // schedule part: small and of fixed size too
			}
			if os.Getenv("C26_ONLY") == "sched" {
				return
			}
			base := vlib.Scratch("c26-")
			defer os.RemoveAll(base)
			depth, deep := 4, 0
			if c.Thorough() {
				depth, deep = 5, 6
			}
			if d := os.Getenv("C26_DEPTH"); d != "" {
				depth, _ = strconv.Atoi(d)
				deep = 0
			}
			var idx int64
			capped := false
			visit := func(ops []string) bool {
				idx++
				if !c.Mine(idx) {
					return true
				}
				if c.Expired() {
					capped = true
					return false
				}
				for _, end := range EndModes {
					cs := Case{Ops: ops, End: end}
					rr := runCase(base, cs)
					c.Eval(1)
					c.StateN(1)
					c.Transition(int64(len(ops)))
					c.Trace(1)
					if rr.Model != nil && len(rr.Model.Appended) > 0 {
						c.NontrivialN(1)
					}
					if end == EndModes[0] {
						for _, o := range rr.Outcomes {
							c.Outcome(o)
						}
					}
					if rr.Fail == nil {
						c.Outcome(fmt.Sprintf("readout:%s:%d-entries", end, min(len(rr.Final), 4)))
						if c.WantSample() && len(ops) >= 4 && len(rr.Final) > 1 {
							c.Sample(map[string]any{"case": cs, "read_out": shortList(rr.Final), "acknowledged": shortList(rr.Model.Appended), "head": rr.Model.Head})
						}
						continue
					}
					f := rr.Fail
					if f.Clause == "harness" {
						c.HarnessError(f.Feat + ": " + f.Why)
						continue
					}
					c.Outcome("FAIL:" + f.Clause)
					c.Violation(sigOf(cs, f, rr.Outcomes), fmt.Sprintf("ops %v, read-out %s: step %d: %s", ops, end, f.Step, f.Why), cs)
				}
				return true
			}
			forEachSeq(Alphabet, 0, depth, visit)
			if deep > depth && !capped {
				forEachSeq(ReducedAlphabet, deep, deep, visit)
			}
			// many-segment family: segment ids reach two digits (10 sorts before 9 as a string), with the head in a
			// one-digit segment and the tail in a two-digit one, across a reopen
			for n := 9; n <= 13 && !capped; n++ {
				for _, k := range []int{0, 1, n / 2, n - 3, n - 2, n - 1} {
					for _, tail := range [][]string{{OpReopen}, {OpReopen, OpAppend1}, {OpReopen, OpAdvance, OpAppendSeg, OpReopen}} {
						var ops []string
						for i := 0; i < n; i++ {
							ops = append(ops, OpAppendSeg)
						}
						for i := 0; i < k; i++ {
							ops = append(ops, OpAdvance)
						}
						ops = append(ops, tail...)
						if !visit(ops) {
							break
						}
					}
				}
			}
			if capped {
				c.Cap(fmt.Sprintf("budget expired before all sequences (full alphabet <= %d, reduced alphabet = %d) were visited", depth, deep))
			}
		},
		Replay: func(c *vlib.Ctx, raw json.RawMessage) (bool, string) {
			var cs Case
			if err := json.Unmarshal(raw, &cs); err != nil {
				return false, err.Error()
			}
			if cs.Crash != nil {
				return replayCrash(cs.Crash)
			}
			if cs.Sched != nil {
				return replaySched(t, cs.Sched)
			}
			base := vlib.Scratch("c26r-")
			defer os.RemoveAll(base)
			rr := runCase(base, cs)
			obs := fmt.Sprintf("ops=%v end=%s outcomes=%v", cs.Ops, cs.End, rr.Outcomes)
			if rr.Model != nil {
				obs += fmt.Sprintf(" acknowledged=%s head=%d", shortList(rr.Model.Appended), rr.Model.Head)
			}
			if rr.Fail == nil {
				return false, obs + " read_out=" + shortList(rr.Final) + " -> ok"
			}
			return rr.Fail.Clause != "harness", obs + fmt.Sprintf(" -> %s/%s at step %d: %s", rr.Fail.Clause, rr.Fail.Feat, rr.Fail.Step, rr.Fail.Why)
		},
	})
}
