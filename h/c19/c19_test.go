// C19: retention drops only expired data.
//
// Input/history enumeration on the REAL meta.Client (inmem KV), coordinator.PointsWriter.WritePointsPrivileged and
// retention.Service.DeletionCheck under the fake clock of a testing/synctest bubble, against a reference written
// from the property statement.
package c19

import (
	"context"
	"encoding/json"
	"errors"
	"fmt"
	"math"
	"math/big"
	"runtime"
	"runtime/debug"
	"sort"
	"strings"
	"sync"
	"testing"
	"testing/synctest"
	"time"

	"github.com/influxdata/influxdb/v2/inmem"
	"github.com/influxdata/influxdb/v2/models"
	"github.com/influxdata/influxdb/v2/tsdb"
	"github.com/influxdata/influxdb/v2/v1/coordinator"
	"github.com/influxdata/influxdb/v2/v1/services/meta"
	"github.com/influxdata/influxdb/v2/v1/services/retention"
	"verif/h/vlib"
)

const (
	dbName   = "db"
	rpName   = "rp"
	keepName = "keep" // second policy with infinite retention: none of its shards may ever be touched
	nWin     = 5
)

// the fake clock of a bubble starts at 2000-01-01T00:00:00Z; the windows start 9 days later (aligned for 1h and 24h)
var bubbleStart = time.Date(2000, 1, 1, 0, 0, 0, 0, time.UTC)
var base = time.Date(2000, 1, 10, 0, 0, 0, 0, time.UTC)

// (retention period, shard group duration) combinations accepted by CreateRetentionPolicy (R==0 or R>=d)
type combo struct{ R, D time.Duration }

var combos = []combo{{0, time.Hour}, {0, 24 * time.Hour}, {time.Hour, time.Hour}, {24 * time.Hour, time.Hour}, {24 * time.Hour, 24 * time.Hour}}

// window states
const (
	stAbsent = iota
	stLive
	stDeleted
	stTruncated
)

var stNames = []string{"absent", "live", "deleted", "truncated"}

// Case is one replayable case.
//
//	Fam "B": build the layout, advance the clock to Now, call Service.DeletionCheck once.
//	Fam "A": build the layout, advance the clock to Now, write the batch {Now-R+off : off in Batch} with
//	         PointsWriter.WritePointsPrivileged.
//	Fam "X": groups at the extremes of the representable time range (Anchors: state of the group that contains
//	         MinNanoTime / the Unix epoch / the fake now / 2262-04-11T00:00Z / MaxNanoTime), very long retention periods;
//	         RetentionPolicyInfo.ExpiredShardGroups(t) at every check time of xTimes, then one Service.DeletionCheck
//	         at the fake now (2000-01-01T00:00Z).
type Case struct {
	Fam     string `json:"family"`
	R       int64  `json:"retention_ns"`
	D       int64  `json:"shard_group_duration_ns"`
	Layout  []int  `json:"layout"`   // state of the 5 consecutive windows [base+k*d, base+(k+1)*d)
	NowOff  int64  `json:"now_off"`  // now = base + NowOff (ns)
	NowDesc string `json:"now_desc"` // e.g. "boundary2+R-1"
	Batch   []int  `json:"batch,omitempty"`
	Phantom bool   `json:"phantom,omitempty"` // shards of already-deleted groups are not in the local store
	Anchors []int  `json:"anchors,omitempty"` // family X: state of the group containing each anchor timestamp (see anchors)
}

func (c Case) String() string {
	if c.Fam == "X" {
		var l []string
		for i, s := range c.Anchors {
			l = append(l, anchors[i].name+":"+stNames[s])
		}
		return fmt.Sprintf("family X: R=%s d=%s groups-at=[%s] now=2000-01-01T00:00:00Z", rLabel(c.R), time.Duration(c.D), strings.Join(l, ","))
	}
	var l []string
	for _, s := range c.Layout {
		l = append(l, stNames[s])
	}
	s := fmt.Sprintf("family %s: R=%s d=%s windows=[%s] now=%s", c.Fam, time.Duration(c.R), time.Duration(c.D), strings.Join(l, ","), c.NowDesc)
	if c.Fam == "A" {
		var b []string
		for _, o := range c.Batch {
			b = append(b, fmt.Sprintf("now-R%+d", o))
		}
		s += " batch=[" + strings.Join(b, ",") + "]"
	}
	if c.Phantom {
		s += " (deleted groups' shards not in local store)"
	}
	return s
}

type nowPoint struct {
	off  int64
	desc string
}

// nows: every window boundary ±1ns, and (R != 0) every boundary + R ± 1ns.
func nows(cb combo) []nowPoint {
	var out []nowPoint
	for j := 0; j <= nWin; j++ {
		for _, dl := range []int64{-1, 0, 1} {
			out = append(out, nowPoint{int64(j)*int64(cb.D) + dl, fmt.Sprintf("boundary%d%+d", j, dl)})
		}
	}
	if cb.R != 0 {
		for j := 0; j <= nWin; j++ {
			for _, dl := range []int64{-1, 0, 1} {
				out = append(out, nowPoint{int64(j)*int64(cb.D) + int64(cb.R) + dl, fmt.Sprintf("boundary%d+R%+d", j, dl)})
			}
		}
	}
	return out
}

var batches = [][]int{{-1}, {0}, {1},
	{-1, -1}, {-1, 0}, {-1, 1}, {0, -1}, {0, 0}, {0, 1}, {1, -1}, {1, 0}, {1, 1}}

// ---- fakes around the real code ----

type fakeStore struct {
	mu       sync.Mutex
	ids      []uint64
	deleted  []uint64
	blocked  map[uint64]bool
	blockLog []uint64
	written  map[uint64][]int64
}

func (s *fakeStore) ShardIDs() []uint64 {
	s.mu.Lock()
	defer s.mu.Unlock()
	return append([]uint64(nil), s.ids...)
}
func (s *fakeStore) DeleteShard(id uint64) error {
	s.mu.Lock()
	defer s.mu.Unlock()
	s.deleted = append(s.deleted, id)
	for i, x := range s.ids {
		if x == id {
			s.ids = append(s.ids[:i], s.ids[i+1:]...)
			return nil
		}
	}
	return tsdb.ErrShardNotFound
}
func (s *fakeStore) SetShardNewReadersBlocked(id uint64, b bool) error {
	s.mu.Lock()
	defer s.mu.Unlock()
	if b {
		s.blockLog = append(s.blockLog, id)
	}
	s.blocked[id] = b
	return nil
}
func (s *fakeStore) ShardInUse(id uint64) (bool, error) { return false, nil }
func (s *fakeStore) CreateShard(ctx context.Context, database, retentionPolicy string, shardID uint64, enabled bool) error {
	return nil
}
func (s *fakeStore) WriteToShard(ctx context.Context, shardID uint64, points []models.Point) error {
	s.mu.Lock()
	defer s.mu.Unlock()
	for _, p := range points {
		s.written[shardID] = append(s.written[shardID], p.UnixNano())
	}
	return nil
}

// recMC records the calls the retention service makes on the real meta client.
type recMC struct {
	*meta.Client
	delGroups  []uint64
	dropShards []uint64
}

func (m *recMC) DeleteShardGroup(database, policy string, id uint64) error {
	m.delGroups = append(m.delGroups, id)
	return m.Client.DeleteShardGroup(database, policy, id)
}
func (m *recMC) DropShard(id uint64) error {
	m.dropShards = append(m.dropShards, id)
	return m.Client.DropShard(id)
}

// ---- the world ----

type win struct {
	state      int
	start, end time.Time
	id         uint64
	shards     []uint64
}

type world struct {
	cs    Case
	mc    *meta.Client
	store *fakeStore
	wins  []win // policy rp
	keep  []win // policy keep (B only)
}

func sgShards(sg *meta.ShardGroupInfo) []uint64 {
	var out []uint64
	for _, s := range sg.Shards {
		out = append(out, s.ID)
	}
	return out
}

func build(cs Case) (*world, error) {
	if !time.Now().Equal(bubbleStart) {
		return nil, fmt.Errorf("fixture: bubble clock starts at %s", time.Now())
	}
	w := &world{cs: cs, store: &fakeStore{blocked: map[uint64]bool{}, written: map[uint64][]int64{}}}
	kv := inmem.NewKVStore()
	if err := kv.CreateBucket(context.Background(), meta.BucketName); err != nil {
		return nil, err
	}
	w.mc = meta.NewClient(meta.NewConfig(), kv)
	if err := w.mc.Open(); err != nil {
		return nil, err
	}
	R, d, one, zero := time.Duration(cs.R), time.Duration(cs.D), 1, time.Duration(0)
	if _, err := w.mc.CreateDatabaseWithRetentionPolicy(dbName, &meta.RetentionPolicySpec{Name: rpName, ReplicaN: &one, Duration: &R, ShardGroupDuration: d}); err != nil {
		return nil, err
	}
	rpi, err := w.mc.RetentionPolicy(dbName, rpName)
	if err != nil || rpi == nil || rpi.Duration != R || rpi.ShardGroupDuration != d {
		return nil, fmt.Errorf("fixture: policy not as requested: %+v %v", rpi, err)
	}
	mk := func(policy string, k int) (win, error) {
		wn := win{state: stLive, start: base.Add(time.Duration(k) * d), end: base.Add(time.Duration(k+1) * d)}
		sg, err := w.mc.CreateShardGroup(dbName, policy, wn.start.Add(d/3))
		if err != nil || sg == nil {
			return wn, fmt.Errorf("fixture: CreateShardGroup: %v", err)
		}
		if !sg.StartTime.Equal(wn.start) || !sg.EndTime.Equal(wn.end) {
			return wn, fmt.Errorf("fixture: group bounds [%s,%s) not the window [%s,%s)", sg.StartTime, sg.EndTime, wn.start, wn.end)
		}
		wn.id, wn.shards = sg.ID, sgShards(sg)
		w.store.ids = append(w.store.ids, wn.shards...)
		return wn, nil
	}
	for k := 0; k < nWin; k++ {
		if cs.Layout[k] == stAbsent {
			w.wins = append(w.wins, win{state: stAbsent, start: base.Add(time.Duration(k) * d), end: base.Add(time.Duration(k+1) * d)})
			continue
		}
		wn, err := mk(rpName, k)
		if err != nil {
			return nil, err
		}
		wn.state = cs.Layout[k]
		w.wins = append(w.wins, wn)
	}
	// deleted / truncated marks
	var trunc []uint64
	for _, wn := range w.wins {
		switch wn.state {
		case stDeleted:
			if err := w.mc.DeleteShardGroup(dbName, rpName, wn.id); err != nil {
				return nil, err
			}
			if cs.Phantom {
				for _, sh := range wn.shards {
					for i, x := range w.store.ids {
						if x == sh {
							w.store.ids = append(w.store.ids[:i], w.store.ids[i+1:]...)
							break
						}
					}
				}
			}
		case stTruncated:
			trunc = append(trunc, wn.id)
		}
	}
	if len(trunc) > 0 {
		data := w.mc.Data()
		rp, err := data.RetentionPolicy(dbName, rpName)
		if err != nil || rp == nil {
			return nil, fmt.Errorf("fixture: %v", err)
		}
		for i := range rp.ShardGroups {
			for _, id := range trunc {
				if rp.ShardGroups[i].ID == id {
					rp.ShardGroups[i].TruncatedAt = rp.ShardGroups[i].StartTime.Add(d / 2)
				}
			}
		}
		if err := w.mc.SetData(&data); err != nil {
			return nil, err
		}
	}
	if cs.Fam == "B" {
		if _, err := w.mc.CreateRetentionPolicy(dbName, &meta.RetentionPolicySpec{Name: keepName, ReplicaN: &one, Duration: &zero, ShardGroupDuration: d}, false); err != nil {
			return nil, err
		}
		for k := 0; k < nWin; k++ {
			wn, err := mk(keepName, k)
			if err != nil {
				return nil, err
			}
			w.keep = append(w.keep, wn)
		}
	}
	// advance the fake clock
	now := base.Add(time.Duration(cs.NowOff))
	time.Sleep(now.Sub(time.Now()))
	if !time.Now().Equal(now) {
		return nil, fmt.Errorf("fixture: clock is %s, wanted %s", time.Now(), now)
	}
	return w, nil
}

type groupObs struct {
	id         uint64
	start, end string
	deleted    bool
	shards     string
}

func (w *world) observeGroups(policy string) map[uint64]groupObs {
	out := map[uint64]groupObs{}
	di := w.mc.Database(dbName)
	if di == nil {
		return out
	}
	rpi := di.RetentionPolicy(policy)
	if rpi == nil {
		return out
	}
	for i := range rpi.ShardGroups {
		sg := &rpi.ShardGroups[i]
		out[sg.ID] = groupObs{sg.ID, sg.StartTime.UTC().Format(time.RFC3339Nano), sg.EndTime.UTC().Format(time.RFC3339Nano), !sg.DeletedAt.IsZero(), fmt.Sprint(sgShards(sg))}
	}
	return out
}

type vio struct{ sig, msg string }

type result struct {
	err      error
	vios     []vio
	outcomes []string
	extra    map[string]int64
	obs      string
}

func u64s(a []uint64) string {
	b := append([]uint64(nil), a...)
	sort.Slice(b, func(i, j int) bool { return b[i] < b[j] })
	return fmt.Sprint(b)
}

// runB: one DeletionCheck. Reference (from the statement): a group may be deleted, and its shards removed, only if
// R != 0 and end <= now-R (every timestamp of the half-open range is < now-R); shards of groups that were already
// marked deleted may also be removed; nothing else may be touched.
func runB(w *world) (res result) {
	res.extra = map[string]int64{}
	cs := w.cs
	now := time.Now()
	cutoff := now.Add(-time.Duration(cs.R))
	mayGroup := map[uint64]bool{}
	mayShard := map[uint64]bool{}
	nExpired := 0
	for _, wn := range w.wins {
		switch wn.state {
		case stLive, stTruncated:
			if cs.R != 0 && !wn.end.After(cutoff) {
				nExpired++
				mayGroup[wn.id] = true
				for _, s := range wn.shards {
					mayShard[s] = true
				}
			}
		case stDeleted:
			mayGroup[wn.id] = true // already marked: the statement does not forbid marking it again
			for _, s := range wn.shards {
				mayShard[s] = true
			}
		}
	}
	beforeRP, beforeKeep := w.observeGroups(rpName), w.observeGroups(keepName)

	rec := &recMC{Client: w.mc}
	svc := retention.NewService(retention.NewConfig())
	svc.SetOSSMetaClient(rec)
	svc.TSDBStore = w.store
	svc.DropShardMetaRef = retention.OSSDropShardMetaRef(rec)
	if p, desc := vlib.Guard(func() { svc.DeletionCheck(context.Background()) }); p {
		res.vios = append(res.vios, vio{vlib.JoinSig("enforce", "panic", desc), "DeletionCheck panicked: " + desc})
		return
	}

	feat := func(id uint64, isShard bool) string {
		for _, wn := range w.wins {
			hit := wn.id == id && !isShard
			for _, s := range wn.shards {
				hit = hit || (isShard && s == id)
			}
			if hit && wn.state != stAbsent {
				rel := "endAfterCutoff"
				if wn.end.Equal(cutoff) {
					rel = "endEqualsCutoff"
				} else if wn.end.Before(cutoff) {
					rel = "endBeforeCutoff"
				}
				if !wn.start.After(cutoff) && wn.end.After(cutoff) {
					rel = "cutoffInside"
				}
				inf := ""
				if cs.R == 0 {
					inf = ",infiniteRetention"
				}
				return "policy=rp,state=" + stNames[wn.state] + "," + rel + inf
			}
		}
		for _, wn := range w.keep {
			hit := wn.id == id && !isShard
			for _, s := range wn.shards {
				hit = hit || (isShard && s == id)
			}
			if hit {
				return "policy=keep(infinite)"
			}
		}
		return "unknown-id"
	}
	deletedExpired := 0
	for _, id := range rec.delGroups {
		if !mayGroup[id] {
			res.vios = append(res.vios, vio{vlib.JoinSig("enforce", "DeleteShardGroup-on-unexpired-group", feat(id, false)),
				fmt.Sprintf("DeleteShardGroup(%d) although the group is not entirely older than now-R (cutoff %s)", id, cutoff.Format(time.RFC3339Nano))})
		} else {
			deletedExpired++
		}
	}
	for _, id := range w.store.deleted {
		if !mayShard[id] {
			res.vios = append(res.vios, vio{vlib.JoinSig("enforce", "DeleteShard-on-unexpired-shard", feat(id, true)),
				fmt.Sprintf("TSDBStore.DeleteShard(%d) although its group is neither expired nor marked deleted (cutoff %s)", id, cutoff.Format(time.RFC3339Nano))})
		}
	}
	for _, id := range rec.dropShards {
		if !mayShard[id] {
			res.vios = append(res.vios, vio{vlib.JoinSig("enforce", "DropShard-on-unexpired-shard", feat(id, true)),
				fmt.Sprintf("meta DropShard(%d) although its group is neither expired nor marked deleted", id)})
		}
	}
	var stillBlocked []uint64
	for id, b := range w.store.blocked {
		if b && !mayShard[id] {
			stillBlocked = append(stillBlocked, id)
		}
	}
	sort.Slice(stillBlocked, func(i, j int) bool { return stillBlocked[i] < stillBlocked[j] })
	for _, id := range stillBlocked {
		res.vios = append(res.vios, vio{vlib.JoinSig("enforce", "readers-blocked-on-unexpired-shard", feat(id, true)),
			fmt.Sprintf("shard %d left blocked for new readers although it is not expired", id)})
	}
	// meta state of everything that must not be touched
	chk := func(policy string, before map[uint64]groupObs) {
		after := w.observeGroups(policy)
		ids := make([]uint64, 0, len(before))
		for id := range before {
			ids = append(ids, id)
		}
		sort.Slice(ids, func(i, j int) bool { return ids[i] < ids[j] })
		for _, id := range ids {
			if mayGroup[id] {
				continue
			}
			b, a := before[id], after[id]
			if a != b {
				res.vios = append(res.vios, vio{vlib.JoinSig("enforce", "unexpired-group-metadata-changed", feat(id, false)),
					fmt.Sprintf("group %d of policy %s changed from %+v to %+v", id, policy, b, a)})
			}
		}
	}
	chk(rpName, beforeRP)
	chk(keepName, beforeKeep)

	res.extra["expired_groups"] = int64(nExpired)
	res.extra["expired_groups_deleted"] = int64(deletedExpired)
	res.extra["shards_removed_from_store"] = int64(len(w.store.deleted))
	switch {
	case nExpired == 0 && len(rec.delGroups) == 0:
		res.outcomes = append(res.outcomes, "B:nothing-expired/nothing-deleted")
	case deletedExpired == nExpired:
		res.outcomes = append(res.outcomes, fmt.Sprintf("B:all-%d-expired-groups-deleted", nExpired))
	default:
		res.outcomes = append(res.outcomes, fmt.Sprintf("B:%d-of-%d-expired-groups-deleted(allowed:lag-at-boundary)", deletedExpired, nExpired))
	}
	if len(w.store.deleted) > 0 {
		res.outcomes = append(res.outcomes, "B:shards-removed")
	}
	res.obs = fmt.Sprintf("DeleteShardGroup%s DeleteShard%s DropShard%s expired=%d", u64s(rec.delGroups), u64s(w.store.deleted), u64s(rec.dropShards), nExpired)
	return
}

// runA: one write. Reference: a point is rejected iff R != 0 and t < now-R; a rejection is reported as a
// PartialWriteError whose Dropped is the number of rejected points; every other point reaches a shard.
func runA(w *world) (res result) {
	res.extra = map[string]int64{}
	cs := w.cs
	now := time.Now()
	cutoff := now.Add(-time.Duration(cs.R))
	pw := coordinator.NewPointsWriter(time.Minute, "c19")
	pw.MetaClient = w.mc
	pw.TSDBStore = w.store
	var pts []models.Point
	var ts []int64
	for _, off := range cs.Batch {
		t := cutoff.Add(time.Duration(off))
		ts = append(ts, t.UnixNano())
		pts = append(pts, models.MustNewPoint("m", models.NewTags(map[string]string{"k": "v"}), models.Fields{"f": 1.0}, t))
	}
	var err error
	if p, desc := vlib.Guard(func() {
		err = pw.WritePointsPrivileged(context.Background(), dbName, rpName, models.ConsistencyLevelAny, pts)
	}); p {
		res.vios = append(res.vios, vio{vlib.JoinSig("write", "panic", desc), "WritePointsPrivileged panicked: " + desc})
		return
	}
	synctest.Wait()
	writtenN := map[int64]int{}
	total := 0
	w.store.mu.Lock()
	for _, l := range w.store.written {
		for _, t := range l {
			writtenN[t]++
			total++
		}
	}
	w.store.mu.Unlock()
	wantN := map[int64]int{}
	sentN := map[int64]int{}
	wantRejected := 0
	for _, t := range ts {
		sentN[t]++
		if cs.R != 0 && t < cutoff.UnixNano() {
			wantRejected++
		} else {
			wantN[t]++
		}
	}
	winOf := func(t int64) int64 {
		o := t - base.UnixNano()
		if o < 0 {
			return -1 - (-o-1)/cs.D
		}
		return o / cs.D
	}
	// companion features of the batch
	hasIn, sameWin := false, false
	for _, t := range ts {
		if !(cs.R != 0 && t < cutoff.UnixNano()) {
			hasIn = true
			for _, u := range ts {
				if cs.R != 0 && u < cutoff.UnixNano() && winOf(u) == winOf(t) {
					sameWin = true
				}
			}
		}
	}
	shape := fmt.Sprintf("batch=%d,inRetentionCompanion=%v,companionInSameWindow=%v", len(ts), hasIn, sameWin)
	uniq := make([]int64, 0, len(sentN))
	for t := range sentN {
		uniq = append(uniq, t)
	}
	sort.Slice(uniq, func(i, j int) bool { return uniq[i] < uniq[j] })
	for _, t := range uniq {
		rel := t - cutoff.UnixNano()
		switch {
		case writtenN[t] > wantN[t]:
			res.vios = append(res.vios, vio{vlib.JoinSig("write", "expired-point-accepted", shape),
				fmt.Sprintf("point at now-R%+d (older than now-R) was written to a shard instead of being rejected", rel)})
		case writtenN[t] < wantN[t]:
			inf := ""
			if cs.R == 0 {
				inf = ",infiniteRetention"
			}
			res.vios = append(res.vios, vio{vlib.JoinSig("write", "in-retention-point-not-written", shape+inf),
				fmt.Sprintf("point at now-R%+d (not older than now-R) was not written (written %d of %d)", rel, writtenN[t], wantN[t])})
		}
	}
	// the report
	notWritten := len(ts) - total
	var pwe tsdb.PartialWriteError
	switch {
	case err == nil:
		if notWritten != 0 {
			res.vios = append(res.vios, vio{vlib.JoinSig("write", "rejection-not-reported", shape), fmt.Sprintf("%d point(s) were not written but the write returned nil", notWritten)})
		}
		res.outcomes = append(res.outcomes, fmt.Sprintf("A:batch=%d/ok/rejected=0", len(ts)))
	case errors.As(err, &pwe):
		if pwe.Dropped != notWritten {
			res.vios = append(res.vios, vio{vlib.JoinSig("write", "dropped-count-wrong", shape), fmt.Sprintf("PartialWriteError.Dropped=%d but %d point(s) were not written", pwe.Dropped, notWritten)})
		}
		res.outcomes = append(res.outcomes, fmt.Sprintf("A:batch=%d/partial-write/dropped=%d", len(ts), pwe.Dropped))
	default:
		res.vios = append(res.vios, vio{vlib.JoinSig("write", "unexpected-error", shape), fmt.Sprintf("write returned %v", err)})
		res.outcomes = append(res.outcomes, "A:error")
	}
	if wantRejected > 0 {
		res.extra["writes_with_expired_points"] = 1
	}
	res.obs = fmt.Sprintf("written=%d of %d err=%v", total, len(ts), err)
	return
}

// ---- family X: the extremes of the representable time range ----

type anchor struct {
	name string
	ns   int64
}

// models.MinNanoTime / models.MaxNanoTime are MinInt64+2 / MaxInt64-1 (the smallest / largest timestamp a point may carry)
var anchors = []anchor{
	{"MinNanoTime", math.MinInt64 + 2},
	{"epoch", 0},
	{"now", bubbleStart.UnixNano()},
	{"2262-04-11", time.Date(2262, 4, 11, 0, 0, 0, 0, time.UTC).UnixNano()},
	{"MaxNanoTime", math.MaxInt64 - 1},
}

const year = 365 * 24 * time.Hour

// retention periods of family X (all finite; infinite retention is the always-present second policy)
var xRetentions = []time.Duration{time.Hour, 24 * time.Hour, 100 * year, 250 * year, math.MaxInt64}

func rLabel(r int64) string {
	switch time.Duration(r) {
	case 100 * year:
		return "100y"
	case 250 * year:
		return "250y"
	case math.MaxInt64:
		return "MaxInt64ns"
	}
	return time.Duration(r).String()
}

// check times handed directly to RetentionPolicyInfo.ExpiredShardGroups
var xTimes = []anchor{
	{"epoch+1h", int64(time.Hour)},
	{"now", bubbleStart.UnixNano()},
	{"2262-04-11T23:00", time.Date(2262, 4, 11, 23, 0, 0, 0, time.UTC).UnixNano()},
	{"MaxNanoTime", math.MaxInt64 - 1},
}

type xgroup struct {
	id         uint64
	start, end int64 // ns; end is exclusive
	deleted    bool
	shards     []uint64
	anchor     string // first anchor the group contains
}

// readGroups reads the groups of a policy back from the meta client (fixture read-back: bounds, deleted mark, shards).
func (w *world) readGroups(policy string) ([]xgroup, error) {
	rpi, err := w.mc.RetentionPolicy(dbName, policy)
	if err != nil || rpi == nil {
		return nil, fmt.Errorf("fixture: policy %s: %v", policy, err)
	}
	var out []xgroup
	for i := range rpi.ShardGroups {
		sg := &rpi.ShardGroups[i]
		g := xgroup{id: sg.ID, start: sg.StartTime.UnixNano(), end: sg.EndTime.UnixNano(), deleted: !sg.DeletedAt.IsZero(), shards: sgShards(sg), anchor: "none"}
		if !time.Unix(0, g.start).Equal(sg.StartTime) || !time.Unix(0, g.end).Equal(sg.EndTime) || g.end <= g.start {
			return nil, fmt.Errorf("fixture: group %d bounds [%s,%s) are not int64 nanoseconds", sg.ID, sg.StartTime, sg.EndTime)
		}
		for j := len(anchors) - 1; j >= 0; j-- {
			if g.start <= anchors[j].ns && anchors[j].ns < g.end {
				g.anchor = anchors[j].name
			}
		}
		out = append(out, g)
	}
	return out, nil
}

func buildX(cs Case) (*world, error) {
	if !time.Now().Equal(bubbleStart) {
		return nil, fmt.Errorf("fixture: bubble clock starts at %s", time.Now())
	}
	w := &world{cs: cs, store: &fakeStore{blocked: map[uint64]bool{}, written: map[uint64][]int64{}}}
	kv := inmem.NewKVStore()
	if err := kv.CreateBucket(context.Background(), meta.BucketName); err != nil {
		return nil, err
	}
	w.mc = meta.NewClient(meta.NewConfig(), kv)
	if err := w.mc.Open(); err != nil {
		return nil, err
	}
	R, d, one, zero := time.Duration(cs.R), time.Duration(cs.D), 1, time.Duration(0)
	if _, err := w.mc.CreateDatabaseWithRetentionPolicy(dbName, &meta.RetentionPolicySpec{Name: rpName, ReplicaN: &one, Duration: &R, ShardGroupDuration: d}); err != nil {
		return nil, err
	}
	if _, err := w.mc.CreateRetentionPolicy(dbName, &meta.RetentionPolicySpec{Name: keepName, ReplicaN: &one, Duration: &zero, ShardGroupDuration: d}, false); err != nil {
		return nil, err
	}
	for _, pol := range []struct {
		name string
		r    time.Duration
	}{{rpName, R}, {keepName, 0}} {
		rpi, err := w.mc.RetentionPolicy(dbName, pol.name)
		if err != nil || rpi == nil || rpi.Duration != pol.r || rpi.ShardGroupDuration != d {
			return nil, fmt.Errorf("fixture: policy %s not as requested: %+v %v", pol.name, rpi, err)
		}
	}
	known := map[uint64]bool{}
	mk := func(policy string, ts int64) (*meta.ShardGroupInfo, error) {
		t := time.Unix(0, ts).UTC()
		sg, err := w.mc.CreateShardGroup(dbName, policy, t)
		if err != nil || sg == nil {
			return nil, fmt.Errorf("fixture: CreateShardGroup(%s): %v", t, err)
		}
		if sg.StartTime.After(t) || !sg.EndTime.After(t) || !sg.DeletedAt.IsZero() {
			return nil, fmt.Errorf("fixture: group [%s,%s) does not contain %s", sg.StartTime, sg.EndTime, t)
		}
		if !known[sg.ID] {
			known[sg.ID] = true
			w.store.ids = append(w.store.ids, sgShards(sg)...)
		}
		return sg, nil
	}
	var trunc []uint64
	for i, a := range anchors {
		if cs.Anchors[i] == stAbsent {
			continue
		}
		sg, err := mk(rpName, a.ns)
		if err != nil {
			return nil, err
		}
		switch cs.Anchors[i] {
		case stDeleted:
			if err := w.mc.DeleteShardGroup(dbName, rpName, sg.ID); err != nil {
				return nil, err
			}
		case stTruncated:
			trunc = append(trunc, sg.ID)
		}
	}
	if len(trunc) > 0 {
		data := w.mc.Data()
		rp, err := data.RetentionPolicy(dbName, rpName)
		if err != nil || rp == nil {
			return nil, fmt.Errorf("fixture: %v", err)
		}
		for i := range rp.ShardGroups {
			for _, id := range trunc {
				if rp.ShardGroups[i].ID == id && rp.ShardGroups[i].DeletedAt.IsZero() {
					rp.ShardGroups[i].TruncatedAt = rp.ShardGroups[i].StartTime.Add(d / 2)
				}
			}
		}
		if err := w.mc.SetData(&data); err != nil {
			return nil, err
		}
	}
	for _, a := range anchors {
		if _, err := mk(keepName, a.ns); err != nil {
			return nil, err
		}
	}
	if !time.Now().Equal(bubbleStart) {
		return nil, fmt.Errorf("fixture: clock moved to %s", time.Now())
	}
	return w, nil
}

// expiredAt is the reference: the whole half-open range [start,end) of the group is older than t-R, i.e.
// end <= t-R, evaluated in unbounded integers (end + R <= t).
func expiredAt(endNS, rNS, tNS int64) bool {
	if rNS == 0 {
		return false
	}
	sum := new(big.Int).Add(big.NewInt(endNS), big.NewInt(rNS))
	return sum.Cmp(big.NewInt(tNS)) <= 0
}

func beyondInt64(endNS, rNS int64) bool {
	sum := new(big.Int).Add(big.NewInt(endNS), big.NewInt(rNS))
	return !sum.IsInt64()
}

// runX: same "only when" reference as runB, on groups at the extremes of the time range and very long retention
// periods: (1) every group RetentionPolicyInfo.ExpiredShardGroups(t) returns for a check time t has end <= t-R (or is
// already marked deleted); the infinite policy returns none; (2) one DeletionCheck at the fake now deletes / removes
// only such groups and their shards and touches nothing else.
func runX(w *world) (res result) {
	res.extra = map[string]int64{}
	cs := w.cs
	groups, err := w.readGroups(rpName)
	if err != nil {
		res.err = err
		return
	}
	keep, err := w.readGroups(keepName)
	if err != nil {
		res.err = err
		return
	}
	byID := map[uint64]xgroup{}
	byShard := map[uint64]xgroup{}
	for _, g := range groups {
		byID[g.id] = g
		for _, s := range g.shards {
			byShard[s] = g
		}
	}
	keepID, keepShard := map[uint64]bool{}, map[uint64]bool{}
	for _, g := range keep {
		keepID[g.id] = true
		for _, s := range g.shards {
			keepShard[s] = true
		}
	}
	feat := func(g xgroup, ok bool, isKeep bool) string {
		switch {
		case isKeep:
			return "policy=keep(infinite)"
		case !ok:
			return "unknown-id"
		}
		f := "anchor=" + g.anchor + ",end+R-within-int64"
		if beyondInt64(g.end, cs.R) {
			f = "anchor=" + g.anchor + ",end+R-beyond-int64"
		}
		return f
	}
	var obs []string

	// (1) the selection function at every check time
	for _, pol := range []string{rpName, keepName} {
		rpi, err := w.mc.RetentionPolicy(dbName, pol)
		if err != nil || rpi == nil {
			res.err = fmt.Errorf("fixture: %v", err)
			return
		}
		for _, ct := range xTimes {
			var got []*meta.ShardGroupInfo
			t := time.Unix(0, ct.ns).UTC()
			if p, desc := vlib.Guard(func() { got = rpi.ExpiredShardGroups(t) }); p {
				res.vios = append(res.vios, vio{vlib.JoinSig("enforce-extremes", "panic", desc), "ExpiredShardGroups panicked: " + desc})
				return
			}
			var ids []uint64
			for _, sg := range got {
				ids = append(ids, sg.ID)
				g, ok := byID[sg.ID]
				if pol == rpName && ok && (g.deleted || expiredAt(g.end, cs.R, ct.ns)) {
					continue
				}
				res.vios = append(res.vios, vio{vlib.JoinSig("enforce-extremes", "ExpiredShardGroups-returns-unexpired-group", feat(g, ok, pol == keepName)),
					fmt.Sprintf("ExpiredShardGroups(t=%s) of policy %s (R=%s) returned group %d [%s,%s) although its range is not entirely older than t-R",
						ct.name, pol, rLabel(rpi.Duration.Nanoseconds()), sg.ID, sg.StartTime.UTC().Format(time.RFC3339Nano), sg.EndTime.UTC().Format(time.RFC3339Nano))})
			}
			if pol == rpName {
				res.outcomes = append(res.outcomes, fmt.Sprintf("X:ExpiredShardGroups@%s:returned=%d", ct.name, len(ids)))
				obs = append(obs, fmt.Sprintf("ExpiredShardGroups@%s%s", ct.name, u64s(ids)))
			}
		}
	}

	// (2) one DeletionCheck at the fake now
	nowNS := time.Now().UnixNano()
	mayGroup, mayShard := map[uint64]bool{}, map[uint64]bool{}
	nExpired, nLive := 0, 0
	for _, g := range groups {
		exp := !g.deleted && expiredAt(g.end, cs.R, nowNS)
		if !g.deleted {
			nLive++
		}
		if exp {
			nExpired++
		}
		if g.deleted || exp {
			mayGroup[g.id] = true
			for _, s := range g.shards {
				mayShard[s] = true
			}
		}
	}
	beforeRP, beforeKeep := w.observeGroups(rpName), w.observeGroups(keepName)
	rec := &recMC{Client: w.mc}
	svc := retention.NewService(retention.NewConfig())
	svc.SetOSSMetaClient(rec)
	svc.TSDBStore = w.store
	svc.DropShardMetaRef = retention.OSSDropShardMetaRef(rec)
	if p, desc := vlib.Guard(func() { svc.DeletionCheck(context.Background()) }); p {
		res.vios = append(res.vios, vio{vlib.JoinSig("enforce-extremes", "panic", desc), "DeletionCheck panicked: " + desc})
		return
	}
	deletedExpired := 0
	for _, id := range rec.delGroups {
		if mayGroup[id] {
			deletedExpired++
			continue
		}
		g, ok := byID[id]
		res.vios = append(res.vios, vio{vlib.JoinSig("enforce-extremes", "DeleteShardGroup-on-unexpired-group", feat(g, ok, keepID[id])),
			fmt.Sprintf("DeleteShardGroup(%d) although the group [%s,%s) is not entirely older than now-R", id, fmtNS(g.start), fmtNS(g.end))})
	}
	for _, id := range w.store.deleted {
		if !mayShard[id] {
			g, ok := byShard[id]
			res.vios = append(res.vios, vio{vlib.JoinSig("enforce-extremes", "DeleteShard-on-unexpired-shard", feat(g, ok, keepShard[id])),
				fmt.Sprintf("TSDBStore.DeleteShard(%d) although its group [%s,%s) is neither expired nor marked deleted", id, fmtNS(g.start), fmtNS(g.end))})
		}
	}
	for _, id := range rec.dropShards {
		if !mayShard[id] {
			g, ok := byShard[id]
			res.vios = append(res.vios, vio{vlib.JoinSig("enforce-extremes", "DropShard-on-unexpired-shard", feat(g, ok, keepShard[id])),
				fmt.Sprintf("meta DropShard(%d) although its group is neither expired nor marked deleted", id)})
		}
	}
	var stillBlocked []uint64
	for id, b := range w.store.blocked {
		if b && !mayShard[id] {
			stillBlocked = append(stillBlocked, id)
		}
	}
	sort.Slice(stillBlocked, func(i, j int) bool { return stillBlocked[i] < stillBlocked[j] })
	for _, id := range stillBlocked {
		g, ok := byShard[id]
		res.vios = append(res.vios, vio{vlib.JoinSig("enforce-extremes", "readers-blocked-on-unexpired-shard", feat(g, ok, keepShard[id])),
			fmt.Sprintf("shard %d left blocked for new readers although it is not expired", id)})
	}
	chk := func(policy string, before map[uint64]groupObs) {
		after := w.observeGroups(policy)
		ids := make([]uint64, 0, len(before))
		for id := range before {
			ids = append(ids, id)
		}
		sort.Slice(ids, func(i, j int) bool { return ids[i] < ids[j] })
		for _, id := range ids {
			if mayGroup[id] {
				continue
			}
			if b, a := before[id], after[id]; a != b {
				g, ok := byID[id]
				res.vios = append(res.vios, vio{vlib.JoinSig("enforce-extremes", "unexpired-group-metadata-changed", feat(g, ok, keepID[id])),
					fmt.Sprintf("group %d of policy %s changed from %+v to %+v", id, policy, b, a)})
			}
		}
	}
	chk(rpName, beforeRP)
	chk(keepName, beforeKeep)

	res.extra["x_live_groups"] = int64(nLive)
	res.extra["x_expired_groups"] = int64(nExpired)
	res.extra["x_expired_groups_deleted"] = int64(deletedExpired)
	switch {
	case nExpired == 0 && len(rec.delGroups) == 0:
		res.outcomes = append(res.outcomes, "X:DeletionCheck:nothing-expired/nothing-deleted")
	case deletedExpired == nExpired:
		res.outcomes = append(res.outcomes, fmt.Sprintf("X:DeletionCheck:all-%d-expired-groups-deleted", nExpired))
	default:
		res.outcomes = append(res.outcomes, fmt.Sprintf("X:DeletionCheck:%d-of-%d-expired-groups-deleted(allowed:lag-at-boundary)", deletedExpired, nExpired))
	}
	res.obs = fmt.Sprintf("%s DeleteShardGroup%s DeleteShard%s DropShard%s expired=%d", strings.Join(obs, " "), u64s(rec.delGroups), u64s(w.store.deleted), u64s(rec.dropShards), nExpired)
	return
}

func fmtNS(ns int64) string { return time.Unix(0, ns).UTC().Format(time.RFC3339Nano) }

// xLayouts: every assignment of nStates states to the 5 anchors, fewest existing groups first.
func xLayouts(nStates int) [][]int {
	var out [][]int
	total := 1
	for range anchors {
		total *= nStates
	}
	for code := 0; code < total; code++ {
		l := make([]int, len(anchors))
		x := code
		for i := len(anchors) - 1; i >= 0; i-- {
			l[i] = x % nStates
			x /= nStates
		}
		out = append(out, l)
	}
	sort.SliceStable(out, func(i, j int) bool {
		ni, nj := 0, 0
		for k := range anchors {
			if out[i][k] != stAbsent {
				ni++
			}
			if out[j][k] != stAbsent {
				nj++
			}
		}
		return ni < nj
	})
	return out
}

func runCase(t *testing.T, cs Case) (res result) {
	synctest.Test(t, func(t *testing.T) {
		if cs.Fam == "X" {
			w, err := buildX(cs)
			if err != nil {
				res.err = err
				return
			}
			defer w.mc.Close()
			res = runX(w)
			return
		}
		w, err := build(cs)
		if err != nil {
			res.err = err
			return
		}
		defer w.mc.Close()
		if cs.Fam == "B" {
			res = runB(w)
		} else {
			res = runA(w)
		}
	})
	return
}

func layouts(nStates int) [][]int {
	var out [][]int
	total := 1
	for i := 0; i < nWin; i++ {
		total *= nStates
	}
	// simplest first: fewest existing groups
	for code := 0; code < total; code++ {
		l := make([]int, nWin)
		x := code
		for i := nWin - 1; i >= 0; i-- {
			l[i] = x % nStates
			x /= nStates
		}
		out = append(out, l)
	}
	sort.SliceStable(out, func(i, j int) bool {
		ni, nj := 0, 0
		for k := 0; k < nWin; k++ {
			if out[i][k] != stAbsent {
				ni++
			}
			if out[j][k] != stAbsent {
				nj++
			}
		}
		return ni < nj
	})
	return out
}

func TestCheck(t *testing.T) {
	vlib.Main(t, &vlib.Check{
		ID: "C19", Level: "exploration",
		Rule: "(retention R, shard group duration d) in {(0,1h),(0,24h),(1h,1h),(24h,1h),(24h,24h)} (all combinations of R in {0,1h,24h}, d in {1h,24h} that CreateRetentionPolicy accepts); layouts = every assignment of {absent, live, deleted, truncated} (thorough; quick: {absent, live, deleted}) to 5 consecutive shard-group windows built through the real meta.Client; now = every window boundary -1/0/+1 ns and (R!=0) every boundary + R -1/0/+1 ns on the fake clock of a synctest bubble. Family B: one retention.Service.DeletionCheck per (combo, layout, now) [thorough: also with the already-deleted groups' shards missing from the local store]; a second policy with infinite retention and 5 live groups is always present. Family A: per (combo, layout, now) every batch of 1 or 2 points (ordered, 12 batches) with timestamps in {now-R-1, now-R, now-R+1} through PointsWriter.WritePointsPrivileged with a recording shard store [quick: layouts of the A family restricted to {absent, live}]. Family X (extremes of the time range): groups built through the real meta.Client at the five anchor timestamps MinNanoTime, Unix epoch, the fake now 2000-01-01T00:00Z, 2262-04-11T00:00Z, MaxNanoTime, every assignment of {absent, live, deleted} (thorough: + truncated) to the anchors (anchors falling into one group share it) x d in {1h,24h} x R in {1h, 24h, 100y, 250y, MaxInt64 ns} (R >= d) ; per case RetentionPolicyInfo.ExpiredShardGroups(t) for t in {epoch+1h, now, 2262-04-11T23:00Z, MaxNanoTime} on both policies and then one Service.DeletionCheck at the fake now; reference end+R <= t in unbounded integers. " +
			"Cases are distinct by construction; non-trivial = B/X cases with at least one live/truncated group or A cases.",
		Assumptions: []string{
			"'entire time range older than now-R' for a half-open group [start,end) means end <= now-R; only deletion of a group that is NOT in this set is an alarm (the 'only when' direction); late deletion is reported as an outcome",
			"'older than now minus the retention period' means t < now-R (time.Before), as in the statement",
			"with retention 0 (infinite) nothing is ever rejected or deleted",
			"family X: a group with end + R beyond the int64 nanosecond range (year 2262) is not expired at any representable check time; the group containing MaxNanoTime ends at MaxInt64 ns (meta clamps it)",
			"the fake TSDB store reports no shard in use and never fails; truncated groups are produced by editing TruncatedAt through Client.Data/SetData",
		},
		QuickBudgetS: 45, ThoroughBudgetS: 780,
		Run: func(c *vlib.Ctx) {
			runtime.GOMAXPROCS(2)
			debug.SetGCPercent(800)
			var idx int64
			do := func(cs Case, nontrivial bool) {
				r := runCase(c.T, cs)
				c.Eval(1)
				if r.err != nil {
					c.HarnessError(fmt.Sprintf("%v: %v", cs, r.err))
					return
				}
				if nontrivial {
					c.NontrivialN(1)
				}
				for _, o := range r.outcomes {
					c.Outcome(o)
				}
				for k, v := range r.extra {
					c.Extra(k, v)
				}
				for _, v := range r.vios {
					c.Violation(v.sig, cs.String()+" => "+v.msg, cs)
				}
				if c.WantSample() && nontrivial && idx%97 == 0 {
					c.Sample(map[string]any{"case": cs.String(), "observed": r.obs, "violations": len(r.vios)})
				}
			}
			nB, nA := 3, 2
			if c.Thorough() {
				nB, nA = 4, 4
			}
			// family B
			for _, l := range layouts(nB) {
				live := false
				for _, s := range l {
					live = live || s == stLive || s == stTruncated
				}
				for _, cb := range combos {
					for _, np := range nows(cb) {
						for _, ph := range []bool{false, true} {
							if ph && !c.Thorough() {
								continue
							}
							idx++
							if !c.Mine(idx) {
								continue
							}
							if c.Expired() {
								c.Cap("budget expired in family B")
								return
							}
							do(Case{Fam: "B", R: int64(cb.R), D: int64(cb.D), Layout: l, NowOff: np.off, NowDesc: np.desc, Phantom: ph}, live)
						}
					}
				}
			}
			// family X
			nX := 3
			if c.Thorough() {
				nX = 4
			}
			for _, l := range xLayouts(nX) {
				live := false
				for _, s := range l {
					live = live || s == stLive || s == stTruncated
				}
				for _, d := range []time.Duration{time.Hour, 24 * time.Hour} {
					for _, r := range xRetentions {
						if r < d { // CreateRetentionPolicy rejects a retention period shorter than the shard group duration
							continue
						}
						idx++
						if !c.Mine(idx) {
							continue
						}
						if c.Expired() {
							c.Cap("budget expired in family X (family B complete)")
							return
						}
						do(Case{Fam: "X", R: int64(r), D: int64(d), Anchors: l}, live)
					}
				}
			}
			// family A
			for _, l := range layouts(nA) {
				for _, cb := range combos {
					for _, np := range nows(cb) {
						for _, b := range batches {
							idx++
							if !c.Mine(idx) {
								continue
							}
							if c.Expired() {
								c.Cap("budget expired in family A (families B and X complete)")
								return
							}
							do(Case{Fam: "A", R: int64(cb.R), D: int64(cb.D), Layout: l, NowOff: np.off, NowDesc: np.desc, Batch: b}, true)
						}
					}
				}
			}
		},
		Replay: func(c *vlib.Ctx, raw json.RawMessage) (bool, string) {
			var cs Case
			if err := json.Unmarshal(raw, &cs); err != nil {
				return false, err.Error()
			}
			r := runCase(c.T, cs)
			if r.err != nil {
				return false, "harness error: " + r.err.Error()
			}
			var lines []string
			for _, v := range r.vios {
				lines = append(lines, v.sig+": "+v.msg)
			}
			return len(r.vios) > 0, cs.String() + "\n" + r.obs + "\n" + strings.Join(lines, "\n")
		},
	})
}
