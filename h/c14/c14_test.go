// C14: index metadata queries stay correct across compaction and restart.
//
// Bounded-history part (level model_checking): every op sequence up to the depth bound over a 6-series
// universe is executed on a real tsi1.Index (+ real series file) in a fresh directory; after every step every
// metadata query is compared with the model "set of live series".
//
// Split used by the crash family (engine crashfs, see "crash family" below):
//   - PerformHistory = history writer (op list on a directory, Begin/Ack through an Acker), run under strace;
//   - CheckRecovery  = recovery checker (open the directory with the real code, ReadIndex, Compare with the
//     model of acknowledged ops (+ one op in flight)), run on every prefix / torn / unsynced image.
package c14

import (
	"bufio"
	"crypto/sha256"
	"encoding/hex"
	"encoding/json"
	"errors"
	"fmt"
	"os"
	"os/exec"
	"path/filepath"
	"regexp"
	"runtime"
	"runtime/debug"
	"sort"
	"strconv"
	"strings"
	"sync"
	"testing"
	"testing/synctest"
	"time"

	"github.com/influxdata/influxdb/v2/models"
	"github.com/influxdata/influxdb/v2/pkg/verifrt/vrt"
	"github.com/influxdata/influxdb/v2/tsdb"
	"github.com/influxdata/influxdb/v2/tsdb/index/tsi1"
	"verif/h/crashfs"
	"verif/h/vlib"
)

// ---------------------------------------------------------------------------------------------------------
// universe: 6 series over 2 measurements x 2 tag keys x 2 values

type SeriesDef struct {
	Name string
	Tags [][2]string // sorted by key
}

var Universe = []SeriesDef{
	{"m0", [][2]string{{"a", "x"}}},             // S0
	{"m0", [][2]string{{"a", "y"}}},             // S1
	{"m0", [][2]string{{"a", "x"}, {"b", "x"}}}, // S2
	{"m0", [][2]string{{"b", "y"}}},             // S3
	{"m1", [][2]string{{"a", "x"}}},             // S4
	{"m1", [][2]string{{"a", "y"}, {"b", "x"}}}, // S5
}

var (
	Measurements = []string{"m0", "m1"}
	TagKeys      = []string{"a", "b"}
	TagValues    = []string{"x", "y"}
)

func (s SeriesDef) mtags() models.Tags {
	m := map[string]string{}
	for _, t := range s.Tags {
		m[t[0]] = t[1]
	}
	return models.NewTags(m)
}

func (s SeriesDef) String() string {
	r := s.Name
	for _, t := range s.Tags {
		r += "," + t[0] + "=" + t[1]
	}
	return r
}

func (s SeriesDef) tag(k string) (string, bool) {
	for _, t := range s.Tags {
		if t[0] == k {
			return t[1], true
		}
	}
	return "", false
}

// ---------------------------------------------------------------------------------------------------------
// ops

const (
	OpCreate  = "create"  // Index.CreateSeriesListIfNotExists(set)
	OpDropS   = "dropS"   // engine's series delete in a single-shard database: for the series: Index.DropSeries(id,key,false); DropMeasurementIfSeriesNotExist(name); SeriesFile.DeleteSeriesID(id)
	OpDropI   = "dropI"   // the same when another shard still holds the series: no SeriesFile.DeleteSeriesID
	OpDropM   = "dropM"   // engine's measurement delete: DropSeries(...,false) for every series of the measurement, DropMeasurementIfSeriesNotExist, SeriesFile.DeleteSeriesID for each
	OpDropMd  = "dropMd"  // Index.DropMeasurement(name) directly (with live series), then SeriesFile.DeleteSeriesID for each of its series
	OpDropMi  = "dropMi"  // Index.DropMeasurement(name) directly, series stay in the series file (held by another shard)
	OpCompact = "compact" // force log compaction at this step boundary: threshold 1 on every partition, Index.Compact()+Wait() until nothing is left to compact, threshold restored
	OpReopen  = "reopen"  // Index.Close, SeriesFile.Close, SeriesFile.Open, Index.Open (restart)
)

type Op struct {
	Kind string `json:"op"`
	S    []int  `json:"s,omitempty"` // series indexes (create, dropS, dropI)
	M    string `json:"m,omitempty"` // measurement (dropM*)
}

func (o Op) String() string {
	switch {
	case o.M != "":
		return o.Kind + "(" + o.M + ")"
	case len(o.S) > 0:
		s := make([]string, len(o.S))
		for i, k := range o.S {
			s[i] = "S" + strconv.Itoa(k)
		}
		return o.Kind + "(" + strings.Join(s, ",") + ")"
	}
	return o.Kind
}

func opsString(ops []Op) string {
	s := make([]string, len(ops))
	for i, o := range ops {
		s[i] = o.String()
	}
	return strings.Join(s, " ")
}

// Cfg is the fixture configuration.
type Cfg struct {
	Name string `json:"name"`
	// MaxLog: tsi1.WithMaximumLogFileSize; 0 = the default (1 MiB: nothing is compacted unless forced by the
	// compact op); 1 = every non-empty log file is rolled and compacted right after the op that wrote it.
	MaxLog int64 `json:"max_log"`
	PartN  int   `json:"part_n"` // Index.PartitionN (power of two)
	// Settle: after every op call Index.Compact()+Wait() until no partition needs compaction (needed for
	// determinism whenever MaxLog is small enough for ops to trigger background compactions).
	Settle bool `json:"settle"`
	// NoCache: tsi1.WithSeriesIDCacheSize(0) (the documented series-id-set-cache-size = 0 configuration): the Index keeps
	// no tag-value series-id cache, every TagValueSeriesIDIterator call is answered from the partitions' file sets.
	NoCache bool `json:"no_cache,omitempty"`
}

type OpResult struct {
	Err string `json:"err,omitempty"`
	// IDs: the series-file id of every universe series after the op (0 = none) — fixture bookkeeping for the crash
	// family, so that the recovery checker can name the ids of series dropped before the cut.
	IDs [6]uint64 `json:"ids"`
}

type Acker interface {
	Begin(k int, v any)
	Ack(k int, result string)
}

type nopAcker struct{}

func (nopAcker) Begin(int, any)  {}
func (nopAcker) Ack(int, string) {}

// World is an open series file + index on a directory.
type World struct {
	Dir string
	Cfg Cfg
	SF  *tsdb.SeriesFile
	Idx *tsi1.Index
}

func OpenWorld(dir string, cfg Cfg) (*World, error) {
	w := &World{Dir: dir, Cfg: cfg}
	w.SF = tsdb.NewSeriesFile(filepath.Join(dir, "_series"))
	if err := w.SF.Open(); err != nil {
		return nil, fmt.Errorf("series file: %w", err)
	}
	if err := w.openIndex(); err != nil {
		w.SF.Close()
		return nil, err
	}
	return w, nil
}

func (w *World) openIndex() error {
	opts := []tsi1.IndexOption{tsi1.WithPath(filepath.Join(w.Dir, "index"))}
	if w.Cfg.MaxLog > 0 {
		opts = append(opts, tsi1.WithMaximumLogFileSize(w.Cfg.MaxLog))
	}
	pn := w.Cfg.PartN
	if pn == 0 {
		pn = 1
	}
	opts = append(opts, func(i *tsi1.Index) { i.PartitionN = uint64(pn) })
	if w.Cfg.NoCache {
		opts = append(opts, tsi1.WithSeriesIDCacheSize(0))
	}
	w.Idx = tsi1.NewIndex(w.SF, "db0", opts...)
	if err := w.Idx.Open(); err != nil {
		w.Idx = nil
		return fmt.Errorf("index: %w", err)
	}
	if w.Cfg.Settle {
		w.settle()
	}
	return nil
}

func (w *World) Close() {
	if w.Idx != nil {
		w.Idx.Close()
		w.Idx = nil
	}
	if w.SF != nil {
		w.SF.Close()
		w.SF = nil
	}
}

func (w *World) partN() int {
	if w.Cfg.PartN == 0 {
		return 1
	}
	return w.Cfg.PartN
}

// settle: Compact()+Wait() until no partition reports work (a finished compaction schedules the next level
// itself, but only after it has decremented the running counter Wait() polls).
func (w *World) settle() {
	for round := 0; round < 100; round++ {
		w.Idx.Compact()
		w.Idx.Wait()
		need := false
		for i := 0; i < w.partN(); i++ {
			need = need || w.Idx.PartitionAt(i).NeedsCompaction(false)
		}
		if !need {
			return
		}
	}
}

func (w *World) maybeSettle() {
	if w.Cfg.Settle {
		w.settle()
	}
}

func (w *World) forceCompact() {
	old := make([]int64, w.partN())
	for i := range old {
		p := w.Idx.PartitionAt(i)
		old[i] = p.VerifMaxLogFileSize()
		p.VerifSetMaxLogFileSize(1)
	}
	w.settle()
	for i := range old {
		w.Idx.PartitionAt(i).VerifSetMaxLogFileSize(old[i])
	}
}

func (w *World) seriesID(s int) uint64 {
	return w.SF.SeriesID([]byte(Universe[s].Name), Universe[s].mtags(), nil)
}

func (w *World) dropSeries(ss []int, sfileToo bool) error {
	var ids []uint64
	names := map[string]bool{}
	for _, s := range ss {
		id := w.seriesID(s)
		if id == 0 {
			continue // engine: series unknown to the series file is skipped
		}
		u := Universe[s]
		if err := w.Idx.DropSeries(id, models.MakeKey([]byte(u.Name), u.mtags()), false); err != nil {
			return err
		}
		w.maybeSettle()
		names[u.Name] = true
		ids = append(ids, id)
	}
	for _, m := range Measurements {
		if names[m] {
			if _, err := w.Idx.DropMeasurementIfSeriesNotExist([]byte(m)); err != nil {
				return err
			}
			w.maybeSettle()
		}
	}
	if sfileToo {
		for _, id := range ids {
			if _, err := w.SF.DeleteSeriesID(id, tsdb.Flush); err != nil {
				return err
			}
		}
	}
	return nil
}

func seriesOf(m string) []int {
	var r []int
	for i, u := range Universe {
		if u.Name == m {
			r = append(r, i)
		}
	}
	return r
}

// Exec performs one op on the open world.
func (w *World) Exec(op Op) error {
	switch op.Kind {
	case OpCreate:
		var keys, names [][]byte
		var tags []models.Tags
		for _, s := range op.S {
			u := Universe[s]
			t := u.mtags()
			names = append(names, []byte(u.Name))
			tags = append(tags, t)
			keys = append(keys, models.MakeKey([]byte(u.Name), t))
		}
		if err := w.Idx.CreateSeriesListIfNotExists(keys, names, tags); err != nil {
			return err
		}
	case OpDropS:
		if err := w.dropSeries(op.S, true); err != nil {
			return err
		}
	case OpDropI:
		if err := w.dropSeries(op.S, false); err != nil {
			return err
		}
	case OpDropM:
		if err := w.dropSeries(seriesOf(op.M), true); err != nil {
			return err
		}
	case OpDropMd, OpDropMi:
		var ids []uint64
		for _, s := range seriesOf(op.M) {
			if id := w.seriesID(s); id != 0 {
				ids = append(ids, id)
			}
		}
		if err := w.Idx.DropMeasurement([]byte(op.M)); err != nil {
			return err
		}
		if op.Kind == OpDropMd {
			for _, id := range ids {
				if _, err := w.SF.DeleteSeriesID(id, tsdb.Flush); err != nil {
					return err
				}
			}
		}
	case OpCompact:
		w.forceCompact()
		return nil
	case OpReopen:
		if err := w.Idx.Close(); err != nil {
			return fmt.Errorf("index close: %w", err)
		}
		w.Idx = nil
		if err := w.SF.Close(); err != nil {
			return fmt.Errorf("series file close: %w", err)
		}
		w.SF = tsdb.NewSeriesFile(filepath.Join(w.Dir, "_series"))
		if err := w.SF.Open(); err != nil {
			w.SF = nil
			return fmt.Errorf("series file reopen: %w", err)
		}
		return w.openIndex()
	default:
		panic("unknown op " + op.Kind)
	}
	if w.Cfg.Settle {
		w.settle()
	}
	return nil
}

// PerformHistory is the history writer. The world is returned open (nil after a failed open/reopen).
func PerformHistory(dir string, cfg Cfg, ops []Op, ack Acker, after func(step int, op Op, res OpResult, w *World) bool) (results []OpResult, w *World, err error) {
	if ack == nil {
		ack = nopAcker{}
	}
	if w, err = OpenWorld(dir, cfg); err != nil {
		return nil, nil, err
	}
	for step, op := range ops {
		ack.Begin(step, op)
		var res OpResult
		if e := w.Exec(op); e != nil {
			res.Err = e.Error()
		}
		if w.SF != nil {
			for i := range Universe {
				res.IDs[i] = w.seriesID(i)
			}
		}
		b, _ := json.Marshal(res)
		ack.Ack(step, string(b))
		results = append(results, res)
		if w.Idx == nil || w.SF == nil {
			w.Close()
			return results, nil, fmt.Errorf("step %d %s: %s", step, op, res.Err)
		}
		if after != nil && !after(step, op, res, w) {
			break
		}
	}
	return results, w, nil
}

// ---------------------------------------------------------------------------------------------------------
// model: the set of live series

type Model struct {
	Live [6]bool
	// InSF: the series currently has an id in the series file that the index was told about (dropI / dropMi
	// leave it there). Only used for outcome classes.
	Shared [6]bool
}

func (m *Model) Apply(op Op) {
	switch op.Kind {
	case OpCreate:
		for _, s := range op.S {
			m.Live[s] = true
			m.Shared[s] = false
		}
	case OpDropS, OpDropI:
		for _, s := range op.S {
			if m.Live[s] && op.Kind == OpDropI {
				m.Shared[s] = true
			}
			if op.Kind == OpDropS {
				m.Shared[s] = false
			}
			m.Live[s] = false
		}
	case OpDropM, OpDropMd, OpDropMi:
		for _, s := range seriesOf(op.M) {
			if m.Live[s] && op.Kind == OpDropMi {
				m.Shared[s] = true
			}
			if op.Kind != OpDropMi {
				m.Shared[s] = false
			}
			m.Live[s] = false
		}
	}
}

func (m *Model) key() string {
	b := make([]byte, 6)
	for i := range b {
		switch {
		case m.Live[i]:
			b[i] = 'L'
		case m.Shared[i]:
			b[i] = 's'
		default:
			b[i] = '-'
		}
	}
	return string(b)
}

// View is the answer to every metadata query, in canonical form (sorted; series as universe indexes).
type View struct {
	Names   []string            // MeasurementIterator
	Exists  map[string]bool     // MeasurementExists(m)
	Keys    map[string][]string // TagKeyIterator(m)
	HasKey  map[string]bool     // HasTagKey(m,k)            key "m/k"
	Values  map[string][]string // TagValueIterator(m,k)     key "m/k"
	HasVal  map[string]bool     // HasTagValue(m,k,v)        key "m/k/v"
	MSeries map[string][]string // MeasurementSeriesIDIterator(m)       -> series names
	KSeries map[string][]string // TagKeySeriesIDIterator(m,k)
	VSeries map[string][]string // TagValueSeriesIDIterator(m,k,v)
	// VCold: the same series set read from the partitions' file sets directly (Partition.TagValueSeriesIDIterator merged
	// over the partitions = what Index.TagValueSeriesIDIterator computes when its tag-value cache has no entry for (m,k,v)),
	// ids the series file reports as deleted removed as tsdb.IndexSet does.
	VCold map[string][]string
}

func newView() *View {
	return &View{Exists: map[string]bool{}, Keys: map[string][]string{}, HasKey: map[string]bool{}, Values: map[string][]string{}, HasVal: map[string]bool{},
		MSeries: map[string][]string{}, KSeries: map[string][]string{}, VSeries: map[string][]string{}, VCold: map[string][]string{}}
}

// Expected builds the view of a set of live series (the statement's right-hand side).
func Expected(live [6]bool) *View {
	v := newView()
	add := func(l []string, s string) []string {
		for _, x := range l {
			if x == s {
				return l
			}
		}
		return append(l, s)
	}
	for _, m := range Measurements {
		v.Keys[m] = nil
		v.MSeries[m] = nil
		for _, k := range TagKeys {
			v.Values[m+"/"+k] = nil
			v.KSeries[m+"/"+k] = nil
			for _, val := range TagValues {
				v.VSeries[m+"/"+k+"/"+val] = nil
				v.VCold[m+"/"+k+"/"+val] = nil
			}
		}
	}
	for i, u := range Universe {
		if !live[i] {
			continue
		}
		sn := "S" + strconv.Itoa(i)
		v.Names = add(v.Names, u.Name)
		v.Exists[u.Name] = true
		v.MSeries[u.Name] = add(v.MSeries[u.Name], sn)
		for _, t := range u.Tags {
			mk := u.Name + "/" + t[0]
			v.Keys[u.Name] = add(v.Keys[u.Name], t[0])
			v.HasKey[mk] = true
			v.Values[mk] = add(v.Values[mk], t[1])
			v.HasVal[mk+"/"+t[1]] = true
			v.KSeries[mk] = add(v.KSeries[mk], sn)
			v.VSeries[mk+"/"+t[1]] = add(v.VSeries[mk+"/"+t[1]], sn)
			v.VCold[mk+"/"+t[1]] = add(v.VCold[mk+"/"+t[1]], sn)
		}
	}
	v.sortAll()
	return v
}

func (v *View) sortAll() {
	sort.Strings(v.Names)
	for _, mp := range []map[string][]string{v.Keys, v.Values, v.MSeries, v.KSeries, v.VSeries, v.VCold} {
		for k := range mp {
			sort.Strings(mp[k])
		}
	}
}

// IDNames maps series ids to printable names. Ids are learnt from the series file (fixture bookkeeping:
// after every op the current id of every universe series is recorded; an id seen earlier for series i and
// no longer current is a past incarnation "S<i>'" — if a query returns it, a dropped series is being listed).
type IDNames struct {
	cur  [6]uint64
	name map[uint64]string
}

func NewIDNames() *IDNames { return &IDNames{name: map[uint64]string{}} }

func (n *IDNames) Learn(w *World) {
	for i := range Universe {
		id := w.seriesID(i)
		if id != 0 {
			n.name[id] = "S" + strconv.Itoa(i)
		}
		if old := n.cur[i]; old != 0 && old != id {
			n.name[old] = "S" + strconv.Itoa(i) + "'"
		}
		n.cur[i] = id
	}
}

func (n *IDNames) of(id uint64) string {
	if s, ok := n.name[id]; ok {
		return s
	}
	return "unknown-id"
}

func drainBytes(next func() ([]byte, error)) ([]string, error) {
	var out []string
	for {
		b, err := next()
		if err != nil {
			return out, err
		}
		if b == nil {
			return out, nil
		}
		out = append(out, string(b))
	}
}

func drainIDs(itr tsdb.SeriesIDIterator, err error, n *IDNames) ([]string, error) {
	if err != nil {
		return nil, err
	}
	if itr == nil {
		return nil, nil
	}
	defer itr.Close()
	var out []string
	for {
		e, err := itr.Next()
		if err != nil {
			return out, err
		}
		if e.SeriesID == 0 {
			return out, nil
		}
		out = append(out, n.of(e.SeriesID))
	}
}

// ReadIndex runs every metadata query. Name/key/value queries go to the Index itself; series sets are read
// through tsdb.IndexSet{idx, series file} — the reader every consumer of a shard's index uses, which drops
// ids the series file reports as deleted — unless raw is set (Index methods directly).
func ReadIndex(w *World, n *IDNames, raw bool) (*View, error) {
	v := newView()
	idx := w.Idx
	ids := func(itr tsdb.SeriesIDIterator, err error) ([]string, error) { return drainIDs(itr, err, n) }
	is := tsdb.IndexSet{Indexes: []tsdb.Index{idx}, SeriesFile: w.SF}
	mitr, err := idx.MeasurementIterator()
	if err != nil {
		return nil, fmt.Errorf("MeasurementIterator: %w", err)
	}
	if mitr != nil {
		v.Names, err = drainBytes(mitr.Next)
		mitr.Close()
		if err != nil {
			return nil, fmt.Errorf("MeasurementIterator.Next: %w", err)
		}
	}
	for _, m := range Measurements {
		mb := []byte(m)
		ok, err := idx.MeasurementExists(mb)
		if err != nil {
			return nil, fmt.Errorf("MeasurementExists: %w", err)
		}
		if ok {
			v.Exists[m] = true
		}
		kitr, err := idx.TagKeyIterator(mb)
		if err != nil {
			return nil, fmt.Errorf("TagKeyIterator: %w", err)
		}
		v.Keys[m] = nil
		if kitr != nil {
			v.Keys[m], err = drainBytes(kitr.Next)
			kitr.Close()
			if err != nil {
				return nil, fmt.Errorf("TagKeyIterator.Next: %w", err)
			}
		}
		if raw {
			v.MSeries[m], err = ids(idx.MeasurementSeriesIDIterator(mb))
		} else {
			v.MSeries[m], err = ids(is.MeasurementSeriesIDIterator(mb))
		}
		if err != nil {
			return nil, fmt.Errorf("MeasurementSeriesIDIterator: %w", err)
		}
		for _, k := range TagKeys {
			kb := []byte(k)
			mk := m + "/" + k
			if ok, err := idx.HasTagKey(mb, kb); err != nil {
				return nil, fmt.Errorf("HasTagKey: %w", err)
			} else if ok {
				v.HasKey[mk] = true
			}
			vitr, err := idx.TagValueIterator(mb, kb)
			if err != nil {
				return nil, fmt.Errorf("TagValueIterator: %w", err)
			}
			v.Values[mk] = nil
			if vitr != nil {
				v.Values[mk], err = drainBytes(vitr.Next)
				vitr.Close()
				if err != nil {
					return nil, fmt.Errorf("TagValueIterator.Next: %w", err)
				}
			}
			if raw {
				v.KSeries[mk], err = ids(idx.TagKeySeriesIDIterator(mb, kb))
			} else {
				v.KSeries[mk], err = ids(is.TagKeySeriesIDIterator(mb, kb))
			}
			if err != nil {
				return nil, fmt.Errorf("TagKeySeriesIDIterator: %w", err)
			}
			for _, val := range TagValues {
				vb := []byte(val)
				if ok, err := idx.HasTagValue(mb, kb, vb); err != nil {
					return nil, fmt.Errorf("HasTagValue: %w", err)
				} else if ok {
					v.HasVal[mk+"/"+val] = true
				}
				if raw {
					v.VSeries[mk+"/"+val], err = ids(idx.TagValueSeriesIDIterator(mb, kb, vb))
				} else {
					v.VSeries[mk+"/"+val], err = ids(is.TagValueSeriesIDIterator(mb, kb, vb))
				}
				if err != nil {
					return nil, fmt.Errorf("TagValueSeriesIDIterator: %w", err)
				}
				if v.VCold[mk+"/"+val], err = coldTagValueSeries(w, n, mb, kb, vb, raw); err != nil {
					return nil, fmt.Errorf("Partition.TagValueSeriesIDIterator: %w", err)
				}
			}
		}
	}
	v.sortAll()
	return v, nil
}

// coldTagValueSeries reads the series set of one tag value from the file set of every partition
// (Partition.TagValueSeriesIDIterator -> FileSet.TagValueSeriesIDIterator), bypassing the Index's tag-value
// series-id cache; ids the series file reports as deleted are dropped (as tsdb.IndexSet does) unless raw.
func coldTagValueSeries(w *World, n *IDNames, name, key, value []byte, raw bool) ([]string, error) {
	var out []string
	for i := 0; i < w.partN(); i++ {
		itr, err := w.Idx.PartitionAt(i).TagValueSeriesIDIterator(name, key, value)
		if err != nil {
			return nil, err
		}
		if itr == nil {
			continue
		}
		for {
			e, err := itr.Next()
			if err != nil {
				itr.Close()
				return nil, err
			}
			if e.SeriesID == 0 {
				break
			}
			if !raw && w.SF.IsDeleted(e.SeriesID) {
				continue
			}
			out = append(out, n.of(e.SeriesID))
		}
		itr.Close()
	}
	return out, nil
}

// Fail is one broken clause.
type Fail struct {
	Query string // the query that answered wrongly
	Group string // measurement-names | tag-keys | tag-values | series-set
	Dir   string // extra (lists something no live series has) | missing (a live series' item is not listed)
	M     string // measurement the query was about ("" = all)
	Why   string
}

func diffList(got, want []string) (extra, missing []string) {
	g, w := map[string]int{}, map[string]bool{}
	for _, x := range got {
		g[x]++
	}
	for _, x := range want {
		w[x] = true
	}
	for _, x := range got {
		if !w[x] || g[x] > 1 {
			extra = append(extra, x)
			g[x] = 1
			w[x] = true // report duplicates once
		}
	}
	for _, x := range want {
		if g[x] == 0 {
			missing = append(missing, x)
		}
	}
	return
}

// CompareViews reports every difference between the answers and the view of the live series, in a fixed
// query order.
func CompareViews(got, want *View) (fails []*Fail) { return CompareBounds(got, want, want) }

// CompareBounds is CompareViews against two views (crash images with an op in flight, whose effect need not be
// visible atomically): every answer must contain what the view lo lists (else "missing") and nothing the view hi does
// not list (else "extra"). With lo == hi it is the exact comparison.
func CompareBounds(got, lo, hi *View) (fails []*Fail) {
	exact := lo == hi
	say := func(l, h any) string {
		if exact {
			return fmt.Sprintf("live series say %v", l)
		}
		return fmt.Sprintf("live series say at least %v and at most %v (an op is in flight)", l, h)
	}
	cmpList := func(group, query, m, arg string, g, _ []string) {
		l, h := pick(lo, query, arg), pick(hi, query, arg)
		_, missing := diffList(g, l)
		extra, _ := diffList(g, h)
		if len(missing) > 0 {
			fails = append(fails, &Fail{query, group, "missing", m, fmt.Sprintf("%s(%s) = %v, %s (missing %v)", query, arg, g, say(l, h), missing)})
		}
		if len(extra) > 0 {
			fails = append(fails, &Fail{query, group, "extra", m, fmt.Sprintf("%s(%s) = %v, %s (extra %v)", query, arg, g, say(l, h), extra)})
		}
	}
	cmpBool := func(group, query, m, arg string, g, _ bool) {
		l, h := pickBool(lo, query, arg), pickBool(hi, query, arg)
		switch {
		case l && !g:
			fails = append(fails, &Fail{query, group, "missing", m, fmt.Sprintf("%s(%s) = %v, %s", query, arg, g, say(l, h))})
		case g && !h:
			fails = append(fails, &Fail{query, group, "extra", m, fmt.Sprintf("%s(%s) = %v, %s", query, arg, g, say(l, h))})
		}
	}
	want := lo
	cmpList("measurement-names", "MeasurementIterator", "", "", got.Names, want.Names)
	for _, m := range Measurements {
		cmpBool("measurement-names", "MeasurementExists", m, m, got.Exists[m], want.Exists[m])
	}
	for _, m := range Measurements {
		cmpList("series-set", "MeasurementSeriesIDIterator", m, m, got.MSeries[m], want.MSeries[m])
	}
	for _, m := range Measurements {
		cmpList("tag-keys", "TagKeyIterator", m, m, got.Keys[m], want.Keys[m])
		for _, k := range TagKeys {
			cmpBool("tag-keys", "HasTagKey", m, m+","+k, got.HasKey[m+"/"+k], want.HasKey[m+"/"+k])
		}
	}
	for _, m := range Measurements {
		for _, k := range TagKeys {
			mk := m + "/" + k
			cmpList("series-set", "TagKeySeriesIDIterator", m, m+","+k, got.KSeries[mk], want.KSeries[mk])
			cmpList("tag-values", "TagValueIterator", m, m+","+k, got.Values[mk], want.Values[mk])
			for _, v := range TagValues {
				cmpBool("tag-values", "HasTagValue", m, m+","+k+","+v, got.HasVal[mk+"/"+v], want.HasVal[mk+"/"+v])
				cmpList("series-set", "TagValueSeriesIDIterator", m, m+","+k+","+v, got.VSeries[mk+"/"+v], want.VSeries[mk+"/"+v])
				cmpList("series-set", coldQuery, m, m+","+k+","+v, got.VCold[mk+"/"+v], want.VCold[mk+"/"+v])
			}
		}
	}
	return fails
}

// coldQuery names the cache-bypassing read of a tag value's series set in the reports.
const coldQuery = "TagValueSeriesIDIterator[partition file sets, tag-value cache bypassed]"

// pick / pickBool return the answer a view gives to a query (arg as printed by CompareBounds: "m", "m,k", "m,k,v").
func pick(v *View, query, arg string) []string {
	key := strings.ReplaceAll(arg, ",", "/")
	switch query {
	case "MeasurementIterator":
		return v.Names
	case "MeasurementSeriesIDIterator":
		return v.MSeries[key]
	case "TagKeyIterator":
		return v.Keys[key]
	case "TagKeySeriesIDIterator":
		return v.KSeries[key]
	case "TagValueIterator":
		return v.Values[key]
	case "TagValueSeriesIDIterator":
		return v.VSeries[key]
	case coldQuery:
		return v.VCold[key]
	}
	panic("pick: unknown query " + query)
}

func pickBool(v *View, query, arg string) bool {
	key := strings.ReplaceAll(arg, ",", "/")
	switch query {
	case "MeasurementExists":
		return v.Exists[key]
	case "HasTagKey":
		return v.HasKey[key]
	case "HasTagValue":
		return v.HasVal[key]
	}
	panic("pickBool: unknown query " + query)
}

// inflightBounds: the live sets every answer must contain / may contain at most while op is in flight on top of m.
func inflightBounds(m *Model, op Op) (lo, hi [6]bool) {
	lo, hi = m.Live, m.Live
	after := *m
	after.Apply(op)
	for i := range lo {
		lo[i] = m.Live[i] && after.Live[i]
		hi[i] = m.Live[i] || after.Live[i]
	}
	return
}

// Expect for the recovery checker: the model of acknowledged ops, and the op in flight (nil = exact).
type Expect struct {
	M        *Model
	InFlight *Op
}

// Probe flavours of the recovery checker.
const (
	ProbeNone   = ""       // restart + read only
	ProbeSingle = "single" // then create every series of the universe, read; engine measurement delete of m0 and m1 (series removed from the series file), read
	ProbeShared = "shared" // the same with index-only drops (series stay in the series file)
)

// ProbeOps returns the ops the recovery checker performs after its first read.
func ProbeOps(probe string) []Op {
	all := Op{Kind: OpCreate, S: []int{0, 1, 2, 3, 4, 5}}
	switch probe {
	case ProbeSingle:
		return []Op{all, {Kind: OpDropM, M: "m0"}, {Kind: OpDropM, M: "m1"}}
	case ProbeShared:
		return []Op{all, {Kind: OpDropI, S: []int{0, 1, 2, 3}}, {Kind: OpDropI, S: []int{4, 5}}}
	}
	return nil
}

// CheckRecovery opens dir with the real code, reads every query and compares with the acknowledged model;
// with an op in flight the view must equal the model before OR after that op (the statement's "± in-flight
// op"; a partially applied multi-series op is accepted if the view equals the model after applying the op to
// any subset of its series) or, failing that, every single answer must lie between the live series before and
// after the op (CompareBounds: the op's log entries are not written atomically). Then the probe ops are executed on the recovered index and judged after each
// (what the restart rebuilt in memory — e.g. the partition's series-id set — only shows in how later writes
// and drops behave). report is called once per stage ("restart", "probe:<op>") with the differences found,
// the model in force and the file layout. It returns the model the first read settled on (the closest candidate).
func CheckRecovery(dir string, cfg Cfg, e Expect, n *IDNames, probe string, report func(stage string, fails []*Fail, m *Model, lay string, got *View)) (settled *Model) {
	w, err := OpenWorld(dir, cfg)
	if err != nil {
		report("restart", []*Fail{{"Open", "recovery", "open-failed", "", err.Error()}}, e.M, "", nil)
		return nil
	}
	defer w.Close()
	if n == nil {
		n = NewIDNames()
	}
	n.Learn(w)
	lay := layout(w)
	got, err := ReadIndex(w, n, false)
	if err != nil {
		report("restart", []*Fail{{"Query", "recovery", "query-error", "", err.Error()}}, e.M, lay, nil)
		return nil
	}
	cands := []*Model{e.M}
	if e.InFlight != nil {
		cands = append(cands, partials(e.M, *e.InFlight)...)
	}
	// the candidate with the fewest differences (none, if the view is right; a missing item weighs more than any
	// number of stale ones) is what the index settled on; the probe goes on from there even if differences were reported
	var best []*Fail
	weight := func(f []*Fail) int {
		w := len(f)
		for _, x := range f {
			if x.Dir != "extra" {
				w += 1000
			}
		}
		return w
	}
	for i, c := range cands {
		f := CompareViews(got, Expected(c.Live))
		if i == 0 || weight(f) < weight(best) {
			settled, best = c, f
		}
		if len(f) == 0 {
			break
		}
	}
	if e.InFlight != nil && len(best) > 0 {
		// the op in flight need not be visible atomically: every answer is judged on its own against the live series
		// before and after it
		lo, hi := inflightBounds(e.M, *e.InFlight)
		best = CompareBounds(got, Expected(lo), Expected(hi))
		// "extra" is now relative to hi: the class features (is the measurement still live?) are those of hi
		judged := *settled
		judged.Live = hi
		report("restart", best, &judged, lay, got)
	} else {
		report("restart", best, settled, lay, got)
	}
	m := *settled
	for _, op := range ProbeOps(probe) {
		if err := w.Exec(op); err != nil {
			report("probe:"+op.String(), []*Fail{{"Exec", "recovery", "op-error", "", err.Error()}}, &m, lay, nil)
			return settled
		}
		m.Apply(op)
		n.Learn(w)
		got, err := ReadIndex(w, n, false)
		if err != nil {
			report("probe:"+op.String(), []*Fail{{"Query", "recovery", "query-error", "", err.Error()}}, &m, lay, nil)
			return settled
		}
		mc := m
		report("probe:"+op.String(), CompareViews(got, Expected(m.Live)), &mc, layout(w), got)
	}
	return settled
}

// partials: the models after applying op to every non-empty subset of the series it touches.
func partials(m *Model, op Op) []*Model {
	var touched []int
	switch op.Kind {
	case OpCreate, OpDropS, OpDropI:
		touched = op.S
	case OpDropM, OpDropMd, OpDropMi:
		touched = seriesOf(op.M)
	default:
		return nil
	}
	var out []*Model
	for mask := 1; mask < 1<<len(touched); mask++ {
		c := *m
		sub := op
		sub.M = ""
		sub.S = nil
		if op.Kind == OpDropM || op.Kind == OpDropMd {
			sub.Kind = OpDropS
		} else if op.Kind == OpDropMi {
			sub.Kind = OpDropI
		}
		for i, s := range touched {
			if mask&(1<<i) != 0 {
				sub.S = append(sub.S, s)
			}
		}
		c.Apply(sub)
		out = append(out, &c)
	}
	return out
}

// ---------------------------------------------------------------------------------------------------------
// one case

type Case struct {
	Cfg  Cfg  `json:"cfg"`
	Ops  []Op `json:"ops"`
	Raw  bool `json:"raw,omitempty"` // diagnostics: read series sets from the Index directly instead of through tsdb.IndexSet
	Tail bool `json:"tail"`          // after the last op: restart (recovery checker) and compare again
	// Probe: what the recovery checker does after its first read (ProbeSingle / ProbeShared / none).
	Probe string `json:"probe,omitempty"`
	// Schedule part: Init is executed (and compactions awaited) before the scheduler starts; Ops is the
	// writer thread's program; Schedule is the choice list of one execution (vrt.RunOnce).
	Sched    bool  `json:"sched,omitempty"`
	Init     []Op  `json:"init,omitempty"`
	Schedule []int `json:"schedule,omitempty"`
	// Small schedule part: Init stays in the active log file, which is then made due; Other = "tick" (the partition's
	// periodic-compaction tick) or "writer" (a second writer thread running Ops2).
	Small bool   `json:"small,omitempty"`
	Other string `json:"other,omitempty"`
	Ops2  []Op   `json:"ops2,omitempty"`
	// DevCost: the schedules of this scenario are bounded by deviations from the default schedule (every non-default
	// choice costs 1) instead of preemptions (choices offered when the running thread blocks or ends are free);
	// Bound is the bound the scenario was explored with (documentation: a replay executes Schedule as is).
	DevCost bool `json:"deviation_cost,omitempty"`
	Bound   int  `json:"bound,omitempty"`
	// Want: the violation class this case was recorded for (a history may show several); replay reports
	// whether exactly this class reproduces.
	Want string `json:"want,omitempty"`
	// Crash: crash family (then the other fields are unused)
	Crash *CrashCase `json:"crash,omitempty"`
}

// Found is one violation class observed in a history (first occurrence).
type Found struct {
	Sig   string
	Step  int    // index into Ops; len(Ops) = restart tail
	Stage string // tail only: "restart" or "probe:<op>"
	Why   string
}

type runResult struct {
	Harness  string // non-empty: machinery problem (op returned an error, query error)
	Panic    string
	Found    []Found
	Outcomes []string
	States   []string
	Steps    int64
	Model    *Model
	Final    *View
	// ReaddCompacted: (explicit configurations) some log file that holds the tombstone AND the later re-creation of one
	// series id (index-only drop, same id back) was compacted into an index file during the history.
	ReaddCompacted bool
}

func layout(w *World) string {
	var parts []string
	for i := 0; i < w.partN(); i++ {
		fs, err := w.Idx.PartitionAt(i).RetainFileSet()
		if err != nil {
			parts = append(parts, "closed")
			continue
		}
		var l []string
		for _, f := range fs.Files() {
			if lf, ok := f.(*tsi1.LogFile); ok {
				if lf.Size() == 0 {
					l = append(l, "log0")
				} else {
					l = append(l, "log")
				}
			} else {
				l = append(l, "L"+strconv.Itoa(f.Level()))
			}
		}
		fs.Release()
		parts = append(parts, strings.Join(l, "+"))
	}
	return strings.Join(parts, "|")
}

// sigOf: query group / direction / discriminating features of the situation (NOT the concrete history):
// whether the measurement asked about still has live series; whether some dropped series is still in the
// series file (index-only drop: another shard holds it); whether the partition has compacted index files.
func sigOf(cfg Cfg, f *Fail, m *Model, lay string, reopened bool) string {
	mlive := "n/a"
	if f.M != "" {
		mlive = "false"
		for _, s := range seriesOf(f.M) {
			if m.Live[s] {
				mlive = "true"
			}
		}
	}
	shared := false
	for _, s := range m.Shared {
		shared = shared || s
	}
	q := f.Group
	if f.Group == "recovery" {
		q = f.Group + ":" + f.Query
	}
	_ = reopened
	return vlib.JoinSig(q, f.Dir, fmt.Sprintf("measurementLive=%s,droppedSeriesStillInSeriesFile=%v,indexFiles=%v", mlive, shared, strings.Contains(lay, "L")))
}

func runCase(base string, cs Case) (rr runResult) {
	dir, err := os.MkdirTemp(base, "w")
	if err != nil {
		rr.Harness = err.Error()
		return
	}
	defer os.RemoveAll(dir)
	m := &Model{}
	rr.Model = m
	names := NewIDNames()
	seen := map[string]bool{}
	record := func(step int, stage string, fails []*Fail, mm *Model, lay string, reopened bool) {
		for _, f := range fails {
			sg := sigOf(cs.Cfg, f, mm, lay, reopened)
			if !seen[sg] {
				seen[sg] = true
				rr.Found = append(rr.Found, Found{sg, step, stage, f.Why})
			}
		}
	}
	reopened := false
	var w *World
	step := 0
	// bookkeeping for the outcome classes of the explicit configurations (the active log file changes only at compact ops)
	logEpoch, readdPending := 0, false
	dropEpoch := [6]int{-1, -1, -1, -1, -1, -1}
	p, desc := vlib.Guard(func() {
		_, w, err = PerformHistory(dir, cs.Cfg, cs.Ops, nil, func(st int, op Op, res OpResult, w *World) bool {
			step = st
			rr.Steps++
			if res.Err != "" {
				rr.Harness = fmt.Sprintf("step %d: %s returned error %q", st, op, res.Err)
				return false
			}
			before := *m
			m.Apply(op)
			reopened = reopened || op.Kind == OpReopen
			names.Learn(w)
			got, err := ReadIndex(w, names, cs.Raw)
			if err != nil {
				rr.Harness = fmt.Sprintf("step %d: query error: %v", st, err)
				return false
			}
			rr.Final = got
			lay := layout(w)
			record(st, "", CompareViews(got, Expected(m.Live)), m, lay, reopened)
			oc := op.Kind
			switch {
			case before.Live == m.Live && op.Kind != OpCompact && op.Kind != OpReopen:
				oc += ":no-change"
			case op.Kind == OpCreate:
				re := false
				for _, s := range op.S {
					re = re || (!before.Live[s] && before.Shared[s])
				}
				if re {
					oc += ":re-add-same-id"
				}
			}
			if cs.Cfg.MaxLog == 0 {
				for s := range m.Live {
					switch {
					case before.Live[s] && !m.Live[s]:
						dropEpoch[s] = logEpoch
					case op.Kind == OpCreate && !before.Live[s] && m.Live[s] && before.Shared[s] && dropEpoch[s] == logEpoch:
						readdPending = true
						oc += "-in-log-of-drop"
					}
				}
				if op.Kind == OpCompact {
					if readdPending {
						oc += ":log-with-drop+re-add-of-one-id"
						rr.ReaddCompacted = true
					}
					logEpoch++
					readdPending = false
				}
			}
			rr.Outcomes = append(rr.Outcomes, oc)
			rr.States = append(rr.States, m.key()+"|"+lay)
			return true
		})
	})
	if w != nil {
		w.Close()
	}
	if p {
		rr.Panic = desc
		rr.Found = append(rr.Found, Found{panicSig(cs.Cfg, desc), step, "", desc})
		return
	}
	if err != nil && rr.Harness == "" {
		rr.Harness = err.Error()
	}
	if rr.Harness != "" || !cs.Tail || cs.Raw {
		return
	}
	p, desc = vlib.Guard(func() {
		CheckRecovery(dir, cs.Cfg, Expect{M: m}, names, cs.Probe, func(stage string, fails []*Fail, mm *Model, lay string, got *View) {
			rr.Steps++
			if got != nil {
				rr.Final = got
				rr.States = append(rr.States, mm.key()+"|"+lay)
			}
			for _, f := range fails {
				if f.Group == "recovery" && f.Dir != "open-failed" {
					rr.Harness = fmt.Sprintf("tail %s: %s: %s", stage, f.Query, f.Why)
					return
				}
			}
			record(len(cs.Ops), stage, fails, mm, lay, true)
		})
	})
	if p {
		rr.Panic = desc
		rr.Found = append(rr.Found, Found{panicSig(cs.Cfg, desc), len(cs.Ops), "", desc})
	}
	return
}

func panicSig(cfg Cfg, desc string) string {
	return vlib.JoinSig("panic", strings.TrimPrefix(desc[strings.LastIndex(desc, "@ ")+2:], "github.com/influxdata/influxdb/v2/"), "cfg="+cfg.Name)
}

// ---------------------------------------------------------------------------------------------------------
// schedule part: one writer thread against the partition's own compaction goroutines (vsched engine)

// CfgSched: log threshold 1, so every writing Index call rolls the active log file and starts background
// compactions (Partition.checkLogFile -> go Compact() -> go compactLogFile / compactToLevel); nothing is
// awaited between the writer's calls: the scheduler decides how far each compaction goroutine gets.
var CfgSched = Cfg{Name: "sched", MaxLog: 1, PartN: 1}

// schedFilter: which operations are decision points. C14_SCHED_POINTS=all|locks|wlocks (default locks):
// locks = every Lock/RLock of partition.go / log_file.go plus the harness hooks (atomics and Once pass
// silently: the only atomic there is the running-compactions counter that Wait() polls).
func schedFilter(kind vrt.OpKind, label string) bool {
	switch os.Getenv("C14_SCHED_POINTS") {
	case "all":
		return true
	case "wlocks":
		return kind == vrt.OpLock || kind == vrt.OpHook
	}
	return kind == vrt.OpLock || kind == vrt.OpRLock || kind == vrt.OpHook
}

// schedOut is what one execution produced.
type schedOut struct {
	Found   []Found
	Harness string
	Model   *Model
	Final   *View
}

// schedHarness: fixture (open, init ops, settle) built unscheduled; writer thread = sc.Ops; after the
// writer finished the scheduler is drained, all compactions are awaited, every query is compared with the
// model of the writer's ops (sequential model: there is one writer), then the index is restarted and probed
// (recovery checker).
func schedHarness(base string, cs Case, out *schedOut) *vrt.Harness {
	return &vrt.Harness{Name: "c14:" + opsString(cs.Init) + " | " + opsString(cs.Ops), Filter: schedFilter, Body: func(x *vrt.Exec) {
		*out = schedOut{}
		dir, err := os.MkdirTemp(base, "s")
		if err != nil {
			out.Harness = err.Error()
			return
		}
		defer os.RemoveAll(dir)
		m := &Model{}
		out.Model = m
		names := NewIDNames()
		seen := map[string]bool{}
		record := func(step int, stage string, fails []*Fail, mm *Model, lay string) {
			for _, f := range fails {
				sg := sigOf(cs.Cfg, f, mm, lay, true)
				if !seen[sg] {
					seen[sg] = true
					out.Found = append(out.Found, Found{sg, step, stage, f.Why})
				}
			}
		}
		w, err := OpenWorld(dir, cs.Cfg)
		if err != nil {
			out.Harness = "open: " + err.Error()
			return
		}
		for _, op := range cs.Init {
			if err := w.Exec(op); err != nil {
				out.Harness = fmt.Sprintf("init %s: %v", op, err)
				w.Close()
				return
			}
			m.Apply(op)
			w.settle()
		}
		w.settle()
		synctest.Wait() // start-up goroutines (runPeriodicCompaction's first Compact) have come to rest
		var opErr string
		x.Go("writer", func() {
			for i, op := range cs.Ops {
				vrt.Hook("op:" + op.Kind)
				if err := w.Exec(op); err != nil {
					opErr = fmt.Sprintf("op %d %s: %v", i, op, err)
					return
				}
				m.Apply(op)
			}
		})
		x.Run()
		if x.S.Deadlock || x.S.StepCap {
			x.S.Abort()
			w.Close()
			return
		}
		x.S.Drain()
		if opErr != "" {
			out.Harness = opErr
			w.settle()
			w.Close()
			return
		}
		w.settle()
		names.Learn(w)
		got, err := ReadIndex(w, names, false)
		if err != nil {
			out.Harness = "query: " + err.Error()
			w.Close()
			return
		}
		out.Final = got
		record(len(cs.Ops)-1, "quiescent", CompareViews(got, Expected(m.Live)), m, layout(w))
		w.Close()
		rcfg := cs.Cfg
		rcfg.Settle = true
		CheckRecovery(dir, rcfg, Expect{M: m}, names, ProbeSingle, func(stage string, fails []*Fail, mm *Model, lay string, got *View) {
			for _, f := range fails {
				if f.Group == "recovery" && f.Dir != "open-failed" {
					out.Harness = fmt.Sprintf("tail %s: %s: %s", stage, f.Query, f.Why)
					return
				}
			}
			record(len(cs.Ops), stage, fails, mm, lay)
		})
	}}
}

// SchedAlphabet: the writer's ops (single-shard flavour).
func SchedAlphabet() []Op {
	return []Op{
		{Kind: OpCreate, S: []int{0}}, {Kind: OpCreate, S: []int{2}}, {Kind: OpCreate, S: []int{0, 1, 2, 3}},
		{Kind: OpDropS, S: []int{2}}, {Kind: OpDropM, M: "m0"},
	}
}

// SchedInits: what the index holds (fully compacted) when the writer starts.
func SchedInits() [][]Op {
	return [][]Op{
		nil,
		{{Kind: OpCreate, S: []int{0, 1, 2, 3}}},
		{{Kind: OpCreate, S: []int{0, 1, 2, 3}}, {Kind: OpDropS, S: []int{2}}},
	}
}

func schedScenarios(progLen int) []Case {
	var out []Case
	for _, in := range SchedInits() {
		forEachSeq(SchedAlphabet(), progLen, progLen, func(ops []Op) bool {
			out = append(out, Case{Cfg: CfgSched, Sched: true, Init: in, Ops: ops})
			return true
		})
	}
	return out
}

// runSched explores every schedule of one scenario with <= bound preemptions. Classes that also show in the
// preemption-free execution of the same scenario are reported under their plain signature (they are the
// sequential classes); a class that appears only under some other schedule gets the prefix
// "schedule-dependent/".
func runSched(t *testing.T, c *vlib.Ctx, base string, sc Case, bound int) (complete bool) {
	var out schedOut
	h := schedHarness(base, sc, &out)
	r0 := vrt.RunOnce(t, h, nil)
	if r0.Diverged != "" {
		c.HarnessError("sched " + h.Name + ": " + r0.Diverged)
		return true
	}
	base0 := map[string]bool{}
	for _, fd := range out.Found {
		base0[fd.Sig] = true
	}
	st := vrt.Explore(t, h, bound, 0, 1, c.Expired, func(r *vrt.Result) {
		c.Eval(1)
		if r.Preempts > 0 {
			c.NontrivialN(1)
		}
		if r.Diverged != "" {
			c.HarnessError("sched " + h.Name + ": " + r.Diverged)
			return
		}
		cs := sc
		cs.Schedule = r.Choices
		if r.Deadlock || r.StepCap {
			what := "deadlock"
			if r.StepCap {
				what = "livelock(step cap)"
			}
			c.Outcome("sched:" + what)
			cs.Want = vlib.JoinSig("sched", what)
			c.Violation(cs.Want, fmt.Sprintf("init [%s], writer [%s]: %s: %s", opsString(sc.Init), opsString(sc.Ops), what, strings.Join(r.Blocked, "; ")), cs)
			return
		}
		if out.Harness != "" {
			c.HarnessError(fmt.Sprintf("sched init [%s] writer [%s] schedule %v: %s", opsString(sc.Init), opsString(sc.Ops), r.Choices, out.Harness))
			return
		}
		if len(out.Found) == 0 && out.Final != nil {
			c.Outcome(fmt.Sprintf("sched:end:%d-measurements/%d-live/%d-preemptions", len(out.Final.Names), liveN(out.Model), r.Preempts))
		}
		for _, fd := range out.Found {
			sg := fd.Sig
			if !base0[sg] {
				sg = "schedule-dependent/" + sg
			}
			c.Outcome("FAIL:sched:" + sg[:strings.LastIndex(sg, "/")])
			cs.Want = sg
			c.Violation(sg, fmt.Sprintf("schedule part: init [%s], writer [%s], %d preemptions, final %s: %s", opsString(sc.Init), opsString(sc.Ops), r.Preempts, fd.Stage, fd.Why), cs)
		}
		if c.WantSample() && r.Preempts == bound && len(out.Found) == 0 {
			c.Sample(map[string]any{"part": "schedules", "init": opsString(sc.Init), "writer": opsString(sc.Ops), "schedule": r.Choices, "preemptions": r.Preempts})
		}
	})
	c.StateN(st.Nodes)
	c.Transition(st.Transitions)
	c.Trace(st.Executions)
	return st.Complete
}

// replaySched re-executes one recorded schedule.
func replaySched(t *testing.T, cs Case) (bool, string) {
	base := vlib.Scratch("c14s-")
	defer os.RemoveAll(base)
	var out schedOut
	h := schedHarness(base, cs, &out)
	r0 := vrt.RunOnce(t, h, nil)
	base0 := map[string]bool{}
	for _, fd := range out.Found {
		base0[fd.Sig] = true
	}
	r := vrt.RunOnce(t, h, cs.Schedule)
	obs := fmt.Sprintf("schedule part: init=[%s] writer=[%s] schedule=%v", opsString(cs.Init), opsString(cs.Ops), cs.Schedule)
	if r.Diverged != "" || r0.Diverged != "" {
		return false, obs + " -> diverged: " + r.Diverged + r0.Diverged
	}
	if r.Deadlock || r.StepCap {
		return strings.HasPrefix(cs.Want, "sched/"), obs + fmt.Sprintf(" -> deadlock=%v stepcap=%v blocked=%v", r.Deadlock, r.StepCap, r.Blocked)
	}
	if out.Harness != "" {
		return false, obs + " -> harness problem: " + out.Harness
	}
	for _, fd := range out.Found {
		sg := fd.Sig
		if !base0[sg] {
			sg = "schedule-dependent/" + sg
		}
		if sg == cs.Want || cs.Want == "" {
			return true, obs + fmt.Sprintf(" -> %s: %s [%s]", fd.Stage, fd.Why, sg)
		}
	}
	return false, obs + fmt.Sprintf(" -> class %q not reproduced", cs.Want)
}

// ---------------------------------------------------------------------------------------------------------
// small schedule part (BOTH tiers): a writer against the retirement + compaction of the active log file
//
// The index is opened with the default log threshold, the initial creates stay in the active log file L0-1; then the
// threshold of the (single) partition is lowered to 1, so the non-empty log file is DUE (the state a log file is in once
// it is older than maxLogFileAge; every log file the writer fills is due as well: its own CheckLogFile rolls it).
// Threads: ONE writer creating 1-2 series batches, and either the partition's periodic-compaction tick (the body of
// Partition.runPeriodicCompaction's ticker case: if NeedsCompaction(true) { Compact() }) or a second writer creating one
// batch. Everything the partition does by itself (go Compact from checkLogFile, go compactLogFile, the follow-up Compact,
// level compactions, manifest swaps, log-file removal) runs in the partition's own goroutines under the scheduler.
// Decision points: the write Locks of Partition.mu and LogFile.mu, the RLocks of the writer's path and of the
// compaction's log-file read, the threads' call boundaries; all other RLocks pass silently (they still block while a
// writer holds the lock). Bound: deviations from the default schedule (every non-default choice costs 1).

var CfgSmall = Cfg{Name: "sched-small", MaxLog: 0, PartN: 1}

// smallPoints: the functions whose RLock is a decision point (besides every write Lock).
var smallRLockPoints = []string{"createSeriesListIfNotExists", "(*Partition).CheckLogFile", "(*Partition).RetainFileSet", "(*LogFile).CompactTo", "(*Partition).NeedsCompaction"}

func smallFilter(kind vrt.OpKind, label string) bool {
	switch os.Getenv("C14_SMALL_POINTS") { // development aid
	case "locks":
		return kind == vrt.OpLock || kind == vrt.OpRLock || kind == vrt.OpHook
	case "wlocks":
		return kind == vrt.OpLock || kind == vrt.OpHook
	}
	if kind == vrt.OpLock || kind == vrt.OpHook {
		return true
	}
	if kind == vrt.OpRLock {
		for _, f := range smallRLockPoints {
			if strings.Contains(label, f) {
				return true
			}
		}
	}
	return false
}

func smallName(cs Case) string {
	o := "periodic-compaction tick"
	if cs.Other == "writer" {
		o = "writer2 [" + opsString(cs.Ops2) + "]"
	}
	return fmt.Sprintf("init [%s] in the active log file (due), writer [%s] || %s", opsString(cs.Init), opsString(cs.Ops), o)
}

func smallHarness(base string, cs Case, out *schedOut) *vrt.Harness {
	return &vrt.Harness{Name: "c14-small:" + smallName(cs), Filter: smallFilter, DeviationCost: cs.DevCost, Body: func(x *vrt.Exec) {
		*out = schedOut{}
		for _, op := range append(append(append([]Op{}, cs.Init...), cs.Ops...), cs.Ops2...) {
			if op.Kind != OpCreate {
				out.Harness = "small schedule part: only creates are supported (the model of concurrent writers is a set union)"
				return
			}
		}
		dir, err := os.MkdirTemp(base, "s")
		if err != nil {
			out.Harness = err.Error()
			return
		}
		defer os.RemoveAll(dir)
		m := &Model{}
		out.Model = m
		names := NewIDNames()
		seen := map[string]bool{}
		record := func(step int, stage string, fails []*Fail, mm *Model, lay string) {
			for _, f := range fails {
				sg := sigOf(cs.Cfg, f, mm, lay, true)
				if !seen[sg] {
					seen[sg] = true
					out.Found = append(out.Found, Found{sg, step, stage, f.Why})
				}
			}
		}
		w, err := OpenWorld(dir, cs.Cfg)
		if err != nil {
			out.Harness = "open: " + err.Error()
			return
		}
		for _, op := range cs.Init {
			if err := w.Exec(op); err != nil {
				out.Harness = fmt.Sprintf("init %s: %v", op, err)
				w.Close()
				return
			}
			m.Apply(op)
		}
		synctest.Wait() // start-up goroutines (runPeriodicCompaction's first Compact) have come to rest
		part := w.Idx.PartitionAt(0)
		part.VerifSetMaxLogFileSize(1)
		var opErr string
		var acked [2][]Op
		writer := func(k int, ops []Op) func() {
			return func() {
				for i, op := range ops {
					vrt.Hook("op:" + op.Kind)
					if err := w.Exec(op); err != nil {
						opErr = fmt.Sprintf("writer%d op %d %s: %v", k+1, i, op, err)
						return
					}
					acked[k] = append(acked[k], op)
				}
			}
		}
		x.Go("writer", writer(0, cs.Ops))
		if cs.Other == "writer" {
			x.Go("writer2", writer(1, cs.Ops2))
		} else {
			x.Go("compaction-tick", func() {
				vrt.Hook("tick")
				if part.NeedsCompaction(true) { // the ticker case of Partition.runPeriodicCompaction
					part.Compact()
				}
			})
		}
		x.S.MaxSteps = 20000
		x.Run()
		if x.S.Deadlock || x.S.StepCap {
			x.S.Abort()
			w.Close()
			return
		}
		x.S.Drain()
		for _, ops := range acked {
			for _, op := range ops {
				m.Apply(op)
			}
		}
		if opErr != "" {
			out.Harness = opErr
			w.settle()
			w.Close()
			return
		}
		w.settle() // threshold 1: every log file is compacted, then the levels
		names.Learn(w)
		got, err := ReadIndex(w, names, false)
		if err != nil {
			out.Harness = "query: " + err.Error()
			w.Close()
			return
		}
		out.Final = got
		record(len(cs.Ops)-1, "quiescent (all compactions awaited)", CompareViews(got, Expected(m.Live)), m, layout(w))
		w.Close()
		rcfg := cs.Cfg
		rcfg.Settle = true
		CheckRecovery(dir, rcfg, Expect{M: m}, names, cs.Probe, func(stage string, fails []*Fail, mm *Model, lay string, got *View) {
			for _, f := range fails {
				if f.Group == "recovery" && f.Dir != "open-failed" {
					out.Harness = fmt.Sprintf("tail %s: %s: %s", stage, f.Query, f.Why)
					return
				}
			}
			record(len(cs.Ops), stage, fails, mm, lay)
		})
	}}
}

func smallScenarios(thorough bool) []Case {
	c := func(s ...int) Op { return Op{Kind: OpCreate, S: s} }
	mk := func(dev bool, bound int, init []Op, ops []Op, other string, ops2 []Op) Case {
		return Case{Cfg: CfgSmall, Sched: true, Small: true, Init: init, Ops: ops, Other: other, Ops2: ops2, Probe: ProbeNone, DevCost: dev, Bound: bound}
	}
	const preempt, deviation = false, true
	if !thorough {
		return []Case{
			mk(preempt, 2, []Op{c(0)}, []Op{c(1)}, "tick", nil),          // same measurement: the batch adds a tag value
			mk(preempt, 1, []Op{c(0)}, []Op{c(1)}, "writer", []Op{c(4)}), // two writers, one batch each
			mk(preempt, 1, []Op{c(0)}, []Op{c(4)}, "tick", nil),          // the batch brings a new measurement
			mk(deviation, 2, []Op{c(0)}, []Op{c(2), c(3)}, "tick", nil),  // two batches: the second goes to the log file the first one's roll created
		}
	}
	return []Case{
		mk(preempt, 3, []Op{c(0)}, []Op{c(1)}, "tick", nil),
		mk(preempt, 3, []Op{c(0)}, []Op{c(4)}, "tick", nil),
		mk(preempt, 2, []Op{c(0)}, []Op{c(1)}, "writer", []Op{c(4)}),
		mk(preempt, 2, []Op{c(0, 1, 2, 3)}, []Op{c(4, 5)}, "tick", nil),
		mk(preempt, 2, []Op{c(4)}, []Op{c(0, 1, 2, 3)}, "tick", nil),
		mk(preempt, 2, nil, []Op{c(0)}, "writer", []Op{c(1)}),
		mk(deviation, 3, []Op{c(0)}, []Op{c(2), c(3)}, "tick", nil), // two batches: the second goes to the log file the first one's roll created
		mk(deviation, 2, nil, []Op{c(0), c(1)}, "tick", nil),        // empty log file: the tick has nothing to do unless the writer was first
		mk(deviation, 2, []Op{c(0)}, []Op{c(1), c(4)}, "writer", []Op{c(2)}),
	}
}

// exploreSharded enumerates every schedule of h with <= bound cost, the tree being split over the shards: every shard
// runs the root execution (visited by shard 0) and estimates the size of the subtree of each of its alternatives from
// the root's own steps; alternatives whose subtree is larger than one shard's fair share are run by every shard too
// (visited by one) and split into their children; all other subtrees are dealt whole, largest first, to the least
// loaded shard. Every shard computes the same table (executions are deterministic), so every execution of the tree is
// visited by exactly one shard.
func exploreSharded(t *testing.T, h *vrt.Harness, bound, shard, nshards int, stop func() bool, visit func(*vrt.Result)) vrt.Stats {
	st := vrt.Stats{Bound: bound, Complete: true}
	stopped := func() bool {
		if stop != nil && stop() {
			st.Complete = false
			return true
		}
		return false
	}
	seen := func(x *vrt.Result, from int) {
		st.Executions++
		st.Transitions += int64(len(x.Steps))
		if len(x.Steps) > st.MaxDepth {
			st.MaxDepth = len(x.Steps)
		}
		for i := from; i < len(x.Steps); i++ {
			if len(x.Steps[i].Enabled) > 1 {
				st.Nodes++
			}
		}
		visit(x)
	}
	type unit struct {
		prefix []int
		est    int
	}
	// alts lists the alternatives of execution x at steps >= from that are within the bound, with the estimated size of
	// their subtrees (1 + the alternatives x itself offers behind them within the remaining bound).
	alts := func(x *vrt.Result, from int) []unit {
		var out []unit
		if x.Diverged != "" {
			return nil
		}
		pre := make([]int, len(x.Steps)+1)
		for i, sp := range x.Steps {
			pre[i+1] = pre[i]
			if sp.Preempt {
				pre[i+1]++
			}
		}
		for i := from; i < len(x.Steps); i++ {
			for alt := 1; alt < len(x.Steps[i].Enabled); alt++ {
				c := pre[i] + x.Steps[i].Costs[alt]
				if c > bound {
					continue
				}
				est := 1
				for j := i + 1; j < len(x.Steps); j++ {
					for a2 := 1; a2 < len(x.Steps[j].Enabled); a2++ {
						if c+(pre[j]-pre[i+1])+x.Steps[j].Costs[a2] <= bound {
							est++
						}
					}
				}
				out = append(out, unit{append(append([]int{}, x.Choices[:i]...), alt), est})
			}
		}
		return out
	}
	var full func(prefix []int)
	full = func(prefix []int) {
		if stopped() {
			return
		}
		x := vrt.RunOnce(t, h, prefix)
		seen(x, len(prefix))
		for _, u := range alts(x, len(prefix)) {
			full(u.prefix)
		}
	}
	if stopped() {
		return st
	}
	root := vrt.RunOnce(t, h, nil)
	if shard == 0 {
		seen(root, 0)
	}
	l1 := alts(root, 0)
	total := 0
	for _, u := range l1 {
		total += u.est
	}
	ideal := total/nshards + 1
	var whole []unit
	nsplit := 0
	for _, u := range l1 {
		if nshards == 1 || u.est <= ideal {
			whole = append(whole, u)
			continue
		}
		if stopped() {
			return st
		}
		x := vrt.RunOnce(t, h, u.prefix) // a large subtree: every shard runs its root and the children are dealt out
		if nsplit%nshards == shard {
			seen(x, len(u.prefix))
		}
		nsplit++
		whole = append(whole, alts(x, len(u.prefix))...)
	}
	sort.SliceStable(whole, func(i, j int) bool { return whole[i].est > whole[j].est })
	load := make([]int, nshards)
	for _, u := range whole {
		k := 0
		for i := 1; i < nshards; i++ {
			if load[i] < load[k] {
				k = i
			}
		}
		load[k] += u.est
		if k == shard {
			full(u.prefix)
		}
	}
	return st
}

// runSmallSched explores one scenario of the small schedule part (this shard's share of its schedule tree).
func runSmallSched(t *testing.T, c *vlib.Ctx, base string, si int, sc Case, stop func() bool) (complete bool) {
	bound := sc.Bound
	if v := envInt("C14_SMALL_BOUND", -1); v >= 0 { // development aid
		bound = v
	}
	var out schedOut
	h := smallHarness(base, sc, &out)
	st := exploreSharded(t, h, bound, c.Shard, c.NShards, stop, func(r *vrt.Result) {
		c.Eval(1)
		devs := 0
		for _, s := range r.Steps {
			if s.Preempt {
				devs++
			}
		}
		if devs > 0 {
			c.NontrivialN(1)
		}
		if r.Diverged != "" {
			c.HarnessError("small schedule part, " + smallName(sc) + ": " + r.Diverged)
			return
		}
		cs := sc
		cs.Schedule = r.Choices
		if r.Deadlock || r.StepCap {
			what := "deadlock"
			if r.StepCap {
				what = "livelock(step cap)"
			}
			c.Outcome("sched-small:" + what)
			cs.Want = vlib.JoinSig("sched-small", what)
			c.Violation(cs.Want, fmt.Sprintf("small schedule part: %s: %s: %s", smallName(sc), what, strings.Join(r.Blocked, "; ")), cs)
			return
		}
		if out.Harness != "" {
			c.HarnessError(fmt.Sprintf("small schedule part: %s, schedule %v: %s", smallName(sc), r.Choices, out.Harness))
			return
		}
		if len(out.Found) == 0 && out.Final != nil {
			c.Outcome(fmt.Sprintf("sched-small:end:%d-measurements/%d-live/%d-deviations", len(out.Final.Names), liveN(out.Model), devs))
			if c.WantSample() && devs == bound {
				c.Sample(map[string]any{"part": "small schedules", "scenario": smallName(sc), "schedule": r.Choices, "deviations": devs, "m0_series": out.Final.MSeries["m0"], "m1_series": out.Final.MSeries["m1"]})
			}
		}
		for _, fd := range out.Found {
			// every writer op is a create: nothing is stale by design here, so every class is schedule-made
			sg := "schedule-dependent/" + fd.Sig
			c.Outcome("FAIL:sched-small:" + fd.Sig[:strings.LastIndex(fd.Sig, "/")])
			cs.Want = sg
			var tr []string
			for _, s := range r.Steps {
				if s.Preempt {
					tr = append(tr, fmt.Sprintf("#%d: switch to %s at %s", len(tr)+1, r.Names[s.Thread], s.Label))
				}
			}
			unit := "preemptions"
			if sc.DevCost {
				unit = "deviations from the default schedule"
			}
			c.Violation(sg, fmt.Sprintf("small schedule part: %s, %d %s (%s), %s: %s", smallName(sc), devs, unit, strings.Join(tr, "; "), fd.Stage, fd.Why), cs)
		}
	})
	c.StateN(st.Nodes)
	c.Transition(st.Transitions)
	c.Trace(st.Executions)
	c.Extra("sched_small_states", st.Nodes)
	c.Extra("sched_small_transitions", st.Transitions)
	c.Extra("sched_small_traces", st.Executions)
	c.Extra(fmt.Sprintf("sched_small_traces_scenario_%d", si+1), st.Executions)
	return st.Complete
}

// runSmallSchedules is the small schedule phase of Run; it may use at most `share` of wall time.
func runSmallSchedules(t *testing.T, c *vlib.Ctx, share time.Duration) {
	defer func() {
		if r := recover(); r != nil {
			c.HarnessError(fmt.Sprintf("small schedule part: explorer panicked: %v\n%s", r, debug.Stack()))
		}
	}()
	base := vlib.Scratch("c14ss-")
	defer os.RemoveAll(base)
	defer runtime.GOMAXPROCS(runtime.GOMAXPROCS(1)) // see Replay: goroutine ids must follow creation order (workers have GOMAXPROCS=1 anyway)
	deadline := time.Now().Add(share)
	stop := func() bool { return c.Expired() || time.Now().After(deadline) }
	scs := smallScenarios(c.Thorough())
	if c.Shard == 0 {
		c.Extra("sched_small_scenarios", int64(len(scs)))
	}
	for si, sc := range scs {
		if stop() || !runSmallSched(t, c, base, si, sc, stop) {
			c.Cap(fmt.Sprintf("the small schedule part's share of the budget expired in scenario %d of %d (%s); the earlier scenarios are complete", si+1, len(scs), smallName(sc)))
			return
		}
	}
}

func replaySmallSched(t *testing.T, cs Case) (bool, string) {
	base := vlib.Scratch("c14ssr-")
	defer os.RemoveAll(base)
	var out schedOut
	r := vrt.RunOnce(t, smallHarness(base, cs, &out), cs.Schedule)
	obs := fmt.Sprintf("small schedule part: %s schedule=%v", smallName(cs), cs.Schedule)
	if os.Getenv("C14_SMALL_TRACE") != "" { // development aid
		for i, s := range r.Steps {
			fmt.Printf("%3d T%d(%s) %s enabled=%v costs=%v choice=%d\n", i, s.Thread, r.Names[s.Thread], s.Label, s.Enabled, s.Costs, s.Choice)
		}
	}
	if r.Diverged != "" {
		return false, obs + " -> diverged: " + r.Diverged
	}
	if r.Deadlock || r.StepCap {
		return strings.HasPrefix(cs.Want, "sched-small/"), obs + fmt.Sprintf(" -> deadlock=%v stepcap=%v blocked=%v", r.Deadlock, r.StepCap, r.Blocked)
	}
	if out.Harness != "" {
		return false, obs + " -> harness problem: " + out.Harness
	}
	for _, fd := range out.Found {
		sg := "schedule-dependent/" + fd.Sig
		if sg == cs.Want || cs.Want == "" {
			return true, obs + fmt.Sprintf(" -> %s: %s [%s]", fd.Stage, fd.Why, sg)
		}
	}
	return false, obs + fmt.Sprintf(" -> class %q not reproduced", cs.Want)
}

// ---------------------------------------------------------------------------------------------------------
// enumeration

func forEachSeq(alphabet []Op, minLen, maxLen int, f func(ops []Op) bool) {
	for n := minLen; n <= maxLen; n++ {
		idx := make([]int, n)
		for {
			ops := make([]Op, n)
			for i, a := range idx {
				ops[i] = alphabet[a]
			}
			if !f(ops) {
				return
			}
			i := n - 1
			for ; i >= 0; i-- {
				idx[i]++
				if idx[i] < len(alphabet) {
					break
				}
				idx[i] = 0
			}
			if i < 0 {
				break
			}
		}
	}
}

var (
	CfgExplicit = Cfg{Name: "explicit", MaxLog: 0, PartN: 1}
	CfgAuto     = Cfg{Name: "auto", MaxLog: 1, PartN: 1, Settle: true}
	CfgMid      = Cfg{Name: "mid", MaxLog: 40, PartN: 2, Settle: true}
)

// FullAlphabet: single-shard database (every drop also deletes from the series file, as the engine does).
func FullAlphabet(withCompact bool) []Op {
	a := []Op{
		{Kind: OpCreate, S: []int{0}}, {Kind: OpCreate, S: []int{2}}, {Kind: OpCreate, S: []int{4}},
		{Kind: OpCreate, S: []int{0, 1, 2, 3}}, {Kind: OpCreate, S: []int{0, 1, 2, 3, 4, 5}},
		{Kind: OpDropS, S: []int{0}}, {Kind: OpDropS, S: []int{2}}, {Kind: OpDropS, S: []int{4}},
		{Kind: OpDropM, M: "m0"}, {Kind: OpDropMd, M: "m0"}, {Kind: OpDropMd, M: "m1"},
		{Kind: OpReopen},
	}
	if withCompact {
		a = append(a, Op{Kind: OpCompact})
	}
	return a
}

// SharedAlphabet: the dropped series stay in the series file (another shard of the database holds them),
// so a re-creation gets the same series id back.
func SharedAlphabet(withCompact bool) []Op {
	a := []Op{
		{Kind: OpCreate, S: []int{0}}, {Kind: OpCreate, S: []int{0, 1, 2, 3}},
		{Kind: OpDropI, S: []int{0}}, {Kind: OpDropI, S: []int{2}}, {Kind: OpDropI, S: []int{0, 1, 2, 3}},
		{Kind: OpReopen},
	}
	if withCompact {
		a = append(a, Op{Kind: OpCompact})
	}
	return a
}

// CoreAlphabet: the deep alphabet — measurement m0 only, the ops whose interplay decides what a file set
// answers (a series that is the only holder of a tag key/value, measurement tombstone, forced compaction,
// restart).
func CoreAlphabet(withCompact bool) []Op {
	a := []Op{
		{Kind: OpCreate, S: []int{0}}, {Kind: OpCreate, S: []int{2}}, {Kind: OpCreate, S: []int{0, 1, 2, 3}},
		{Kind: OpDropS, S: []int{2}}, {Kind: OpDropM, M: "m0"}, {Kind: OpDropMd, M: "m0"},
		{Kind: OpReopen},
	}
	if withCompact {
		a = append(a, Op{Kind: OpCompact})
	}
	return a
}

// CfgCold: explicit (files change only at compact ops) with the Index's tag-value series-id cache disabled, so that
// Index/IndexSet.TagValueSeriesIDIterator are answered from the file sets at every step (with the cache, a set cached
// before a compaction is kept up to date by the write path and hides what the files say until the next restart).
var CfgCold = Cfg{Name: "explicit-nocache", MaxLog: 0, PartN: 1, NoCache: true}

// ReaddAlphabet: the life of ONE series id inside and across log files. S0 (m0,a=x) is created, dropped index-only
// (its series-file entry stays, so a re-creation gets the SAME id back and the active log file sees add / tombstone /
// re-add entries of one id) and re-created; S2 (m0,a=x,b=x: shares the tag value a=x with S0) is "another series
// created afterwards" that puts entries into the log file that is active at that point (and keeps a=x populated);
// compact turns the active log file into an index file (which from then on is not the newest file of the file set);
// reopen replays the active log file. wide adds the index-only drop of S2.
func ReaddAlphabet(wide bool) []Op {
	a := []Op{
		{Kind: OpCreate, S: []int{0}}, {Kind: OpDropI, S: []int{0}}, {Kind: OpCreate, S: []int{2}},
		{Kind: OpCompact}, {Kind: OpReopen},
	}
	if wide {
		a = append(a, Op{Kind: OpDropI, S: []int{2}})
	}
	return a
}

type family struct {
	name     string
	cfg      Cfg
	alphabet []Op
	minLen   int
	maxLen   int
	// noRepeat: sequences in which an op is immediately followed by the same op are skipped
	noRepeat bool
}

// readd: the family enumerates only sequences of its maximal length; every shorter sequence is a prefix of one and is
// judged after each of its steps (restart included: reopen is in the alphabet).
func (f family) readd() bool { return strings.HasPrefix(f.name, "shared-readd") }

func hasRepeat(ops []Op) bool {
	for i := 1; i < len(ops); i++ {
		if ops[i].String() == ops[i-1].String() {
			return true
		}
	}
	return false
}

func (f family) probe() string {
	if strings.HasPrefix(f.name, "shared") {
		return ProbeShared
	}
	return ProbeSingle
}

func envInt(name string, def int) int {
	if s := os.Getenv(name); s != "" {
		if v, err := strconv.Atoi(s); err == nil {
			return v
		}
	}
	return def
}

// families in visiting order (simplest first). A "core"/deep family starts at the length where the full
// alphabet of the same configuration stops (its alphabet is a subset of the full one).
func families(thorough bool) []family {
	if os.Getenv("C14_ONLY_SCHED") != "" {
		return nil
	}
	if d := envInt("C14_DEPTH", -1); d >= 0 {
		return []family{{"explicit", CfgExplicit, FullAlphabet(true), 0, d, false}, {"auto", CfgAuto, FullAlphabet(false), 0, d, false}, {"mid", CfgMid, FullAlphabet(false), 0, d, false},
			{"shared-explicit", CfgExplicit, SharedAlphabet(true), 0, d, false}, {"shared-auto", CfgAuto, SharedAlphabet(false), 0, d, false}}
	}
	readd := family{"shared-readd", CfgCold, ReaddAlphabet(false), 4, 4, true}
	if d := envInt("C14_READD_DEPTH", -1); d >= 0 { // development aid
		readd.minLen, readd.maxLen = d, d
	}
	if !thorough {
		return []family{
			readd, // the smallest alphabet (5 ops over one measurement) goes first
			{"explicit", CfgExplicit, FullAlphabet(true), 0, 2, false},
			{"auto", CfgAuto, FullAlphabet(false), 0, 2, false},
			{"mid", CfgMid, FullAlphabet(false), 0, 2, false},
			{"shared-explicit", CfgExplicit, SharedAlphabet(true), 0, 3, false},
			{"shared-auto", CfgAuto, SharedAlphabet(false), 0, 2, false},
			{"explicit-core", CfgExplicit, CoreAlphabet(true), 3, 3, false},
			{"shared-readd", CfgCold, ReaddAlphabet(false), 5, 5, true}, // with the budget that is left
		}
	}
	return []family{
		readd,
		{"shared-readd-wide", CfgCold, ReaddAlphabet(true), 5, 5, true}, // first of the sequential families after the schedule and crash parts
		{"explicit", CfgExplicit, FullAlphabet(true), 0, 3, false},
		{"auto", CfgAuto, FullAlphabet(false), 0, 3, false},
		{"mid", CfgMid, FullAlphabet(false), 0, 3, false},
		{"shared-explicit", CfgExplicit, SharedAlphabet(true), 0, 4, false},
		{"shared-auto", CfgAuto, SharedAlphabet(false), 0, 4, false},
		{"explicit-core", CfgExplicit, CoreAlphabet(true), 4, 4, false},
		{"auto-core", CfgAuto, CoreAlphabet(false), 4, 4, false},
		{"mid-core", CfgMid, CoreAlphabet(false), 4, 4, false},
		{"shared-readd-deep", CfgCold, ReaddAlphabet(false), 6, 6, true},
		{"explicit", CfgExplicit, FullAlphabet(true), 4, 4, false},
		{"shared-explicit", CfgExplicit, SharedAlphabet(true), 5, 5, false},
		{"explicit-core", CfgExplicit, CoreAlphabet(true), 5, 5, false},
	}
}

// =========================================================================================================
// crash family (engine: verif/h/crashfs)
//
// A history writer (this binary re-executed under strace) performs a history through PerformHistory with BEGIN/ACK
// markers around the initial open of the empty directory (k=0) and every op (k=i+1) and exits without closing. Every
// prefix / torn-write / unsynced image of the syscall log is materialized and recovered by CheckRecovery (restart,
// read every query, probe ops, second restart) in a fresh subprocess.

// CrashHistory is one work item of the crash family: a history and the op window whose cuts are evaluated.
type CrashHistory struct {
	Name string `json:"name"`
	Cfg  Cfg    `json:"cfg"`
	Ops  []Op   `json:"ops"`
	// From/Upto: only the images whose cut lies inside or after op From (-1: also the initial open) and before the
	// BEGIN of op Upto (0 = len(Ops)) are evaluated; each work item records the whole history again.
	From  int    `json:"from"`
	Upto  int    `json:"upto,omitempty"`
	Probe string `json:"probe"`
}

func (h CrashHistory) String() string {
	w := ""
	if h.Upto != 0 {
		w = fmt.Sprintf(" cuts of ops %d..%d", h.From, h.Upto-1)
	} else if h.From > 0 {
		w = fmt.Sprintf(" cuts of ops %d..", h.From)
	}
	return h.Name + "(" + h.Cfg.Name + ") [" + opsString(h.Ops) + "]" + w
}

func splitAt(h CrashHistory, at ...int) []CrashHistory {
	var out []CrashHistory
	lo := h.From
	for _, b := range append(at, len(h.Ops)) {
		w := h
		w.From, w.Upto = lo, b
		out = append(out, w)
		lo = b
	}
	return out
}

func perOp(h CrashHistory) []CrashHistory {
	var at []int
	for i := max(h.From, 0) + 1; i < len(h.Ops); i++ {
		at = append(at, i)
	}
	return splitAt(h, at...)
}

func mkS(kind string, s ...int) Op { return Op{Kind: kind, S: s} }
func mkM(kind, m string) Op        { return Op{Kind: kind, M: m} }

// CrashAlphabet: the ops of the enumerated crash histories (thorough).
func CrashAlphabet() []Op {
	return []Op{mkS(OpCreate, 0), mkS(OpCreate, 2), mkS(OpCreate, 0, 1, 2, 3), mkS(OpDropS, 2), mkM(OpDropM, "m0"), mkM(OpDropMd, "m0"), {Kind: OpReopen}, {Kind: OpCompact}}
}

func crashHistories(tier string) []CrashHistory {
	thorough := tier == "thorough"
	var hs []CrashHistory
	add := func(h CrashHistory, quickSplit ...int) {
		if h.Probe == "" {
			h.Probe = ProbeSingle
		}
		if thorough {
			hs = append(hs, perOp(h)...)
		} else {
			hs = append(hs, splitAt(h, quickSplit...)...)
		}
	}
	// log appends only (default threshold): initial open (log file + manifest), batch create, series drop (S2 is the
	// only holder of m0.b=x), other measurement, engine measurement delete, re-creation
	add(CrashHistory{Name: "log-appends", Cfg: CfgExplicit, Ops: []Op{mkS(OpCreate, 0, 1, 2, 3), mkS(OpDropS, 2), mkS(OpCreate, 4), mkM(OpDropM, "m0"), mkS(OpCreate, 0)}, From: -1}, 1, 3, 4)
	// index-only drops: the series stay in the series file, a re-creation gets the same id; restart in between
	add(CrashHistory{Name: "shared", Cfg: CfgExplicit, Probe: ProbeShared, Ops: []Op{mkS(OpCreate, 0, 1, 2, 3), mkS(OpDropI, 0), {Kind: OpReopen}, mkS(OpCreate, 0), mkS(OpDropI, 0, 1, 2, 3)}}, 2, 4)
	if !thorough {
		// forced compaction: log -> L1 (.tsi written, synced; manifest tmp written, synced, renamed; log removed), series
		// drop and direct measurement drop on top of an index file, re-creation
		add(CrashHistory{Name: "compact", Cfg: CfgExplicit, Ops: []Op{mkS(OpCreate, 0, 1, 2, 3, 4, 5), {Kind: OpCompact}, mkS(OpDropS, 2), mkM(OpDropMd, "m1"), mkS(OpCreate, 2)}}, 1, 2, 3)
		// threshold 1: every op's log file is rolled and compacted at once (awaited before the op is acknowledged)
		add(CrashHistory{Name: "auto-compact", Cfg: CfgAuto, Ops: []Op{mkS(OpCreate, 0, 2), mkS(OpDropS, 2)}}, 1)
		return hs
	}
	// forced compaction twice: log -> L1, drops on top of an index file, log -> L1 and L1+L1 -> L2, re-creation
	add(CrashHistory{Name: "compact", Cfg: CfgExplicit, Ops: []Op{mkS(OpCreate, 0, 1, 2, 3, 4, 5), {Kind: OpCompact}, mkS(OpDropS, 2), mkM(OpDropMd, "m1"), {Kind: OpCompact}, mkS(OpCreate, 2)}})
	add(CrashHistory{Name: "auto-compact", Cfg: CfgAuto, Ops: []Op{mkS(OpCreate, 0), mkS(OpCreate, 2), mkS(OpDropS, 2)}})
	add(CrashHistory{Name: "reopen-drop", Cfg: CfgExplicit, Ops: []Op{mkS(OpCreate, 0, 1, 2, 3, 4, 5), {Kind: OpReopen}, mkM(OpDropMd, "m0"), {Kind: OpCompact}, {Kind: OpReopen}, mkS(OpCreate, 0, 1, 2, 3), mkM(OpDropM, "m0")}})
	add(CrashHistory{Name: "mid", Cfg: CfgMid, Ops: []Op{mkS(OpCreate, 0, 1, 2, 3, 4, 5), mkS(OpDropS, 0), mkM(OpDropM, "m1"), mkS(OpCreate, 4)}})
	// every sequence of length 1..2 over the crash alphabet (explicit configuration), cuts of the last op only
	maxLen := envInt("C14_CRASH_DEPTH", 2)
	forEachSeq(CrashAlphabet(), 1, maxLen, func(ops []Op) bool {
		hs = append(hs, CrashHistory{Name: "seq", Cfg: CfgExplicit, Ops: ops, From: len(ops) - 1, Probe: ProbeSingle})
		return true
	})
	return hs
}

// ---------------------------------------------------------------- history writer (runs under strace)

type crashWriterSpec struct {
	Dir     string `json:"dir"`
	Markers string `json:"markers"`
	Cfg     Cfg    `json:"cfg"`
	Ops     []Op   `json:"ops"`
}

type markerOp struct {
	I  int `json:"i"` // -1: the initial open
	Op Op  `json:"op"`
}

type shiftAcker struct {
	m      *crashfs.Markers
	opened bool
}

func (a *shiftAcker) open() {
	if !a.opened {
		a.opened = true
		a.m.Ack(0, "{}")
	}
}
func (a *shiftAcker) Begin(k int, v any)       { a.open(); a.m.Begin(k+1, markerOp{I: k, Op: v.(Op)}) }
func (a *shiftAcker) Ack(k int, result string) { a.m.Ack(k+1, result) }

func crashWriterMain(js string) int {
	var sp crashWriterSpec
	if err := json.Unmarshal([]byte(js), &sp); err != nil {
		fmt.Fprintln(os.Stderr, "c14 writer: bad spec:", err)
		return 2
	}
	m, err := crashfs.OpenMarkers(sp.Markers)
	if err != nil {
		fmt.Fprintln(os.Stderr, "c14 writer:", err)
		return 2
	}
	if err := os.Mkdir(sp.Dir, 0o777); err != nil {
		fmt.Fprintln(os.Stderr, "c14 writer:", err)
		return 2
	}
	a := &shiftAcker{m: m}
	m.Begin(0, markerOp{I: -1, Op: Op{Kind: "open"}})
	_, _, err = PerformHistory(sp.Dir, sp.Cfg, sp.Ops, a, nil)
	if err != nil {
		fmt.Fprintln(os.Stderr, "c14 writer: history failed live:", err)
		return 1
	}
	a.open()
	return 0 // the process exits with index and series file open
}

// ---------------------------------------------------------------- acknowledgement context

type crashCtx struct {
	M      *Model
	InFl   *Op
	Infl   string // kind of the op in flight: none | open | <op kind>
	InflI  int
	NAcked int
	IDs    [6]uint64 // series ids reported by the last acknowledged op
	Past   map[uint64]int
}

func contextOf(im *crashfs.Image) (cx crashCtx, err error) {
	cx.M, cx.Infl, cx.InflI, cx.Past = &Model{}, "none", -1, map[uint64]int{}
	for _, a := range im.Acked() {
		var mo markerOp
		if err := json.Unmarshal([]byte(a.Op), &mo); err != nil {
			return cx, fmt.Errorf("marker payload %q: %v", a.Op, err)
		}
		if mo.I < 0 {
			continue
		}
		var res OpResult
		if err := json.Unmarshal([]byte(a.Result), &res); err != nil {
			return cx, fmt.Errorf("ack payload %q: %v", a.Result, err)
		}
		if res.Err != "" {
			return cx, fmt.Errorf("the history failed live at op %d %s: %s", mo.I, mo.Op, res.Err)
		}
		cx.NAcked++
		cx.M.Apply(mo.Op)
		for i, id := range res.IDs {
			if old := cx.IDs[i]; old != 0 && old != id {
				cx.Past[old] = i
			}
		}
		cx.IDs = res.IDs
	}
	if f := im.InFlight(); f != nil {
		var mo markerOp
		if err := json.Unmarshal([]byte(f.Op), &mo); err != nil {
			return cx, fmt.Errorf("marker payload %q: %v", f.Op, err)
		}
		cx.Infl, cx.InflI = mo.Op.Kind, mo.I
		if mo.I >= 0 {
			op := mo.Op
			cx.InFl = &op
		}
	}
	return cx, nil
}

func (h CrashHistory) keep(cx crashCtx) bool {
	pos := cx.NAcked - 1
	if cx.Infl != "none" {
		pos = cx.InflI
	}
	return pos >= h.From && (h.Upto == 0 || pos < h.Upto)
}

// ---------------------------------------------------------------- recovery checker (fresh subprocess, batch of images)

// CrashFinding is one violation class seen on an image.
type CrashFinding struct {
	Sig    string `json:"sig"` // without the crash context (added by the parent for everything but "extra" classes)
	Extra  bool   `json:"extra"`
	Stage  string `json:"stage"`
	Why    string `json:"why"`
	Clause string `json:"clause"` // group/dir
}

// CrashObs is what the recovery checker found on one image under one acknowledgement context.
type CrashObs struct {
	ID      string         `json:"id"`
	Done    bool           `json:"done"`
	Harness string         `json:"harness,omitempty"`
	Panic   string         `json:"panic,omitempty"`
	Died    string         `json:"died,omitempty"`
	Found   []CrashFinding `json:"found,omitempty"`
	Settle  string         `json:"settle,omitempty"` // before | after | partial | n/a
	State   string         `json:"state,omitempty"`  // settled model + layout
}

type crashRecItem struct {
	ID    string         `json:"id"`
	Dir   string         `json:"dir"`
	Cfg   Cfg            `json:"cfg"`
	M     *Model         `json:"model"`
	InFl  *Op            `json:"in_flight,omitempty"`
	IDs   [6]uint64      `json:"ids"`
	Past  map[uint64]int `json:"past_ids,omitempty"`
	Probe string         `json:"probe"`
}

type crashRecJob struct {
	Items []crashRecItem `json:"items"`
	Out   string         `json:"out"`
}

func crashRecoverOne(it crashRecItem) (o CrashObs) {
	o.ID = it.ID
	names := NewIDNames()
	for i, id := range it.IDs {
		if id != 0 {
			names.cur[i] = id
			names.name[id] = "S" + strconv.Itoa(i)
		}
	}
	for id, i := range it.Past {
		names.name[id] = "S" + strconv.Itoa(i) + "'"
	}
	// always wait for the compactions the restart itself starts (a log file left behind by an interrupted
	// compaction is compacted right after Open): the probe ops and queries then see a quiescent index
	rcfg := it.Cfg
	rcfg.Settle = true
	seen := map[string]bool{}
	collect := func(prefix string) func(stage string, fails []*Fail, mm *Model, lay string, got *View) {
		return func(stage string, fails []*Fail, mm *Model, lay string, got *View) {
			for _, f := range fails {
				if f.Group == "recovery" && f.Dir != "open-failed" && f.Dir != "query-error" && f.Dir != "op-error" {
					o.Harness = fmt.Sprintf("%s%s: %s: %s", prefix, stage, f.Query, f.Why)
					return
				}
				sg := sigOf(rcfg, f, mm, lay, true)
				if seen[sg] {
					continue
				}
				seen[sg] = true
				q := f.Group
				if f.Group == "recovery" {
					q += ":" + f.Query
				}
				o.Found = append(o.Found, CrashFinding{Sig: sg, Extra: f.Dir == "extra", Stage: prefix + stage, Why: f.Why, Clause: q + "/" + f.Dir})
			}
		}
	}
	panicked, desc := vlib.Guard(func() {
		settled := CheckRecovery(it.Dir, rcfg, Expect{M: it.M, InFlight: it.InFl}, names, it.Probe, collect(""))
		if settled == nil {
			o.Done = true
			return
		}
		switch {
		case it.InFl == nil:
			o.Settle = "n/a"
		case settled.Live == it.M.Live:
			o.Settle = "before"
		default:
			after := *it.M
			after.Apply(*it.InFl)
			o.Settle = "partial"
			if settled.Live == after.Live {
				o.Settle = "after"
			}
		}
		o.State = settled.key()
		// second restart: the model after the probe ops
		m := *settled
		for _, op := range ProbeOps(it.Probe) {
			m.Apply(op)
		}
		CheckRecovery(it.Dir, rcfg, Expect{M: &m}, names, ProbeNone, collect("second-"))
		o.Done = true
	})
	if panicked {
		o.Panic = strings.ReplaceAll(desc, it.Dir, "<image>")
	}
	for i := range o.Found {
		o.Found[i].Why = strings.ReplaceAll(o.Found[i].Why, it.Dir, "<image>")
	}
	o.Harness = strings.ReplaceAll(o.Harness, it.Dir, "<image>")
	return
}

func crashRecoverMain(jobPath string) int {
	b, err := os.ReadFile(jobPath)
	if err != nil {
		fmt.Fprintln(os.Stderr, "c14 recover:", err)
		return 2
	}
	var job crashRecJob
	if err := json.Unmarshal(b, &job); err != nil {
		fmt.Fprintln(os.Stderr, "c14 recover:", err)
		return 2
	}
	out, err := os.OpenFile(job.Out, os.O_CREATE|os.O_WRONLY|os.O_APPEND, 0o666)
	if err != nil {
		fmt.Fprintln(os.Stderr, "c14 recover:", err)
		return 2
	}
	debug.SetMaxStack(32 << 20)
	for _, it := range job.Items {
		fmt.Fprintf(os.Stderr, "c14 recover: image %s\n", it.ID)
		o := crashRecoverOne(it)
		line, _ := json.Marshal(o)
		out.Write(append(line, '\n'))
		os.RemoveAll(it.Dir)
	}
	out.Close()
	return 0
}

// ---------------------------------------------------------------- recording, image enumeration, driver

// sync classes: the tsi1 log files, the manifest (also under its temporary name) and the compacted index files
var crashImgOpts = crashfs.Options{SyncClasses: []string{"*.tsl", "MANIFEST*", "*.tsi"}, Torn: true, Unsynced: true}

func selfEnv(extra ...string) []string {
	var env []string
	for _, e := range os.Environ() {
		if strings.HasPrefix(e, "VERIF_WORKER") || strings.HasPrefix(e, "VERIF_REPLAY=") || strings.HasPrefix(e, "VERIF_CRASH_WRITER=") || strings.HasPrefix(e, "VERIF_C14_") || strings.HasPrefix(e, "GOMAXPROCS=") {
			continue
		}
		env = append(env, e)
	}
	return append(env, extra...)
}

func recordCrashHistory(scratch string, h CrashHistory) (*crashfs.Log, error) {
	dir, err := os.MkdirTemp(scratch, "rec-")
	if err != nil {
		return nil, err
	}
	defer os.RemoveAll(dir)
	sp := crashWriterSpec{Dir: filepath.Join(dir, "d"), Markers: filepath.Join(dir, "markers"), Cfg: h.Cfg, Ops: h.Ops}
	js, _ := json.Marshal(sp)
	return crashfs.Record(crashfs.RecordSpec{
		Argv:       []string{os.Args[0], "-test.run", "^TestCheck$", "-test.timeout", "0"},
		Env:        selfEnv("VERIF_CRASH_WRITER="+string(js), "GOMAXPROCS=1"),
		DataDir:    sp.Dir,
		MarkerFile: sp.Markers,
	})
}

var manifestTmpRe = regexp.MustCompile(`MANIFEST[0-9]+`)

// normPath removes the random suffix of the manifest's temporary file name.
func normPath(p string) string { return manifestTmpRe.ReplaceAllString(p, "MANIFEST.tmp") }

// contentKey identifies the directory content of an image independently of the manifest's temporary file name.
func contentKey(im *crashfs.Image) string {
	h := sha256.New()
	first := map[int]int{}
	for i, f := range im.Files {
		fmt.Fprintf(h, "%s|%v|", normPath(f.Path), f.Dir)
		if f.Dir {
			continue
		}
		if j, ok := first[f.Ino]; ok {
			fmt.Fprintf(h, "link%d|", j)
			continue
		}
		first[f.Ino] = i
		d := f.Data
		if int64(len(d)) > f.Size {
			d = d[:f.Size]
		}
		for len(d) > 0 && d[len(d)-1] == 0 {
			d = d[:len(d)-1]
		}
		fmt.Fprintf(h, "%d|%d|", f.Size, len(d))
		h.Write(d)
	}
	return hex.EncodeToString(h.Sum(nil)[:12])
}

func ctxKey(cx crashCtx) string { return fmt.Sprintf("%d/%s/%d", cx.NAcked, cx.Infl, cx.InflI) }

// findImage locates the image of a recorded case in a (possibly different) recording of the same history: by its
// descriptor if that still names the same content and context, else by searching all images of the log (the series
// file writes its partitions from concurrent goroutines, so the event order of two recordings may differ).
func findImage(l *crashfs.Log, cs *CrashCase) (*crashfs.Image, crashCtx, bool) {
	if im, err := l.Build(cs.Desc, crashImgOpts); err == nil {
		if cx, err := contextOf(im); err == nil && contentKey(im) == cs.Content && ctxKey(cx) == cs.Ctx {
			return im, cx, true
		}
	}
	for im := range l.Images(crashImgOpts, nil) {
		if contentKey(im) != cs.Content {
			continue
		}
		if cx, err := contextOf(im); err == nil && ctxKey(cx) == cs.Ctx {
			return im, cx, true
		}
	}
	return nil, crashCtx{}, false
}

var (
	crashLogMu    sync.Mutex
	crashLogCache = map[string]*crashfs.Log{}
)

func crashHistoryKey(h CrashHistory) string {
	b, _ := json.Marshal(struct {
		Cfg Cfg
		Ops []Op
	}{h.Cfg, h.Ops})
	return string(b)
}

// findCrashImage returns a recording of the history that contains the image of the case, and that image.
func findCrashImage(scratch string, cs *CrashCase) (*crashfs.Image, crashCtx, string) {
	h := cs.History
	crashLogMu.Lock()
	l := crashLogCache[crashHistoryKey(h)]
	crashLogMu.Unlock()
	if l != nil {
		if im, cx, ok := findImage(l, cs); ok {
			return im, cx, ""
		}
	}
	for try := 0; try < 6; try++ {
		l, err := recordCrashHistory(scratch, h)
		if err != nil {
			return nil, crashCtx{}, "recording failed: " + err.Error()
		}
		if im, cx, ok := findImage(l, cs); ok {
			crashLogMu.Lock()
			crashLogCache[crashHistoryKey(h)] = l
			crashLogMu.Unlock()
			return im, cx, ""
		}
	}
	return nil, crashCtx{}, "could not re-record a log that contains the image of this case (the history is not deterministic enough)"
}

const isolatedTimeout = 90 * time.Second

type crashItem struct {
	im *crashfs.Image
	cx crashCtx
}

func runCrashRecovery(dir string, h CrashHistory, items []crashItem, timeout time.Duration) (map[string]*CrashObs, string, error) {
	job := crashRecJob{Out: filepath.Join(dir, "out.jsonl")}
	for i, it := range items {
		d := filepath.Join(dir, strconv.Itoa(i))
		if err := it.im.Materialize(d); err != nil {
			return nil, "", fmt.Errorf("materialize %v: %w", it.im.Desc, err)
		}
		job.Items = append(job.Items, crashRecItem{ID: strconv.Itoa(i), Dir: d, Cfg: h.Cfg, M: it.cx.M, InFl: it.cx.InFl, IDs: it.cx.IDs, Past: it.cx.Past, Probe: h.Probe})
	}
	jb, _ := json.Marshal(job)
	jp := filepath.Join(dir, "job.json")
	if err := os.WriteFile(jp, jb, 0o666); err != nil {
		return nil, "", err
	}
	cmd := exec.Command(os.Args[0], "-test.run", "^TestCheck$", "-test.timeout", "0")
	cmd.Env = selfEnv("VERIF_C14_RECOVER="+jp, "GOMAXPROCS=2")
	var stderr strings.Builder
	cmd.Stdout = &stderr
	cmd.Stderr = &stderr
	if err := cmd.Start(); err != nil {
		return nil, "", err
	}
	done := make(chan error, 1)
	go func() { done <- cmd.Wait() }()
	timedOut := false
	select {
	case <-done:
	case <-time.After(timeout):
		timedOut = true
		cmd.Process.Kill()
		<-done
	}
	res := map[string]*CrashObs{}
	if f, err := os.Open(job.Out); err == nil {
		sc := bufio.NewScanner(f)
		sc.Buffer(make([]byte, 1<<20), 64<<20)
		for sc.Scan() {
			var o CrashObs
			if json.Unmarshal(sc.Bytes(), &o) == nil && o.ID != "" {
				oo := o
				res[o.ID] = &oo
			}
		}
		f.Close()
	}
	t := stderr.String()
	if timedOut {
		t = "TIMEOUT (recovery hangs)\n" + t
	}
	return res, t, nil
}

var repoFrameRe = regexp.MustCompile(`(?m)^(github\.com/influxdata/influxdb/v2/[^\n]*)\([^()\n]*\)\s*$`)

func deathClass(out string) string {
	what := "died"
	switch {
	case strings.HasPrefix(out, "TIMEOUT"):
		return "hang (no result within the time limit)"
	case strings.Contains(out, "stack overflow") || strings.Contains(out, "goroutine stack exceeds"):
		what = "fatal error: stack overflow"
	case strings.Contains(out, "fatal error:"):
		i := strings.Index(out, "fatal error:")
		what = strings.SplitN(out[i:], "\n", 2)[0]
	case strings.Contains(out, "panic:"):
		i := strings.Index(out, "panic:")
		what = strings.SplitN(out[i:], "\n", 2)[0]
	}
	if m := repoFrameRe.FindStringSubmatch(out); m != nil {
		what += " @ " + m[1]
	}
	return what
}

func recoverAll(scratch string, h CrashHistory, items []crashItem, expired func() bool) (obs []*CrashObs, notes map[int]string, capped bool, err error) {
	obs = make([]*CrashObs, len(items))
	notes = map[int]string{}
	const batch = 128
	for lo := 0; lo < len(items); {
		if expired != nil && expired() {
			return obs, notes, true, nil
		}
		hi := min(lo+batch, len(items))
		dir, err := os.MkdirTemp(scratch, "b-")
		if err != nil {
			return nil, nil, false, err
		}
		res, _, err := runCrashRecovery(dir, h, items[lo:hi], 120*time.Second+time.Duration(hi-lo)*2*time.Second)
		os.RemoveAll(dir)
		if err != nil {
			return nil, nil, false, err
		}
		next := hi
		for i := lo; i < hi; i++ {
			if o := res[strconv.Itoa(i-lo)]; o != nil {
				obs[i] = o
			} else if i < next {
				next = i
			}
		}
		if next == hi {
			lo = hi
			continue
		}
		d2, _ := os.MkdirTemp(scratch, "iso-")
		r2, out2, err2 := runCrashRecovery(d2, h, items[next:next+1], isolatedTimeout)
		os.RemoveAll(d2)
		switch {
		case err2 != nil:
			notes[next] = "the isolated recovery could not be run: " + err2.Error()
		case r2["0"] != nil:
			obs[next] = r2["0"]
		default:
			obs[next] = &CrashObs{ID: "0", Died: deathClass(out2)}
		}
		for i := next + 1; i < hi; i++ {
			obs[i] = nil
		}
		lo = next + 1
	}
	return obs, notes, false, nil
}

// CrashCase is the replayable form of one crash violation.
type CrashCase struct {
	History CrashHistory       `json:"history"`
	Desc    crashfs.Descriptor `json:"image"`
	Content string             `json:"image_content"` // contentKey of the image: a re-recording is searched for it
	Ctx     string             `json:"ack_context"`   // acknowledged ops / op in flight at the cut
	Cut     string             `json:"cut_description"`
	Want    string             `json:"want"` // the violation class this case was recorded for
}

func fileClass(p string) string {
	if i := strings.Index(p, "->"); i >= 0 {
		p = p[i+2:]
	}
	if p == "" {
		return ""
	}
	b := filepath.Base(p)
	switch {
	case strings.HasSuffix(b, ".tsl"):
		return "log"
	case strings.HasSuffix(b, ".tsi"):
		return "index-file"
	case b == "MANIFEST":
		return "manifest"
	case strings.HasPrefix(b, "MANIFEST"):
		return "manifest.tmp"
	case strings.Contains(p, "_series"):
		return "series-file"
	case !strings.Contains(b, "."):
		return "dir"
	}
	return "other"
}

func cutClass(im *crashfs.Image) string {
	return strings.TrimSuffix(im.NextOp+":"+fileClass(im.NextPath), ":")
}

// crashSigs turns an observation into (signature, stage, detail) triples. Stale "extra" entries keep the
// signature of the sequential part (the registered by-design staleness of tsi1 matches them; only new classes
// alarm); everything else — a missing live series, a failing open or query, a panic, a dead recovery process —
// gets a crash/ signature with the kind of op in flight and the kind of file the cut lies in.
func crashSigs(o *CrashObs, im *crashfs.Image, cx crashCtx) (out [][3]string) {
	infl := cx.Infl
	if strings.HasPrefix(infl, "drop") {
		infl = "drop" // dropS / dropI / dropM / dropMd write the same kinds of log entries
	}
	at := fileClass(im.NextPath)
	if at == "" {
		at = "between-ops"
	}
	ctx := vlib.JoinSig("inflight="+infl, "at="+at)
	switch {
	case o.Died != "":
		return [][3]string{{vlib.JoinSig("crash", "recovery-died", ctx), "restart", "the recovery process did not survive the crash image: " + o.Died}}
	case o.Panic != "":
		fr := strings.TrimPrefix(strings.TrimSpace(o.Panic[strings.LastIndex(o.Panic, "@")+1:]), "github.com/influxdata/influxdb/v2/")
		return [][3]string{{vlib.JoinSig("crash", "panic", fr, ctx), "restart", "panic during recovery: " + o.Panic}}
	}
	for _, f := range o.Found {
		if f.Extra {
			out = append(out, [3]string{f.Sig, f.Stage, f.Why})
			continue
		}
		st := f.Stage
		if strings.HasPrefix(st, "probe:") {
			st = "probe"
		} else if strings.HasPrefix(st, "second-") {
			st = "second-restart"
		}
		out = append(out, [3]string{vlib.JoinSig("crash", f.Clause, st, ctx), f.Stage, f.Why})
	}
	return out
}

func inflStr(cx crashCtx) string {
	if cx.InFl == nil {
		return cx.Infl
	}
	return cx.InFl.String()
}

func crashHistoryRun(c *vlib.Ctx, scratch string, h CrashHistory) (stop bool) {
	t0 := time.Now()
	l, err := recordCrashHistory(scratch, h)
	tRec := time.Since(t0)
	defer func() {
		c.Logf("crash item %s: record %.1fs, total %.1fs", h, tRec.Seconds(), time.Since(t0).Seconds())
	}()
	if err != nil {
		if errors.Is(err, crashfs.ErrNoTrace) {
			c.Cap("crash family: strace cannot trace in this environment, no crash image was produced (" + err.Error() + ")")
			return true
		}
		c.HarnessError(fmt.Sprintf("crash family: recording history %s: %v", h, err))
		return false
	}
	crashLogMu.Lock()
	crashLogCache[crashHistoryKey(h)] = l
	crashLogMu.Unlock()
	c.Extra("crash_histories", 1)
	c.Extra("crash_events", int64(len(l.Events)))
	c.Extra("crash_syscalls_in_logs", int64(l.Syscalls))
	var items []crashItem
	var st crashfs.Stats
	opts := crashImgOpts
	if !c.Thorough() {
		// quick: writes longer than 128 bytes (manifest, compacted index files) get the torn lengths {1..64, every 512th,
		// last 64}; the log file's writes are shorter and always get every length
		opts.TornExhaustiveMax = 128
	}
	for im := range l.Images(opts, &st) {
		cx, err := contextOf(im)
		if err != nil {
			c.HarnessError(fmt.Sprintf("crash family: history %s image %v: %v", h, im.Desc, err))
			return false
		}
		if h.keep(cx) {
			items = append(items, crashItem{im, cx})
		}
	}
	for _, k := range []string{"P", "T", "U"} {
		c.Extra("crash_images_generated_"+k, int64(st.Generated[k])) // by the engine, before deduplication and the window filter
	}
	c.Extra("crash_writes_with_subsampled_torn_lengths", int64(st.LongTorn))
	t1 := time.Now()
	obs, notes, capped, err := recoverAll(scratch, h, items, func() bool { return crashExpired(c) })
	c.Logf("crash item %s: %d images recovered in %.1fs", h, len(items), time.Since(t1).Seconds())
	if err != nil {
		c.HarnessError("crash family: recovery batch: " + err.Error())
		return false
	}
	states := map[string]struct{}{}
	sampled := false
	for i, it := range items {
		o := obs[i]
		if o == nil {
			if n, ok := notes[i]; ok {
				c.HarnessError(fmt.Sprintf("crash family: history %s image %v: %s", h, it.im.Desc, n))
			}
			continue
		}
		im, cx := it.im, it.cx
		if o.Harness != "" || (!o.Done && o.Panic == "" && o.Died == "") {
			c.HarnessError(fmt.Sprintf("crash family: history %s image %v: %s", h, im.Desc, o.Harness))
			continue
		}
		c.Eval(1)
		c.Extra("crash_images", 1)
		c.Extra("crash_images_"+im.Desc.Kind, 1)
		c.Extra("crash_cuts_at:"+cutClass(im), 1)
		if o.State != "" {
			states[o.State] = struct{}{}
		}
		if liveN(cx.M) > 0 || cx.Infl == OpCreate {
			c.Nontrivial("crash|" + crashHistoryKey(h) + "|" + im.Desc.String())
		}
		sigs := crashSigs(o, im, cx)
		res := "ok"
		if len(sigs) > 0 {
			res = "FAIL"
			for _, f := range o.Found {
				if !f.Extra {
					res = "FAIL:" + f.Clause
					break
				}
			}
			if res == "FAIL" && len(o.Found) > 0 {
				res = "stale-entries(" + o.Found[0].Clause + ")"
			}
		}
		c.Outcome(fmt.Sprintf("crash:%s/inflight=%s/settled=%s:%s", im.Desc.Kind, cx.Infl, o.Settle, res))
		cutDesc := fmt.Sprintf("%v: %s %s", im.Desc, im.NextOp, im.NextPath)
		for _, sg := range sigs {
			c.Violation(sg[0],
				fmt.Sprintf("crash history %s, image %s; acknowledged model %s, in flight: %s — stage %s: %s", h, cutDesc, cx.M.key(), inflStr(cx), sg[1], sg[2]),
				Case{Crash: &CrashCase{History: h, Desc: im.Desc, Content: contentKey(im), Ctx: ctxKey(cx), Cut: cutDesc, Want: sg[0]}})
		}
		if len(sigs) == 0 && !sampled && c.WantSample() && im.Desc.Kind == crashfs.KindT && liveN(cx.M) > 0 && cx.InFl != nil {
			sampled = true
			c.Sample(map[string]any{"family": "crash", "history": h.String(), "image": im.Desc.String(), "at": im.NextOp + " " + im.NextPath,
				"acknowledged_live": cx.M.key(), "in_flight": inflStr(cx), "recovered_view_is_model": o.Settle, "settled_live": o.State})
		}
	}
	c.Extra("crash_distinct_recovered_states", int64(len(states)))
	if capped {
		c.Cap("the crash family's share of the budget expired (recovery of history " + h.Name + ")")
	}
	return false
}

// The crash family may use at most half of the tier's wall budget, so that on an overloaded machine the sequence
// families still run (a cap is recorded, never an alarm).
var crashDeadline time.Time

func crashShare(c *vlib.Ctx) time.Duration {
	if s := os.Getenv("C14_CRASH_SHARE_S"); s != "" { // development aid (mutation runs on an overloaded machine)
		if v, err := strconv.Atoi(s); err == nil {
			return time.Duration(v) * time.Second
		}
	}
	if c.Thorough() {
		return 390 * time.Second
	}
	return 30 * time.Second
}

func crashExpired(c *vlib.Ctx) bool { return c.Expired() || time.Now().After(crashDeadline) }

func runCrash(c *vlib.Ctx) {
	defer func() {
		if r := recover(); r != nil {
			c.HarnessError(fmt.Sprintf("crash family: explorer panicked: %v\n%s", r, debug.Stack()))
		}
	}()
	if os.Getenv("C14_ONLY") == "seq" || os.Getenv("C14_ONLY") == "small" {
		return
	}
	scratch := vlib.Scratch("c14c-")
	defer os.RemoveAll(scratch)
	crashDeadline = time.Now().Add(crashShare(c))
	for hi, h := range crashHistories(c.Tier) {
		if !c.Mine(int64(hi)) {
			continue
		}
		if crashExpired(c) {
			c.Cap("the crash family's share of the budget expired (before history " + h.Name + ")")
			break
		}
		if crashHistoryRun(c, scratch, h) {
			return
		}
	}
}

func replayCrash(cs *CrashCase) (bool, string) {
	scratch := vlib.Scratch("c14cr-")
	defer os.RemoveAll(scratch)
	h := cs.History
	im, cx, msg := findCrashImage(scratch, cs)
	if im == nil {
		return false, msg
	}
	dir, _ := os.MkdirTemp(scratch, "img-")
	res, out, err := runCrashRecovery(dir, h, []crashItem{{im, cx}}, isolatedTimeout)
	if err != nil {
		return false, "recovery could not be run: " + err.Error()
	}
	obs := fmt.Sprintf("crash history %s image %s (content %s; acknowledged model %s, in flight: %s): ", h, normPath(cs.Cut), cs.Content, cx.M.key(), inflStr(cx))
	o := res["0"]
	if o == nil {
		o = &CrashObs{ID: "0", Died: deathClass(out)}
	}
	if o.Harness != "" {
		return false, obs + "harness problem: " + o.Harness
	}
	var other []string
	for _, sg := range crashSigs(o, im, cx) {
		if sg[0] == cs.Want || cs.Want == "" {
			return true, obs + fmt.Sprintf("stage %s: %s [%s]", sg[1], sg[2], sg[0])
		}
		other = append(other, sg[0])
	}
	return false, obs + fmt.Sprintf("class %q not reproduced (recovered view settled on %s = %s; other classes %v)", cs.Want, o.State, o.Settle, other)
}

func TestCheck(t *testing.T) {
	if js := os.Getenv("VERIF_CRASH_WRITER"); js != "" {
		os.Exit(crashWriterMain(js))
	}
	if jp := os.Getenv("VERIF_C14_RECOVER"); jp != "" {
		os.Exit(crashRecoverMain(jp))
	}
	if n := os.Getenv("VERIF_C14_DUMP"); n != "" { // development aid: print the event list of one crash history
		for _, h := range crashHistories("thorough") {
			if h.Name != n {
				continue
			}
			scratch := vlib.Scratch("c14d-")
			defer os.RemoveAll(scratch)
			l, err := recordCrashHistory(scratch, h)
			if err != nil {
				fmt.Println("record:", err)
				return
			}
			for _, e := range l.Events {
				n, sum := len(e.Data), sha256.Sum256(e.Data)
				if len(e.Data) > 16 {
					e.Data = e.Data[:16]
				}
				b, _ := json.Marshal(e)
				fmt.Println(n, hex.EncodeToString(sum[:4]), string(b))
			}
			return
		}
		return
	}
	vlib.Main(t, &vlib.Check{
		ID: "C14", Level: "model_checking", QuickBudgetS: 70, ThoroughBudgetS: 820, WorkerEnv: []string{"GOMAXPROCS=1"},
		Rule: "every op sequence within the stated length bounds, each executed from scratch on a real tsi1.Index on a real tsdb.SeriesFile in a fresh directory, over a universe of 6 series (S0 m0,a=x; S1 m0,a=y; S2 m0,a=x,b=x; S3 m0,b=y; S4 m1,a=x; S5 m1,a=y,b=x: 2 measurements x 2 tag keys x 2 values; S2 is the only holder of m0.b=x). " +
			"Ops: create{S0},{S2},{S4},{S0..S3},{S0..S5} (Index.CreateSeriesListIfNotExists); dropS S0|S2|S4 = the engine's series delete in a single-shard database (Index.DropSeries(id,key,false), DropMeasurementIfSeriesNotExist, SeriesFile.DeleteSeriesID); dropM m0 = the engine's measurement delete (the same for every series of m0); dropMd m0|m1 = Index.DropMeasurement called directly, then the series ids deleted from the series file; reopen = Index.Close, SeriesFile.Close, SeriesFile.Open, Index.Open; compact = forced log compaction at the step boundary (log threshold 1 on every partition, Index.Compact()+Wait() until no partition needs compaction: log -> L1, L1+L1 -> L2, ..., threshold restored). " +
			"Configurations: explicit (default 1 MiB log threshold, 1 partition: files change only at compact ops), auto (threshold 1, 1 partition: every op's log file is rolled and compacted at once, awaited after every Index call), mid (threshold 40 bytes, 2 partitions: rolls after ~3 entries, awaited), explicit-nocache (explicit with tsi1.WithSeriesIDCacheSize(0): the Index keeps no tag-value series-id cache, so every TagValueSeriesIDIterator is answered from the file sets). " +
			"RE-ADD FAMILY shared-readd (explicit-nocache; its length-4 part runs FIRST of all parts in both tiers, before the small schedule part and the crash family: 20 histories per worker): the life of one series id inside and across log files — alphabet {create{S0}, dropI S0 (index-only drop: the series-file entry stays, a re-creation gets the SAME id back, so one log file sees add / tombstone / re-add entries of one id), create{S2} (another series, sharing the tag value a=x with S0, created afterwards), compact (the active log file becomes an index file, which from then on is not the newest file of the file set), reopen}; every sequence of length EXACTLY 4 in which no op is immediately followed by itself (320 sequences; every shorter sequence is a prefix of one and is judged after each of its steps, its restart is the reopen op). Quick, with the budget left after all other families: the same for length exactly 5 (1280). Thorough: length 4 first of all; shared-readd-wide = the alphabet plus dropI S2, length exactly 5 (3750), the first sequential family after the small schedule part and the crash family; shared-readd-deep = the 5-op alphabet at length exactly 6 (5120: two compactions around a re-add, i.e. the re-add log file as the older input of a level compaction), after the core families of length 4. A violation seen after a step is recorded with the prefix up to that step as its case. " +
			"Other families in visiting order — quick: explicit full 13-op alphabet length <=2; auto and mid (12 ops, no explicit compact) <=2; shared-explicit <=3 and shared-auto <=2 over {create{S0},{S0..S3}, dropI S0|S2|{S0..S3} = the engine's series delete when another shard still holds the series (no SeriesFile.DeleteSeriesID, a re-creation gets the same id), reopen, compact}; explicit-core length exactly 3 over the 8-op m0-only alphabet {create{S0},{S2},{S0..S3}, dropS S2, dropM m0, dropMd m0, reopen, compact}. Thorough: explicit/auto/mid full <=3, shared-explicit <=4, shared-auto <=4, explicit/auto/mid core =4, explicit full =4, shared-explicit =5, explicit-core =5. " +
			"After EVERY op, after a final restart, and after each of three probe ops on the restarted index (create all 6 series; engine delete of m0; of m1 — index-only drops in the shared families) every metadata query is compared with the view of the model's live series: MeasurementIterator, MeasurementExists(m); TagKeyIterator(m), HasTagKey(m,k); TagValueIterator(m,k), HasTagValue(m,k,v) on the Index; MeasurementSeriesIDIterator(m), TagKeySeriesIDIterator(m,k), TagValueSeriesIDIterator(m,k,v) through tsdb.IndexSet{index, series file} (ids mapped back to series) for both measurements, both keys, both values (also for measurements/keys/values that no longer exist: expected empty/false); and for every (m,k,v) the same series set read with the tag-value cache BYPASSED: Partition.TagValueSeriesIDIterator(m,k,v) of every partition (= FileSet.TagValueSeriesIDIterator, what the Index computes on a cache miss), ids the series file reports as deleted removed, must equal the live series having k=v — in every family, every configuration, the schedule parts and the crash family. A history is executed to its end; every distinct violation class it shows is recorded. " +
			"State = model state (per series live / dropped-but-still-in-series-file / absent) + file layout per partition (log empty/non-empty, index file levels); transition = one executed op; trace = one complete history validated on the implementation. Non-trivial = histories containing a create (distinct by construction), executions with >= 1 preemption; in the shared-readd families only histories in which a log file holding the tombstone AND the later re-creation of one series id is compacted (outcome class compact:log-with-drop+re-add-of-one-id; 1 of the 320 sequences of length 4, 16 of length 5). " +
			"SCHEDULE PART (thorough tier only, with the wall budget the sequential families leave; the evidence names the phase it stopped in): log threshold 1, 1 partition, nothing awaited between calls; initial index content in {empty, create{S0..S3}, create{S0..S3}+dropS S2} (fully compacted), ONE writer thread running every program of length 1 (then 2) over {create{S0},{S2},{S0..S3}, dropS S2, dropM m0} against the partition's own goroutines (checkLogFile -> go Compact -> go compactLogFile / compactToLevel, manifest swap, file removal), which are started by the writer's calls; phases: every schedule with 0 preemptions (all orders of goroutines at blocking points), then <= 1 preemption for length 1, then <= 1 for length 2, at every Lock/RLock of tsi1/partition.go and tsi1/log_file.go (vsched: baton passing inside a synctest bubble; atomics/Once pass silently). When the writer has finished, all compactions are awaited and every query is compared with the writer's model; then restart + probe as above. A class seen only under a schedule other than the preemption-free one is reported as schedule-dependent/<class>; deadlock and step-cap are violations. For the schedule part states = decision nodes of the schedule trees, transitions = scheduling steps, traces = executions. " +
			"SMALL SCHEDULE PART (engine vsched; BOTH tiers, runs right after the re-add family of length 4, limited to 20 s quick / 100 s thorough of wall time; its decision nodes / scheduling steps / executions are added to states / transitions / traces and reported separately as sched_small_states / sched_small_transitions / sched_small_traces, per scenario as sched_small_traces_scenario_<i>): 1 partition, index opened with the default log threshold, the initial create stays in the active log file L0-1; then the partition's log threshold is lowered to 1 so that the non-empty log file is DUE for retirement (the state of a log file older than maxLogFileAge; every log file the writer fills becomes due as well, so its own CheckLogFile rolls it and starts go Compact -> go compactLogFile -> manifest swap -> log-file removal -> follow-up Compact / level compaction, all in the partition's own goroutines under the scheduler). Threads: ONE writer creating 1-2 series batches through Index.CreateSeriesListIfNotExists, against either the partition's periodic-compaction tick (the ticker case of Partition.runPeriodicCompaction: if NeedsCompaction(true) { Compact() }) or a second writer creating one batch. Quick scenarios: init create{S0}: writer [create{S1}] || tick, <= 2 preemptions; writer [create{S1}] || writer2 [create{S4}], <= 1 preemption; writer [create{S4}] || tick, <= 1 preemption; writer [create{S2}, create{S3}] || tick, <= 2 deviations from the default schedule (every non-default choice costs 1) (about 1.1 k executions in all). Thorough (9 scenarios, about 9.5 k executions): the tick scenarios with <= 3 preemptions, two writers <= 2, inits create{S0..S3} / create{S4} / empty with <= 2 preemptions, writer [create{S2}, create{S3}] || tick with <= 3 deviations from the default schedule (every non-default choice costs 1), writer [create{S0}, create{S1}] on an empty log || tick and three batches over two writers with <= 2 deviations. Decision points: every write Lock of Partition.mu and LogFile.mu, the RLocks of the writer's path (RetainFileSet, createSeriesListIfNotExists, CheckLogFile), of the compaction's log-file read (LogFile.CompactTo) and of NeedsCompaction, and the threads' call boundaries; other RLocks pass silently (but block while the lock is write-held). When the harness threads have finished the scheduler is drained, ALL compactions are awaited (threshold 1: every log file is compacted, then the levels) and every metadata query is compared with the view of the acknowledged creates (set union); then Index and series file are restarted (compactions awaited) and every query is compared again. Every class seen here is reported as schedule-dependent/<class> (the writers only create: nothing is stale by design); deadlock and step cap are violations (sched-small/...). " +
			"CRASH FAMILY (additional clause, engine crashfs; counted under the crash_* coverage keys and the crash:* outcomes, not under states/transitions/traces; limited to 30 s quick / 390 s thorough of wall time): histories performed by a writer subprocess (PerformHistory on the real Index + series file, GOMAXPROCS=1) under strace with BEGIN/ACK markers around the initial open of the empty directory and every op; the process exits without closing. Quick: 4 hand-picked histories, every cut (log-appends [create{S0..S3}, dropS S2, create{S4}, dropM m0, create{S0}] with the default log threshold, plus the initial open; shared [create{S0..S3}, dropI S0, reopen, create{S0}, dropI{S0..S3}]; compact [create{S0..S5}, compact (log -> L1 .tsi written and synced, manifest tmp written, synced, renamed, log removed), dropS S2, dropMd m1, create{S2}]; auto-compact (log threshold 1, compaction awaited inside the op) [create{S0,S2}, dropS S2]), split into 13 work items by op window (each item re-records the history and evaluates the cuts of its ops only). Thorough: one work item per op, compact with a second compaction (L1+L1 -> L2), auto-compact with 3 ops, reopen-drop, mid (threshold 40 bytes, 2 partitions), plus EVERY sequence of length 1..2 over the 8-op crash alphabet {create{S0},{S2},{S0..S3}, dropS S2, dropM m0, dropMd m0, reopen, compact} (cuts of the last op only). Per history every prefix of the syscall-level event list (P), every torn length 1..n-1 of the write in flight (T; quick: writes longer than 128 bytes, i.e. manifest and .tsi files, get {1..64, every 512th, last 64}; log-file writes are all shorter), and for the sync classes (*.tsl log files, MANIFEST*, *.tsi) the images with un-fsynced data dropped or its last write torn (U); directory operations in program order; images deduplicated by (content, acknowledged ops, op in flight). One evaluation = one (image, acknowledgement context) recovered in a fresh subprocess by CheckRecovery with compactions awaited: real SeriesFile.Open + Index.Open on the image, every metadata query; then the three probe ops (create all 6 series; engine delete of m0; of m1 — index-only drops for the shared history) with every query after each; then a second restart and every query again. Crash oracle: Open and every query succeed; with no op in flight the answers equal the view of the acknowledged live series; with an op in flight the answers equal the view before the op, after it, or after applying it to a subset of its series, or else every single answer lies between the live series before and after the op (its log entries are not written atomically); after each probe op and after the second restart the answers equal the model exactly. A stale item (\"extra\") is reported under the sequential part's signature (the registered by-design staleness of tsi1 matches it); a missing item, a failing open/query/op, a panic or a dead recovery process gets a crash/ signature (clause, stage, kind of op in flight, kind of file the cut lies in). Non-trivial crash case = at least one acknowledged live series or a create in flight.",
		Assumptions: []string{
			"series sets are read through tsdb.IndexSet (the reader every consumer of a shard's index uses), which removes ids the series file reports as deleted; the raw Index iterators are known to keep such ids by design (Case.Raw reads them for diagnosis only)",
			"a series drop is the engine's call sequence (tsm1.Engine.deleteSeriesRange): DropSeries(cascade=false) + DropMeasurementIfSeriesNotExist + SeriesFile.DeleteSeriesID; the dropI ops omit the last call exactly as the engine does when another shard of the database still contains the series",
			"after every Index call in the auto/mid configurations the harness waits until no compaction is running or pending (sequential part: compaction only at step boundaries); explicit compaction is forced by lowering the partition's log threshold through a test-only setter (overlay export_verif_c14.go)",
			"names, keys and values are compared as sets (a duplicate is reported as extra); order is not judged",
			"schedule part: sequentially consistent interleavings at sync/atomic granularity of partition.go and log_file.go only (index.go, index_file.go, the series file keep the real sync package and run atomically between two points); queries are made at quiescence only (no reader thread), one writer",
			"in all configurations but explicit-nocache the tag-value series-id cache of the Index is warm (every step queries every tag value), as on a server that answers queries between writes: there Index/IndexSet.TagValueSeriesIDIterator show what the cache says; what the files say is read at every step through the partitions' own iterators (cache bypassed) and, in explicit-nocache, through the Index itself",
			"shared-readd families: only sequences without an immediately repeated op (a repeated create / compact / reopen changes nothing; a repeated index-only drop is in the shared-explicit family) and only the family's maximal length is enumerated — shorter sequences are covered as prefixes, judged after every step, but without the three probe ops of the final restart",
			"crash family: ordered-metadata crash model (creates/renames/unlinks persist in program order; data of sync-class files may be lost back to the last fsync = U images; a write in flight may persist any byte prefix = T images); event order = syscall completion order (the series file writes its partitions from concurrent goroutines: a replay searches its own recording for the image by content)",
			"crash family: the series-file segments are not a sync class here (their durability is C13's business): their data is never dropped, only cut by P/T images",
			"crash family: the recovery checker waits for the compactions the restart itself starts before it reads or probes (quiescent index)",
			"the re-add family of length 4 runs first (320 histories over the 16 workers, not limited), then the small schedule part (at most 20 s quick / 100 s thorough), then the crash family, which may use at most 30 s quick / 390 s thorough; beyond that each is capped (exhaustive:false), never an alarm",
			"small schedule part: the due state of the active log file is produced by lowering the size threshold to 1 after the initial create (test-only setter of the overlay) instead of letting maxLogFileAge (4 h) pass; the periodic-compaction tick is played by a harness thread running the body of the ticker case of Partition.runPeriodicCompaction; sequentially consistent interleavings at Lock/RLock granularity of partition.go and log_file.go only; queries at quiescence only; writers only create series",
		},
		Run: func(c *vlib.Ctx) {
			base := vlib.Scratch("c14-")
			defer os.RemoveAll(base)
			var idx int64
			runFamily := func(fam family) (complete bool) {
				capped := false
				forEachSeq(fam.alphabet, fam.minLen, fam.maxLen, func(ops []Op) bool {
					if fam.noRepeat && hasRepeat(ops) {
						return true
					}
					idx++
					if !c.Mine(idx) {
						return true
					}
					if c.Expired() {
						capped = true
						return false
					}
					cs := Case{Cfg: fam.cfg, Ops: ops, Tail: true, Probe: fam.probe()}
					rr := runCase(base, cs)
					c.Eval(1)
					c.Trace(1)
					c.Transition(rr.Steps)
					for _, s := range rr.States {
						c.State(fam.cfg.Name + "|" + s)
					}
					nt := false
					for _, o := range ops {
						nt = nt || o.Kind == OpCreate
					}
					if fam.readd() {
						nt = rr.ReaddCompacted
					}
					if nt {
						c.NontrivialN(1)
					}
					for _, o := range rr.Outcomes {
						c.Outcome(fam.name + ":" + o)
					}
					if rr.Harness != "" {
						c.HarnessError(fmt.Sprintf("%s [%s]: %s", fam.name, opsString(ops), rr.Harness))
						return true
					}
					if len(rr.Found) == 0 {
						if rr.Final != nil {
							c.Outcome(fmt.Sprintf("%s:end:%d-measurements/%d-live", fam.name, len(rr.Final.Names), liveN(rr.Model)))
						}
						if c.WantSample() && len(ops) >= 3 && rr.Final != nil && len(rr.Final.Names) > 0 && strings.Contains(opsString(ops), "drop") {
							c.Sample(map[string]any{"family": fam.name, "ops": opsString(ops), "live": rr.Model.key(), "measurements": rr.Final.Names, "m0_series": rr.Final.MSeries["m0"], "m0_keys": rr.Final.Keys["m0"]})
						}
						return true
					}
					for _, fd := range rr.Found {
						c.Outcome("FAIL:" + fd.Sig[:strings.LastIndex(fd.Sig, "/")])
						cs.Want = fd.Sig
						where := fmt.Sprintf("after step %d (final %s)", fd.Step, fd.Stage)
						if fd.Step < len(ops) {
							where = fmt.Sprintf("after step %d (%s)", fd.Step, ops[fd.Step])
						}
						if fam.readd() && fd.Step < len(ops) {
							// the class shows after a step of the history: the recorded case is the prefix up to that step
							// (every shorter sequence is in the family's space as a prefix)
							cs.Ops = ops[:fd.Step+1]
						}
						c.Violation(fd.Sig, fmt.Sprintf("family %s, ops [%s], %s: %s", fam.name, opsString(cs.Ops), where, fd.Why), cs)
						cs.Ops = ops
					}
					return true
				})
				if capped {
					if fam.readd() {
						c.Cap(fmt.Sprintf("budget expired inside family %s (length exactly %d, %d-op alphabet); all earlier families of the list are complete", fam.name, fam.maxLen, len(fam.alphabet)))
						return false
					}
					c.Cap(fmt.Sprintf("budget expired inside family %s (lengths %d..%d); all earlier families of the list are complete, this one for all shorter lengths", fam.name, fam.minLen, fam.maxLen))
					return false
				}
				return true
			}
			fams := families(c.Thorough())
			// the re-add family of length 4 (320 histories, about a second per shard) goes first of all: it is the smallest part
			if o := os.Getenv("C14_ONLY"); (o == "" || o == "seq") && len(fams) > 0 && fams[0].readd() {
				if !runFamily(fams[0]) {
					return
				}
				fams = fams[1:]
			}
			if o := os.Getenv("C14_ONLY"); o == "" || o == "small" {
				share := 20 * time.Second
				if c.Thorough() {
					share = 100 * time.Second
				}
				if v := envInt("C14_SMALL_SHARE_S", 0); v > 0 { // development aid
					share = time.Duration(v) * time.Second
				}
				runSmallSchedules(t, c, share) // small schedule part next: of fixed size, limited to its share
				if o == "small" {
					return
				}
			}
			runCrash(c) // crash family next: of fixed size and limited to its share of the budget
			if os.Getenv("C14_ONLY") == "crash" {
				return
			}
			for _, fam := range fams {
				if !runFamily(fam) {
					return
				}
			}
			// schedule part: phases of (writer program length, preemption bound), simplest first
			type phase struct{ progLen, bound int }
			var phases []phase // quick tier: sequential part only
			if c.Thorough() {
				phases = []phase{{1, 0}, {1, 1}, {2, 1}}
			}
			if l := envInt("C14_SCHED_LEN", 0); l > 0 {
				phases = []phase{{l, envInt("C14_SCHED_BOUND", 1)}}
			}
			for pi, ph := range phases {
				scs := schedScenarios(ph.progLen)
				for si, sc := range scs {
					if !c.Mine(int64(si)) {
						continue
					}
					if c.Expired() || !runSched(t, c, base, sc, ph.bound) {
						c.Cap(fmt.Sprintf("budget expired in the schedule part, phase %d of %d (writer programs of length %d, preemption bound %d); the sequential families and the earlier schedule phases are complete", pi+1, len(phases), ph.progLen, ph.bound))
						return
					}
				}
				if c.Shard == 0 {
					c.Extra(fmt.Sprintf("sched_scenarios_len%d_bound%d", ph.progLen, ph.bound), int64(len(scs)))
				}
			}
		},
		Replay: func(c *vlib.Ctx, raw json.RawMessage) (bool, string) {
			var cs Case
			if err := json.Unmarshal(raw, &cs); err != nil {
				return false, err.Error()
			}
			if cs.Crash != nil {
				return replayCrash(cs.Crash)
			}
			if cs.Sched {
				// the scheduler orders the goroutines the repo code spawns by goroutine id = creation order only while a
				// single P hands out the ids (the workers run with GOMAXPROCS=1; the parent's confirmation replays and
				// `vf replay` must do the same)
				defer runtime.GOMAXPROCS(runtime.GOMAXPROCS(1))
			}
			if cs.Sched && cs.Small {
				return replaySmallSched(t, cs)
			}
			if cs.Sched {
				return replaySched(t, cs)
			}
			base := vlib.Scratch("c14r-")
			defer os.RemoveAll(base)
			rr := runCase(base, cs)
			obs := fmt.Sprintf("cfg=%+v ops=[%s]", cs.Cfg, opsString(cs.Ops))
			if rr.Harness != "" {
				return false, obs + " -> harness problem: " + rr.Harness
			}
			if cs.Want == "" && len(rr.Found) > 0 { // hand-written case: report every class seen
				for _, fd := range rr.Found {
					obs += fmt.Sprintf("\n  step %d %s: %s [%s]", fd.Step, fd.Stage, fd.Why, fd.Sig)
				}
				return true, obs
			}
			for _, fd := range rr.Found {
				if fd.Sig == cs.Want {
					return true, obs + fmt.Sprintf(" -> step %d %s: %s [%s]", fd.Step, fd.Stage, fd.Why, fd.Sig)
				}
			}
			var other []string
			for _, fd := range rr.Found {
				other = append(other, fd.Sig)
			}
			return false, obs + fmt.Sprintf(" -> class %q not reproduced (live=%s, other classes %v)", cs.Want, rr.Model.key(), other)
		},
	})
}

func liveN(m *Model) int {
	n := 0
	for _, l := range m.Live {
		if l {
			n++
		}
	}
	return n
}
