// C14: index metadata queries stay correct across compaction and restart.
//
// Bounded-history part (level model_checking): every op sequence up to the depth bound over a 6-series
// universe is executed on a real tsi1.Index (+ real series file) in a fresh directory; after every step every
// metadata query is compared with the model "set of live series".
//
// Split for the crash-image engine:
//   - PerformHistory = history writer (op list on a directory, Begin/Ack through an Acker);
//   - CheckRecovery  = recovery checker (open the directory with the real code, ReadIndex, Compare with the
//     model of acknowledged ops (+ one op in flight)).
package c14

import (
	"encoding/json"
	"fmt"
	"os"
	"path/filepath"
	"sort"
	"strconv"
	"strings"
	"testing"
	"testing/synctest"

	"github.com/influxdata/influxdb/v2/models"
	"github.com/influxdata/influxdb/v2/pkg/verifrt/vrt"
	"github.com/influxdata/influxdb/v2/tsdb"
	"github.com/influxdata/influxdb/v2/tsdb/index/tsi1"
	"verif/h/vlib"
)

// ---------------------------------------------------------------------------------------------------------
// universe: 6 series over 2 measurements x 2 tag keys x 2 values

type SeriesDef struct {
	Name string
	Tags [][2]string // sorted by key
}

var Universe = []SeriesDef{
	{"m0", [][2]string{{"a", "x"}}},             // S0
	{"m0", [][2]string{{"a", "y"}}},             // S1
	{"m0", [][2]string{{"a", "x"}, {"b", "x"}}}, // S2
	{"m0", [][2]string{{"b", "y"}}},             // S3
	{"m1", [][2]string{{"a", "x"}}},             // S4
	{"m1", [][2]string{{"a", "y"}, {"b", "x"}}}, // S5
}

var (
	Measurements = []string{"m0", "m1"}
	TagKeys      = []string{"a", "b"}
	TagValues    = []string{"x", "y"}
)

func (s SeriesDef) mtags() models.Tags {
	m := map[string]string{}
	for _, t := range s.Tags {
		m[t[0]] = t[1]
	}
	return models.NewTags(m)
}

func (s SeriesDef) String() string {
	r := s.Name
	for _, t := range s.Tags {
		r += "," + t[0] + "=" + t[1]
	}
	return r
}

func (s SeriesDef) tag(k string) (string, bool) {
	for _, t := range s.Tags {
		if t[0] == k {
			return t[1], true
		}
	}
	return "", false
}

// ---------------------------------------------------------------------------------------------------------
// ops

const (
	OpCreate  = "create"  // Index.CreateSeriesListIfNotExists(set)
	OpDropS   = "dropS"   // engine's series delete in a single-shard database: for the series: Index.DropSeries(id,key,false); DropMeasurementIfSeriesNotExist(name); SeriesFile.DeleteSeriesID(id)
	OpDropI   = "dropI"   // the same when another shard still holds the series: no SeriesFile.DeleteSeriesID
	OpDropM   = "dropM"   // engine's measurement delete: DropSeries(...,false) for every series of the measurement, DropMeasurementIfSeriesNotExist, SeriesFile.DeleteSeriesID for each
	OpDropMd  = "dropMd"  // Index.DropMeasurement(name) directly (with live series), then SeriesFile.DeleteSeriesID for each of its series
	OpDropMi  = "dropMi"  // Index.DropMeasurement(name) directly, series stay in the series file (held by another shard)
	OpCompact = "compact" // force log compaction at this step boundary: threshold 1 on every partition, Index.Compact()+Wait() until nothing is left to compact, threshold restored
	OpReopen  = "reopen"  // Index.Close, SeriesFile.Close, SeriesFile.Open, Index.Open (restart)
)

type Op struct {
	Kind string `json:"op"`
	S    []int  `json:"s,omitempty"` // series indexes (create, dropS, dropI)
	M    string `json:"m,omitempty"` // measurement (dropM*)
}

func (o Op) String() string {
	switch {
	case o.M != "":
		return o.Kind + "(" + o.M + ")"
	case len(o.S) > 0:
		s := make([]string, len(o.S))
		for i, k := range o.S {
			s[i] = "S" + strconv.Itoa(k)
		}
		return o.Kind + "(" + strings.Join(s, ",") + ")"
	}
	return o.Kind
}

func opsString(ops []Op) string {
	s := make([]string, len(ops))
	for i, o := range ops {
		s[i] = o.String()
	}
	return strings.Join(s, " ")
}

// Cfg is the fixture configuration.
type Cfg struct {
	Name string `json:"name"`
	// MaxLog: tsi1.WithMaximumLogFileSize; 0 = the default (1 MiB: nothing is compacted unless forced by the
	// compact op); 1 = every non-empty log file is rolled and compacted right after the op that wrote it.
	MaxLog int64 `json:"max_log"`
	PartN  int   `json:"part_n"` // Index.PartitionN (power of two)
	// Settle: after every op call Index.Compact()+Wait() until no partition needs compaction (needed for
	// determinism whenever MaxLog is small enough for ops to trigger background compactions).
	Settle bool `json:"settle"`
}

type OpResult struct {
	Err string `json:"err,omitempty"`
}

type Acker interface {
	Begin(k int, v any)
	Ack(k int, result string)
}

type nopAcker struct{}

func (nopAcker) Begin(int, any)  {}
func (nopAcker) Ack(int, string) {}

// World is an open series file + index on a directory.
type World struct {
	Dir string
	Cfg Cfg
	SF  *tsdb.SeriesFile
	Idx *tsi1.Index
}

func OpenWorld(dir string, cfg Cfg) (*World, error) {
	w := &World{Dir: dir, Cfg: cfg}
	w.SF = tsdb.NewSeriesFile(filepath.Join(dir, "_series"))
	if err := w.SF.Open(); err != nil {
		return nil, fmt.Errorf("series file: %w", err)
	}
	if err := w.openIndex(); err != nil {
		w.SF.Close()
		return nil, err
	}
	return w, nil
}

func (w *World) openIndex() error {
	opts := []tsi1.IndexOption{tsi1.WithPath(filepath.Join(w.Dir, "index"))}
	if w.Cfg.MaxLog > 0 {
		opts = append(opts, tsi1.WithMaximumLogFileSize(w.Cfg.MaxLog))
	}
	pn := w.Cfg.PartN
	if pn == 0 {
		pn = 1
	}
	opts = append(opts, func(i *tsi1.Index) { i.PartitionN = uint64(pn) })
	w.Idx = tsi1.NewIndex(w.SF, "db0", opts...)
	if err := w.Idx.Open(); err != nil {
		w.Idx = nil
		return fmt.Errorf("index: %w", err)
	}
	if w.Cfg.Settle {
		w.settle()
	}
	return nil
}

func (w *World) Close() {
	if w.Idx != nil {
		w.Idx.Close()
		w.Idx = nil
	}
	if w.SF != nil {
		w.SF.Close()
		w.SF = nil
	}
}

func (w *World) partN() int {
	if w.Cfg.PartN == 0 {
		return 1
	}
	return w.Cfg.PartN
}

// settle: Compact()+Wait() until no partition reports work (a finished compaction schedules the next level
// itself, but only after it has decremented the running counter Wait() polls).
func (w *World) settle() {
	for round := 0; round < 100; round++ {
		w.Idx.Compact()
		w.Idx.Wait()
		need := false
		for i := 0; i < w.partN(); i++ {
			need = need || w.Idx.PartitionAt(i).NeedsCompaction(false)
		}
		if !need {
			return
		}
	}
}

func (w *World) maybeSettle() {
	if w.Cfg.Settle {
		w.settle()
	}
}

func (w *World) forceCompact() {
	old := make([]int64, w.partN())
	for i := range old {
		p := w.Idx.PartitionAt(i)
		old[i] = p.VerifMaxLogFileSize()
		p.VerifSetMaxLogFileSize(1)
	}
	w.settle()
	for i := range old {
		w.Idx.PartitionAt(i).VerifSetMaxLogFileSize(old[i])
	}
}

func (w *World) seriesID(s int) uint64 {
	return w.SF.SeriesID([]byte(Universe[s].Name), Universe[s].mtags(), nil)
}

func (w *World) dropSeries(ss []int, sfileToo bool) error {
	var ids []uint64
	names := map[string]bool{}
	for _, s := range ss {
		id := w.seriesID(s)
		if id == 0 {
			continue // engine: series unknown to the series file is skipped
		}
		u := Universe[s]
		if err := w.Idx.DropSeries(id, models.MakeKey([]byte(u.Name), u.mtags()), false); err != nil {
			return err
		}
		w.maybeSettle()
		names[u.Name] = true
		ids = append(ids, id)
	}
	for _, m := range Measurements {
		if names[m] {
			if _, err := w.Idx.DropMeasurementIfSeriesNotExist([]byte(m)); err != nil {
				return err
			}
			w.maybeSettle()
		}
	}
	if sfileToo {
		for _, id := range ids {
			if _, err := w.SF.DeleteSeriesID(id, tsdb.Flush); err != nil {
				return err
			}
		}
	}
	return nil
}

func seriesOf(m string) []int {
	var r []int
	for i, u := range Universe {
		if u.Name == m {
			r = append(r, i)
		}
	}
	return r
}

// Exec performs one op on the open world.
func (w *World) Exec(op Op) error {
	switch op.Kind {
	case OpCreate:
		var keys, names [][]byte
		var tags []models.Tags
		for _, s := range op.S {
			u := Universe[s]
			t := u.mtags()
			names = append(names, []byte(u.Name))
			tags = append(tags, t)
			keys = append(keys, models.MakeKey([]byte(u.Name), t))
		}
		if err := w.Idx.CreateSeriesListIfNotExists(keys, names, tags); err != nil {
			return err
		}
	case OpDropS:
		if err := w.dropSeries(op.S, true); err != nil {
			return err
		}
	case OpDropI:
		if err := w.dropSeries(op.S, false); err != nil {
			return err
		}
	case OpDropM:
		if err := w.dropSeries(seriesOf(op.M), true); err != nil {
			return err
		}
	case OpDropMd, OpDropMi:
		var ids []uint64
		for _, s := range seriesOf(op.M) {
			if id := w.seriesID(s); id != 0 {
				ids = append(ids, id)
			}
		}
		if err := w.Idx.DropMeasurement([]byte(op.M)); err != nil {
			return err
		}
		if op.Kind == OpDropMd {
			for _, id := range ids {
				if _, err := w.SF.DeleteSeriesID(id, tsdb.Flush); err != nil {
					return err
				}
			}
		}
	case OpCompact:
		w.forceCompact()
		return nil
	case OpReopen:
		if err := w.Idx.Close(); err != nil {
			return fmt.Errorf("index close: %w", err)
		}
		w.Idx = nil
		if err := w.SF.Close(); err != nil {
			return fmt.Errorf("series file close: %w", err)
		}
		w.SF = tsdb.NewSeriesFile(filepath.Join(w.Dir, "_series"))
		if err := w.SF.Open(); err != nil {
			w.SF = nil
			return fmt.Errorf("series file reopen: %w", err)
		}
		return w.openIndex()
	default:
		panic("unknown op " + op.Kind)
	}
	if w.Cfg.Settle {
		w.settle()
	}
	return nil
}

// PerformHistory is the history writer. The world is returned open (nil after a failed open/reopen).
func PerformHistory(dir string, cfg Cfg, ops []Op, ack Acker, after func(step int, op Op, res OpResult, w *World) bool) (results []OpResult, w *World, err error) {
	if ack == nil {
		ack = nopAcker{}
	}
	if w, err = OpenWorld(dir, cfg); err != nil {
		return nil, nil, err
	}
	for step, op := range ops {
		ack.Begin(step, op)
		var res OpResult
		if e := w.Exec(op); e != nil {
			res.Err = e.Error()
		}
		b, _ := json.Marshal(res)
		ack.Ack(step, string(b))
		results = append(results, res)
		if w.Idx == nil || w.SF == nil {
			w.Close()
			return results, nil, fmt.Errorf("step %d %s: %s", step, op, res.Err)
		}
		if after != nil && !after(step, op, res, w) {
			break
		}
	}
	return results, w, nil
}

// ---------------------------------------------------------------------------------------------------------
// model: the set of live series

type Model struct {
	Live [6]bool
	// InSF: the series currently has an id in the series file that the index was told about (dropI / dropMi
	// leave it there). Only used for outcome classes.
	Shared [6]bool
}

func (m *Model) Apply(op Op) {
	switch op.Kind {
	case OpCreate:
		for _, s := range op.S {
			m.Live[s] = true
			m.Shared[s] = false
		}
	case OpDropS, OpDropI:
		for _, s := range op.S {
			if m.Live[s] && op.Kind == OpDropI {
				m.Shared[s] = true
			}
			if op.Kind == OpDropS {
				m.Shared[s] = false
			}
			m.Live[s] = false
		}
	case OpDropM, OpDropMd, OpDropMi:
		for _, s := range seriesOf(op.M) {
			if m.Live[s] && op.Kind == OpDropMi {
				m.Shared[s] = true
			}
			if op.Kind != OpDropMi {
				m.Shared[s] = false
			}
			m.Live[s] = false
		}
	}
}

func (m *Model) key() string {
	b := make([]byte, 6)
	for i := range b {
		switch {
		case m.Live[i]:
			b[i] = 'L'
		case m.Shared[i]:
			b[i] = 's'
		default:
			b[i] = '-'
		}
	}
	return string(b)
}

// View is the answer to every metadata query, in canonical form (sorted; series as universe indexes).
type View struct {
	Names   []string            // MeasurementIterator
	Exists  map[string]bool     // MeasurementExists(m)
	Keys    map[string][]string // TagKeyIterator(m)
	HasKey  map[string]bool     // HasTagKey(m,k)            key "m/k"
	Values  map[string][]string // TagValueIterator(m,k)     key "m/k"
	HasVal  map[string]bool     // HasTagValue(m,k,v)        key "m/k/v"
	MSeries map[string][]string // MeasurementSeriesIDIterator(m)       -> series names
	KSeries map[string][]string // TagKeySeriesIDIterator(m,k)
	VSeries map[string][]string // TagValueSeriesIDIterator(m,k,v)
}

func newView() *View {
	return &View{Exists: map[string]bool{}, Keys: map[string][]string{}, HasKey: map[string]bool{}, Values: map[string][]string{}, HasVal: map[string]bool{},
		MSeries: map[string][]string{}, KSeries: map[string][]string{}, VSeries: map[string][]string{}}
}

// Expected builds the view of a set of live series (the statement's right-hand side).
func Expected(live [6]bool) *View {
	v := newView()
	add := func(l []string, s string) []string {
		for _, x := range l {
			if x == s {
				return l
			}
		}
		return append(l, s)
	}
	for _, m := range Measurements {
		v.Keys[m] = nil
		v.MSeries[m] = nil
		for _, k := range TagKeys {
			v.Values[m+"/"+k] = nil
			v.KSeries[m+"/"+k] = nil
			for _, val := range TagValues {
				v.VSeries[m+"/"+k+"/"+val] = nil
			}
		}
	}
	for i, u := range Universe {
		if !live[i] {
			continue
		}
		sn := "S" + strconv.Itoa(i)
		v.Names = add(v.Names, u.Name)
		v.Exists[u.Name] = true
		v.MSeries[u.Name] = add(v.MSeries[u.Name], sn)
		for _, t := range u.Tags {
			mk := u.Name + "/" + t[0]
			v.Keys[u.Name] = add(v.Keys[u.Name], t[0])
			v.HasKey[mk] = true
			v.Values[mk] = add(v.Values[mk], t[1])
			v.HasVal[mk+"/"+t[1]] = true
			v.KSeries[mk] = add(v.KSeries[mk], sn)
			v.VSeries[mk+"/"+t[1]] = add(v.VSeries[mk+"/"+t[1]], sn)
		}
	}
	v.sortAll()
	return v
}

func (v *View) sortAll() {
	sort.Strings(v.Names)
	for _, mp := range []map[string][]string{v.Keys, v.Values, v.MSeries, v.KSeries, v.VSeries} {
		for k := range mp {
			sort.Strings(mp[k])
		}
	}
}

// IDNames maps series ids to printable names. Ids are learnt from the series file (fixture bookkeeping:
// after every op the current id of every universe series is recorded; an id seen earlier for series i and
// no longer current is a past incarnation "S<i>'" — if a query returns it, a dropped series is being listed).
type IDNames struct {
	cur  [6]uint64
	name map[uint64]string
}

func NewIDNames() *IDNames { return &IDNames{name: map[uint64]string{}} }

func (n *IDNames) Learn(w *World) {
	for i := range Universe {
		id := w.seriesID(i)
		if id != 0 {
			n.name[id] = "S" + strconv.Itoa(i)
		}
		if old := n.cur[i]; old != 0 && old != id {
			n.name[old] = "S" + strconv.Itoa(i) + "'"
		}
		n.cur[i] = id
	}
}

func (n *IDNames) of(id uint64) string {
	if s, ok := n.name[id]; ok {
		return s
	}
	return "unknown-id"
}

func drainBytes(next func() ([]byte, error)) ([]string, error) {
	var out []string
	for {
		b, err := next()
		if err != nil {
			return out, err
		}
		if b == nil {
			return out, nil
		}
		out = append(out, string(b))
	}
}

func drainIDs(itr tsdb.SeriesIDIterator, err error, n *IDNames) ([]string, error) {
	if err != nil {
		return nil, err
	}
	if itr == nil {
		return nil, nil
	}
	defer itr.Close()
	var out []string
	for {
		e, err := itr.Next()
		if err != nil {
			return out, err
		}
		if e.SeriesID == 0 {
			return out, nil
		}
		out = append(out, n.of(e.SeriesID))
	}
}

// ReadIndex runs every metadata query. Name/key/value queries go to the Index itself; series sets are read
// through tsdb.IndexSet{idx, series file} — the reader every consumer of a shard's index uses, which drops
// ids the series file reports as deleted — unless raw is set (Index methods directly).
func ReadIndex(w *World, n *IDNames, raw bool) (*View, error) {
	v := newView()
	idx := w.Idx
	ids := func(itr tsdb.SeriesIDIterator, err error) ([]string, error) { return drainIDs(itr, err, n) }
	is := tsdb.IndexSet{Indexes: []tsdb.Index{idx}, SeriesFile: w.SF}
	mitr, err := idx.MeasurementIterator()
	if err != nil {
		return nil, fmt.Errorf("MeasurementIterator: %w", err)
	}
	if mitr != nil {
		v.Names, err = drainBytes(mitr.Next)
		mitr.Close()
		if err != nil {
			return nil, fmt.Errorf("MeasurementIterator.Next: %w", err)
		}
	}
	for _, m := range Measurements {
		mb := []byte(m)
		ok, err := idx.MeasurementExists(mb)
		if err != nil {
			return nil, fmt.Errorf("MeasurementExists: %w", err)
		}
		if ok {
			v.Exists[m] = true
		}
		kitr, err := idx.TagKeyIterator(mb)
		if err != nil {
			return nil, fmt.Errorf("TagKeyIterator: %w", err)
		}
		v.Keys[m] = nil
		if kitr != nil {
			v.Keys[m], err = drainBytes(kitr.Next)
			kitr.Close()
			if err != nil {
				return nil, fmt.Errorf("TagKeyIterator.Next: %w", err)
			}
		}
		if raw {
			v.MSeries[m], err = ids(idx.MeasurementSeriesIDIterator(mb))
		} else {
			v.MSeries[m], err = ids(is.MeasurementSeriesIDIterator(mb))
		}
		if err != nil {
			return nil, fmt.Errorf("MeasurementSeriesIDIterator: %w", err)
		}
		for _, k := range TagKeys {
			kb := []byte(k)
			mk := m + "/" + k
			if ok, err := idx.HasTagKey(mb, kb); err != nil {
				return nil, fmt.Errorf("HasTagKey: %w", err)
			} else if ok {
				v.HasKey[mk] = true
			}
			vitr, err := idx.TagValueIterator(mb, kb)
			if err != nil {
				return nil, fmt.Errorf("TagValueIterator: %w", err)
			}
			v.Values[mk] = nil
			if vitr != nil {
				v.Values[mk], err = drainBytes(vitr.Next)
				vitr.Close()
				if err != nil {
					return nil, fmt.Errorf("TagValueIterator.Next: %w", err)
				}
			}
			if raw {
				v.KSeries[mk], err = ids(idx.TagKeySeriesIDIterator(mb, kb))
			} else {
				v.KSeries[mk], err = ids(is.TagKeySeriesIDIterator(mb, kb))
			}
			if err != nil {
				return nil, fmt.Errorf("TagKeySeriesIDIterator: %w", err)
			}
			for _, val := range TagValues {
				vb := []byte(val)
				if ok, err := idx.HasTagValue(mb, kb, vb); err != nil {
					return nil, fmt.Errorf("HasTagValue: %w", err)
				} else if ok {
					v.HasVal[mk+"/"+val] = true
				}
				if raw {
					v.VSeries[mk+"/"+val], err = ids(idx.TagValueSeriesIDIterator(mb, kb, vb))
				} else {
					v.VSeries[mk+"/"+val], err = ids(is.TagValueSeriesIDIterator(mb, kb, vb))
				}
				if err != nil {
					return nil, fmt.Errorf("TagValueSeriesIDIterator: %w", err)
				}
			}
		}
	}
	v.sortAll()
	return v, nil
}

// Fail is one broken clause.
type Fail struct {
	Query string // the query that answered wrongly
	Group string // measurement-names | tag-keys | tag-values | series-set
	Dir   string // extra (lists something no live series has) | missing (a live series' item is not listed)
	M     string // measurement the query was about ("" = all)
	Why   string
}

func diffList(got, want []string) (extra, missing []string) {
	g, w := map[string]int{}, map[string]bool{}
	for _, x := range got {
		g[x]++
	}
	for _, x := range want {
		w[x] = true
	}
	for _, x := range got {
		if !w[x] || g[x] > 1 {
			extra = append(extra, x)
			g[x] = 1
			w[x] = true // report duplicates once
		}
	}
	for _, x := range want {
		if g[x] == 0 {
			missing = append(missing, x)
		}
	}
	return
}

// CompareViews reports every difference between the answers and the view of the live series, in a fixed
// query order.
func CompareViews(got, want *View) (fails []*Fail) {
	cmpList := func(group, query, m, arg string, g, w []string) {
		extra, missing := diffList(g, w)
		if len(missing) > 0 {
			fails = append(fails, &Fail{query, group, "missing", m, fmt.Sprintf("%s(%s) = %v, live series say %v (missing %v)", query, arg, g, w, missing)})
		}
		if len(extra) > 0 {
			fails = append(fails, &Fail{query, group, "extra", m, fmt.Sprintf("%s(%s) = %v, live series say %v (extra %v)", query, arg, g, w, extra)})
		}
	}
	cmpBool := func(group, query, m, arg string, g, w bool) {
		if g == w {
			return
		}
		dir := "extra"
		if w {
			dir = "missing"
		}
		fails = append(fails, &Fail{query, group, dir, m, fmt.Sprintf("%s(%s) = %v, live series say %v", query, arg, g, w)})
	}
	cmpList("measurement-names", "MeasurementIterator", "", "", got.Names, want.Names)
	for _, m := range Measurements {
		cmpBool("measurement-names", "MeasurementExists", m, m, got.Exists[m], want.Exists[m])
	}
	for _, m := range Measurements {
		cmpList("series-set", "MeasurementSeriesIDIterator", m, m, got.MSeries[m], want.MSeries[m])
	}
	for _, m := range Measurements {
		cmpList("tag-keys", "TagKeyIterator", m, m, got.Keys[m], want.Keys[m])
		for _, k := range TagKeys {
			cmpBool("tag-keys", "HasTagKey", m, m+","+k, got.HasKey[m+"/"+k], want.HasKey[m+"/"+k])
		}
	}
	for _, m := range Measurements {
		for _, k := range TagKeys {
			mk := m + "/" + k
			cmpList("series-set", "TagKeySeriesIDIterator", m, m+","+k, got.KSeries[mk], want.KSeries[mk])
			cmpList("tag-values", "TagValueIterator", m, m+","+k, got.Values[mk], want.Values[mk])
			for _, v := range TagValues {
				cmpBool("tag-values", "HasTagValue", m, m+","+k+","+v, got.HasVal[mk+"/"+v], want.HasVal[mk+"/"+v])
				cmpList("series-set", "TagValueSeriesIDIterator", m, m+","+k+","+v, got.VSeries[mk+"/"+v], want.VSeries[mk+"/"+v])
			}
		}
	}
	return fails
}

// Expect for the recovery checker: the model of acknowledged ops, and the op in flight (nil = exact).
type Expect struct {
	M        *Model
	InFlight *Op
}

// Probe flavours of the recovery checker.
const (
	ProbeNone   = ""       // restart + read only
	ProbeSingle = "single" // then create every series of the universe, read; engine measurement delete of m0 and m1 (series removed from the series file), read
	ProbeShared = "shared" // the same with index-only drops (series stay in the series file)
)

// ProbeOps returns the ops the recovery checker performs after its first read.
func ProbeOps(probe string) []Op {
	all := Op{Kind: OpCreate, S: []int{0, 1, 2, 3, 4, 5}}
	switch probe {
	case ProbeSingle:
		return []Op{all, {Kind: OpDropM, M: "m0"}, {Kind: OpDropM, M: "m1"}}
	case ProbeShared:
		return []Op{all, {Kind: OpDropI, S: []int{0, 1, 2, 3}}, {Kind: OpDropI, S: []int{4, 5}}}
	}
	return nil
}

// CheckRecovery opens dir with the real code, reads every query and compares with the acknowledged model;
// with an op in flight the view must equal the model before OR after that op (the statement's "± in-flight
// op"; a partially applied multi-series op is accepted if the view equals the model after applying the op to
// any subset of its series). Then the probe ops are executed on the recovered index and judged after each
// (what the restart rebuilt in memory — e.g. the partition's series-id set — only shows in how later writes
// and drops behave). report is called once per stage ("restart", "probe:<op>") with the differences found,
// the model in force and the file layout. It returns the model the first read settled on (the closest candidate).
func CheckRecovery(dir string, cfg Cfg, e Expect, n *IDNames, probe string, report func(stage string, fails []*Fail, m *Model, lay string, got *View)) (settled *Model) {
	w, err := OpenWorld(dir, cfg)
	if err != nil {
		report("restart", []*Fail{{"Open", "recovery", "open-failed", "", err.Error()}}, e.M, "", nil)
		return nil
	}
	defer w.Close()
	if n == nil {
		n = NewIDNames()
	}
	n.Learn(w)
	lay := layout(w)
	got, err := ReadIndex(w, n, false)
	if err != nil {
		report("restart", []*Fail{{"Query", "recovery", "query-error", "", err.Error()}}, e.M, lay, nil)
		return nil
	}
	cands := []*Model{e.M}
	if e.InFlight != nil {
		cands = append(cands, partials(e.M, *e.InFlight)...)
	}
	// the candidate with the fewest differences (none, if the view is right) is what the index settled on;
	// the probe goes on from there even if differences were reported
	var best []*Fail
	for i, c := range cands {
		f := CompareViews(got, Expected(c.Live))
		if i == 0 || len(f) < len(best) {
			settled, best = c, f
		}
		if len(f) == 0 {
			break
		}
	}
	report("restart", best, settled, lay, got)
	m := *settled
	for _, op := range ProbeOps(probe) {
		if err := w.Exec(op); err != nil {
			report("probe:"+op.String(), []*Fail{{"Exec", "recovery", "op-error", "", err.Error()}}, &m, lay, nil)
			return settled
		}
		m.Apply(op)
		n.Learn(w)
		got, err := ReadIndex(w, n, false)
		if err != nil {
			report("probe:"+op.String(), []*Fail{{"Query", "recovery", "query-error", "", err.Error()}}, &m, lay, nil)
			return settled
		}
		mc := m
		report("probe:"+op.String(), CompareViews(got, Expected(m.Live)), &mc, layout(w), got)
	}
	return settled
}

// partials: the models after applying op to every non-empty subset of the series it touches.
func partials(m *Model, op Op) []*Model {
	var touched []int
	switch op.Kind {
	case OpCreate, OpDropS, OpDropI:
		touched = op.S
	case OpDropM, OpDropMd, OpDropMi:
		touched = seriesOf(op.M)
	default:
		return nil
	}
	var out []*Model
	for mask := 1; mask < 1<<len(touched); mask++ {
		c := *m
		sub := op
		sub.M = ""
		sub.S = nil
		if op.Kind == OpDropM || op.Kind == OpDropMd {
			sub.Kind = OpDropS
		} else if op.Kind == OpDropMi {
			sub.Kind = OpDropI
		}
		for i, s := range touched {
			if mask&(1<<i) != 0 {
				sub.S = append(sub.S, s)
			}
		}
		c.Apply(sub)
		out = append(out, &c)
	}
	return out
}

// ---------------------------------------------------------------------------------------------------------
// one case

type Case struct {
	Cfg  Cfg  `json:"cfg"`
	Ops  []Op `json:"ops"`
	Raw  bool `json:"raw,omitempty"` // diagnostics: read series sets from the Index directly instead of through tsdb.IndexSet
	Tail bool `json:"tail"`          // after the last op: restart (recovery checker) and compare again
	// Probe: what the recovery checker does after its first read (ProbeSingle / ProbeShared / none).
	Probe string `json:"probe,omitempty"`
	// Schedule part: Init is executed (and compactions awaited) before the scheduler starts; Ops is the
	// writer thread's program; Schedule is the choice list of one execution (vrt.RunOnce).
	Sched    bool  `json:"sched,omitempty"`
	Init     []Op  `json:"init,omitempty"`
	Schedule []int `json:"schedule,omitempty"`
	// Want: the violation class this case was recorded for (a history may show several); replay reports
	// whether exactly this class reproduces.
	Want string `json:"want,omitempty"`
}

// Found is one violation class observed in a history (first occurrence).
type Found struct {
	Sig   string
	Step  int    // index into Ops; len(Ops) = restart tail
	Stage string // tail only: "restart" or "probe:<op>"
	Why   string
}

type runResult struct {
	Harness  string // non-empty: machinery problem (op returned an error, query error)
	Panic    string
	Found    []Found
	Outcomes []string
	States   []string
	Steps    int64
	Model    *Model
	Final    *View
}

func layout(w *World) string {
	var parts []string
	for i := 0; i < w.partN(); i++ {
		fs, err := w.Idx.PartitionAt(i).RetainFileSet()
		if err != nil {
			parts = append(parts, "closed")
			continue
		}
		var l []string
		for _, f := range fs.Files() {
			if lf, ok := f.(*tsi1.LogFile); ok {
				if lf.Size() == 0 {
					l = append(l, "log0")
				} else {
					l = append(l, "log")
				}
			} else {
				l = append(l, "L"+strconv.Itoa(f.Level()))
			}
		}
		fs.Release()
		parts = append(parts, strings.Join(l, "+"))
	}
	return strings.Join(parts, "|")
}

// sigOf: query group / direction / discriminating features of the situation (NOT the concrete history):
// whether the measurement asked about still has live series; whether some dropped series is still in the
// series file (index-only drop: another shard holds it); whether the partition has compacted index files.
func sigOf(cfg Cfg, f *Fail, m *Model, lay string, reopened bool) string {
	mlive := "n/a"
	if f.M != "" {
		mlive = "false"
		for _, s := range seriesOf(f.M) {
			if m.Live[s] {
				mlive = "true"
			}
		}
	}
	shared := false
	for _, s := range m.Shared {
		shared = shared || s
	}
	q := f.Group
	if f.Group == "recovery" {
		q = f.Group + ":" + f.Query
	}
	_ = reopened
	return vlib.JoinSig(q, f.Dir, fmt.Sprintf("measurementLive=%s,droppedSeriesStillInSeriesFile=%v,indexFiles=%v", mlive, shared, strings.Contains(lay, "L")))
}

func runCase(base string, cs Case) (rr runResult) {
	dir, err := os.MkdirTemp(base, "w")
	if err != nil {
		rr.Harness = err.Error()
		return
	}
	defer os.RemoveAll(dir)
	m := &Model{}
	rr.Model = m
	names := NewIDNames()
	seen := map[string]bool{}
	record := func(step int, stage string, fails []*Fail, mm *Model, lay string, reopened bool) {
		for _, f := range fails {
			sg := sigOf(cs.Cfg, f, mm, lay, reopened)
			if !seen[sg] {
				seen[sg] = true
				rr.Found = append(rr.Found, Found{sg, step, stage, f.Why})
			}
		}
	}
	reopened := false
	var w *World
	step := 0
	p, desc := vlib.Guard(func() {
		_, w, err = PerformHistory(dir, cs.Cfg, cs.Ops, nil, func(st int, op Op, res OpResult, w *World) bool {
			step = st
			rr.Steps++
			if res.Err != "" {
				rr.Harness = fmt.Sprintf("step %d: %s returned error %q", st, op, res.Err)
				return false
			}
			before := *m
			m.Apply(op)
			reopened = reopened || op.Kind == OpReopen
			names.Learn(w)
			got, err := ReadIndex(w, names, cs.Raw)
			if err != nil {
				rr.Harness = fmt.Sprintf("step %d: query error: %v", st, err)
				return false
			}
			rr.Final = got
			lay := layout(w)
			record(st, "", CompareViews(got, Expected(m.Live)), m, lay, reopened)
			oc := op.Kind
			switch {
			case before.Live == m.Live && op.Kind != OpCompact && op.Kind != OpReopen:
				oc += ":no-change"
			case op.Kind == OpCreate:
				re := false
				for _, s := range op.S {
					re = re || (!before.Live[s] && before.Shared[s])
				}
				if re {
					oc += ":re-add-same-id"
				}
			}
			rr.Outcomes = append(rr.Outcomes, oc)
			rr.States = append(rr.States, m.key()+"|"+lay)
			return true
		})
	})
	if w != nil {
		w.Close()
	}
	if p {
		rr.Panic = desc
		rr.Found = append(rr.Found, Found{panicSig(cs.Cfg, desc), step, "", desc})
		return
	}
	if err != nil && rr.Harness == "" {
		rr.Harness = err.Error()
	}
	if rr.Harness != "" || !cs.Tail || cs.Raw {
		return
	}
	p, desc = vlib.Guard(func() {
		CheckRecovery(dir, cs.Cfg, Expect{M: m}, names, cs.Probe, func(stage string, fails []*Fail, mm *Model, lay string, got *View) {
			rr.Steps++
			if got != nil {
				rr.Final = got
				rr.States = append(rr.States, mm.key()+"|"+lay)
			}
			for _, f := range fails {
				if f.Group == "recovery" && f.Dir != "open-failed" {
					rr.Harness = fmt.Sprintf("tail %s: %s: %s", stage, f.Query, f.Why)
					return
				}
			}
			record(len(cs.Ops), stage, fails, mm, lay, true)
		})
	})
	if p {
		rr.Panic = desc
		rr.Found = append(rr.Found, Found{panicSig(cs.Cfg, desc), len(cs.Ops), "", desc})
	}
	return
}

func panicSig(cfg Cfg, desc string) string {
	return vlib.JoinSig("panic", strings.TrimPrefix(desc[strings.LastIndex(desc, "@ ")+2:], "github.com/influxdata/influxdb/v2/"), "cfg="+cfg.Name)
}

// ---------------------------------------------------------------------------------------------------------
// schedule part: one writer thread against the partition's own compaction goroutines (vsched engine)

// CfgSched: log threshold 1, so every writing Index call rolls the active log file and starts background
// compactions (Partition.checkLogFile -> go Compact() -> go compactLogFile / compactToLevel); nothing is
// awaited between the writer's calls: the scheduler decides how far each compaction goroutine gets.
var CfgSched = Cfg{Name: "sched", MaxLog: 1, PartN: 1}

// schedFilter: which operations are decision points. C14_SCHED_POINTS=all|locks|wlocks (default locks):
// locks = every Lock/RLock of partition.go / log_file.go plus the harness hooks (atomics and Once pass
// silently: the only atomic there is the running-compactions counter that Wait() polls).
func schedFilter(kind vrt.OpKind, label string) bool {
	switch os.Getenv("C14_SCHED_POINTS") {
	case "all":
		return true
	case "wlocks":
		return kind == vrt.OpLock || kind == vrt.OpHook
	}
	return kind == vrt.OpLock || kind == vrt.OpRLock || kind == vrt.OpHook
}

// schedOut is what one execution produced.
type schedOut struct {
	Found   []Found
	Harness string
	Model   *Model
	Final   *View
}

// schedHarness: fixture (open, init ops, settle) built unscheduled; writer thread = sc.Ops; after the
// writer finished the scheduler is drained, all compactions are awaited, every query is compared with the
// model of the writer's ops (sequential model: there is one writer), then the index is restarted and probed
// (recovery checker).
func schedHarness(base string, cs Case, out *schedOut) *vrt.Harness {
	return &vrt.Harness{Name: "c14:" + opsString(cs.Init) + " | " + opsString(cs.Ops), Filter: schedFilter, Body: func(x *vrt.Exec) {
		*out = schedOut{}
		dir, err := os.MkdirTemp(base, "s")
		if err != nil {
			out.Harness = err.Error()
			return
		}
		defer os.RemoveAll(dir)
		m := &Model{}
		out.Model = m
		names := NewIDNames()
		seen := map[string]bool{}
		record := func(step int, stage string, fails []*Fail, mm *Model, lay string) {
			for _, f := range fails {
				sg := sigOf(cs.Cfg, f, mm, lay, true)
				if !seen[sg] {
					seen[sg] = true
					out.Found = append(out.Found, Found{sg, step, stage, f.Why})
				}
			}
		}
		w, err := OpenWorld(dir, cs.Cfg)
		if err != nil {
			out.Harness = "open: " + err.Error()
			return
		}
		for _, op := range cs.Init {
			if err := w.Exec(op); err != nil {
				out.Harness = fmt.Sprintf("init %s: %v", op, err)
				w.Close()
				return
			}
			m.Apply(op)
			w.settle()
		}
		w.settle()
		synctest.Wait() // start-up goroutines (runPeriodicCompaction's first Compact) have come to rest
		var opErr string
		x.Go("writer", func() {
			for i, op := range cs.Ops {
				vrt.Hook("op:" + op.Kind)
				if err := w.Exec(op); err != nil {
					opErr = fmt.Sprintf("op %d %s: %v", i, op, err)
					return
				}
				m.Apply(op)
			}
		})
		x.Run()
		if x.S.Deadlock || x.S.StepCap {
			x.S.Abort()
			w.Close()
			return
		}
		x.S.Drain()
		if opErr != "" {
			out.Harness = opErr
			w.settle()
			w.Close()
			return
		}
		w.settle()
		names.Learn(w)
		got, err := ReadIndex(w, names, false)
		if err != nil {
			out.Harness = "query: " + err.Error()
			w.Close()
			return
		}
		out.Final = got
		record(len(cs.Ops)-1, "quiescent", CompareViews(got, Expected(m.Live)), m, layout(w))
		w.Close()
		rcfg := cs.Cfg
		rcfg.Settle = true
		CheckRecovery(dir, rcfg, Expect{M: m}, names, ProbeSingle, func(stage string, fails []*Fail, mm *Model, lay string, got *View) {
			for _, f := range fails {
				if f.Group == "recovery" && f.Dir != "open-failed" {
					out.Harness = fmt.Sprintf("tail %s: %s: %s", stage, f.Query, f.Why)
					return
				}
			}
			record(len(cs.Ops), stage, fails, mm, lay)
		})
	}}
}

// SchedAlphabet: the writer's ops (single-shard flavour).
func SchedAlphabet() []Op {
	return []Op{
		{Kind: OpCreate, S: []int{0}}, {Kind: OpCreate, S: []int{2}}, {Kind: OpCreate, S: []int{0, 1, 2, 3}},
		{Kind: OpDropS, S: []int{2}}, {Kind: OpDropM, M: "m0"},
	}
}

// SchedInits: what the index holds (fully compacted) when the writer starts.
func SchedInits() [][]Op {
	return [][]Op{
		nil,
		{{Kind: OpCreate, S: []int{0, 1, 2, 3}}},
		{{Kind: OpCreate, S: []int{0, 1, 2, 3}}, {Kind: OpDropS, S: []int{2}}},
	}
}

func schedScenarios(progLen int) []Case {
	var out []Case
	for _, in := range SchedInits() {
		forEachSeq(SchedAlphabet(), progLen, progLen, func(ops []Op) bool {
			out = append(out, Case{Cfg: CfgSched, Sched: true, Init: in, Ops: ops})
			return true
		})
	}
	return out
}

// runSched explores every schedule of one scenario with <= bound preemptions. Classes that also show in the
// preemption-free execution of the same scenario are reported under their plain signature (they are the
// sequential classes); a class that appears only under some other schedule gets the prefix
// "schedule-dependent/".
func runSched(t *testing.T, c *vlib.Ctx, base string, sc Case, bound int) (complete bool) {
	var out schedOut
	h := schedHarness(base, sc, &out)
	r0 := vrt.RunOnce(t, h, nil)
	if r0.Diverged != "" {
		c.HarnessError("sched " + h.Name + ": " + r0.Diverged)
		return true
	}
	base0 := map[string]bool{}
	for _, fd := range out.Found {
		base0[fd.Sig] = true
	}
	st := vrt.Explore(t, h, bound, 0, 1, c.Expired, func(r *vrt.Result) {
		c.Eval(1)
		if r.Preempts > 0 {
			c.NontrivialN(1)
		}
		if r.Diverged != "" {
			c.HarnessError("sched " + h.Name + ": " + r.Diverged)
			return
		}
		cs := sc
		cs.Schedule = r.Choices
		if r.Deadlock || r.StepCap {
			what := "deadlock"
			if r.StepCap {
				what = "livelock(step cap)"
			}
			c.Outcome("sched:" + what)
			cs.Want = vlib.JoinSig("sched", what)
			c.Violation(cs.Want, fmt.Sprintf("init [%s], writer [%s]: %s: %s", opsString(sc.Init), opsString(sc.Ops), what, strings.Join(r.Blocked, "; ")), cs)
			return
		}
		if out.Harness != "" {
			c.HarnessError(fmt.Sprintf("sched init [%s] writer [%s] schedule %v: %s", opsString(sc.Init), opsString(sc.Ops), r.Choices, out.Harness))
			return
		}
		if len(out.Found) == 0 && out.Final != nil {
			c.Outcome(fmt.Sprintf("sched:end:%d-measurements/%d-live/%d-preemptions", len(out.Final.Names), liveN(out.Model), r.Preempts))
		}
		for _, fd := range out.Found {
			sg := fd.Sig
			if !base0[sg] {
				sg = "schedule-dependent/" + sg
			}
			c.Outcome("FAIL:sched:" + sg[:strings.LastIndex(sg, "/")])
			cs.Want = sg
			c.Violation(sg, fmt.Sprintf("schedule part: init [%s], writer [%s], %d preemptions, final %s: %s", opsString(sc.Init), opsString(sc.Ops), r.Preempts, fd.Stage, fd.Why), cs)
		}
		if c.WantSample() && r.Preempts == bound && len(out.Found) == 0 {
			c.Sample(map[string]any{"part": "schedules", "init": opsString(sc.Init), "writer": opsString(sc.Ops), "schedule": r.Choices, "preemptions": r.Preempts})
		}
	})
	c.StateN(st.Nodes)
	c.Transition(st.Transitions)
	c.Trace(st.Executions)
	return st.Complete
}

// replaySched re-executes one recorded schedule.
func replaySched(t *testing.T, cs Case) (bool, string) {
	base := vlib.Scratch("c14s-")
	defer os.RemoveAll(base)
	var out schedOut
	h := schedHarness(base, cs, &out)
	r0 := vrt.RunOnce(t, h, nil)
	base0 := map[string]bool{}
	for _, fd := range out.Found {
		base0[fd.Sig] = true
	}
	r := vrt.RunOnce(t, h, cs.Schedule)
	obs := fmt.Sprintf("schedule part: init=[%s] writer=[%s] schedule=%v", opsString(cs.Init), opsString(cs.Ops), cs.Schedule)
	if r.Diverged != "" || r0.Diverged != "" {
		return false, obs + " -> diverged: " + r.Diverged + r0.Diverged
	}
	if r.Deadlock || r.StepCap {
		return strings.HasPrefix(cs.Want, "sched/"), obs + fmt.Sprintf(" -> deadlock=%v stepcap=%v blocked=%v", r.Deadlock, r.StepCap, r.Blocked)
	}
	if out.Harness != "" {
		return false, obs + " -> harness problem: " + out.Harness
	}
	for _, fd := range out.Found {
		sg := fd.Sig
		if !base0[sg] {
			sg = "schedule-dependent/" + sg
		}
		if sg == cs.Want || cs.Want == "" {
			return true, obs + fmt.Sprintf(" -> %s: %s [%s]", fd.Stage, fd.Why, sg)
		}
	}
	return false, obs + fmt.Sprintf(" -> class %q not reproduced", cs.Want)
}

// ---------------------------------------------------------------------------------------------------------
// enumeration

func forEachSeq(alphabet []Op, minLen, maxLen int, f func(ops []Op) bool) {
	for n := minLen; n <= maxLen; n++ {
		idx := make([]int, n)
		for {
			ops := make([]Op, n)
			for i, a := range idx {
				ops[i] = alphabet[a]
			}
			if !f(ops) {
				return
			}
			i := n - 1
			for ; i >= 0; i-- {
				idx[i]++
				if idx[i] < len(alphabet) {
					break
				}
				idx[i] = 0
			}
			if i < 0 {
				break
			}
		}
	}
}

var (
	CfgExplicit = Cfg{Name: "explicit", MaxLog: 0, PartN: 1}
	CfgAuto     = Cfg{Name: "auto", MaxLog: 1, PartN: 1, Settle: true}
	CfgMid      = Cfg{Name: "mid", MaxLog: 40, PartN: 2, Settle: true}
)

// FullAlphabet: single-shard database (every drop also deletes from the series file, as the engine does).
func FullAlphabet(withCompact bool) []Op {
	a := []Op{
		{Kind: OpCreate, S: []int{0}}, {Kind: OpCreate, S: []int{2}}, {Kind: OpCreate, S: []int{4}},
		{Kind: OpCreate, S: []int{0, 1, 2, 3}}, {Kind: OpCreate, S: []int{0, 1, 2, 3, 4, 5}},
		{Kind: OpDropS, S: []int{0}}, {Kind: OpDropS, S: []int{2}}, {Kind: OpDropS, S: []int{4}},
		{Kind: OpDropM, M: "m0"}, {Kind: OpDropMd, M: "m0"}, {Kind: OpDropMd, M: "m1"},
		{Kind: OpReopen},
	}
	if withCompact {
		a = append(a, Op{Kind: OpCompact})
	}
	return a
}

// SharedAlphabet: the dropped series stay in the series file (another shard of the database holds them),
// so a re-creation gets the same series id back.
func SharedAlphabet(withCompact bool) []Op {
	a := []Op{
		{Kind: OpCreate, S: []int{0}}, {Kind: OpCreate, S: []int{0, 1, 2, 3}},
		{Kind: OpDropI, S: []int{0}}, {Kind: OpDropI, S: []int{2}}, {Kind: OpDropI, S: []int{0, 1, 2, 3}},
		{Kind: OpReopen},
	}
	if withCompact {
		a = append(a, Op{Kind: OpCompact})
	}
	return a
}

// CoreAlphabet: the deep alphabet — measurement m0 only, the ops whose interplay decides what a file set
// answers (a series that is the only holder of a tag key/value, measurement tombstone, forced compaction,
// restart).
func CoreAlphabet(withCompact bool) []Op {
	a := []Op{
		{Kind: OpCreate, S: []int{0}}, {Kind: OpCreate, S: []int{2}}, {Kind: OpCreate, S: []int{0, 1, 2, 3}},
		{Kind: OpDropS, S: []int{2}}, {Kind: OpDropM, M: "m0"}, {Kind: OpDropMd, M: "m0"},
		{Kind: OpReopen},
	}
	if withCompact {
		a = append(a, Op{Kind: OpCompact})
	}
	return a
}

type family struct {
	name     string
	cfg      Cfg
	alphabet []Op
	minLen   int
	maxLen   int
}

func (f family) probe() string {
	if strings.HasPrefix(f.name, "shared") {
		return ProbeShared
	}
	return ProbeSingle
}

func envInt(name string, def int) int {
	if s := os.Getenv(name); s != "" {
		if v, err := strconv.Atoi(s); err == nil {
			return v
		}
	}
	return def
}

// families in visiting order (simplest first). A "core"/deep family starts at the length where the full
// alphabet of the same configuration stops (its alphabet is a subset of the full one).
func families(thorough bool) []family {
	if os.Getenv("C14_ONLY_SCHED") != "" {
		return nil
	}
	if d := envInt("C14_DEPTH", -1); d >= 0 {
		return []family{{"explicit", CfgExplicit, FullAlphabet(true), 0, d}, {"auto", CfgAuto, FullAlphabet(false), 0, d}, {"mid", CfgMid, FullAlphabet(false), 0, d},
			{"shared-explicit", CfgExplicit, SharedAlphabet(true), 0, d}, {"shared-auto", CfgAuto, SharedAlphabet(false), 0, d}}
	}
	if !thorough {
		return []family{
			{"explicit", CfgExplicit, FullAlphabet(true), 0, 2},
			{"auto", CfgAuto, FullAlphabet(false), 0, 2},
			{"mid", CfgMid, FullAlphabet(false), 0, 2},
			{"shared-explicit", CfgExplicit, SharedAlphabet(true), 0, 3},
			{"shared-auto", CfgAuto, SharedAlphabet(false), 0, 2},
			{"explicit-core", CfgExplicit, CoreAlphabet(true), 3, 3},
		}
	}
	return []family{
		{"explicit", CfgExplicit, FullAlphabet(true), 0, 3},
		{"auto", CfgAuto, FullAlphabet(false), 0, 3},
		{"mid", CfgMid, FullAlphabet(false), 0, 3},
		{"shared-explicit", CfgExplicit, SharedAlphabet(true), 0, 4},
		{"shared-auto", CfgAuto, SharedAlphabet(false), 0, 4},
		{"explicit-core", CfgExplicit, CoreAlphabet(true), 4, 4},
		{"auto-core", CfgAuto, CoreAlphabet(false), 4, 4},
		{"mid-core", CfgMid, CoreAlphabet(false), 4, 4},
		{"explicit", CfgExplicit, FullAlphabet(true), 4, 4},
		{"shared-explicit", CfgExplicit, SharedAlphabet(true), 5, 5},
		{"explicit-core", CfgExplicit, CoreAlphabet(true), 5, 5},
	}
}

func TestCheck(t *testing.T) {
	vlib.Main(t, &vlib.Check{
		ID: "C14", Level: "model_checking", QuickBudgetS: 45, ThoroughBudgetS: 780, WorkerEnv: []string{"GOMAXPROCS=1"},
		Rule: "every op sequence within the stated length bounds, each executed from scratch on a real tsi1.Index on a real tsdb.SeriesFile in a fresh directory, over a universe of 6 series (S0 m0,a=x; S1 m0,a=y; S2 m0,a=x,b=x; S3 m0,b=y; S4 m1,a=x; S5 m1,a=y,b=x: 2 measurements x 2 tag keys x 2 values; S2 is the only holder of m0.b=x). " +
			"Ops: create{S0},{S2},{S4},{S0..S3},{S0..S5} (Index.CreateSeriesListIfNotExists); dropS S0|S2|S4 = the engine's series delete in a single-shard database (Index.DropSeries(id,key,false), DropMeasurementIfSeriesNotExist, SeriesFile.DeleteSeriesID); dropM m0 = the engine's measurement delete (the same for every series of m0); dropMd m0|m1 = Index.DropMeasurement called directly, then the series ids deleted from the series file; reopen = Index.Close, SeriesFile.Close, SeriesFile.Open, Index.Open; compact = forced log compaction at the step boundary (log threshold 1 on every partition, Index.Compact()+Wait() until no partition needs compaction: log -> L1, L1+L1 -> L2, ..., threshold restored). " +
			"Configurations: explicit (default 1 MiB log threshold, 1 partition: files change only at compact ops), auto (threshold 1, 1 partition: every op's log file is rolled and compacted at once, awaited after every Index call), mid (threshold 40 bytes, 2 partitions: rolls after ~3 entries, awaited). " +
			"Families in visiting order — quick: explicit full 13-op alphabet length <=2; auto and mid (12 ops, no explicit compact) <=2; shared-explicit <=3 and shared-auto <=2 over {create{S0},{S0..S3}, dropI S0|S2|{S0..S3} = the engine's series delete when another shard still holds the series (no SeriesFile.DeleteSeriesID, a re-creation gets the same id), reopen, compact}; explicit-core length exactly 3 over the 8-op m0-only alphabet {create{S0},{S2},{S0..S3}, dropS S2, dropM m0, dropMd m0, reopen, compact}. Thorough: explicit/auto/mid full <=3, shared-explicit <=4, shared-auto <=4, explicit/auto/mid core =4, explicit full =4, shared-explicit =5, explicit-core =5. " +
			"After EVERY op, after a final restart, and after each of three probe ops on the restarted index (create all 6 series; engine delete of m0; of m1 — index-only drops in the shared families) every metadata query is compared with the view of the model's live series: MeasurementIterator, MeasurementExists(m); TagKeyIterator(m), HasTagKey(m,k); TagValueIterator(m,k), HasTagValue(m,k,v) on the Index; MeasurementSeriesIDIterator(m), TagKeySeriesIDIterator(m,k), TagValueSeriesIDIterator(m,k,v) through tsdb.IndexSet{index, series file} (ids mapped back to series) for both measurements, both keys, both values (also for measurements/keys/values that no longer exist: expected empty/false). A history is executed to its end; every distinct violation class it shows is recorded. " +
			"State = model state (per series live / dropped-but-still-in-series-file / absent) + file layout per partition (log empty/non-empty, index file levels); transition = one executed op; trace = one complete history validated on the implementation. Non-trivial = histories containing a create (distinct by construction), executions with >= 1 preemption. " +
			"SCHEDULE PART (thorough tier only, with the wall budget the sequential families leave; the evidence names the phase it stopped in): log threshold 1, 1 partition, nothing awaited between calls; initial index content in {empty, create{S0..S3}, create{S0..S3}+dropS S2} (fully compacted), ONE writer thread running every program of length 1 (then 2) over {create{S0},{S2},{S0..S3}, dropS S2, dropM m0} against the partition's own goroutines (checkLogFile -> go Compact -> go compactLogFile / compactToLevel, manifest swap, file removal), which are started by the writer's calls; phases: every schedule with 0 preemptions (all orders of goroutines at blocking points), then <= 1 preemption for length 1, then <= 1 for length 2, at every Lock/RLock of tsi1/partition.go and tsi1/log_file.go (vsched: baton passing inside a synctest bubble; atomics/Once pass silently). When the writer has finished, all compactions are awaited and every query is compared with the writer's model; then restart + probe as above. A class seen only under a schedule other than the preemption-free one is reported as schedule-dependent/<class>; deadlock and step-cap are violations. For the schedule part states = decision nodes of the schedule trees, transitions = scheduling steps, traces = executions. " +
			"Crash images are NOT part of this run.",
		Assumptions: []string{
			"series sets are read through tsdb.IndexSet (the reader every consumer of a shard's index uses), which removes ids the series file reports as deleted; the raw Index iterators are known to keep such ids by design (Case.Raw reads them for diagnosis only)",
			"a series drop is the engine's call sequence (tsm1.Engine.deleteSeriesRange): DropSeries(cascade=false) + DropMeasurementIfSeriesNotExist + SeriesFile.DeleteSeriesID; the dropI ops omit the last call exactly as the engine does when another shard of the database still contains the series",
			"after every Index call in the auto/mid configurations the harness waits until no compaction is running or pending (sequential part: compaction only at step boundaries); explicit compaction is forced by lowering the partition's log threshold through a test-only setter (overlay export_verif_c14.go)",
			"names, keys and values are compared as sets (a duplicate is reported as extra); order is not judged",
			"schedule part: sequentially consistent interleavings at sync/atomic granularity of partition.go and log_file.go only (index.go, index_file.go, the series file keep the real sync package and run atomically between two points); queries are made at quiescence only (no reader thread), one writer",
			"the tag-value series-id cache of the Index is warm (every step queries every tag value), as on a server that answers queries between writes",
		},
		Run: func(c *vlib.Ctx) {
			base := vlib.Scratch("c14-")
			defer os.RemoveAll(base)
			var idx int64
			for _, fam := range families(c.Thorough()) {
				fam := fam
				capped := false
				forEachSeq(fam.alphabet, fam.minLen, fam.maxLen, func(ops []Op) bool {
					idx++
					if !c.Mine(idx) {
						return true
					}
					if c.Expired() {
						capped = true
						return false
					}
					cs := Case{Cfg: fam.cfg, Ops: ops, Tail: true, Probe: fam.probe()}
					rr := runCase(base, cs)
					c.Eval(1)
					c.Trace(1)
					c.Transition(rr.Steps)
					for _, s := range rr.States {
						c.State(fam.cfg.Name + "|" + s)
					}
					nt := false
					for _, o := range ops {
						nt = nt || o.Kind == OpCreate
					}
					if nt {
						c.NontrivialN(1)
					}
					for _, o := range rr.Outcomes {
						c.Outcome(fam.name + ":" + o)
					}
					if rr.Harness != "" {
						c.HarnessError(fmt.Sprintf("%s [%s]: %s", fam.name, opsString(ops), rr.Harness))
						return true
					}
					if len(rr.Found) == 0 {
						if rr.Final != nil {
							c.Outcome(fmt.Sprintf("%s:end:%d-measurements/%d-live", fam.name, len(rr.Final.Names), liveN(rr.Model)))
						}
						if c.WantSample() && len(ops) >= 3 && rr.Final != nil && len(rr.Final.Names) > 0 && strings.Contains(opsString(ops), "drop") {
							c.Sample(map[string]any{"family": fam.name, "ops": opsString(ops), "live": rr.Model.key(), "measurements": rr.Final.Names, "m0_series": rr.Final.MSeries["m0"], "m0_keys": rr.Final.Keys["m0"]})
						}
						return true
					}
					for _, fd := range rr.Found {
						c.Outcome("FAIL:" + fd.Sig[:strings.LastIndex(fd.Sig, "/")])
						cs.Want = fd.Sig
						where := fmt.Sprintf("after step %d (final %s)", fd.Step, fd.Stage)
						if fd.Step < len(ops) {
							where = fmt.Sprintf("after step %d (%s)", fd.Step, ops[fd.Step])
						}
						c.Violation(fd.Sig, fmt.Sprintf("family %s, ops [%s], %s: %s", fam.name, opsString(ops), where, fd.Why), cs)
					}
					return true
				})
				if capped {
					c.Cap(fmt.Sprintf("budget expired inside family %s (lengths %d..%d); all earlier families of the list are complete, this one for all shorter lengths", fam.name, fam.minLen, fam.maxLen))
					return
				}
			}
			// schedule part: phases of (writer program length, preemption bound), simplest first
			type phase struct{ progLen, bound int }
			var phases []phase // quick tier: sequential part only
			if c.Thorough() {
				phases = []phase{{1, 0}, {1, 1}, {2, 1}}
			}
			if l := envInt("C14_SCHED_LEN", 0); l > 0 {
				phases = []phase{{l, envInt("C14_SCHED_BOUND", 1)}}
			}
			for pi, ph := range phases {
				scs := schedScenarios(ph.progLen)
				for si, sc := range scs {
					if !c.Mine(int64(si)) {
						continue
					}
					if c.Expired() || !runSched(t, c, base, sc, ph.bound) {
						c.Cap(fmt.Sprintf("budget expired in the schedule part, phase %d of %d (writer programs of length %d, preemption bound %d); the sequential families and the earlier schedule phases are complete", pi+1, len(phases), ph.progLen, ph.bound))
						return
					}
				}
				if c.Shard == 0 {
					c.Extra(fmt.Sprintf("sched_scenarios_len%d_bound%d", ph.progLen, ph.bound), int64(len(scs)))
				}
			}
		},
		Replay: func(c *vlib.Ctx, raw json.RawMessage) (bool, string) {
			var cs Case
			if err := json.Unmarshal(raw, &cs); err != nil {
				return false, err.Error()
			}
			if cs.Sched {
				return replaySched(t, cs)
			}
			base := vlib.Scratch("c14r-")
			defer os.RemoveAll(base)
			rr := runCase(base, cs)
			obs := fmt.Sprintf("cfg=%+v ops=[%s]", cs.Cfg, opsString(cs.Ops))
			if rr.Harness != "" {
				return false, obs + " -> harness problem: " + rr.Harness
			}
			if cs.Want == "" && len(rr.Found) > 0 { // hand-written case: report every class seen
				for _, fd := range rr.Found {
					obs += fmt.Sprintf("\n  step %d %s: %s [%s]", fd.Step, fd.Stage, fd.Why, fd.Sig)
				}
				return true, obs
			}
			for _, fd := range rr.Found {
				if fd.Sig == cs.Want {
					return true, obs + fmt.Sprintf(" -> step %d %s: %s [%s]", fd.Step, fd.Stage, fd.Why, fd.Sig)
				}
			}
			var other []string
			for _, fd := range rr.Found {
				other = append(other, fd.Sig)
			}
			return false, obs + fmt.Sprintf(" -> class %q not reproduced (live=%s, other classes %v)", cs.Want, rr.Model.key(), other)
		},
	})
}

func liveN(m *Model) int {
	n := 0
	for _, l := range m.Live {
		if l {
			n++
		}
	}
	return n
}
