// C27: replication forwards every queued batch, in order, until the remote accepts it.
//
// Stateless model checking of the REAL replication pipeline — durableQueueManager, the replicationQueue.run
// goroutine, remotewrite.writer / PostWrite (influx-cli API client, net/http client + transport) and the durable
// queue on tmpfs — inside a testing/synctest bubble, so that the retry timer, the back-off, the 2 min client
// time-out, the 10 s scanner-advance ticker and the 60 s purge ticker all run on FAKE time. The remote is an
// in-process HTTP/1.1 peer reached through net.Pipe (http.DefaultTransport.DialContext is replaced before the
// writer clones it), i.e. durably blocking for synctest.
//
// The driver explores a game tree: whenever the pipeline is quiescent (synctest.Wait) it chooses
//   - while a request is pending at the remote: answer it with 204 or with one of the fault kinds, or enqueue the
//     next batch (enqueue "before the response");
//   - while no request is pending (back-off or idle): wait for the next request, or enqueue the next batch
//     (enqueue "after the response").
//
// Every path with ≤ F fault responses and ≤ N batches is executed from scratch (DFS over choice sequences).
//
// The oracle is a reference monitor written from the property statement (it never calls the code under test):
// order of first posts, removal only after acceptance / 400+drop / age > max age, exact fake-time retry delays,
// and eventual acceptance of everything enqueued.
package c27

import (
	"bufio"
	"context"
	"encoding/json"
	"errors"
	"fmt"
	"io"
	"net"
	"net/http"
	"os"
	"path/filepath"
	"runtime"
	"strings"
	"sync"
	"sync/atomic"
	"testing"
	"testing/synctest"
	"time"

	influxdb "github.com/influxdata/influxdb/v2"
	"github.com/influxdata/influxdb/v2/kit/platform"
	"github.com/influxdata/influxdb/v2/replications/metrics"
	rmock "github.com/influxdata/influxdb/v2/replications/mock"
	"go.uber.org/zap"
	"verif/h/vlib"
)

const (
	startOffset  = 10100 * time.Millisecond // first enqueue; not a multiple of 250 ms so that no retry instant coincides with a purge tick
	purgeEvery   = 60 * time.Second         // replications/internal.purgeInterval
	clientTO     = 2 * time.Minute          // remotewrite.DefaultTimeout
	slowDelay    = 11 * time.Second         // "slow204": longer than scannerAdvanceInterval (10 s)
	horizonBusy  = 1000 * time.Second       // > every reachable retry delay
	horizonEmpty = 130 * time.Second
	shardDepth   = 3
)

var (
	replID   = platform.ID(0x27)
	orgID    = platform.ID(2)
	bucketID = platform.ID(3)
)

// ---------------------------------------------------------------------------------------------------------------
// case description

type Cfg struct {
	Drop    bool     `json:"drop_non_retryable"`
	MaxAge  int64    `json:"max_age_s"`
	F       []int    `json:"max_faults_by_batches"` // a fault is offered while faults used < F[batches enqueued − 1]
	N       int      `json:"max_batches"`
	Alpha   []string `json:"fault_alphabet"`
	Rare    []string `json:"rare_fault_alphabet,omitempty"` // kinds that may be used at most MaxRare times per path
	MaxRare int      `json:"max_rare,omitempty"`
}

type Case struct {
	Cfg     Cfg      `json:"cfg"`
	Actions []string `json:"actions"` // E = enqueue next batch, W = wait, R:<kind> = answer the pending request
}

func bodyOf(i int) []byte {
	return []byte(fmt.Sprintf("m,batch=b%d v=%di %d%s", i+1, i+1, 1000+i, strings.Repeat("#", i)))
}

// ---------------------------------------------------------------------------------------------------------------
// reference rules (from the property statement and the writer's documented constants)

// accepted reports whether a response settles the batch: 204, or 400 when dropping non-retryable data is enabled.
func accepted(kind string, drop bool) bool {
	return kind == "204" || kind == "slow204" || (kind == "400" && drop)
}

// refDelay is the documented wait after the k-th consecutive failed attempt (k ≥ 1): Retry-After seconds for a 429
// that carries a positive value, the minimal back-off (0.5 s) for Retry-After: 0, else 0.5 s · 2^(n−1) with
// n = k−1 failed attempts before this one, and 15 min once n > 10.
func refDelay(kind string, k int) time.Duration {
	switch kind {
	case "429ra2":
		return 2 * time.Second
	case "429ra60":
		return 60 * time.Second
	case "429ra0":
		return 500 * time.Millisecond
	}
	n := k - 1
	if n > 10 {
		return 15 * time.Minute
	}
	d := 250 * time.Millisecond // 0.5 s · 2^(0−1)
	for i := 0; i < n; i++ {
		d *= 2
	}
	return d
}

// classOf maps a response kind to the feature used in violation signatures (keeps the number of classes small).
func classOf(kind string) string {
	switch kind {
	case "":
		return "never-posted"
	case "400":
		return "400"
	case "429":
		return "429-no-header"
	case "429ra0":
		return "429-retry-after-0"
	case "429ra2", "429ra60":
		return "429-retry-after-N"
	case "hang":
		return "timeout"
	case "reset":
		return "connection-reset"
	case "204", "slow204":
		return "204"
	}
	return "error-status"
}

// ---------------------------------------------------------------------------------------------------------------
// the remote: an HTTP/1.1 peer on net.Pipe, driven step by step by the driver

type reqEv struct {
	body   []byte
	arrive time.Duration
	resp   chan string
	done   chan time.Duration
}

type server struct {
	t0    time.Time
	reqCh chan *reqEv
	quit  chan struct{}
	mu    sync.Mutex
	conns []net.Conn
	wg    sync.WaitGroup
}

var curSrv atomic.Pointer[server]

func pipeDial(ctx context.Context, network, addr string) (net.Conn, error) {
	s := curSrv.Load()
	if s == nil {
		return nil, errors.New("c27: no remote")
	}
	s.mu.Lock()
	defer s.mu.Unlock()
	select {
	case <-s.quit:
		return nil, errors.New("c27: remote shut down")
	default:
	}
	cli, srv := net.Pipe()
	s.conns = append(s.conns, srv)
	s.wg.Add(1)
	go s.serve(srv)
	return cli, nil
}

func (s *server) serve(c net.Conn) {
	defer s.wg.Done()
	defer c.Close()
	br := bufio.NewReader(c)
	req, err := http.ReadRequest(br)
	if err != nil {
		return
	}
	body, err := io.ReadAll(req.Body)
	if err != nil {
		return
	}
	ev := &reqEv{body: body, arrive: time.Since(s.t0), resp: make(chan string, 1), done: make(chan time.Duration, 1)}
	select {
	case s.reqCh <- ev:
	case <-s.quit:
		return
	}
	var act string
	select {
	case act = <-ev.resp:
	case <-s.quit:
		return
	}
	switch act {
	case "hang": // never answer: the client gives up after its time-out and closes the connection
		io.Copy(io.Discard, br)
	case "reset": // close without answering
	case "slow204":
		time.Sleep(slowDelay)
		writeResp(c, 204, "")
	case "204":
		writeResp(c, 204, "")
	case "400":
		writeResp(c, 400, "")
	case "404":
		writeResp(c, 404, "")
	case "500":
		writeResp(c, 500, "")
	case "429":
		writeResp(c, 429, "")
	case "429ra0":
		writeResp(c, 429, "0")
	case "429ra2":
		writeResp(c, 429, "2")
	case "429ra60":
		writeResp(c, 429, "60")
	}
	c.Close()
	ev.done <- time.Since(s.t0)
}

func writeResp(c net.Conn, code int, retryAfter string) {
	var b strings.Builder
	fmt.Fprintf(&b, "HTTP/1.1 %d %s\r\nConnection: close\r\n", code, http.StatusText(code))
	if retryAfter != "" {
		fmt.Fprintf(&b, "Retry-After: %s\r\n", retryAfter)
	}
	if code != 204 {
		body := fmt.Sprintf(`{"code":"invalid","message":"scripted %d"}`, code)
		fmt.Fprintf(&b, "Content-Type: application/json\r\nContent-Length: %d\r\n\r\n%s", len(body), body)
	} else {
		b.WriteString("\r\n")
	}
	c.Write([]byte(b.String()))
}

// ---------------------------------------------------------------------------------------------------------------
// config store stub

type store struct{ drop bool }

func (s *store) GetFullHTTPConfig(context.Context, platform.ID) (*influxdb.ReplicationHTTPConfig, error) {
	o, b := orgID, bucketID
	return &influxdb.ReplicationHTTPConfig{RemoteURL: "http://remote.test:8086", RemoteToken: "tok", RemoteOrgID: &o,
		RemoteBucketID: &b, DropNonRetryableData: s.drop}, nil
}
func (s *store) UpdateResponseInfo(context.Context, platform.ID, int, string) error { return nil }

var sharedMetrics = metrics.NewReplicationsMetrics()

// ---------------------------------------------------------------------------------------------------------------
// one execution

type decision struct {
	opts   []string
	chosen int
}

type vio struct{ sig, msg string }

type execResult struct {
	decisions []decision
	actions   []string
	trace     []string
	vios      []vio
	seen      map[string]bool
	served    int
	nEnq      int
	herr      string
	truncated bool
	wedged    bool
	flags     map[string]bool
}

func (r *execResult) fail(sig, msg string) {
	if r.seen[sig] {
		return
	}
	r.seen[sig] = true
	r.vios = append(r.vios, vio{sig, msg})
	r.trace = append(r.trace, "  !! "+sig+": "+msg)
}

type chooser func(i int, opts []string) int

func execute(t *testing.T, cfg Cfg, maxDecisions int, choose chooser) (res *execResult) {
	res = &execResult{seen: map[string]bool{}, flags: map[string]bool{}}
	dir := vlib.Scratch("c27-")
	defer os.RemoveAll(dir)
	defer func() {
		if r := recover(); r != nil && !res.wedged {
			// (a wedged pipeline leaves blocked goroutines behind: synctest then panics when the bubble ends — expected)
			res.herr = fmt.Sprintf("bubble panicked: %v", r)
		}
	}()
	synctest.Test(t, func(t *testing.T) { drive(cfg, dir, maxDecisions, choose, res) })
	return
}

func fmtD(d time.Duration) string { return fmt.Sprintf("%.3fs", d.Seconds()) }

type batch struct {
	body []byte
	t    time.Duration // enqueue time since t0
	last string        // last response this batch received ("" = never posted)
}

type failInfo struct {
	tdone time.Duration
	delay time.Duration
	kind  string
	batch int
	token bool // a batch was enqueued while the run goroutine was busy: a receive signal is waiting for it
}

func drive(cfg Cfg, dir string, maxDecisions int, choose chooser, res *execResult) {
	t0 := time.Now()
	now := func() time.Duration { return time.Since(t0) }
	srv := &server{t0: t0, reqCh: make(chan *reqEv), quit: make(chan struct{})}
	curSrv.Store(srv)
	qm := rmock.VerifC27NewDurableQueueManager(zap.NewNop(), dir, sharedMetrics, &store{drop: cfg.Drop})
	if err := qm.InitializeQueue(replID, influxdb.DefaultReplicationMaxQueueSizeBytes, orgID, bucketID, cfg.MaxAge); err != nil {
		res.herr = "InitializeQueue: " + err.Error()
		return
	}
	q := qm.VerifC27Queue(replID)
	qdir := filepath.Join(dir, replID.String())
	maxAge := time.Duration(cfg.MaxAge) * time.Second

	defer func() { // teardown: every goroutine of the bubble must have exited
		srv.mu.Lock()
		close(srv.quit)
		srv.mu.Unlock()
		closed := make(chan error, 1)
		go func() { closed <- qm.CloseAll() }()
		select {
		case err := <-closed:
			if err != nil && res.herr == "" {
				res.herr = "CloseAll: " + err.Error()
			}
		case <-time.After(30 * time.Minute): // fake time: nothing in the pipeline waits that long
			res.wedged = true
			res.fail("shutdown/close-never-returns", "CloseAll did not return within 30 min of fake time: the replication goroutine is wedged and cannot forward anything any more")
		}
		synctest.Wait()
		time.Sleep(clientTO + time.Second) // lets the http.Client time-out goroutines of finished requests expire
		synctest.Wait()
		srv.mu.Lock()
		for _, c := range srv.conns {
			c.Close()
		}
		srv.mu.Unlock()
		srv.wg.Wait()
		curSrv.Store(nil)
	}()

	// The durable queue ages segments by file mtime (kernel wall clock) against time.Now() (fake): keep the two clocks
	// consistent by stamping every segment file the repo code touched with the current fake time. The stamp is never
	// earlier than the true fake modification instant, so a segment never looks older than it is.
	restamp := func() {
		if cfg.MaxAge == 0 {
			return // default window of one week: nothing can age within the horizon, whichever clock stamps the files
		}
		ents, err := os.ReadDir(qdir)
		if err != nil {
			return
		}
		ft := time.Now()
		for _, e := range ents {
			if fi, err := e.Info(); err == nil && fi.ModTime().Year() >= 2020 {
				os.Chtimes(filepath.Join(qdir, e.Name()), ft, ft)
			}
		}
	}

	var (
		enq            []batch
		settled        []bool
		inQ            []bool // per batch: present in the queue at the latest observation
		qstr           string
		pending        *reqEv
		pidx           int
		arrived        *reqEv
		faults         int
		rareUsed       int
		acceptSerial   []int // per batch: index of the request that settled it
		lastFailSerial = -1
		k              int // consecutive failed attempts
		lastFail       *failInfo
		tokenMaybe     bool
		enqSinceFail   bool
		ndec           int
	)
	tr := func(f string, a ...any) { res.trace = append(res.trace, "t="+fmtD(now())+" "+fmt.Sprintf(f, a...)) }

	index := func(b []byte) int {
		for i := range enq {
			if string(enq[i].body) == string(b) {
				return i
			}
		}
		return -1
	}
	aged := func(i int) bool { return maxAge > 0 && enq[i].t+maxAge < now() }

	observe := func() {
		blocks, err := q.PeekN(16)
		if err != nil && err != io.EOF {
			res.herr = "PeekN: " + err.Error()
			return
		}
		var idx []int
		for _, b := range blocks {
			i := index(b)
			if i < 0 {
				res.fail("queue/unknown-content", fmt.Sprintf("queue holds a block that was never enqueued: %q", b))
				return
			}
			idx = append(idx, i)
		}
		h := len(enq) - len(idx)
		ok := h >= 0
		for j := 0; ok && j < len(idx); j++ {
			ok = idx[j] == h+j
		}
		names := make([]string, len(idx))
		for j, i := range idx {
			names[j] = fmt.Sprintf("b%d", i+1)
		}
		s := fmt.Sprint(names)
		if s != qstr {
			qstr = s
			tr("queue=%s", qstr)
		}
		if !ok {
			res.fail("queue/not-a-suffix-of-the-enqueue-order", fmt.Sprintf("queue content %v after %d enqueues", idx, len(enq)))
			return
		}
		for i := range enq {
			inQ[i] = i >= h
			if i < h && !settled[i] && aged(i) {
				res.flags["aged-out"] = true
			}
			if i < h && !settled[i] && !aged(i) {
				last := enq[i].last
				res.fail(vlib.JoinSig("removed-before-accepted", "last-response="+classOf(last), fmt.Sprintf("drop=%v", cfg.Drop), fmt.Sprintf("purge-window=%v", cfg.MaxAge > 0)),
					fmt.Sprintf("batch b%d (enqueued at %s, last response %q) left the queue at or before %s although the remote never accepted it (drop=%v, max age %ds)",
						i+1, fmtD(enq[i].t), last, fmtD(now()), cfg.Drop, cfg.MaxAge))
			}
		}
	}

	enqueue := func() bool {
		i := len(enq)
		b := bodyOf(i)
		if err := qm.EnqueueData(replID, b, 1); err != nil {
			res.herr = "EnqueueData: " + err.Error()
			return false
		}
		enq = append(enq, batch{body: b, t: now()})
		settled = append(settled, false)
		acceptSerial = append(acceptSerial, -1)
		inQ = append(inQ, true)
		res.nEnq++
		if pending != nil {
			tokenMaybe = true
			tr("enqueue b%d (request pending)", i+1)
		} else {
			if lastFail != nil {
				enqSinceFail = true
			}
			tr("enqueue b%d", i+1)
		}
		restamp()
		return true
	}

	onArrive := func(ev *reqEv) {
		i := index(ev.body)
		if i < 0 {
			res.fail("request/unknown-body", fmt.Sprintf("remote received a body that was never enqueued: %q", ev.body))
			pidx = -1
			return
		}
		pidx = i
		tr("request #%d carries b%d", res.served, i+1)
		for j := 0; j < i; j++ {
			if !settled[j] && !(aged(j) && !inQ[j]) {
				res.fail("order/posted-while-earlier-batch-unaccepted", fmt.Sprintf("b%d was posted at %s although b%d (enqueued earlier) had not been accepted", i+1, fmtD(ev.arrive), j+1))
			}
		}
		if settled[i] {
			// At-least-once delivery is tolerated: after a failed attempt the pipeline may rewind to batches that were
			// accepted but not yet removed. Without a failure since its acceptance a batch must not be posted again.
			res.flags["accepted-batch-reposted"] = true
			if acceptSerial[i] >= 0 && lastFailSerial <= acceptSerial[i] {
				res.fail("order/accepted-batch-reposted-without-intervening-failure",
					fmt.Sprintf("b%d was accepted by request #%d and posted again as request #%d although no attempt failed in between", i+1, acceptSerial[i], res.served))
			}
		}
		if lastFail != nil {
			if inQ[lastFail.batch] {
				gap := ev.arrive - lastFail.tdone
				switch {
				case gap == lastFail.delay:
					res.flags["retry-delay-exact"] = true
				case gap < lastFail.delay && (lastFail.token || enqSinceFail):
					res.fail("retry-delay/too-early/new-enqueue-preempts-backoff",
						fmt.Sprintf("after %s (failure #%d, documented wait %s) the next attempt came after %s because a new batch was enqueued", lastFail.kind, k, fmtD(lastFail.delay), fmtD(gap)))
				default:
					dir := "late"
					if gap < lastFail.delay {
						dir = "early"
					}
					res.fail(vlib.JoinSig("retry-delay/wrong-delay", "after="+classOf(lastFail.kind), dir),
						fmt.Sprintf("after %s (consecutive failure #%d) the documented wait is %s but the next attempt came after %s", lastFail.kind, k, fmtD(lastFail.delay), fmtD(gap)))
				}
			}
			lastFail = nil
		}
	}

	respond := func(kind string) {
		tr("respond #%d %s", res.served, kind)
		pending.resp <- kind
		<-pending.done
		serial := res.served
		res.served++
		if kind != "204" {
			faults++
			for _, r := range cfg.Rare {
				if r == kind {
					rareUsed++
				}
			}
		}
		if pidx >= 0 {
			enq[pidx].last = kind
		}
		if accepted(kind, cfg.Drop) {
			if pidx >= 0 {
				settled[pidx] = true
				if kind != "400" { // a batch answered 400 with drop enabled MAY be dropped; the statement does not forbid posting it again
					acceptSerial[pidx] = serial
				}
			}
			k = 0
			lastFail = nil
		} else {
			k++
			lastFailSerial = serial
			lastFail = &failInfo{tdone: now(), delay: refDelay(kind, k), kind: kind, batch: pidx, token: tokenMaybe}
			if pidx < 0 {
				lastFail = nil
			}
			enqSinceFail = false
			if kind == "hang" {
				tr("client gave up (failure #%d)", k)
			}
		}
		pending = nil
	}

	decide := func(opts []string) (string, bool) {
		if maxDecisions > 0 && ndec >= maxDecisions {
			res.truncated = true
			return "", false
		}
		c := choose(ndec, opts)
		if c < 0 || c >= len(opts) {
			res.herr = fmt.Sprintf("decision %d: choice %d out of range %v", ndec, c, opts)
			return "", false
		}
		res.decisions = append(res.decisions, decision{opts, c})
		res.actions = append(res.actions, opts[c])
		ndec++
		return opts[c], true
	}

	spansTick := func(d time.Duration) bool { n := now(); return (n+d)/purgeEvery > n/purgeEvery }

	maxServed := (cfg.F[0]+1)*(cfg.N+1)*2 + 8 // legitimate paths need at most N + F·N requests

	synctest.Wait()
	restamp()
	time.Sleep(startOffset)
	if !enqueue() {
		return
	}

	for res.herr == "" {
		synctest.Wait()
		restamp()
		observe()
		if pending == nil {
			if arrived == nil {
				select {
				case arrived = <-srv.reqCh:
				default:
				}
			}
			if arrived != nil {
				afterFailure := lastFail != nil
				pending, arrived = arrived, nil
				onArrive(pending)
				if afterFailure {
					// run() went through its select after the failure: a waiting receive signal has been consumed
					tokenMaybe = false
				}
			} else {
				tokenMaybe = false // the run goroutine is parked in its select: a waiting signal has been consumed
			}
		}
		if pending != nil {
			if res.served >= maxServed {
				res.fail("no-progress/request-cap", fmt.Sprintf("%d requests served for %d batches and %d fault responses: the pipeline keeps posting", res.served, len(enq), faults))
				return
			}
			opts := []string{"R:204"}
			if faults < cfg.F[len(enq)-1] {
				alpha := cfg.Alpha
				if rareUsed < cfg.MaxRare {
					alpha = append(append([]string{}, cfg.Alpha...), cfg.Rare...)
				}
				for _, a := range alpha {
					// With a purge window configured, a receive signal waiting while a purge tick gets buffered makes
					// run()'s select choose at random between the two: not offered (stated in Rule).
					if cfg.MaxAge > 0 && tokenMaybe && ((a == "hang" && spansTick(clientTO)) || (a == "slow204" && spansTick(slowDelay))) {
						res.flags["pruned-select-race"] = true
						continue
					}
					opts = append(opts, "R:"+a)
				}
			}
			if len(enq) < cfg.N {
				opts = append(opts, "E")
			}
			act, ok := decide(opts)
			if !ok {
				return
			}
			if act == "E" {
				if !enqueue() {
					return
				}
			} else {
				respond(strings.TrimPrefix(act, "R:"))
			}
			continue
		}
		// no request pending: back-off or idle
		opts := []string{"W"}
		if len(enq) < cfg.N {
			opts = append(opts, "E")
		}
		act, ok := decide(opts)
		if !ok {
			return
		}
		if act == "E" {
			if !enqueue() {
				return
			}
			continue
		}
		hz := horizonBusy
		if qstr == "[]" {
			hz = horizonEmpty
		}
		deadline := now() + hz
		terminal := false
		for arrived == nil && !terminal && res.herr == "" {
			next := deadline
			if cfg.MaxAge > 0 {
				if tk := (now()/purgeEvery+1)*purgeEvery + time.Millisecond; tk < next {
					next = tk
				}
			}
			tm := time.NewTimer(next - now())
			select {
			case arrived = <-srv.reqCh:
				tm.Stop()
			case <-tm.C:
				synctest.Wait()
				restamp()
				observe()
				terminal = now() >= deadline
			}
		}
		if terminal {
			tr("quiescent: no request for %s", fmtD(hz))
			for i := range enq {
				if !settled[i] && !(aged(i) && !inQ[i]) {
					last := enq[i].last
					res.fail(vlib.JoinSig("liveness/batch-never-accepted", "last-response="+classOf(last)),
						fmt.Sprintf("b%d (last response %q) was still unaccepted %s after the last activity; queue=%s", i+1, last, fmtD(hz), qstr))
				}
			}
			return
		}
	}
}

// ---------------------------------------------------------------------------------------------------------------
// exploration

func choicesOf(ds []decision) []int {
	out := make([]int, len(ds))
	for i, d := range ds {
		out[i] = d.chosen
	}
	return out
}

func prefixChooser(prefix []int) chooser {
	return func(i int, opts []string) int {
		if i < len(prefix) {
			return prefix[i]
		}
		return 0
	}
}

// roots enumerates every distinct choice prefix of length shardDepth (or shorter complete paths).
func roots(t *testing.T, cfg Cfg) (out [][]int, herr string) {
	var prefix []int
	for {
		r := execute(t, cfg, shardDepth, prefixChooser(prefix))
		if r.herr != "" {
			return out, r.herr
		}
		ds := r.decisions
		out = append(out, choicesOf(ds))
		i := len(ds) - 1
		for i >= 0 && ds[i].chosen+1 >= len(ds[i].opts) {
			i--
		}
		if i < 0 {
			return out, ""
		}
		prefix = append(choicesOf(ds[:i]), ds[i].chosen+1)
	}
}

func configs(tier string) []Cfg {
	common := []string{"500", "429", "429ra0", "429ra2", "400", "reset", "hang"}
	rare := []string{"404", "slow204", "429ra60"}
	f, n := []int{3, 2}, 2
	if tier == "thorough" {
		f, n = []int{4, 3, 3}, 3
	}
	var out []Cfg
	for _, ma := range []int64{0, 60} {
		for _, drop := range []bool{false, true} {
			out = append(out, Cfg{Drop: drop, MaxAge: ma, F: f, N: n, Alpha: common, Rare: rare, MaxRare: 1})
		}
	}
	return out
}

func outcomeOf(r *execResult) string {
	var parts []string
	parts = append(parts, fmt.Sprintf("batches=%d", r.nEnq))
	nf := 0
	for _, a := range r.actions {
		if strings.HasPrefix(a, "R:") && a != "R:204" {
			nf++
		}
	}
	parts = append(parts, fmt.Sprintf("faults=%d", nf))
	if r.flags["accepted-batch-reposted"] {
		parts = append(parts, "reposted")
	}
	if r.flags["aged-out"] {
		parts = append(parts, "aged-out")
	}
	if len(r.vios) > 0 {
		parts = append(parts, "violation")
	}
	return strings.Join(parts, ",")
}

func report(c *vlib.Ctx, cfg Cfg, r *execResult) {
	c.Eval(1)
	c.Trace(1)
	c.Transition(int64(r.served))
	nontrivial := false
	for _, a := range r.actions {
		if strings.HasPrefix(a, "R:") && a != "R:204" {
			nontrivial = true
		}
	}
	if nontrivial {
		c.NontrivialN(1)
	}
	c.Outcome(outcomeOf(r))
	for f := range r.flags {
		c.Extra("executions_with_"+f, 1)
	}
	cs := Case{Cfg: cfg, Actions: r.actions}
	for _, v := range r.vios {
		c.Violation(v.sig, v.msg+" — path "+strings.Join(r.actions, " "), cs)
	}
	if c.WantSample() && nontrivial && r.nEnq > 1 {
		c.Sample(map[string]any{"case": cs, "trace": r.trace})
	}
}

func explore(c *vlib.Ctx) {
	var idx int64
	for _, cfg := range configs(c.Tier) {
		rs, herr := roots(c.T, cfg)
		if herr != "" {
			c.HarnessError("root enumeration: " + herr)
			return
		}
		if c.Shard == 0 {
			c.Extra("subtree_roots", int64(len(rs)))
			c.StateN(int64(len(rs))) // the interior nodes above the shard depth (approximation: one per root)
		}
		for _, root := range rs {
			idx++
			if !c.Mine(idx) {
				continue
			}
			prefix := root
			first := true
			for {
				if c.Expired() {
					c.Cap("wall budget reached: the subtrees explored so far are complete, the remaining ones were not visited")
					return
				}
				r := execute(c.T, cfg, 0, prefixChooser(prefix))
				if r.herr != "" {
					c.HarnessError(fmt.Sprintf("cfg=%+v path=%v: %s", cfg, r.actions, r.herr))
					return
				}
				report(c, cfg, r)
				ds := r.decisions
				// states = nodes of the game tree (distinct action prefixes ⇒ distinct (script prefix, queue content))
				if first {
					c.StateN(int64(len(ds)-len(root)) + 1)
					first = false
				} else {
					c.StateN(int64(len(ds)-len(prefix)) + 1)
				}
				i := len(ds) - 1
				for i >= len(root) && ds[i].chosen+1 >= len(ds[i].opts) {
					i--
				}
				if i < len(root) {
					break
				}
				prefix = append(choicesOf(ds[:i]), ds[i].chosen+1)
			}
		}
	}
}

func replay(c *vlib.Ctx, raw json.RawMessage) (bool, string) {
	var cs Case
	if err := json.Unmarshal(raw, &cs); err != nil {
		return false, err.Error()
	}
	diverged := ""
	r := execute(c.T, cs.Cfg, 0, func(i int, opts []string) int {
		if i < len(cs.Actions) {
			for j, o := range opts {
				if o == cs.Actions[i] {
					return j
				}
			}
			diverged = fmt.Sprintf("action %d (%s) is not enabled: %v", i, cs.Actions[i], opts)
		}
		return 0
	})
	if r.herr != "" || diverged != "" {
		return false, "harness error: " + r.herr + " " + diverged + "\n" + strings.Join(r.trace, "\n")
	}
	var sigs []string
	for _, v := range r.vios {
		sigs = append(sigs, v.sig)
	}
	return len(r.vios) > 0, fmt.Sprintf("cfg=%+v\n%s\nviolations: %v", cs.Cfg, strings.Join(r.trace, "\n"), sigs)
}

func setup() {
	runtime.MemProfileRate = 0
	tr := http.DefaultTransport.(*http.Transport)
	tr.DialContext = pipeDial
	tr.Proxy = nil
	tr.Clone() // run the transport's lazy initialisation outside any bubble
}

func TestCheck(t *testing.T) {
	vlib.Main(t, &vlib.Check{
		ID: "C27", Level: "model_checking",
		Rule: "game tree over the REAL pipeline (durableQueueManager.InitializeQueue/EnqueueData + replicationQueue.run goroutine + remotewrite.writer/PostWrite + durable queue on tmpfs) inside a testing/synctest bubble; remote = scripted HTTP/1.1 peer on net.Pipe. " +
			"Configurations: dropNonRetryableData ∈ {false,true} × maxAgeSeconds ∈ {0 (default window), 60}. First batch enqueued at fake t=10.1 s. At every quiescent point (synctest.Wait) the driver takes EVERY enabled action: " +
			"(a) request pending at the remote: answer 204, answer with a fault kind, or enqueue the next batch (enqueue before the response); (b) no request pending (back-off or idle): wait for the next request, or enqueue the next batch (enqueue after the response). " +
			"Fault kinds: {500, 429 without header, 429 Retry-After: 0, 429 Retry-After: 2, 400, connection reset, hang until the 2 min client time-out} plus at most ONE per path of {404, 204 delayed by 11 s (> scanner advance interval), 429 Retry-After: 60}. " +
			"Bounds: ≤ N batches; a fault is offered while fewer than F[n] faults were used, n = batches enqueued so far — quick N=2, F=(3,2); thorough N=3, F=(4,3,3); 204 answers are unbounded (≤ N+F·N requests occur). " +
			"A path ends when no request arrives for 1000 s of fake time (130 s if the queue is empty). Not offered: a hang/delayed answer that spans a purge tick while a receive signal is waiting, in the maxAge=60 configurations (run()'s select would pick at random between the two ready channels). " +
			"Every path is executed from scratch (stateless DFS over choice sequences, sharded by the first 3 choices). Oracle = reference monitor written from the statement: a batch is posted only when every earlier batch was accepted (204, or 400 with drop) or aged out; an accepted batch is posted again only after a failed attempt (at-least-once rewind tolerated); " +
			"at every quiescent point the queue content is a suffix of the enqueue order and every missing batch was accepted / dropped on 400 / older than max age; after the k-th consecutive failed attempt the next attempt starts EXACTLY Retry-After seconds (429 with a positive value), 0.5 s (Retry-After: 0), else 0.5 s·2^(k−2) later (15 min beyond 10 attempts), measured as fake-time differences between the end of the response (or the client giving up) and the arrival of the next request; at the end every batch is accepted or aged out. " +
			"states = nodes of the game tree (distinct action prefixes ⇒ distinct (response-script prefix, enqueue placement, queue content)), transitions = remote requests served, traces = paths executed; non-trivial = path with ≥ 1 fault answer (paths are distinct by construction)",
		Assumptions: []string{
			"the durable queue ages segments by file mtime (kernel clock) while the purge cut-off uses time.Now() (fake in the bubble): the harness stamps every segment file the repo code touched with the current fake time at each quiescent point (never earlier than the true modification instant), so that the max-age purge runs on fake time",
			"batches are small (one 10 MiB segment): segment roll-over is not exercised here",
			"the exponent of the documented back-off counts the failed attempts since the last accepted request (rq.failedWrites), as passed by SendWrite",
			"interleavings inside one fake instant are not enumerated: the driver acts only at quiescent points, where the pipeline's next step is deterministic (the one racy situation is excluded, see Rule)",
			"the config store (sqlite) is replaced by a stub that always succeeds",
		},
		QuickBudgetS:    45,
		ThoroughBudgetS: 800,
		WorkerEnv:       []string{"GOMAXPROCS=1", "GOGC=400"},
		Run:             func(c *vlib.Ctx) { setup(); explore(c) },
		Replay:          func(c *vlib.Ctx, raw json.RawMessage) (bool, string) { setup(); return replay(c, raw) },
	})
}
