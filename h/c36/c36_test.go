// C36: rhh.HashMap, bloom.Filter, radix.Tree and tsdb.SeriesIDSet behave like their abstract models.
//
// Four bounded-exhaustive families, each compared with a boring Go map / set model:
//
//	rhh    every Put/PutQuiet/Reset/Grow sequence up to depth d over 6 keys whose home slots collide
//	radix  every Insert/DeletePrefix sequence up to depth d over the brief's key universe
//	bloom  every pair (A,B) of subsets of 8 keys for each (m,k)
//	sids   every pair of subsets of 6 series ids (triples: subsets of 4 ids, thorough 6 ids); after every binary /
//	       variadic operation each participating set is mutated in turn and all of them are compared with their
//	       models again (results, receivers and operands must not share storage)
package c36

import (
	"bytes"
	"encoding/json"
	"fmt"
	"runtime"
	"runtime/debug"
	"sort"
	"strings"
	"sync/atomic"
	"testing"
	"time"

	"github.com/influxdata/influxdb/v2/pkg/bloom"
	"github.com/influxdata/influxdb/v2/pkg/radix"
	"github.com/influxdata/influxdb/v2/pkg/rhh"
	"github.com/influxdata/influxdb/v2/tsdb"
	"verif/h/vlib"
)

// Case is one replayable case of any family.
type Case struct {
	Fam string `json:"fam"`
	// rhh
	Cap  int64    `json:"cap,omitempty"`
	LF   int      `json:"load_factor,omitempty"`
	Keys []string `json:"keys,omitempty"` // key universe (rhh, radix, bloom)
	Pfx  []string `json:"prefixes,omitempty"`
	Ops  []int    `json:"ops,omitempty"` // op codes, see rhhOpName / radixOpName
	OpsH []string `json:"ops_readable,omitempty"`
	// bloom
	M uint64 `json:"m,omitempty"`
	K uint64 `json:"k,omitempty"`
	// bloom + sids: subsets as bit masks over Keys / IDs
	A   int      `json:"a"`
	B   int      `json:"b"`
	C   int      `json:"c"`
	Tri bool     `json:"triple,omitempty"`
	IDs []uint64 `json:"ids,omitempty"`
}

// V is a detected violation.
type V struct{ Sig, Msg string }

func viol(sig, f string, a ...any) *V { return &V{sig, fmt.Sprintf(f, a...)} }

// ---------------------------------------------------------------- rhh

var rhhMetrics = rhh.NewMetrics("", "", nil)

// rhhKeys picks 6 keys from a fixed pool so that their home slots collide at capacities 2, 4 and 8
// (3 keys with hash&7==0, 2 with hash&7==1, 1 with hash&7==4). HashKey is used only to choose inputs.
func rhhKeys() []string {
	want := []int64{0, 0, 0, 1, 1, 4}
	out := make([]string, 0, len(want))
	used := map[string]bool{}
	for _, w := range want {
		for i := 0; i < 4000; i++ {
			k := fmt.Sprintf("s%d", i)
			if !used[k] && rhh.HashKey([]byte(k))&7 == w {
				used[k] = true
				out = append(out, k)
				break
			}
		}
	}
	return out
}

func rhhOpName(keys []string, op int) string {
	nk := len(keys)
	switch {
	case op < nk:
		return fmt.Sprintf("Put(%q,%d)", keys[op], 1)
	case op < 2*nk:
		return fmt.Sprintf("PutQuiet(%q,%d)", keys[op-nk], 2)
	case op == 2*nk:
		return "Reset()"
	default:
		return "Grow(2*Cap())"
	}
}

func sortedKeys(m map[string]int) []string {
	ks := make([]string, 0, len(m))
	for k := range m {
		ks = append(ks, k)
	}
	sort.Strings(ks)
	return ks
}

// execRhh runs one op sequence; full observation after the last op, cheap observations after every op.
func execRhh(cs *Case) (*V, string) {
	fam := cs.Fam // "rhh" or "rhh-emptykey"
	m := rhh.NewHashMap(rhh.Options{Capacity: cs.Cap, LoadFactor: cs.LF, Metrics: rhhMetrics, MetricsEnabled: false})
	model := map[string]int{}
	nk := len(cs.Keys)
	hadReset, hadGrow := false, false
	for step, op := range cs.Ops {
		kind := ""
		switch {
		case op < 2*nk:
			k, v := cs.Keys[op%nk], 1+op/nk
			buf := []byte(k)
			if v == 1 {
				m.Put(buf, v)
				kind = "Put"
			} else {
				m.PutQuiet(buf, v)
				kind = "PutQuiet"
			}
			if string(buf) != k {
				return viol(fam+"/"+kind+"/modifies-caller-key", "step %d %s: caller's key buffer changed from %q to %q", step, rhhOpName(cs.Keys, op), k, buf), ""
			}
			for i := range buf { // the map must own its copy of the key
				buf[i] = '#'
			}
			model[k] = v
		case op == 2*nk:
			m.Reset()
			hadReset = true
			kind = "Reset"
			model = map[string]int{}
		default:
			m.Grow(m.Cap() * 2)
			hadGrow = true
			kind = "Grow"
		}
		if got := m.Len(); got != int64(len(model)) {
			return viol(fmt.Sprintf("%s/Len/after-%s", fam, strings.TrimSuffix(kind, "Quiet")), "step %d %s: Len()=%d, model has %d keys %q", step, rhhOpName(cs.Keys, op), got, len(model), sortedKeys(model)), ""
		}
	}
	feat := fmt.Sprintf("reset=%v,grow=%v", hadReset, hadGrow)
	// Get for every key of the universe and one key never inserted
	for _, k := range append(append([]string{}, cs.Keys...), "never-inserted") {
		got := m.Get([]byte(k))
		want, ok := model[k]
		switch {
		case ok && got == nil:
			return viol(fam+"/Get/present-key-missing/"+feat, "Get(%q)=nil, model has %d", k, want), ""
		case ok && got != want:
			return viol(fam+"/Get/wrong-value/"+feat, "Get(%q)=%v, model has %d", k, got, want), ""
		case !ok && got != nil:
			return viol(fam+"/Get/absent-key-found/"+feat, "Get(%q)=%v, model has no such key", k, got), ""
		}
	}
	// Keys() is documented as the sorted list of keys
	var gotKeys []string
	for _, k := range m.Keys() {
		gotKeys = append(gotKeys, string(k))
	}
	if wantKeys := sortedKeys(model); strings.Join(gotKeys, "\x01") != strings.Join(wantKeys, "\x01") {
		return viol(fam+"/Keys/"+feat, "Keys()=%q, model has %q", gotKeys, wantKeys), ""
	}
	// Elem scan: the occupied slots hold exactly the model's pairs
	capa := m.Cap()
	if capa < m.Len() || capa&(capa-1) != 0 {
		return viol(fam+"/Cap/"+feat, "Cap()=%d with Len()=%d", capa, m.Len()), ""
	}
	seen := map[string]int{}
	var maxDist int64
	for i := int64(0); i < capa; i++ {
		k, v := m.Elem(i)
		if v == nil {
			continue
		}
		if _, dup := seen[string(k)]; dup {
			return viol(fam+"/Elem/duplicate-key/"+feat, "key %q stored in two slots", k), ""
		}
		seen[string(k)] = v.(int)
		if d := rhh.Dist(rhh.HashKey(k), i, capa); d > maxDist {
			maxDist = d
		}
	}
	if fmt.Sprint(seen) != fmt.Sprint(model) {
		return viol(fam+"/Elem/"+feat, "occupied slots hold %v, model has %v", seen, model), ""
	}
	return nil, fmt.Sprintf("%s:len=%d,maxdist=%d", fam, len(model), maxDist)
}

// ---------------------------------------------------------------- radix

var radixKeys = []string{"", "a", "ab", "abc", "b", "ab\x00"}
var radixPfx = []string{"", "a", "ab", "abc", "b", "ab\x00", "abd", "c"}
var radixProbe = []string{"", "a", "ab", "abc", "b", "ab\x00", "abd", "c", "abc\x00", "\x00"}

func radixOpName(cs *Case, op int) string {
	if op < len(cs.Keys) {
		return fmt.Sprintf("Insert(%q)", cs.Keys[op])
	}
	return fmt.Sprintf("DeletePrefix(%q)", cs.Pfx[op-len(cs.Keys)])
}

func execRadix(cs *Case) (*V, string) {
	t := radix.New()
	model := map[string]int{}
	hadDel := false
	lastEffect := false
	lastKind := ""
	feat := func() string { return fmt.Sprintf("afterDeletePrefix=%v", hadDel) }
	for step, op := range cs.Ops {
		if op < len(cs.Keys) {
			k, v := cs.Keys[op], step+1
			buf := []byte(k)
			_, inserted := t.Insert(buf, v)
			for i := range buf { // the tree must own its copy of the key
				buf[i] = '#'
			}
			lastKind = "Insert"
			old, exists := model[k]
			if inserted == exists {
				return viol("radix/Insert/inserted-flag/"+feat(), "step %d Insert(%q): inserted=%v but model has key=%v", step, k, inserted, exists), ""
			}
			lastEffect = !exists
			if !exists {
				model[k] = v
			} else {
				// the statement does not say whether Insert on an existing key updates: accept old or new
				got, ok := t.Get([]byte(k))
				if !ok || (got != old && got != v) {
					return viol("radix/Get/after-duplicate-Insert/"+feat(), "step %d Insert(%q,%d) on existing value %d: Get=(%d,%v)", step, k, v, old, got, ok), ""
				}
				model[k] = got
			}
		} else {
			p := cs.Pfx[op-len(cs.Keys)]
			hadDel = true
			lastKind = "DeletePrefix"
			n := t.DeletePrefix([]byte(p))
			want := 0
			for k := range model {
				if strings.HasPrefix(k, p) {
					delete(model, k)
					want++
				}
			}
			lastEffect = want > 0
			if n != want {
				return viol("radix/DeletePrefix/count", "step %d DeletePrefix(%q) returned %d, model removed %d", step, p, n, want), ""
			}
		}
		if got := t.Len(); got != len(model) {
			return viol("radix/Len/"+feat(), "after step %d %s: Len()=%d, model has %d keys %q", step, radixOpName(cs, op), got, len(model), sortedKeys(model)), ""
		}
	}
	for _, k := range radixProbe {
		got, ok := t.Get([]byte(k))
		want, wok := model[k]
		switch {
		case wok && !ok:
			return viol("radix/Get/present-key-missing/"+feat(), "Get(%q) not found, model has %d", k, want), ""
		case !wok && ok:
			return viol("radix/Get/absent-key-found/"+feat(), "Get(%q)=%d, model has no such key", k, got), ""
		case wok && got != want:
			return viol("radix/Get/wrong-value/"+feat(), "Get(%q)=%d, model has %d", k, got, want), ""
		}
	}
	ks := sortedKeys(model) // byte-wise order
	for _, which := range []string{"Minimum", "Maximum"} {
		var gk []byte
		var gv int
		var gok bool
		var wk string
		if which == "Minimum" {
			gk, gv, gok = t.Minimum()
			if len(ks) > 0 {
				wk = ks[0]
			}
		} else {
			gk, gv, gok = t.Maximum()
			if len(ks) > 0 {
				wk = ks[len(ks)-1]
			}
		}
		switch {
		case len(ks) == 0 && gok:
			return viol("radix/"+which+"/found-in-empty-tree/"+feat(), "%s()=(%q,%d,true) but the model is empty", which, gk, gv), ""
		case len(ks) > 0 && !gok:
			return viol("radix/"+which+"/not-found-in-nonempty-tree/"+feat(), "%s() reports no entry but the model has keys %q", which, ks), ""
		case len(ks) > 0 && (string(gk) != wk || gv != model[wk]):
			return viol("radix/"+which+"/wrong-entry/"+feat(), "%s()=(%q,%d), model says (%q,%d) of keys %q", which, gk, gv, wk, model[wk], ks), ""
		}
	}
	return nil, fmt.Sprintf("radix:len=%d,last=%s,changed=%v", len(model), lastKind, lastEffect)
}

// ---------------------------------------------------------------- bloom

var bloomKeys = []string{"", "a", "b", "ab", "ac", "\x00", "abc", "cpu,host=a"}

func subset(keys []string, mask int) []string {
	var out []string
	for i, k := range keys {
		if mask>>i&1 == 1 {
			out = append(out, k)
		}
	}
	return out
}

func execBloom(cs *Case) (*V, string) {
	A, B := subset(cs.Keys, cs.A), subset(cs.Keys, cs.B)
	feat := fmt.Sprintf("k=%d", cs.K)
	build := func(ks []string) (*bloom.Filter, *V) {
		f := bloom.NewFilter(cs.M, cs.K)
		for _, k := range ks {
			buf := []byte(k)
			f.Insert(buf)
			if string(buf) != k {
				return nil, viol("bloom/Insert/modifies-caller-key", "Insert(%q) left the caller's buffer as %q", k, buf)
			}
		}
		return f, nil
	}
	containsAll := func(f *bloom.Filter, ks []string, clause string) *V {
		for _, k := range ks {
			buf := []byte(k)
			ok := f.Contains(buf)
			if string(buf) != k {
				return viol("bloom/Contains/modifies-caller-key", "Contains(%q) left the caller's buffer as %q", k, buf)
			}
			if !ok {
				return viol("bloom/"+clause+"/false-negative/"+feat, "m=%d k=%d: inserted key %q reported absent (A=%q B=%q)", cs.M, cs.K, k, A, B)
			}
		}
		return nil
	}
	fa, v := build(A)
	if v != nil {
		return v, ""
	}
	if v := containsAll(fa, A, "Insert-Contains"); v != nil {
		return v, ""
	}
	fp := 0
	for i, k := range cs.Keys {
		if cs.A>>i&1 == 0 && fa.Contains([]byte(k)) {
			fp++
		}
	}
	// marshal round trip: Bytes() -> NewFilterBuffer
	raw := append([]byte(nil), fa.Bytes()...)
	g, err := bloom.NewFilterBuffer(raw, fa.K())
	if err != nil {
		return viol("bloom/roundtrip/NewFilterBuffer-error", "NewFilterBuffer(Bytes() of NewFilter(%d,%d)): %v", cs.M, cs.K, err), ""
	}
	if v := containsAll(g, A, "roundtrip"); v != nil {
		return v, ""
	}
	// clone, then insert B into the clone
	cl := fa.Clone()
	if v := containsAll(cl, A, "Clone"); v != nil {
		return v, ""
	}
	for _, k := range B {
		cl.Insert([]byte(k))
	}
	if v := containsAll(cl, append(append([]string{}, A...), B...), "Clone-Insert"); v != nil {
		return v, ""
	}
	if v := containsAll(fa, A, "Clone-Insert-original"); v != nil {
		return v, ""
	}
	// merge
	fb, v := build(B)
	if v != nil {
		return v, ""
	}
	if err := fa.Merge(fb); err != nil {
		return viol("bloom/Merge/error", "Merge of two NewFilter(%d,%d): %v", cs.M, cs.K, err), ""
	}
	if v := containsAll(fa, append(append([]string{}, A...), B...), "Merge"); v != nil {
		return v, ""
	}
	if v := containsAll(fb, B, "Merge-operand"); v != nil {
		return v, ""
	}
	if err := fa.Merge(nil); err != nil {
		return viol("bloom/Merge/nil-error", "Merge(nil): %v", err), ""
	}
	return nil, fmt.Sprintf("bloom:m=%d,false-positives=%d", cs.M, fp)
}

// ---------------------------------------------------------------- SeriesIDSet

var sidsIDs = []uint64{1, 2, 3, 1 << 16, 1<<32 - 1, 1<<32 + 1}
var sidsProbe = []uint64{0, 1, 2, 3, 4, 1 << 16, 1<<16 + 1, 1<<32 - 1, 1 << 32, 1<<32 + 1}

// sidsFresh are ids outside sidsIDs (all < 2^32, in the roaring containers of 1..3 and of 2^16), one per part
// of an independence check.
var sidsFresh = []uint64{4, 1<<16 + 1, 5, 6}

// part is one set taking part in an operation, with its model.
type part struct {
	name string
	s    *tsdb.SeriesIDSet
	m    uset
}

type uset map[uint64]bool

func mkset(ids []uint64, mask int) uset {
	s := uset{}
	for i, id := range ids {
		if mask>>i&1 == 1 {
			s[id] = true
		}
	}
	return s
}
func (s uset) sorted() []uint64 {
	out := make([]uint64, 0, len(s))
	for id := range s {
		out = append(out, id)
	}
	sort.Slice(out, func(i, j int) bool { return out[i] < out[j] })
	return out
}
func (s uset) and(o uset) uset {
	r := uset{}
	for id := range s {
		if o[id] {
			r[id] = true
		}
	}
	return r
}
func (s uset) or(o uset) uset {
	r := uset{}
	for id := range s {
		r[id] = true
	}
	for id := range o {
		r[id] = true
	}
	return r
}
func (s uset) minus(o uset) uset {
	r := uset{}
	for id := range s {
		if !o[id] {
			r[id] = true
		}
	}
	return r
}
func (s uset) eq(o uset) bool { return len(s) == len(o) && len(s.and(o)) == len(s) }

func buildSids(m uset, how int) *tsdb.SeriesIDSet {
	ids := m.sorted()
	switch how {
	case 0:
		return tsdb.NewSeriesIDSet(ids...)
	case 1:
		s := tsdb.NewSeriesIDSet()
		for i := len(ids) - 1; i >= 0; i-- {
			s.Add(ids[i])
		}
		return s
	case 2:
		s := tsdb.NewSeriesIDSet()
		s.AddMany(ids...)
		return s
	default:
		s := tsdb.NewSeriesIDSet()
		for _, id := range ids {
			s.AddNoLock(id)
		}
		return s
	}
}

// verifySids compares every observer of s with the model; wideProbes adds Contains probes >= 2^32.
func verifySids(s *tsdb.SeriesIDSet, m uset, wideProbes bool) string {
	if got := s.Cardinality(); got != uint64(len(m)) {
		return fmt.Sprintf("Cardinality()=%d, model %v", got, m.sorted())
	}
	for _, id := range sidsProbe {
		if id >= 1<<32 && !wideProbes {
			continue
		}
		if got := s.Contains(id); got != m[id] {
			return fmt.Sprintf("Contains(%d)=%v, model %v", id, got, m.sorted())
		}
		if got := s.ContainsNoLock(id); got != m[id] {
			return fmt.Sprintf("ContainsNoLock(%d)=%v, model %v", id, got, m.sorted())
		}
	}
	want := fmt.Sprint(m.sorted())
	if got := fmt.Sprint(append([]uint64{}, s.Slice()...)); got != want {
		return fmt.Sprintf("Slice()=%s, model %s", got, want)
	}
	fe := []uint64{}
	s.ForEach(func(id uint64) { fe = append(fe, id) })
	if got := fmt.Sprint(fe); got != want {
		return fmt.Sprintf("ForEach visits %s, model (ascending) %s", got, want)
	}
	fe = fe[:0]
	s.ForEachNoLock(func(id uint64) { fe = append(fe, id) })
	if got := fmt.Sprint(fe); got != want {
		return fmt.Sprintf("ForEachNoLock visits %s, model (ascending) %s", got, want)
	}
	return ""
}

// Every mismatch that involves an id >= 2^32 (as a member of an operand or as the probed id) is one class:
// the ids are converted with uint32(id). Cases whose operands are all < 2^32 run the whole suite with probes
// < 2^32 first (specific signatures) and probe ids >= 2^32 only at the end.
const wideSig = "sids/id>=2^32/aliases-low-32-bits"

func execSids(cs *Case) (*V, string) {
	A, B := mkset(cs.IDs, cs.A), mkset(cs.IDs, cs.B)
	wide := false
	for id := range A.or(B) {
		wide = wide || id >= 1<<32
	}
	C := uset{}
	if cs.Tri {
		C = mkset(cs.IDs, cs.C)
		for id := range C {
			wide = wide || id >= 1<<32
		}
	}
	fail := func(op, what, msg string) (*V, string) {
		sig := "sids/" + op + "/" + what
		if wide {
			sig = wideSig
		}
		return viol(sig, "A=%v B=%v C=%v: %s %s: %s", A.sorted(), B.sorted(), C.sorted(), op, what, msg), ""
	}
	chk := func(op, what string, s *tsdb.SeriesIDSet, m uset) (*V, string, bool) {
		if msg := verifySids(s, m, wide); msg != "" {
			v, o := fail(op, what, msg)
			return v, o, true
		}
		return nil, "", false
	}
	// indep: the sets taking part in an operation (its result, its receiver, its operands) are independent values
	// afterwards. Each part in turn is mutated (Add of an id no set holds, Remove of its smallest member); after
	// every mutation every part must equal its own model, i.e. nothing shows through in another set.
	indep := func(op string, parts ...*part) (*V, string, bool) {
		for i, pi := range parts {
			m := uset{}
			for id := range pi.m {
				m[id] = true
			}
			f := sidsFresh[i]
			what := fmt.Sprintf("Add(%d)", f)
			pi.s.Add(f)
			m[f] = true
			if old := pi.m.sorted(); len(old) > 0 {
				what += fmt.Sprintf(",Remove(%d)", old[0])
				pi.s.Remove(old[0])
				delete(m, old[0])
			}
			pi.m = m
			for j, pj := range parts {
				if msg := verifySids(pj.s, pj.m, wide); msg != "" {
					which := "mutate-" + pi.name + "-changes-" + pj.name
					if i == j {
						which = "mutate-" + pi.name + "-wrong"
					}
					v, o := fail(op, "aliasing/"+which, fmt.Sprintf("after %s on part %d (%s): part %d (%s): %s", what, i, pi.name, j, pj.name, msg))
					return v, o, true
				}
			}
		}
		return nil, "", false
	}
	a := func() *tsdb.SeriesIDSet { return buildSids(A, 0) }
	b := func() *tsdb.SeriesIDSet { return buildSids(B, 0) }

	if cs.Tri {
		x, y, z := a(), b(), buildSids(C, 0)
		x.Merge(y, z)
		if v, o, bad := chk("Merge(b,c)", "receiver", x, A.or(B).or(C)); bad {
			return v, o
		}
		if v, o, bad := chk("Merge(b,c)", "operand-b", y, B); bad {
			return v, o
		}
		if v, o, bad := chk("Merge(b,c)", "operand-c", z, C); bad {
			return v, o
		}
		if v, o, bad := indep("Merge(b,c)", &part{"receiver", x, A.or(B).or(C)}, &part{"operand", y, B}, &part{"operand", z, C}); bad {
			return v, o
		}
		return nil, fmt.Sprintf("sids3:union=%d", len(A.or(B).or(C)))
	}

	for how := 0; how < 4; how++ {
		if v, o, bad := chk([]string{"NewSeriesIDSet", "Add", "AddMany", "AddNoLock"}[how], "result", buildSids(A, how), A); bad {
			return v, o
		}
	}
	type binop struct {
		name string
		f    func(x, y *tsdb.SeriesIDSet) *tsdb.SeriesIDSet // returns the set holding the result
		m    uset
		recv uset // expected receiver afterwards
	}
	for _, op := range []binop{
		{"And", func(x, y *tsdb.SeriesIDSet) *tsdb.SeriesIDSet { return x.And(y) }, A.and(B), A},
		{"AndNot", func(x, y *tsdb.SeriesIDSet) *tsdb.SeriesIDSet { return x.AndNot(y) }, A.minus(B), A},
		{"Merge", func(x, y *tsdb.SeriesIDSet) *tsdb.SeriesIDSet { x.Merge(y); return x }, A.or(B), A.or(B)},
		{"MergeInPlace", func(x, y *tsdb.SeriesIDSet) *tsdb.SeriesIDSet { x.MergeInPlace(y); return x }, A.or(B), A.or(B)},
		{"Diff", func(x, y *tsdb.SeriesIDSet) *tsdb.SeriesIDSet { x.Diff(y); return x }, A.minus(B), A.minus(B)},
	} {
		x, y := a(), b()
		r := op.f(x, y)
		if v, o, bad := chk(op.name, "result", r, op.m); bad {
			return v, o
		}
		if v, o, bad := chk(op.name, "receiver", x, op.recv); bad {
			return v, o
		}
		if v, o, bad := chk(op.name, "operand", y, B); bad {
			return v, o
		}
		parts := []*part{{"receiver", x, op.recv}, {"operand", y, B}}
		if r != x { // And, AndNot return a new set
			parts = append([]*part{{"result", r, op.m}}, parts...)
		}
		if v, o, bad := indep(op.name, parts...); bad {
			return v, o
		}
	}
	// variadic Merge with empty sets among the receiver / the operands, and And/AndNot of a set with itself
	{
		x, y, e := a(), b(), tsdb.NewSeriesIDSet()
		x.Merge(y, e)
		if v, o, bad := indep("Merge(b,empty)", &part{"receiver", x, A.or(B)}, &part{"operand", y, B}, &part{"operand", e, uset{}}); bad {
			return v, o
		}
		x, y, e = a(), b(), tsdb.NewSeriesIDSet()
		x.Merge(e, y)
		if v, o, bad := indep("Merge(empty,b)", &part{"receiver", x, A.or(B)}, &part{"operand", e, uset{}}, &part{"operand", y, B}); bad {
			return v, o
		}
		x, y, y2 := a(), b(), buildSids(B, 1)
		x.Merge(y, y2)
		if v, o, bad := indep("Merge(b,b')", &part{"receiver", x, A.or(B)}, &part{"operand", y, B}, &part{"operand", y2, B}); bad {
			return v, o
		}
		x, y, e = a(), b(), tsdb.NewSeriesIDSet()
		e.Merge(x, y)
		if v, o, bad := indep("empty.Merge(a,b)", &part{"receiver", e, A.or(B)}, &part{"operand", x, A}, &part{"operand", y, B}); bad {
			return v, o
		}
		x, y = a(), b()
		x.Clear()
		x.Merge(y)
		if v, o, bad := indep("Clear-Merge", &part{"receiver", x, B}, &part{"operand", y, B}); bad {
			return v, o
		}
		x, y = a(), b()
		x.Clear()
		x.MergeInPlace(y)
		if v, o, bad := indep("Clear-MergeInPlace", &part{"receiver", x, B}, &part{"operand", y, B}); bad {
			return v, o
		}
		x = a()
		r := x.And(x)
		if v, o, bad := chk("And-self", "result", r, A); bad {
			return v, o
		}
		if v, o, bad := indep("And-self", &part{"result", r, A}, &part{"receiver", x, A}); bad {
			return v, o
		}
		x = a()
		r = x.AndNot(x)
		if v, o, bad := chk("AndNot-self", "result", r, uset{}); bad {
			return v, o
		}
		if v, o, bad := indep("AndNot-self", &part{"result", r, uset{}}, &part{"receiver", x, A}); bad {
			return v, o
		}
	}
	x, y := a(), b()
	if got, want := x.Intersects(y), len(A.and(B)) > 0; got != want {
		return fail("Intersects", "result", fmt.Sprintf("got %v want %v", got, want))
	}
	if got, want := x.Equals(y), A.eq(B); got != want {
		return fail("Equals", "result", fmt.Sprintf("got %v want %v", got, want))
	}
	if !x.Equals(x) || !x.Equals(a()) {
		return fail("Equals", "reflexive", "a set does not equal itself / an equal set")
	}
	// self-merge keeps the set
	x.Merge()
	x.MergeInPlace(x)
	if v, o, bad := chk("Merge-self", "receiver", x, A); bad {
		return v, o
	}
	// Clone, then mutate the clone / the original
	x = a()
	cl := x.Clone()
	if v, o, bad := chk("Clone", "result", cl, A); bad {
		return v, o
	}
	cl.AddMany(B.sorted()...)
	if v, o, bad := chk("Clone-AddMany", "clone", cl, A.or(B)); bad {
		return v, o
	}
	if v, o, bad := chk("Clone-AddMany", "original", x, A); bad {
		return v, o
	}
	cl = x.Clone()
	for _, id := range B.sorted() {
		cl.Remove(id)
	}
	if v, o, bad := chk("Clone-Remove", "clone", cl, A.minus(B)); bad {
		return v, o
	}
	if v, o, bad := chk("Clone-Remove", "original", x, A); bad {
		return v, o
	}
	cl = x.CloneNoLock()
	for _, id := range B.sorted() {
		x.RemoveNoLock(id)
	}
	x.AddMany(B.minus(A).sorted()...)
	if v, o, bad := chk("CloneNoLock-mutate-original", "clone", cl, A); bad {
		return v, o
	}
	if v, o, bad := chk("CloneNoLock-mutate-original", "original", x, A.minus(B).or(B.minus(A))); bad {
		return v, o
	}
	x = a()
	if v, o, bad := indep("Clone", &part{"result", x.Clone(), A}, &part{"receiver", x, A}); bad {
		return v, o
	}
	x = a()
	if v, o, bad := indep("CloneNoLock", &part{"result", x.CloneNoLock(), A}, &part{"receiver", x, A}); bad {
		return v, o
	}
	// serialisation
	x = a()
	var buf bytes.Buffer
	n, err := x.WriteTo(&buf)
	if err != nil || n != int64(buf.Len()) {
		return fail("WriteTo", "result", fmt.Sprintf("n=%d err=%v, %d bytes written", n, err, buf.Len()))
	}
	u := tsdb.NewSeriesIDSet()
	if err := u.UnmarshalBinary(append([]byte(nil), buf.Bytes()...)); err != nil {
		return fail("UnmarshalBinary", "error", err.Error())
	}
	if v, o, bad := chk("WriteTo-UnmarshalBinary", "result", u, A); bad {
		return v, o
	}
	u = tsdb.NewSeriesIDSet()
	if err := u.UnmarshalBinaryUnsafe(append([]byte(nil), buf.Bytes()...)); err != nil {
		return fail("UnmarshalBinaryUnsafe", "error", err.Error())
	}
	if v, o, bad := chk("WriteTo-UnmarshalBinaryUnsafe", "result", u, A); bad {
		return v, o
	}
	if v, o, bad := chk("WriteTo", "receiver", x, A); bad {
		return v, o
	}
	x.Clear()
	if v, o, bad := chk("Clear", "receiver", x, uset{}); bad {
		return v, o
	}
	if !wide {
		if msg := verifySids(a(), A, true); msg != "" {
			return viol(wideSig, "A=%v: probing an id >= 2^32: %s", A.sorted(), msg), ""
		}
	}
	return nil, fmt.Sprintf("sids:and=%d,or=%d", len(A.and(B)), len(A.or(B)))
}

// ---------------------------------------------------------------- driver

func exec(cs *Case) (v *V, outcome string) {
	p, d := vlib.Guard(func() {
		switch cs.Fam {
		case "rhh", "rhh-emptykey":
			v, outcome = execRhh(cs)
		case "radix":
			v, outcome = execRadix(cs)
		case "bloom":
			v, outcome = execBloom(cs)
		case "sids":
			v, outcome = execSids(cs)
		default:
			v = &V{"harness/unknown-family", cs.Fam}
		}
	})
	if p {
		frame := d
		if i := strings.LastIndex(d, "@ "); i >= 0 {
			frame = d[i+2:]
		}
		return &V{cs.Fam + "/panic/" + frame, d}, ""
	}
	return v, outcome
}

func readable(cs *Case) {
	cs.OpsH = nil
	for _, op := range cs.Ops {
		switch cs.Fam {
		case "rhh", "rhh-emptykey":
			cs.OpsH = append(cs.OpsH, rhhOpName(cs.Keys, op))
		case "radix":
			cs.OpsH = append(cs.OpsH, radixOpName(cs, op))
		}
	}
}

const hangAfter = 30 * time.Second

type explorer struct {
	c        *vlib.Ctx
	idx      int64
	cur      atomic.Pointer[Case]
	progress atomic.Int64
}

func (e *explorer) one(cs Case, nontrivial func(outcome string) bool) {
	e.idx++
	if !e.c.Mine(e.idx) {
		return
	}
	cc := cs
	cc.Ops = append([]int(nil), cs.Ops...)
	e.cur.Store(&cc)
	v, outcome := exec(&cc)
	e.progress.Add(1)
	e.c.Eval(1)
	if v != nil {
		readable(&cc)
		e.c.Violation(v.Sig, v.Msg+" | ops="+strings.Join(cc.OpsH, ";"), cc)
		e.c.Outcome(cc.Fam + ":VIOLATION")
		return
	}
	e.c.Outcome(outcome)
	if nontrivial(outcome) {
		e.c.NontrivialN(1)
		if e.c.WantSample() && e.idx%7 == 0 {
			readable(&cc)
			e.c.Sample(map[string]any{"case": cc, "outcome": outcome})
		}
	}
}

// seqs enumerates every op sequence of length 1..depth over nops op codes, shortest first.
func (e *explorer) seqs(base Case, nops, depth int, nontrivial func(string) bool) bool {
	for L := 1; L <= depth; L++ {
		ops := make([]int, L)
		for {
			base.Ops = ops
			e.one(base, nontrivial)
			i := L - 1
			for ; i >= 0; i-- {
				ops[i]++
				if ops[i] < nops {
					break
				}
				ops[i] = 0
			}
			if i < 0 {
				break
			}
			if e.idx&0xfff == 0 && e.c.Expired() {
				e.c.Cap(fmt.Sprintf("%s: budget expired inside length %d (all shorter lengths complete)", base.Fam, L))
				return false
			}
		}
	}
	return true
}

func run(c *vlib.Ctx) {
	// radix.Tree allocates a 4 KiB key buffer per tree: keep the collector of 16 sibling workers from fighting
	if c.NShards > 1 {
		runtime.GOMAXPROCS(2)
	}
	debug.SetGCPercent(800)
	e := &explorer{c: c}
	done := make(chan struct{})
	go func() {
		defer close(done)
		e.explore()
	}()
	// hang watchdog: repo code (rhh.insert, radix loops) can spin forever when broken
	last, lastChange := int64(-1), time.Now()
	tick := time.NewTicker(2 * time.Second)
	defer tick.Stop()
	for {
		select {
		case <-done:
			return
		case <-tick.C:
			if p := e.progress.Load(); p != last {
				last, lastChange = p, time.Now()
			} else if cur := e.cur.Load(); cur != nil && time.Since(lastChange) > hangAfter {
				cc := *cur
				readable(&cc)
				c.Violation(cc.Fam+"/hang", fmt.Sprintf("case did not return within %v | ops=%s", hangAfter, strings.Join(cc.OpsH, ";")), cc)
				c.Cap("exploration of this shard stopped at a hanging case")
				return
			}
		}
	}
}

func (e *explorer) explore() {
	c := e.c
	always := func(string) bool { return true }

	// ---- SeriesIDSet: all pairs of subsets of 6 ids
	n := 1 << len(sidsIDs)
	for a := 0; a < n; a++ {
		for b := 0; b < n; b++ {
			e.one(Case{Fam: "sids", IDs: sidsIDs, A: a, B: b}, func(string) bool { return a != 0 || b != 0 })
		}
	}
	// quick: every triple of subsets of the first 4 ids through variadic Merge (thorough runs every triple over all
	// 6 ids at the end, which contains these)
	if !c.Thorough() {
		n4 := 1 << 4
		for a := 0; a < n4; a++ {
			for b := 0; b < n4; b++ {
				for cc := 0; cc < n4; cc++ {
					e.one(Case{Fam: "sids", IDs: sidsIDs[:4], A: a, B: b, C: cc, Tri: true}, always)
				}
			}
		}
	}
	t0 := time.Now()
	lap := func(what string) { c.Logf("shard %d: %s done at %.1fs", c.Shard, what, time.Since(t0).Seconds()) }
	lap("sids pairs")
	// ---- radix
	rd := 5
	if c.Thorough() {
		rd = 6
	}
	if !e.seqs(Case{Fam: "radix", Keys: radixKeys, Pfx: radixPfx}, len(radixKeys)+len(radixPfx), rd,
		func(o string) bool { return strings.HasSuffix(o, "changed=true") }) {
		return
	}
	lap("radix")
	// ---- rhh
	keys := rhhKeys()
	type cfg struct {
		cap int64
		lf  int
	}
	cfgs := []cfg{{2, 90}}
	hd := 5
	if c.Thorough() {
		cfgs = []cfg{{2, 90}, {4, 90}, {8, 90}, {2, 50}, {8, 100}}
		hd = 6
	}
	for _, g := range cfgs {
		d := hd
		if g != cfgs[0] {
			d = hd - 1
		}
		if !e.seqs(Case{Fam: "rhh", Cap: g.cap, LF: g.lf, Keys: keys}, 2*len(keys)+2, d,
			func(o string) bool { return !strings.HasSuffix(o, "maxdist=0") }) {
			return
		}
	}
	// the empty key, kept apart so that its findings have their own class
	ek := []string{"", keys[0], keys[3]}
	if !e.seqs(Case{Fam: "rhh-emptykey", Cap: 2, LF: 90, Keys: ek}, 2*len(ek)+2, 4, always) {
		return
	}
	lap("rhh")
	// ---- bloom
	ms, ks := []uint64{8, 64}, []uint64{1, 2, 3}
	nb := 6
	if c.Thorough() {
		ms, ks = []uint64{8, 9, 64, 512}, []uint64{1, 2, 3, 4}
		nb = 8
	}
	for _, m := range ms {
		for _, k := range ks {
			for a := 0; a < 1<<len(bloomKeys); a++ {
				if e.idx&0xff == 0 && c.Expired() {
					c.Cap("bloom: budget expired")
					return
				}
				for b := 0; b < 1<<nb; b++ {
					e.one(Case{Fam: "bloom", Keys: bloomKeys, M: m, K: k, A: a, B: b}, func(string) bool { return a != 0 })
				}
			}
		}
	}
	lap("bloom")
	// ---- SeriesIDSet triples (variadic Merge)
	if c.Thorough() {
		for a := 0; a < n; a++ {
			for b := 0; b < n; b++ {
				for cc := 0; cc < n; cc++ {
					e.one(Case{Fam: "sids", IDs: sidsIDs, A: a, B: b, C: cc, Tri: true}, always)
				}
			}
		}
	}
}

func replay(c *vlib.Ctx, raw json.RawMessage) (bool, string) {
	var cs Case
	if err := json.Unmarshal(raw, &cs); err != nil {
		return false, err.Error()
	}
	type res struct {
		v *V
		o string
	}
	ch := make(chan res, 1)
	go func() { v, o := exec(&cs); ch <- res{v, o} }()
	select {
	case r := <-ch:
		if r.v != nil {
			return true, r.v.Sig + ": " + r.v.Msg
		}
		return false, "no violation; outcome " + r.o
	case <-time.After(hangAfter):
		return true, cs.Fam + "/hang: case did not return within " + hangAfter.String()
	}
}

func TestCheck(t *testing.T) {
	vlib.Main(t, &vlib.Check{
		ID: "C36", Level: "exploration",
		Rule: "four families, each complete within its bounds, against Go map/set models. " +
			"sids: every ordered pair (A,B) of subsets of ids {1,2,3,2^16,2^32-1,2^32+1} through NewSeriesIDSet/Add/AddMany/AddNoLock, And, AndNot, Merge, MergeInPlace, Diff, Intersects, Equals, Clone(+mutate clone/original), Remove, Clear, WriteTo->UnmarshalBinary(+Unsafe), each observed by Cardinality/Contains/Slice/ForEach; after every And, AndNot, Merge, MergeInPlace, Diff, Clone, CloneNoLock, And/AndNot of a set with itself, and the variadic forms x.Merge(b,empty), x.Merge(empty,b), x.Merge(b,b'), empty.Merge(a,b), Clear+Merge(b), Clear+MergeInPlace(b) an independence check: each participating set in turn (result, receiver, every operand) gets Add(id no set holds) and Remove(its smallest member), and after each mutation every participating set must equal its own model (no shared storage between result/receiver and operands); every triple of subsets of the first 4 ids through variadic Merge(b,c) with the same independence check (thorough: every triple over all 6 ids). " +
			"radix: every sequence of length 1..5 (thorough 1..6) over Insert(6 keys {\"\",a,ab,abc,b,ab\\x00}) and DeletePrefix(8 prefixes), observed by Len after every op and by Get(10 probes)/Minimum/Maximum at the end. " +
			"rhh: every sequence of length 1..5 (thorough 1..6) over Put/PutQuiet(6 keys with colliding home slots)/Reset/Grow from capacity 2, load factor 90 (thorough: also capacity 4, 8, load factor 50, 100 to depth 5), observed by Len after every op and Get/Keys/Elem scan at the end; separate family with the empty key to depth 4. " +
			"bloom: every pair (A,B) of subsets of 8 keys (quick: B over 6 keys) for m in {8,64} x k in {1,2,3} (thorough m in {8,9,64,512}, k in 1..4): no false negative after Insert, Bytes->NewFilterBuffer, Clone(+Insert), Merge. " +
			"non-trivial = sids pair not both empty; radix sequence whose last op changed the map; rhh sequence ending with a displaced element (probe distance>0); bloom with A non-empty (distinct by construction)",
		Assumptions: []string{
			"Insert of a key already present in radix.Tree may keep or replace the value (the statement is silent); the model adopts what Get reports, but requires it to be one of the two",
			"callers may reuse the key buffer after Put/Insert returns (the harness overwrites it); rhh/radix/bloom must not modify the caller's key",
			"a case that does not return within 30 s is reported as a hang",
			"bloom false positives are counted as outcomes only; the statement constrains false negatives only",
		},
		QuickBudgetS: 70, ThoroughBudgetS: 800,
		Run:    run,
		Replay: replay,
	})
}
