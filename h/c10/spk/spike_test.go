package spike
import ("testing";"os";"fmt";"time";"path/filepath";"verif/h/shardkit";"github.com/influxdata/influxdb/v2/tsdb")
func TestSpike(t *testing.T){
  for i:=0;i<4;i++{
    dir,_:=os.MkdirTemp("/dev/shm","spk-")
    t0:=time.Now()
    sf:=tsdb.NewSeriesFile(filepath.Join(dir,"_series"))
    sf.Open()
    t1:=time.Now()
    sf.Close()
    t2:=time.Now()
    fx,err:=shardkit.Open(dir,shardkit.Options{})
    if err!=nil{t.Fatal(err)}
    t3:=time.Now()
    fx.Close()
    t4:=time.Now()
    fx,_=shardkit.Open(dir,shardkit.Options{})
    t5:=time.Now()
    fx.Close()
    os.RemoveAll(dir)
    fmt.Println("sfile open",t1.Sub(t0),"close",t2.Sub(t1),"fixture open",t3.Sub(t2),"close",t4.Sub(t3),"reopen",t5.Sub(t4))
  }
}
