// C10: a field keeps a single type, persistently.
//
// Part 1 (histories, engine opseq): every sequence of ≤ d operations over
// {write m.f as float|integer|string, write m.g, write m2.f, drop measurement m, snapshot, clean
// close-reopen, kill-restart} on a real tsdb.Shard, compared op by op and at the end with a reference model
// (measurement,field)→type + accepted data.
//
// Part 2 (schedules, engine vsched): two Shard.WritePoints racing to create the same new field with
// different / equal types, every interleaving with ≤ B preemptions at the sync points of tsdb/shard.go,
// tsm1/engine.go, tsm1/cache.go, tsm1/ring.go.
//
// Part 3 (crash points) is added by the coordinator with the crashfs engine: WriteHistory (performs a
// history on a directory, leaves the shard open) and CheckRecovery (opens a directory with the real open
// path and compares it with a set of allowed models) are kept separate for that purpose.
package c10

import (
	"encoding/json"
	"fmt"
	"os"
	"path/filepath"
	"sort"
	"strings"
	"testing"
	"time"

	"github.com/influxdata/influxdb/v2/pkg/verifrt/vrt"
	"verif/h/shardkit"
	"verif/h/vlib"
)

// ---------- operations ----------

type writeDef struct{ m, f, typ string }

var writeOps = map[string]writeDef{
	"WF": {"m", "f", "float"},
	"WI": {"m", "f", "integer"},
	"WS": {"m", "f", "string"},
	"WG": {"m", "g", "float"},
	"W2": {"m2", "f", "integer"},
}

const (
	opDrop     = "DM" // Shard.DeleteMeasurement("m")
	opSnapshot = "SN" // Engine.WriteSnapshot
	opReopen   = "RO" // clean Close + Open
	opKill     = "KR" // unclean restart: process-kill image of the directory is opened
)

var fullAlphabet = []string{"WF", "WI", "WS", "WG", "W2", opDrop, opSnapshot, opReopen, opKill}
var coreAlphabet = []string{"WF", "WI", opDrop, opSnapshot, opReopen, opKill}

// pointsPerWrite points are written by every write op (so that Dropped counts points, not calls).
const pointsPerWrite = 2

func writeSpecs(op string, k int) []shardkit.PointSpec {
	d := writeOps[op]
	var out []shardkit.PointSpec
	for j := 1; j <= pointsPerWrite; j++ {
		out = append(out, shardkit.PointSpec{M: d.m, T: int64(100*(k+1) + j),
			Fields: []shardkit.FieldSpec{{Name: d.f, Type: d.typ, Val: int64(10*(k+1) + j)}}})
	}
	return out
}

// ---------- reference model (from the statement) ----------

// Model is the state the statement prescribes after a history.
type Model struct {
	Schema map[string]map[string]string // measurement → field → type
	Data   map[string][]shardkit.Val    // composite key → accepted, not dropped values
	Result []string                     // expected result of every op so far
	Fate   map[int]string               // write op index → "accepted" | "rejected" | "dropped" (accepted, measurement dropped later)
	Drops  int                          // effective drops so far (the measurement existed)
	ops    []string
}

func NewModel() *Model {
	return &Model{Schema: map[string]map[string]string{}, Data: map[string][]shardkit.Val{}, Fate: map[int]string{}}
}

// Apply executes op number k on the model and returns the expected result: "ok" or "conflict:<dropped>".
func (m *Model) Apply(op string, k int) string {
	res := "ok"
	if d, ok := writeOps[op]; ok {
		if cur, exists := m.Schema[d.m][d.f]; exists && cur != d.typ {
			res = fmt.Sprintf("conflict:%d", pointsPerWrite)
			m.Fate[k] = "rejected"
		} else {
			if m.Schema[d.m] == nil {
				m.Schema[d.m] = map[string]string{}
			}
			m.Schema[d.m][d.f] = d.typ
			for _, p := range writeSpecs(op, k) {
				key := shardkit.CompositeKey(p.SeriesKey(), d.f)
				m.Data[key] = append(m.Data[key], shardkit.Val{T: p.T, V: p.Fields[0].Rendered()})
			}
			m.Fate[k] = "accepted"
		}
	} else if op == opDrop {
		if _, ok := m.Schema["m"]; ok {
			m.Drops++
		}
		delete(m.Schema, "m")
		for key := range m.Data {
			if strings.HasPrefix(key, "m#!~#") || strings.HasPrefix(key, "m,") {
				delete(m.Data, key)
			}
		}
		for i, f := range m.Fate {
			if f == "accepted" && i < k {
				if d, ok := writeOps[m.opOf(i)]; ok && d.m == "m" {
					m.Fate[i] = "dropped"
				}
			}
		}
	}
	m.Result = append(m.Result, res)
	m.ops = append(m.ops, op)
	return res
}

func (m *Model) opOf(i int) string {
	if i < len(m.ops) {
		return m.ops[i]
	}
	return ""
}

// ModelOf runs a whole history on a fresh model.
func ModelOf(ops []string) *Model {
	m := NewModel()
	for k, op := range ops {
		m.Apply(op, k)
	}
	return m
}

// ---------- history writer (real shard) ----------

// Options of a history run.
type Options struct {
	SeriesTypeCheck bool
	TSIPartitions   int // 0 = default (8)
}

func (o Options) kit() shardkit.Options {
	return shardkit.Options{SeriesTypeCheck: o.SeriesTypeCheck, TSIPartitions: o.TSIPartitions}
}

// doOp performs op number k on the open fixture and returns "ok", "conflict:<n>" or "err:<text>".
func doOp(fx *shardkit.Fixture, op string, k int) string {
	var err error
	switch op {
	case opDrop:
		err = fx.DropMeasurement("m")
	case opSnapshot:
		err = fx.Snapshot()
	case opReopen:
		err = fx.Reopen()
	case opKill:
		err = fx.KillRestart(fmt.Sprintf("%s.kr%d", strings.SplitN(fx.Dir, ".kr", 2)[0], k))
	default:
		pts, perr := shardkit.Points(writeSpecs(op, k))
		if perr != nil {
			return "err:points: " + perr.Error()
		}
		err = fx.Write(pts)
		if n, ok := shardkit.Dropped(err); ok {
			return fmt.Sprintf("conflict:%d", n)
		}
	}
	if err != nil {
		s := err.Error()
		if len(s) > 160 {
			s = s[:160] + "…"
		}
		return "err:" + s
	}
	return "ok"
}

// WriteHistory performs ops on the shard below dir (created if missing) with the real write path and
// returns the result of every op. The shard is left OPEN in the returned fixture: the caller closes it
// (clean shutdown) or abandons it (crash). onOp, if set, is called before ("begin") and after ("ack") each
// op — the crash check writes its markers there. fx.Dir differs from dir after a kill-restart op.
func WriteHistory(dir string, ops []string, o Options, onOp func(k int, phase, op, result string)) (fx *shardkit.Fixture, results []string, err error) {
	fx, err = shardkit.Open(dir, o.kit())
	if err != nil {
		return nil, nil, err
	}
	for k, op := range ops {
		if onOp != nil {
			onOp(k, "begin", op, "")
		}
		r := doOp(fx, op, k)
		results = append(results, r)
		if onOp != nil {
			onOp(k, "ack", op, r)
		}
		if fx.Shard == nil { // a restart op failed: nothing is open any more
			return fx, results, fmt.Errorf("op %d (%s): %s", k, op, r)
		}
	}
	return fx, results, nil
}

// ---------- recovery checker ----------

// Mismatch is one disagreement between the real shard and a model.
type Mismatch struct{ Clause, Msg string }

var universe = []struct{ m, f string }{{"m", "f"}, {"m", "g"}, {"m2", "f"}, {"m2", "g"}}

// Observe reads the three observations of an open shard.
type Observation struct {
	Schema    map[string]map[string]string
	Raw       map[string][]shardkit.Val
	Cursor    map[string][]shardkit.Val
	CursorErr []string // "<key>: <error>" of cursor reads that failed (recorded type vs stored blocks)
}

func Observe(fx *shardkit.Fixture) (ob Observation, err error) {
	if ob.Schema, err = fx.Schema(); err != nil {
		return
	}
	if ob.Raw, err = fx.DumpRaw(); err != nil {
		return
	}
	ob.Cursor = map[string][]shardkit.Val{}
	for _, u := range universe {
		vs, _, rerr := fx.ReadField(u.m, nil, u.f)
		if rerr != nil {
			ob.CursorErr = append(ob.CursorErr, fmt.Sprintf("%s.%s: %v", u.m, u.f, rerr))
			continue
		}
		if len(vs) > 0 {
			ob.Cursor[shardkit.CompositeKey(u.m, u.f)] = vs
		}
	}
	return
}

func (ob Observation) String() string {
	s := fmt.Sprintf("schema={%s} raw={%s} cursor={%s}", shardkit.SchemaString(ob.Schema, true), shardkit.RawString(ob.Raw), shardkit.RawString(ob.Cursor))
	if len(ob.CursorErr) > 0 {
		s += " cursor-errors=" + fmt.Sprint(ob.CursorErr)
	}
	return s
}

// Compare lists the disagreements of an observation with the model.
func Compare(ob Observation, m *Model) []Mismatch {
	var out []Mismatch
	// field types
	type mf struct{ m, f string }
	seen := map[mf]bool{}
	for ms, fs := range m.Schema {
		for f := range fs {
			seen[mf{ms, f}] = true
		}
	}
	for ms, fs := range ob.Schema {
		for f := range fs {
			seen[mf{ms, f}] = true
		}
	}
	var keys []mf
	for k := range seen {
		keys = append(keys, k)
	}
	sort.Slice(keys, func(i, j int) bool { return keys[i].m+"\x00"+keys[i].f < keys[j].m+"\x00"+keys[j].f })
	for _, k := range keys {
		want, wok := m.Schema[k.m][k.f]
		got, gok := ob.Schema[k.m][k.f]
		switch {
		case wok && !gok:
			out = append(out, Mismatch{"field-type-lost", fmt.Sprintf("%s.%s should be %s but the shard records no such field", k.m, k.f, want)})
		case !wok && gok:
			cl := "field-type-unexpected"
			if k.m == "m" && m.Drops > 0 {
				cl = "dropped-schema-resurrected"
			}
			out = append(out, Mismatch{cl, fmt.Sprintf("%s.%s is recorded as %s but should not exist", k.m, k.f, got)})
		case want != got:
			out = append(out, Mismatch{"field-type-changed", fmt.Sprintf("%s.%s is recorded as %s, should be %s", k.m, k.f, got, want)})
		}
	}
	out = append(out, compareData(ob.Raw, m, "raw")...)
	for _, e := range ob.CursorErr {
		out = append(out, Mismatch{"read-error", "reading through the cursor API failed: " + e})
	}
	out = append(out, compareData(ob.Cursor, m, "cursor")...)
	return out
}

func compareData(got map[string][]shardkit.Val, m *Model, via string) []Mismatch {
	var out []Mismatch
	keys := map[string]bool{}
	for k := range got {
		keys[k] = true
	}
	for k := range m.Data {
		keys[k] = true
	}
	var ks []string
	for k := range keys {
		ks = append(ks, k)
	}
	sort.Strings(ks)
	for _, k := range ks {
		want := map[shardkit.Val]int{}
		for _, v := range m.Data[k] {
			want[v]++
		}
		for _, v := range got[k] {
			if want[v] > 0 {
				want[v]--
				continue
			}
			op := int(v.T/100) - 1
			switch m.Fate[op] {
			case "rejected":
				out = append(out, Mismatch{"conflicting-value-stored/" + via, fmt.Sprintf("%s: %q holds %d=%s written by the rejected op #%d", via, k, v.T, v.V, op)})
			case "dropped":
				out = append(out, Mismatch{"dropped-data-resurrected/" + via, fmt.Sprintf("%s: %q holds %d=%s of op #%d whose measurement was dropped later", via, k, v.T, v.V, op)})
			default:
				out = append(out, Mismatch{"unexpected-value/" + via, fmt.Sprintf("%s: %q holds unexpected %d=%s", via, k, v.T, v.V)})
			}
		}
		var miss []shardkit.Val
		for v, n := range want {
			if n > 0 {
				miss = append(miss, v)
			}
		}
		shardkit.SortVals(miss)
		for _, v := range miss {
			out = append(out, Mismatch{"accepted-value-lost/" + via, fmt.Sprintf("%s: %q lacks %d=%s of accepted op #%d", via, k, v.T, v.V, int(v.T/100)-1)})
		}
	}
	return out
}

// CheckRecovery opens dir with the real open path, observes it and compares it with every allowed model;
// it returns no mismatch if some model agrees, else the mismatches against allowed[0]. The shard is closed
// again (clean) before returning; the observation is returned for messages.
func CheckRecovery(dir string, o Options, allowed []*Model) ([]Mismatch, Observation, error) {
	fx, err := shardkit.Open(dir, o.kit())
	if err != nil {
		return nil, Observation{}, err
	}
	defer fx.Close()
	ob, err := Observe(fx)
	if err != nil {
		return nil, ob, err
	}
	var first []Mismatch
	for i, m := range allowed {
		mm := Compare(ob, m)
		if len(mm) == 0 {
			return nil, ob, nil
		}
		if i == 0 {
			first = mm
		}
	}
	return first, ob, nil
}

// ---------- histories part ----------

// Hist is one enumerated history (the replayable case).
type Hist struct {
	Part      string   `json:"part"` // "history"
	Ops       []string `json:"ops"`
	TypeCheck bool     `json:"series_type_check,omitempty"`
	TSIParts  int      `json:"tsi_partitions,omitempty"` // 0 = default (8)
}

func (h Hist) String() string {
	s := "[" + strings.Join(h.Ops, " ") + "]"
	if h.TypeCheck {
		s += " (series type check on)"
	}
	if h.TSIParts == 0 {
		s += " (8 tsi partitions)"
	}
	return s
}

// context features of a history prefix used in signatures.
func histCtx(ops []string, tc bool) string {
	clean, kill, drop := false, false, false
	for _, op := range ops {
		switch op {
		case opReopen:
			clean = clean || drop
		case opKill:
			kill = kill || drop
		case opDrop:
			drop = true
		}
	}
	s := "no-drop"
	switch {
	case kill:
		s = "kill-restart-after-drop"
	case clean:
		s = "clean-restart-after-drop"
	case drop:
		s = "drop-without-restart"
	}
	if tc {
		s += ",series-type-check=on"
	}
	return s
}

type histReport struct {
	results   []string
	want      []string
	viol      []Mismatch // clause already includes context
	obs       string
	stateKey  string
	harness   string
	readPanic bool // a cursor read panicked or failed: TSM file references may be leaked, Close may hang
}

// closeHung closes the fixture in the background and reports whether that is still blocked after 30 s
// (teardown only: no verdict depends on it).
func closeHung(fx *shardkit.Fixture) bool {
	done := make(chan struct{})
	go func() { fx.Close(); close(done) }()
	select {
	case <-done:
		return false
	case <-time.After(30 * time.Second):
		return true
	}
}

func layout(fx *shardkit.Fixture) string {
	ex := func(p string) bool { _, err := os.Stat(p); return err == nil }
	tsm, _ := filepath.Glob(filepath.Join(shardkit.ShardPath(fx.Dir), "*.tsm"))
	tomb, _ := filepath.Glob(filepath.Join(shardkit.ShardPath(fx.Dir), "*.tombstone"))
	cache := 0
	if e, err := fx.Engine(); err == nil {
		cache = len(e.Cache.Keys())
	}
	return fmt.Sprintf("idx=%v,idxl=%v,tsm=%d,tomb=%d,cachekeys=%d", ex(shardkit.FieldsIdxPath(fx.Dir)), ex(shardkit.FieldsLogPath(fx.Dir)), len(tsm), len(tomb), cache)
}

func resultKind(r string) string {
	if strings.HasPrefix(r, "err:") {
		return "error"
	}
	if strings.HasPrefix(r, "conflict:") {
		return "conflict"
	}
	return r
}

func runHist(h Hist) (rep histReport) {
	dir := vlib.Scratch("c10-")
	os.Remove(dir) // WriteHistory creates it; kill-restarts use siblings dir.kr<k>
	base := dir
	defer func() {
		sib, _ := filepath.Glob(base + ".kr*")
		for _, s := range sib {
			os.RemoveAll(s)
		}
		os.RemoveAll(base)
	}()
	model := NewModel()
	for k, op := range h.Ops {
		rep.want = append(rep.want, model.Apply(op, k))
	}
	fx, results, err := WriteHistory(dir, h.Ops, Options{SeriesTypeCheck: h.TypeCheck, TSIPartitions: h.TSIParts}, nil)
	if fx != nil {
		defer func() {
			// A cursor constructor that panics (see read-panic) leaks its TSM file references and
			// TSMReader.Close then waits forever: never block the enumeration on the teardown.
			if closeHung(fx) && rep.harness == "" && !rep.readPanic {
				rep.harness = "closing the shard after the history did not return within 30s"
			}
		}()
	}
	rep.results = results
	// Only the FIRST divergence of a history is reported: everything after it is a consequence (every prefix is
	// itself an enumerated history, so a divergence of the final state is found at the shortest history showing it).
	for k, r := range results {
		if r == rep.want[k] {
			continue
		}
		op := h.Ops[k]
		ctx := histCtx(h.Ops[:k], h.TypeCheck)
		if _, isWrite := writeOps[op]; isWrite {
			got := resultKind(r)
			if got == "conflict" && resultKind(rep.want[k]) == "conflict" {
				got = "conflict-wrong-count"
			}
			rep.viol = append(rep.viol, Mismatch{vlib.JoinSig("write-result", "want="+resultKind(rep.want[k]), "got="+got, ctx),
				fmt.Sprintf("op #%d %s returned %q, the statement prescribes %q", k, op, r, rep.want[k])})
		} else {
			rep.viol = append(rep.viol, Mismatch{vlib.JoinSig("op-failed", op, ctx), fmt.Sprintf("op #%d %s returned %q", k, op, r)})
		}
		return
	}
	if err != nil {
		// a restart failed: the open error is the verdict (already recorded above)
		return
	}
	ctx := histCtx(h.Ops, h.TypeCheck)
	var ob Observation
	var oerr error
	if p, d := vlib.Guard(func() { ob, oerr = Observe(fx) }); p {
		rep.viol = append(rep.viol, Mismatch{vlib.JoinSig("read-panic", ctx), "reading the shard back after the history panicked: " + d})
		rep.readPanic = true
		return
	}
	if oerr != nil {
		rep.harness = "observe: " + oerr.Error()
		return
	}
	rep.obs = ob.String()
	if len(ob.CursorErr) > 0 {
		rep.readPanic = true // a cursor constructor that fails leaks its TSM references as well
	}
	for _, mm := range Compare(ob, model) {
		rep.viol = append(rep.viol, Mismatch{vlib.JoinSig(mm.Clause, ctx), mm.Msg})
		break // first divergence only (schema before data, raw before cursor)
	}
	rep.stateKey = shardkit.SchemaString(model.Schema, true) + " | " + layout(fx)
	return
}

// sequences enumerates the cartesian product of per-position alphabets (odometer order).
func sequences(pos [][]string, fn func([]string)) {
	n := len(pos)
	idx := make([]int, n)
	for {
		s := make([]string, n)
		for i, x := range idx {
			s[i] = pos[i][x]
		}
		fn(s)
		i := n - 1
		for ; i >= 0; i-- {
			idx[i]++
			if idx[i] < len(pos[i]) {
				break
			}
			idx[i] = 0
		}
		if i < 0 {
			return
		}
	}
}

func in(list []string, x string) bool {
	for _, y := range list {
		if x == y {
			return true
		}
	}
	return false
}

func allIn(list []string, s []string) bool {
	for _, x := range s {
		if !in(list, x) {
			return false
		}
	}
	return true
}

type level struct {
	name      string
	pos       [][]string
	typeCheck bool
	skip      func([]string) bool // sequences already run by an earlier level
	tsiParts  int                 // 0 = default 8 partitions
}

func rep(alpha []string, n int) [][]string {
	out := make([][]string, n)
	for i := range out {
		out[i] = alpha
	}
	return out
}

var writesOnly = []string{"WF", "WI", "WS", "WG", "W2"}

func levels(thorough bool) []level {
	writeFirst := func(alpha []string, n int) [][]string {
		p := rep(alpha, n)
		var w []string
		for _, op := range alpha {
			if _, ok := writeOps[op]; ok {
				w = append(w, op)
			}
		}
		p[0] = w
		return p
	}
	ls := []level{
		{"all-ops/len1/default-tsi-partitions", rep(fullAlphabet, 1), false, nil, 0},
		{"all-ops/len1", rep(fullAlphabet, 1), false, nil, 1},
		{"all-ops/len2", rep(fullAlphabet, 2), false, nil, 1},
		{"all-ops/len3", rep(fullAlphabet, 3), false, nil, 1},
	}
	if !thorough {
		core4 := writeFirst(coreAlphabet, 4)
		return append(ls,
			level{"core-ops/len4/write-first", core4, false, nil, 1},
			// write, {restart|snapshot|drop}, {write|drop}, restart: schema split over fields.idx and fields.idxl
			level{"write-x-write-restart/len4", [][]string{writesOnly, {opReopen, opKill, opSnapshot, opDrop}, append(append([]string{}, writesOnly...), opDrop), {opReopen, opKill}}, false,
				func(s []string) bool { return allIn(coreAlphabet, s) }, 1},
		)
	}
	return append(ls,
		level{"all-ops/len2/default-tsi-partitions", rep(fullAlphabet, 2), false, nil, 0},
		level{"all-ops/len3/default-tsi-partitions", rep(fullAlphabet, 3), false, nil, 0},
		level{"all-ops/len1/series-type-check", rep(fullAlphabet, 1), true, nil, 1},
		level{"all-ops/len2/series-type-check", rep(fullAlphabet, 2), true, nil, 1},
		level{"all-ops/len3/series-type-check", rep(fullAlphabet, 3), true, nil, 1},
		level{"all-ops/len4/write-first", writeFirst(fullAlphabet, 4), false, nil, 1},
		level{"core-ops/len5/write-first", writeFirst(coreAlphabet, 5), false, nil, 1},
	)
}

// runHistories runs the levels [from, to) of the tier.
func runHistories(c *vlib.Ctx, idx *int64, from, to int) {
	lvs := levels(c.Thorough())
	if to > len(lvs) {
		to = len(lvs)
	}
	for _, lv := range lvs[from:to] {
		lv := lv
		capped := false
		sequences(lv.pos, func(s []string) {
			if lv.skip != nil && lv.skip(s) {
				return
			}
			*idx++
			if !c.Mine(*idx) || capped {
				return
			}
			if c.Expired() {
				c.Cap("budget expired in the histories part during level " + lv.name + " (levels run shortest first)")
				capped = true
				return
			}
			h := Hist{Part: "history", Ops: s, TypeCheck: lv.typeCheck, TSIParts: lv.tsiParts}
			var rep histReport
			if p, d := vlib.Guard(func() { rep = runHist(h) }); p {
				c.Eval(1)
				c.Outcome("panic")
				c.Violation(vlib.JoinSig("panic", strings.TrimSpace(d[strings.LastIndex(d, "@")+1:]), histCtx(h.Ops, h.TypeCheck)), h.String()+": "+d, h)
				return
			}
			if rep.harness != "" {
				c.HarnessError(h.String() + ": " + rep.harness)
				return
			}
			c.Eval(1)
			c.Trace(1)
			c.Extra("histories", 1)
			c.Transition(int64(len(rep.results)))
			if rep.stateKey != "" {
				c.State(rep.stateKey)
			}
			nontrivial := false
			dropped := false
			for k, r := range rep.results {
				kind := resultKind(r)
				if h.Ops[k] == opDrop {
					dropped = true
				}
				if (h.Ops[k] == opReopen || h.Ops[k] == opKill) && dropped {
					nontrivial = true
					kind += "(after-drop)"
				}
				if kind == "conflict" {
					nontrivial = true
				}
				c.Outcome(h.Ops[k] + ":" + kind)
			}
			if nontrivial {
				c.NontrivialN(1)
			}
			for _, v := range rep.viol {
				c.Violation(v.Clause, fmt.Sprintf("%s: %s | results=%v expected=%v %s", h, v.Msg, rep.results, rep.want, rep.obs), h)
			}
			if nontrivial && c.WantSample() {
				c.Sample(map[string]any{"history": h, "results": rep.results, "final": rep.obs})
			}
		})
		if capped {
			return
		}
	}
}

func replayHist(raw json.RawMessage) (bool, string) {
	var h Hist
	if err := json.Unmarshal(raw, &h); err != nil {
		return false, err.Error()
	}
	var rep histReport
	if p, d := vlib.Guard(func() { rep = runHist(h) }); p {
		return true, d
	}
	if rep.harness != "" {
		return false, "harness: " + rep.harness
	}
	var msgs []string
	for _, v := range rep.viol {
		msgs = append(msgs, v.Clause+": "+v.Msg)
	}
	return len(rep.viol) > 0, fmt.Sprintf("%s results=%v expected=%v %s\n%s", h, rep.results, rep.want, rep.obs, strings.Join(msgs, "\n"))
}

// ---------- schedules part (vsched) ----------

// Scenario: after the init ops, every thread performs one write op concurrently.
type Scenario struct {
	Name      string   `json:"name"`
	Init      []string `json:"init"`
	Threads   []string `json:"threads"` // write ops, one per thread
	TypeCheck bool     `json:"series_type_check,omitempty"`
	Bound     int      `json:"-"` // preemption bound of the exploration (not part of a case)
}

// SchedCase is a replayable schedule.
type SchedCase struct {
	Part     string   `json:"part"` // "schedule"
	Scenario Scenario `json:"scenario"`
	Choices  []int    `json:"schedule"`
	Trace    []string `json:"trace,omitempty"`
}

func scenarios(thorough bool) []Scenario {
	if !thorough {
		return []Scenario{
			{Name: "new-measurement/float-vs-integer", Threads: []string{"WF", "WI"}, Bound: 2},
			{Name: "new-measurement/float-vs-float", Threads: []string{"WF", "WF"}, Bound: 1},
			{Name: "existing-measurement/float-vs-integer", Init: []string{"WG"}, Threads: []string{"WF", "WI"}, Bound: 1},
		}
	}
	return []Scenario{
		{Name: "new-measurement/float-vs-integer", Threads: []string{"WF", "WI"}, Bound: 3},
		{Name: "new-measurement/float-vs-float", Threads: []string{"WF", "WF"}, Bound: 3},
		{Name: "existing-measurement/float-vs-integer", Init: []string{"WG"}, Threads: []string{"WF", "WI"}, Bound: 2},
		{Name: "dropped-measurement/float-vs-integer", Init: []string{"WS", "DM"}, Threads: []string{"WF", "WI"}, Bound: 2},
		{Name: "new-measurement/float-vs-integer/series-type-check", Threads: []string{"WF", "WI"}, TypeCheck: true, Bound: 2},
		{Name: "new-measurement/float-vs-integer-vs-string", Threads: []string{"WF", "WI", "WS"}, Bound: 2},
	}
}

// schedFilter keeps the scheduling points of the write path that matter for field creation: the shard and
// field-set locks, the change-log writer, the engine write and the cache entry creation. Everything else
// (metrics, ring partitions' internals, ...) is passed through silently by the baton holder.
func schedFilter(kind vrt.OpKind, label string) bool {
	for _, p := range []string{"tsdb.(*Shard).", "tsdb.(*MeasurementFieldSet).", "tsdb.(*measurementFieldSetChangeMgr).",
		"tsm1.(*Engine).WritePoints", "tsm1.(*Cache).WriteMulti:RLock", "tsm1.(*partition).write:Lock"} {
		if strings.HasPrefix(label, p) {
			return true
		}
	}
	return false
}

type schedObs struct {
	results []string
	obs     Observation
	obsErr  string
	harness string
}

func schedHarness(sc Scenario, out *schedObs) *vrt.Harness {
	return &vrt.Harness{Name: sc.Name, Filter: schedFilter, Body: func(x *vrt.Exec) {
		*out = schedObs{}
		dir := vlib.Scratch("c10s-")
		defer os.RemoveAll(dir)
		fx, _, err := WriteHistory(dir, sc.Init, Options{SeriesTypeCheck: sc.TypeCheck, TSIPartitions: 1}, nil)
		if err != nil {
			out.harness = "init: " + err.Error()
			if fx != nil {
				fx.Close()
			}
			return
		}
		res := make([]string, len(sc.Threads))
		for i, op := range sc.Threads {
			i, op := i, op
			x.Go(fmt.Sprintf("T%d:%s", i, op), func() {
				res[i] = doOp(fx, op, len(sc.Init)+i)
			})
		}
		x.Run()
		x.S.Drain()
		out.results = res
		if !x.S.Deadlock && !x.S.StepCap {
			if p, d := vlib.Guard(func() {
				ob, oerr := Observe(fx)
				out.obs = ob
				if oerr != nil {
					out.obsErr = oerr.Error()
				}
			}); p {
				out.obsErr = d
			}
		}
		if cerr := fx.Close(); cerr != nil && out.harness == "" {
			out.harness = "close: " + cerr.Error()
		}
	}}
}

// judgeSched: the results and the final state must equal those of SOME sequential order of the threads.
func judgeSched(sc Scenario, so *schedObs) (ok bool, clause, why, winner string) {
	n := len(sc.Threads)
	perm := make([]int, n)
	for i := range perm {
		perm[i] = i
	}
	best := ""
	bestClause := ""
	var rec func(k int) bool
	try := func() bool {
		m := NewModel()
		for k, op := range sc.Init {
			m.Apply(op, k)
		}
		want := make([]string, n)
		for _, ti := range perm {
			want[ti] = m.Apply(sc.Threads[ti], len(sc.Init)+ti)
		}
		for i := range want {
			if want[i] != so.results[i] {
				if best == "" {
					got := resultKind(so.results[i])
					if got == "conflict" && resultKind(want[i]) == "conflict" {
						got = "conflict-wrong-count"
					}
					bestClause = "write-result/want=" + resultKind(want[i]) + "/got=" + got
					best = fmt.Sprintf("thread %d (%s) returned %q; in the order %v it must return %q", i, sc.Threads[i], so.results[i], perm, want[i])
				}
				return false
			}
		}
		if so.obsErr != "" {
			bestClause, best = "read-failed", "reading the shard back failed: "+so.obsErr
			return false
		}
		if mm := Compare(so.obs, m); len(mm) > 0 {
			bestClause, best = mm[0].Clause, mm[0].Msg+fmt.Sprintf(" (results match the order %v)", perm)
			return false
		}
		winner = sc.Threads[perm[0]]
		return true
	}
	rec = func(k int) bool {
		if k == n {
			return try()
		}
		for i := k; i < n; i++ {
			perm[k], perm[i] = perm[i], perm[k]
			if rec(k + 1) {
				return true
			}
			perm[k], perm[i] = perm[i], perm[k]
		}
		return false
	}
	if rec(0) {
		return true, "", "", winner
	}
	return false, bestClause, best, ""
}

func schedSig(sc Scenario, clause string) string {
	kinds := append([]string(nil), sc.Threads...)
	sort.Strings(kinds)
	init := "fresh"
	if len(sc.Init) > 0 {
		init = strings.Join(sc.Init, "+")
	}
	s := vlib.JoinSig("schedule", clause, strings.Join(kinds, "||"), "init="+init)
	if sc.TypeCheck {
		s += "/series-type-check=on"
	}
	return s
}

func runSchedules(t *testing.T, c *vlib.Ctx) {
	for _, sc := range scenarios(c.Thorough()) {
		if c.Expired() {
			c.Cap("budget expired before schedule scenario " + sc.Name)
			break
		}
		sc := sc
		var so schedObs
		h := schedHarness(sc, &so)
		st := vrt.Explore(t, h, sc.Bound, c.Shard, c.NShards, c.Expired, func(r *vrt.Result) {
			c.Eval(1)
			if r.Preempts > 0 {
				c.NontrivialN(1)
			}
			if r.Diverged != "" {
				c.HarnessError("schedule " + sc.Name + ": " + r.Diverged)
				return
			}
			if so.harness != "" {
				c.HarnessError("schedule " + sc.Name + ": " + so.harness)
				return
			}
			cs := SchedCase{Part: "schedule", Scenario: sc, Choices: r.Choices}
			if r.StepCap {
				c.Cap("schedule " + sc.Name + ": step cap")
				return
			}
			if r.Deadlock {
				c.Outcome("schedule:deadlock")
				c.Violation(schedSig(sc, "deadlock"), sc.Name+": deadlock: "+strings.Join(r.Blocked, "; "), cs)
				return
			}
			ok, clause, why, winner := judgeSched(sc, &so)
			if ok {
				c.Outcome(fmt.Sprintf("schedule:%s:first=%s:%s", sc.Name, winner, strings.Join(kindsOf(so.results), ",")))
			} else {
				c.Outcome("schedule:violation:" + clause)
				for _, s := range r.Steps {
					cs.Trace = append(cs.Trace, fmt.Sprintf("T%d %s", s.Thread, s.Label))
				}
				c.Violation(schedSig(sc, clause), fmt.Sprintf("%s: %s | results=%v %s", sc.Name, why, so.results, so.obs), cs)
			}
			if c.WantSample() && r.Preempts == sc.Bound {
				c.Sample(map[string]any{"scenario": sc.Name, "schedule": r.Choices, "preemptions": r.Preempts, "results": so.results})
			}
		})
		c.StateN(st.Nodes)
		c.Transition(st.Transitions)
		c.Trace(st.Executions)
		c.Extra("schedule_executions", st.Executions)
		if c.Shard == 0 {
			c.Note("schedule_bound_"+sc.Name, fmt.Sprint(sc.Bound))
		}
		if !st.Complete {
			c.Cap("budget expired in the schedules part during scenario " + sc.Name)
			break
		}
	}
}

func kindsOf(rs []string) []string {
	out := make([]string, len(rs))
	for i, r := range rs {
		out[i] = resultKind(r)
	}
	return out
}

func replaySched(t *testing.T, raw json.RawMessage) (bool, string) {
	var cs SchedCase
	if err := json.Unmarshal(raw, &cs); err != nil {
		return false, err.Error()
	}
	var so schedObs
	r := vrt.RunOnce(t, schedHarness(cs.Scenario, &so), cs.Choices)
	if os.Getenv("C10_TRACE") != "" {
		for i, st := range r.Steps {
			fmt.Fprintf(os.Stderr, "step %d: T%d %s enabled=%v\n", i, st.Thread, st.Label, st.Enabled)
		}
		fmt.Fprintf(os.Stderr, "threads=%v deadlock=%v blocked=%v\n", r.Names, r.Deadlock, r.Blocked)
	}
	if r.Diverged != "" {
		return false, "diverged: " + r.Diverged
	}
	if so.harness != "" {
		return false, "harness: " + so.harness
	}
	if r.Deadlock {
		return true, "deadlock: " + strings.Join(r.Blocked, "; ")
	}
	ok, clause, why, _ := judgeSched(cs.Scenario, &so)
	return !ok, fmt.Sprintf("%s schedule=%v results=%v %s\n%s: %s", cs.Scenario.Name, cs.Choices, so.results, so.obs, clause, why)
}

func TestCheck(t *testing.T) {
	vlib.Main(t, &vlib.Check{
		ID: "C10", Level: "model_checking",
		Rule: "PART 1 histories (opseq): op alphabet {WF/WI/WS: write 2 points of m.f as float/integer/string, WG: m.g float, W2: m2.f integer, DM: DeleteMeasurement(m), SN: cache snapshot to TSM, RO: clean close+reopen, KR: kill-restart = copy of the live directory opened with the real open path}; quick: every sequence of length ≤3 over all 9 ops, every length-4 sequence over {WF,WI,DM,SN,RO,KR} starting with a write, every length-4 sequence write·{RO,KR,SN,DM}·{write,DM}·{RO,KR}; thorough: additionally length ≤3 with the default 8 tsi1 partitions and with INFLUXDB_SERIES_TYPE_CHECK_ENABLED, every length-4 sequence over all 9 ops starting with a write, every length-5 sequence over the 6 core ops starting with a write. Each history runs on a fresh real tsdb.Shard (tsm1 + tsi1 + series file + WAL; 1 tsi1 partition unless stated); every op result (error / PartialWriteError.Dropped) and the final recorded field types (MeasurementFieldSet), raw dump of all stored values and cursor reads are compared with a reference model; only the first divergence of a history is reported (all prefixes are enumerated). PART 2 schedules (vsched): 2 (thorough: one scenario with 3) real goroutines call Shard.WritePoints creating the same new field with different / equal types, from a fresh shard / a measurement that exists with another field [thorough: / a dropped measurement / series type check on]; every schedule with ≤ B preemptions (quick B=2 for float-vs-integer on a new measurement, 1 otherwise; thorough B=3 / 2) at the sync points of tsdb/shard.go, tsm1/engine.go, tsm1/cache.go, tsm1/ring.go kept by the filter (Shard.mu, MeasurementFieldSet.mu, change-log writer mutex, Engine.mu in WritePoints, Cache.mu in WriteMulti, ring partition lock); results + final schema/raw/cursor state must equal those of some sequential order of the writes. states = distinct (model schema, on-disk layout) of histories + decision nodes of the schedule trees; transitions = ops executed + scheduling steps; traces = histories + schedule executions. non-trivial = histories with a conflicting write or a restart after a drop; schedules with ≥1 preemption (distinct by construction)",
		Assumptions: []string{
			"a kill-restart image is the directory tree as the page cache holds it while the process is alive and idle (every completed write(2) present); torn / unsynced images belong to the crash part (crashfs)",
			"background compactions and the automatic cache snapshotter are off; snapshots are taken by the SN op",
			"dropping a measurement that does not exist is a successful no-op",
			"deep levels use INFLUXDB_EXP_TSI_PARTITIONS=1-equivalent (tsi1.DefaultPartitionN=1): the field schema does not depend on the index partitioning (length ≤1 quick / ≤3 thorough is repeated with the default 8)",
			"schedules: sequentially consistent interleavings at lock/atomic granularity; sync.Map operations (gensyncmap LoadOrStore) are atomic steps without a scheduling point of their own",
		},
		QuickBudgetS: 60, ThoroughBudgetS: 800, WorkerEnv: []string{"GOMAXPROCS=1"},
		Run: func(c *vlib.Ctx) {
			// order: short histories (length ≤ 3), then the schedules, then the deeper history levels, so that
			// a capped run still covers both quantifiers
			const shallow = 4 // number of leading levels of length ≤ 3 (same in both tiers)
			var idx int64
			part := os.Getenv("C10_PART")
			if part != "schedules" {
				runHistories(c, &idx, 0, shallow)
			}
			if part != "histories" {
				runSchedules(t, c)
			}
			if part != "schedules" {
				runHistories(c, &idx, shallow, 1<<30)
			}
		},
		Replay: func(c *vlib.Ctx, raw json.RawMessage) (bool, string) {
			var probe struct {
				Part string `json:"part"`
			}
			json.Unmarshal(raw, &probe)
			switch probe.Part {
			case "history":
				return replayHist(raw)
			case "schedule":
				return replaySched(t, raw)
			}
			return false, "unknown case part " + probe.Part
		},
	})
}
