// C10: a field keeps a single type, persistently.
//
// Part 1 (histories, engine opseq): every sequence of ≤ d operations over
// {write m.f as float|integer|string, write m.g, write m2.f, drop measurement m, snapshot, clean
// close-reopen, kill-restart} on a real tsdb.Shard, compared op by op and at the end with a reference model
// (measurement,field)→type + accepted data.
//
// Part 2 (schedules, engine vsched): two Shard.WritePoints racing to create the same new field with
// different / equal types, every interleaving with ≤ B preemptions at the sync points of tsdb/shard.go,
// tsm1/engine.go, tsm1/cache.go, tsm1/ring.go.
//
// Part 3 (crash points) is added by the coordinator with the crashfs engine: WriteHistory (performs a
// history on a directory, leaves the shard open) and CheckRecovery (opens a directory with the real open
// path and compares it with a set of allowed models) are kept separate for that purpose.
package c10

import (
	"encoding/json"
	"fmt"
	"os"
	"path/filepath"
	"sort"
	"strings"
	"testing"

	"verif/h/shardkit"
	"verif/h/vlib"
)

// ---------- operations ----------

type writeDef struct{ m, f, typ string }

var writeOps = map[string]writeDef{
	"WF": {"m", "f", "float"},
	"WI": {"m", "f", "integer"},
	"WS": {"m", "f", "string"},
	"WG": {"m", "g", "float"},
	"W2": {"m2", "f", "integer"},
}

const (
	opDrop     = "DM" // Shard.DeleteMeasurement("m")
	opSnapshot = "SN" // Engine.WriteSnapshot
	opReopen   = "RO" // clean Close + Open
	opKill     = "KR" // unclean restart: process-kill image of the directory is opened
)

var fullAlphabet = []string{"WF", "WI", "WS", "WG", "W2", opDrop, opSnapshot, opReopen, opKill}
var coreAlphabet = []string{"WF", "WI", opDrop, opSnapshot, opReopen, opKill}

// pointsPerWrite points are written by every write op (so that Dropped counts points, not calls).
const pointsPerWrite = 2

func writeSpecs(op string, k int) []shardkit.PointSpec {
	d := writeOps[op]
	var out []shardkit.PointSpec
	for j := 1; j <= pointsPerWrite; j++ {
		out = append(out, shardkit.PointSpec{M: d.m, T: int64(100*(k+1) + j),
			Fields: []shardkit.FieldSpec{{Name: d.f, Type: d.typ, Val: int64(10*(k+1) + j)}}})
	}
	return out
}

// ---------- reference model (from the statement) ----------

// Model is the state the statement prescribes after a history.
type Model struct {
	Schema map[string]map[string]string // measurement → field → type
	Data   map[string][]shardkit.Val    // composite key → accepted, not dropped values
	Result []string                     // expected result of every op so far
	Fate   map[int]string               // write op index → "accepted" | "rejected" | "dropped" (accepted, measurement dropped later)
	Drops  int                          // effective drops so far (the measurement existed)
	ops    []string
}

func NewModel() *Model {
	return &Model{Schema: map[string]map[string]string{}, Data: map[string][]shardkit.Val{}, Fate: map[int]string{}}
}

// Apply executes op number k on the model and returns the expected result: "ok" or "conflict:<dropped>".
func (m *Model) Apply(op string, k int) string {
	res := "ok"
	if d, ok := writeOps[op]; ok {
		if cur, exists := m.Schema[d.m][d.f]; exists && cur != d.typ {
			res = fmt.Sprintf("conflict:%d", pointsPerWrite)
			m.Fate[k] = "rejected"
		} else {
			if m.Schema[d.m] == nil {
				m.Schema[d.m] = map[string]string{}
			}
			m.Schema[d.m][d.f] = d.typ
			for _, p := range writeSpecs(op, k) {
				key := shardkit.CompositeKey(p.SeriesKey(), d.f)
				m.Data[key] = append(m.Data[key], shardkit.Val{T: p.T, V: p.Fields[0].Rendered()})
			}
			m.Fate[k] = "accepted"
		}
	} else if op == opDrop {
		if _, ok := m.Schema["m"]; ok {
			m.Drops++
		}
		delete(m.Schema, "m")
		for key := range m.Data {
			if strings.HasPrefix(key, "m#!~#") || strings.HasPrefix(key, "m,") {
				delete(m.Data, key)
			}
		}
		for i, f := range m.Fate {
			if f == "accepted" && i < k {
				if d, ok := writeOps[m.opOf(i)]; ok && d.m == "m" {
					m.Fate[i] = "dropped"
				}
			}
		}
	}
	m.Result = append(m.Result, res)
	m.ops = append(m.ops, op)
	return res
}

func (m *Model) opOf(i int) string {
	if i < len(m.ops) {
		return m.ops[i]
	}
	return ""
}

// ModelOf runs a whole history on a fresh model.
func ModelOf(ops []string) *Model {
	m := NewModel()
	for k, op := range ops {
		m.Apply(op, k)
	}
	return m
}

// ---------- history writer (real shard) ----------

// Options of a history run.
type Options struct {
	SeriesTypeCheck bool
}

// doOp performs op number k on the open fixture and returns "ok", "conflict:<n>" or "err:<text>".
func doOp(fx *shardkit.Fixture, op string, k int) string {
	var err error
	switch op {
	case opDrop:
		err = fx.DropMeasurement("m")
	case opSnapshot:
		err = fx.Snapshot()
	case opReopen:
		err = fx.Reopen()
	case opKill:
		err = fx.KillRestart(fmt.Sprintf("%s.kr%d", strings.SplitN(fx.Dir, ".kr", 2)[0], k))
	default:
		pts, perr := shardkit.Points(writeSpecs(op, k))
		if perr != nil {
			return "err:points: " + perr.Error()
		}
		err = fx.Write(pts)
		if n, ok := shardkit.Dropped(err); ok {
			return fmt.Sprintf("conflict:%d", n)
		}
	}
	if err != nil {
		s := err.Error()
		if len(s) > 160 {
			s = s[:160] + "…"
		}
		return "err:" + s
	}
	return "ok"
}

// WriteHistory performs ops on the shard below dir (created if missing) with the real write path and
// returns the result of every op. The shard is left OPEN in the returned fixture: the caller closes it
// (clean shutdown) or abandons it (crash). onOp, if set, is called before ("begin") and after ("ack") each
// op — the crash check writes its markers there. fx.Dir differs from dir after a kill-restart op.
func WriteHistory(dir string, ops []string, o Options, onOp func(k int, phase, op, result string)) (fx *shardkit.Fixture, results []string, err error) {
	fx, err = shardkit.Open(dir, shardkit.Options{SeriesTypeCheck: o.SeriesTypeCheck})
	if err != nil {
		return nil, nil, err
	}
	for k, op := range ops {
		if onOp != nil {
			onOp(k, "begin", op, "")
		}
		r := doOp(fx, op, k)
		results = append(results, r)
		if onOp != nil {
			onOp(k, "ack", op, r)
		}
		if fx.Shard == nil { // a restart op failed: nothing is open any more
			return fx, results, fmt.Errorf("op %d (%s): %s", k, op, r)
		}
	}
	return fx, results, nil
}

// ---------- recovery checker ----------

// Mismatch is one disagreement between the real shard and a model.
type Mismatch struct{ Clause, Msg string }

var universe = []struct{ m, f string }{{"m", "f"}, {"m", "g"}, {"m2", "f"}, {"m2", "g"}}

// Observe reads the three observations of an open shard.
type Observation struct {
	Schema map[string]map[string]string
	Raw    map[string][]shardkit.Val
	Cursor map[string][]shardkit.Val
}

func Observe(fx *shardkit.Fixture) (ob Observation, err error) {
	if ob.Schema, err = fx.Schema(); err != nil {
		return
	}
	if ob.Raw, err = fx.DumpRaw(); err != nil {
		return
	}
	ob.Cursor = map[string][]shardkit.Val{}
	for _, u := range universe {
		vs, _, rerr := fx.ReadField(u.m, nil, u.f)
		if rerr != nil {
			return ob, rerr
		}
		if len(vs) > 0 {
			ob.Cursor[shardkit.CompositeKey(u.m, u.f)] = vs
		}
	}
	return
}

func (ob Observation) String() string {
	return fmt.Sprintf("schema={%s} raw={%s} cursor={%s}", shardkit.SchemaString(ob.Schema, true), shardkit.RawString(ob.Raw), shardkit.RawString(ob.Cursor))
}

// Compare lists the disagreements of an observation with the model.
func Compare(ob Observation, m *Model) []Mismatch {
	var out []Mismatch
	// field types
	type mf struct{ m, f string }
	seen := map[mf]bool{}
	for ms, fs := range m.Schema {
		for f := range fs {
			seen[mf{ms, f}] = true
		}
	}
	for ms, fs := range ob.Schema {
		for f := range fs {
			seen[mf{ms, f}] = true
		}
	}
	var keys []mf
	for k := range seen {
		keys = append(keys, k)
	}
	sort.Slice(keys, func(i, j int) bool { return keys[i].m+"\x00"+keys[i].f < keys[j].m+"\x00"+keys[j].f })
	for _, k := range keys {
		want, wok := m.Schema[k.m][k.f]
		got, gok := ob.Schema[k.m][k.f]
		switch {
		case wok && !gok:
			out = append(out, Mismatch{"field-type-lost", fmt.Sprintf("%s.%s should be %s but the shard records no such field", k.m, k.f, want)})
		case !wok && gok:
			cl := "field-type-unexpected"
			if k.m == "m" && m.Drops > 0 {
				cl = "dropped-schema-resurrected"
			}
			out = append(out, Mismatch{cl, fmt.Sprintf("%s.%s is recorded as %s but should not exist", k.m, k.f, got)})
		case want != got:
			out = append(out, Mismatch{"field-type-changed", fmt.Sprintf("%s.%s is recorded as %s, should be %s", k.m, k.f, got, want)})
		}
	}
	out = append(out, compareData(ob.Raw, m, "raw")...)
	out = append(out, compareData(ob.Cursor, m, "cursor")...)
	return out
}

func compareData(got map[string][]shardkit.Val, m *Model, via string) []Mismatch {
	var out []Mismatch
	keys := map[string]bool{}
	for k := range got {
		keys[k] = true
	}
	for k := range m.Data {
		keys[k] = true
	}
	var ks []string
	for k := range keys {
		ks = append(ks, k)
	}
	sort.Strings(ks)
	for _, k := range ks {
		want := map[shardkit.Val]int{}
		for _, v := range m.Data[k] {
			want[v]++
		}
		for _, v := range got[k] {
			if want[v] > 0 {
				want[v]--
				continue
			}
			op := int(v.T/100) - 1
			switch m.Fate[op] {
			case "rejected":
				out = append(out, Mismatch{"conflicting-value-stored/" + via, fmt.Sprintf("%s: %q holds %d=%s written by the rejected op #%d", via, k, v.T, v.V, op)})
			case "dropped":
				out = append(out, Mismatch{"dropped-data-resurrected/" + via, fmt.Sprintf("%s: %q holds %d=%s of op #%d whose measurement was dropped later", via, k, v.T, v.V, op)})
			default:
				out = append(out, Mismatch{"unexpected-value/" + via, fmt.Sprintf("%s: %q holds unexpected %d=%s", via, k, v.T, v.V)})
			}
		}
		var miss []shardkit.Val
		for v, n := range want {
			if n > 0 {
				miss = append(miss, v)
			}
		}
		shardkit.SortVals(miss)
		for _, v := range miss {
			out = append(out, Mismatch{"accepted-value-lost/" + via, fmt.Sprintf("%s: %q lacks %d=%s of accepted op #%d", via, k, v.T, v.V, int(v.T/100)-1)})
		}
	}
	return out
}

// CheckRecovery opens dir with the real open path, observes it and compares it with every allowed model;
// it returns no mismatch if some model agrees, else the mismatches against allowed[0]. The shard is closed
// again (clean) before returning; the observation is returned for messages.
func CheckRecovery(dir string, o Options, allowed []*Model) ([]Mismatch, Observation, error) {
	fx, err := shardkit.Open(dir, shardkit.Options{SeriesTypeCheck: o.SeriesTypeCheck})
	if err != nil {
		return nil, Observation{}, err
	}
	defer fx.Close()
	ob, err := Observe(fx)
	if err != nil {
		return nil, ob, err
	}
	var first []Mismatch
	for i, m := range allowed {
		mm := Compare(ob, m)
		if len(mm) == 0 {
			return nil, ob, nil
		}
		if i == 0 {
			first = mm
		}
	}
	return first, ob, nil
}

// ---------- histories part ----------

// Hist is one enumerated history (the replayable case).
type Hist struct {
	Part      string   `json:"part"` // "history"
	Ops       []string `json:"ops"`
	TypeCheck bool     `json:"series_type_check,omitempty"`
}

func (h Hist) String() string {
	s := "[" + strings.Join(h.Ops, " ") + "]"
	if h.TypeCheck {
		s += " (series type check on)"
	}
	return s
}

// context features of a history prefix used in signatures.
func histCtx(ops []string, tc bool) string {
	clean, kill, drop := false, false, false
	for _, op := range ops {
		switch op {
		case opReopen:
			clean = clean || drop
		case opKill:
			kill = kill || drop
		case opDrop:
			drop = true
		}
	}
	r := "none"
	switch {
	case clean && kill:
		r = "clean+kill"
	case clean:
		r = "clean"
	case kill:
		r = "kill"
	}
	s := fmt.Sprintf("drop-before=%v,restart-after-drop=%s", drop, r)
	if tc {
		s += ",series-type-check=on"
	}
	return s
}

type histReport struct {
	results  []string
	want     []string
	viol     []Mismatch // clause already includes context
	obs      string
	stateKey string
	harness  string
}

func layout(fx *shardkit.Fixture) string {
	ex := func(p string) bool { _, err := os.Stat(p); return err == nil }
	tsm, _ := filepath.Glob(filepath.Join(shardkit.ShardPath(fx.Dir), "*.tsm"))
	tomb, _ := filepath.Glob(filepath.Join(shardkit.ShardPath(fx.Dir), "*.tombstone"))
	cache := 0
	if e, err := fx.Engine(); err == nil {
		cache = len(e.Cache.Keys())
	}
	return fmt.Sprintf("idx=%v,idxl=%v,tsm=%d,tomb=%d,cachekeys=%d", ex(shardkit.FieldsIdxPath(fx.Dir)), ex(shardkit.FieldsLogPath(fx.Dir)), len(tsm), len(tomb), cache)
}

func resultKind(r string) string {
	if strings.HasPrefix(r, "err:") {
		return "error"
	}
	if strings.HasPrefix(r, "conflict:") {
		return "conflict"
	}
	return r
}

func runHist(h Hist) (rep histReport) {
	dir := vlib.Scratch("c10-")
	os.Remove(dir) // WriteHistory creates it; kill-restarts use siblings dir.kr<k>
	base := dir
	defer func() {
		sib, _ := filepath.Glob(base + ".kr*")
		for _, s := range sib {
			os.RemoveAll(s)
		}
		os.RemoveAll(base)
	}()
	model := NewModel()
	for k, op := range h.Ops {
		rep.want = append(rep.want, model.Apply(op, k))
	}
	fx, results, err := WriteHistory(dir, h.Ops, Options{SeriesTypeCheck: h.TypeCheck}, nil)
	if fx != nil {
		defer fx.Close()
	}
	rep.results = results
	for k, r := range results {
		if r == rep.want[k] {
			continue
		}
		op := h.Ops[k]
		ctx := histCtx(h.Ops[:k], h.TypeCheck)
		if _, isWrite := writeOps[op]; isWrite {
			got := resultKind(r)
			if got == "conflict" && resultKind(rep.want[k]) == "conflict" {
				got = "conflict-wrong-count"
			}
			rep.viol = append(rep.viol, Mismatch{vlib.JoinSig("write-result", "want="+resultKind(rep.want[k]), "got="+got, ctx),
				fmt.Sprintf("op #%d %s returned %q, the statement prescribes %q", k, op, r, rep.want[k])})
		} else {
			rep.viol = append(rep.viol, Mismatch{vlib.JoinSig("op-failed", op, ctx), fmt.Sprintf("op #%d %s returned %q", k, op, r)})
		}
	}
	if err != nil {
		// a restart failed: the open error is the verdict (already recorded above)
		return
	}
	ob, oerr := Observe(fx)
	if oerr != nil {
		rep.harness = "observe: " + oerr.Error()
		return
	}
	rep.obs = ob.String()
	ctx := histCtx(h.Ops, h.TypeCheck)
	for _, mm := range Compare(ob, model) {
		rep.viol = append(rep.viol, Mismatch{vlib.JoinSig(mm.Clause, ctx), mm.Msg})
	}
	rep.stateKey = shardkit.SchemaString(model.Schema, true) + " | " + layout(fx)
	return
}

func sequences(alpha []string, n int, fn func([]string)) {
	idx := make([]int, n)
	for {
		s := make([]string, n)
		for i, x := range idx {
			s[i] = alpha[x]
		}
		fn(s)
		i := n - 1
		for ; i >= 0; i-- {
			idx[i]++
			if idx[i] < len(alpha) {
				break
			}
			idx[i] = 0
		}
		if i < 0 {
			return
		}
	}
}

func onlyCore(s []string) bool {
	for _, op := range s {
		ok := false
		for _, c := range coreAlphabet {
			ok = ok || c == op
		}
		if !ok {
			return false
		}
	}
	return true
}

type level struct {
	alpha     []string
	depth     int
	typeCheck bool
	skipCore  bool // sequences made only of core ops were already run at this depth
}

func runHistories(c *vlib.Ctx, idx *int64) {
	var levels []level
	if c.Quick() {
		levels = []level{{fullAlphabet, 1, false, false}, {fullAlphabet, 2, false, false}, {fullAlphabet, 3, false, false},
			{coreAlphabet, 4, false, false}}
	} else {
		levels = []level{{fullAlphabet, 1, false, false}, {fullAlphabet, 2, false, false}, {fullAlphabet, 3, false, false},
			{fullAlphabet, 4, false, false}, {coreAlphabet, 5, false, false},
			{fullAlphabet, 1, true, false}, {fullAlphabet, 2, true, false}, {fullAlphabet, 3, true, false}}
	}
	for _, lv := range levels {
		sequences(lv.alpha, lv.depth, func(s []string) {
			*idx++
			if !c.Mine(*idx) {
				return
			}
			if c.Expired() {
				c.Cap(fmt.Sprintf("budget expired in the histories part (levels are run shortest first; reached depth %d)", lv.depth))
				return
			}
			h := Hist{Part: "history", Ops: s, TypeCheck: lv.typeCheck}
			var rep histReport
			if p, d := vlib.Guard(func() { rep = runHist(h) }); p {
				c.Eval(1)
				c.Outcome("panic")
				c.Violation(vlib.JoinSig("panic", strings.TrimSpace(d[strings.LastIndex(d, "@")+1:]), histCtx(h.Ops, h.TypeCheck)), h.String()+": "+d, h)
				return
			}
			if rep.harness != "" {
				c.HarnessError(h.String() + ": " + rep.harness)
				return
			}
			c.Eval(1)
			c.Trace(1)
			c.Transition(int64(len(rep.results)))
			if rep.stateKey != "" {
				c.State(rep.stateKey)
			}
			nontrivial := false
			dropped := false
			for k, r := range rep.results {
				kind := resultKind(r)
				if h.Ops[k] == opDrop {
					dropped = true
				}
				if (h.Ops[k] == opReopen || h.Ops[k] == opKill) && dropped {
					nontrivial = true
					kind += "(after-drop)"
				}
				if kind == "conflict" {
					nontrivial = true
				}
				c.Outcome(h.Ops[k] + ":" + kind)
			}
			if nontrivial {
				c.NontrivialN(1)
			}
			for _, v := range rep.viol {
				c.Violation(v.Clause, fmt.Sprintf("%s: %s | results=%v expected=%v %s", h, v.Msg, rep.results, rep.want, rep.obs), h)
			}
			if nontrivial && c.WantSample() {
				c.Sample(map[string]any{"history": h, "results": rep.results, "final": rep.obs})
			}
		})
	}
}

func replayHist(raw json.RawMessage) (bool, string) {
	var h Hist
	if err := json.Unmarshal(raw, &h); err != nil {
		return false, err.Error()
	}
	var rep histReport
	if p, d := vlib.Guard(func() { rep = runHist(h) }); p {
		return true, d
	}
	if rep.harness != "" {
		return false, "harness: " + rep.harness
	}
	var msgs []string
	for _, v := range rep.viol {
		msgs = append(msgs, v.Clause+": "+v.Msg)
	}
	return len(rep.viol) > 0, fmt.Sprintf("%s results=%v expected=%v %s\n%s", h, rep.results, rep.want, rep.obs, strings.Join(msgs, "\n"))
}

func TestCheck(t *testing.T) {
	vlib.Main(t, &vlib.Check{
		ID: "C10", Level: "model_checking",
		Rule: "PART 1 histories: every sequence of ops over {WF/WI/WS: write 2 points of m.f as float/integer/string, WG: m.g float, W2: m2.f integer, DM: DeleteMeasurement(m), SN: cache snapshot to TSM, RO: clean close+reopen, KR: kill-restart (copy of the live directory opened with the real open path)} of length ≤3 plus length 4 over {WF,WI,DM,SN,RO,KR} [thorough: length ≤4 over all 9 ops, length 5 over the 6 core ops, and length ≤3 again with INFLUXDB_SERIES_TYPE_CHECK_ENABLED], each on a fresh real tsdb.Shard; after every op the returned error / PartialWriteError.Dropped and at the end the recorded field types (MeasurementFieldSet), a raw dump of all stored values and cursor reads are compared with a reference model; states = distinct (model schema, on-disk layout: fields.idx / fields.idxl present, #TSM, #tombstone files, #cache keys), transitions = ops executed, traces = histories. non-trivial = histories with a conflicting write or a restart after a drop (distinct by construction).",
		Assumptions: []string{
			"a kill-restart image is the directory tree as the page cache holds it while the process is alive and idle (every completed write(2) present); torn / unsynced images are the crash part's job",
			"background compactions and the automatic cache snapshotter are off; snapshots are taken by the SN op",
			"dropping a measurement that does not exist is a successful no-op",
		},
		QuickBudgetS: 60, ThoroughBudgetS: 800,
		Run: func(c *vlib.Ctx) {
			var idx int64
			runHistories(c, &idx)
		},
		Replay: func(c *vlib.Ctx, raw json.RawMessage) (bool, string) {
			var probe struct {
				Part string `json:"part"`
			}
			json.Unmarshal(raw, &probe)
			switch probe.Part {
			case "history":
				return replayHist(raw)
			}
			return false, "unknown case part " + probe.Part
		},
	})
}
